(* Line protocol: request  = cmd TAB arg TAB arg ...   (every field percent-escaped)
                  response = field TAB field ...        (every field percent-escaped)
   Everything else is the extracted Coq function Model.run. *)

let ascii_of_char (c : char) : Model.ascii =
  let n = Char.code c in
  let b i = (n lsr i) land 1 = 1 in
  Model.Ascii (b 0, b 1, b 2, b 3, b 4, b 5, b 6, b 7)

let char_of_ascii (a : Model.ascii) : char =
  match a with
  | Model.Ascii (b0, b1, b2, b3, b4, b5, b6, b7) ->
    let v b i = if b then 1 lsl i else 0 in
    Char.chr (v b0 0 + v b1 1 + v b2 2 + v b3 3 + v b4 4 + v b5 5 + v b6 6 + v b7 7)

let coq_of_string (s : Stdlib.String.t) : Model.string =
  let r = ref Model.EmptyString in
  for i = String.length s - 1 downto 0 do r := Model.String (ascii_of_char s.[i], !r) done;
  !r

let string_of_coq (s : Model.string) : Stdlib.String.t =
  let b = Buffer.create 32 in
  let rec go = function
    | Model.EmptyString -> ()
    | Model.String (a, r) -> Buffer.add_char b (char_of_ascii a); go r in
  go s; Buffer.contents b

let hexval c = match c with
  | '0'..'9' -> Char.code c - 48 | 'a'..'f' -> Char.code c - 87 | 'A'..'F' -> Char.code c - 55
  | _ -> failwith "bad escape"

let unescape (s : string) : string =
  let b = Buffer.create (String.length s) in
  let n = String.length s in
  let i = ref 0 in
  while !i < n do
    (if s.[!i] = '%' && !i + 2 < n then begin
       Buffer.add_char b (Char.chr (16 * hexval s.[!i+1] + hexval s.[!i+2])); i := !i + 3 end
     else begin Buffer.add_char b s.[!i]; incr i end)
  done;
  Buffer.contents b

let escape (s : string) : string =
  let b = Buffer.create (String.length s) in
  String.iter (fun c ->
    let n = Char.code c in
    if n <= 32 || n >= 127 || c = '%' then Buffer.add_string b (Printf.sprintf "%%%02X" n)
    else Buffer.add_char b c) s;
  Buffer.contents b


let () =
  try
    while true do
      let line = input_line stdin in
      let fields = List.map unescape (String.split_on_char '\t' line) in
      (match fields with
       | [] -> print_string "empty-request"
       | cmd :: args ->
         let res =
           try List.map string_of_coq
                 (Model.run (coq_of_string cmd) (List.map coq_of_string args))
           with Stack_overflow -> ["model-stack-overflow"] in
         print_string (String.concat "\t" (List.map escape res)));
      print_newline ()
    done
  with End_of_file -> ()
