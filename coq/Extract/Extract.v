(* Extraction of the executable model.  Only ExtrOcamlBasic's directives are used; N, Z, positive,
   ascii and string stay the extracted inductive types; conversion happens in ocaml/driver.ml. *)
Require Import ExtrOcamlBasic.
From PC Require Import Model.Api.
Extraction Language OCaml.
Extraction "model.ml" Api.run.
