(* C04 — constraint membership agrees with PEP 440 specifier semantics.
   Reference semantics: Spec/Specifier.v (validated against packaging on every run).
   Proofs: Proofs/SpecifierAgree.v, Proofs/RangeSpec.v. *)
From Coq Require Import List Bool NArith String.
From PC Require Import Base.Cmp Base.Result Model.Pep440 Spec.Pep440Spec Spec.Specifier Model.VConstraint
     Proofs.VersionFacts Proofs.RangeSpec Proofs.SpecifierAgree.
From PC Require Import Proofs.UnionHull Proofs.UnionExact Proofs.InterExact Proofs.ParseCompose.
Import ListNotations.
Open Scope string_scope.

(* Inclusive comparisons and equality: every candidate (pre/post/dev/local forms included), any
   literal without a local label (== also with one).  The ranges are the ones parse_single builds
   (see C04_desugar). *)
Theorem C04_ge : forall l c, is_local l = false -> r_allows (RR (Some l) None true false) c = sp_ge l c.
Proof. exact ge_agrees. Qed.
Print Assumptions C04_ge.
Theorem C04_le : forall l c, is_local l = false -> r_allows (RR None (Some l) false true) c = sp_le l c.
Proof. exact le_agrees. Qed.
Print Assumptions C04_le.
Theorem C04_eq : forall l c, r_allows (RV l) c = sp_eq l c.
Proof. exact eq_agrees. Qed.
Print Assumptions C04_eq.

(* Exclusive comparisons against a final release: >V rejects post-releases and local builds of V,
   <V rejects pre-releases (and dev releases) of V — for every well-formed candidate. *)
Theorem C04_gt_final : forall l c, wf l = true -> wf c = true -> is_final l = true ->
  r_allows (RR (Some l) None false false) c = sp_gt l c.
Proof. exact gt_final_agrees. Qed.
Print Assumptions C04_gt_final.
Theorem C04_lt_final : forall l c, wf l = true -> wf c = true -> is_final l = true ->
  r_allows (RR None (Some l) false false) c = sp_lt l c.
Proof. exact lt_final_agrees. Qed.
Print Assumptions C04_lt_final.

(* Any literal, candidates of another release (or equal to the literal): plain interval membership. *)
Theorem C04_regular_candidates : forall r v, wf_rng r = true -> wf v = true -> regular_r v r = true ->
  r_allows r v = mem r v.
Proof. exact allows_regular. Qed.
Print Assumptions C04_regular_candidates.

(* the parser builds exactly these ranges (instances; the general link is the correspondence run) *)
Example C04_desugar :
  (exists l, parse "1.2" = Some l /\
     parse_single false ">=1.2" = Ok (VOne (RR (Some l) None true false)) /\
     parse_single false "<= 1.2" = Ok (VOne (RR None (Some l) false true)) /\
     parse_single false ">1.2" = Ok (VOne (RR (Some l) None false false)) /\
     parse_single false "<1.2" = Ok (VOne (RR None (Some l) false false)) /\
     parse_single false "==1.2" = Ok (VOne (RV l)) /\ parse_single false "1.2" = Ok (VOne (RV l)) /\
     is_final l = true /\ wf l = true).
Proof. eexists. repeat split; vm_compute; reflexivity. Qed.

(* Not yet theorems at clause level (decided by the correspondence run and the reference oracle only): '!=', '~=',
   the wildcard clauses, '^', '~' (for ^ and ~ see C15). *)

(* Proved by composition (every comma set of range-like clauses, every '||' of groups): what _parse_constraint builds from the
   clause lists means the conjunction of the clauses of a group and the disjunction of the groups, for every regular
   candidate, in the implementation's member-by-member membership [sem].  [simple]: the parsed clause is a single version,
   a range or empty (the clauses >=, >, <, <=, ==, ^, ~, ~= and positive wildcards), not a union (the clauses != and negated wildcards); [goodc]: bounds well-formed, proper, without
   local label.  Together with the clause theorems above this gives comma sets and '||' their PEP 440 / poetry meaning.
   Not covered: comma sets that contain a union-valued clause (!=), which need the members of intermediate unions to stay
   sorted and apart (run-time hypothesis of C05_intersect_exact). *)
Theorem C04_comma_set : forall m clauses g, parse_group m clauses = Ok g ->
  exists cs, mapR (parse_single_pep m) clauses = Ok cs /\
    (forallb goodc cs = true -> forallb simple cs = true ->
     goodc g = true /\ simple g = true /\
     forall v, wf v = true -> regular_for v cs = true -> sem g v = forallb (fun x => sem x v) cs).
Proof. exact parse_group_meaning. Qed.
Print Assumptions C04_comma_set.
Theorem C04_or_groups : forall m groups c, parse_constraint_groups m groups = Ok c ->
  exists gs, mapR (parse_group m) groups = Ok gs /\
    (forallb goodc gs = true ->
     goodc c = true /\ forall v, wf v = true -> regular_for v gs = true -> sem c v = existsb (fun x => sem x v) gs).
Proof. exact parse_groups_meaning. Qed.
Print Assumptions C04_or_groups.
Example C04_compose_example :
  exists g cs, parse_group false [">=1.0"; "<2.0"; "~=1.4"]%string = Ok g /\
    mapR (parse_single_pep false) [">=1.0"; "<2.0"; "~=1.4"]%string = Ok cs /\
    forallb goodc cs = true /\ forallb simple cs = true /\ vc_str g = Ok ">=1.4,<2.0"%string.
Proof. do 2 eexists. repeat split; vm_compute; reflexivity. Qed.
