(* C04 — constraint membership agrees with PEP 440 specifier semantics.
   Reference semantics: Spec/Specifier.v (validated against packaging on every run).
   Proofs: Proofs/SpecifierAgree.v, Proofs/RangeSpec.v. *)
From Coq Require Import List Bool NArith String.
From PC Require Import Base.Cmp Base.Result Model.Pep440 Spec.Pep440Spec Spec.Specifier Model.VConstraint
     Proofs.VersionFacts Proofs.RangeSpec Proofs.SpecifierAgree.
From PC Require Import Proofs.UnionHull Proofs.UnionExact Proofs.InterExact Proofs.ParseCompose Proofs.Pep440RoundTrip Proofs.ClauseText Proofs.WildcardText Proofs.WildcardMembership.
From PC Require Import Gen.RangeCmp Gen.RangeAllows Proofs.GenAgreeAllows.
From PC Require Import Proofs.DiffUnion Proofs.SortedOrder Proofs.UnionSorted Proofs.Closure Proofs.VersionLeafText Proofs.TextToSpec.
Import ListNotations.
Open Scope string_scope.

(* Inclusive comparisons and equality: every candidate (pre/post/dev/local forms included), any
   literal without a local label (== also with one).  The ranges are the ones parse_single builds
   (see C04_desugar). *)
Theorem C04_ge : forall l c, is_local l = false -> r_allows (RR (Some l) None true false) c = sp_ge l c.
Proof. exact ge_agrees. Qed.
Print Assumptions C04_ge.
Theorem C04_le : forall l c, is_local l = false -> r_allows (RR None (Some l) false true) c = sp_le l c.
Proof. exact le_agrees. Qed.
Print Assumptions C04_le.
Theorem C04_eq : forall l c, r_allows (RV l) c = sp_eq l c.
Proof. exact eq_agrees. Qed.
Print Assumptions C04_eq.

(* Exclusive comparisons against a final release: >V rejects post-releases and local builds of V,
   <V rejects pre-releases (and dev releases) of V — for every well-formed candidate. *)
Theorem C04_gt_final : forall l c, wf l = true -> wf c = true -> is_final l = true ->
  r_allows (RR (Some l) None false false) c = sp_gt l c.
Proof. exact gt_final_agrees. Qed.
Print Assumptions C04_gt_final.
Theorem C04_lt_final : forall l c, wf l = true -> wf c = true -> is_final l = true ->
  r_allows (RR None (Some l) false false) c = sp_lt l c.
Proof. exact lt_final_agrees. Qed.
Print Assumptions C04_lt_final.

(* Any literal, candidates of another release (or equal to the literal): plain interval membership. *)
Theorem C04_regular_candidates : forall r v, wf_rng r = true -> wf v = true -> regular_r v r = true ->
  r_allows r v = mem r v.
Proof. exact allows_regular. Qed.
Print Assumptions C04_regular_candidates.

(* the parser builds exactly these ranges: for EVERY version literal in normal form (every printable v: all that the version
   parser returns), the text of the clause is followed through the patterns parse_single_constraint tries in order; the
   version read back is v itself ([reparsed v] = v's fields with the normal form as text).  With the membership theorems above,
   the text ">=1.2a1" etc. therefore means what PEP 440 says, not only the range object. *)
Theorem C04_clause_text : forall m v, printable v = true ->
  parse_single m (">=" ++ to_string v) = Ok (VOne (RR (Some (reparsed v)) None true false)) /\
  parse_single m ("<=" ++ to_string v) = Ok (VOne (RR None (Some (reparsed v)) false true)) /\
  parse_single m (">" ++ to_string v) = Ok (VOne (RR (Some (reparsed v)) None false false)) /\
  parse_single m ("<" ++ to_string v) = Ok (VOne (RR None (Some (reparsed v)) false false)) /\
  parse_single m ("==" ++ to_string v) = Ok (VOne (RV (reparsed v))) /\
  parse_single m (to_string v) = Ok (VOne (RV (reparsed v))) /\
  parse_single m ("!=" ++ to_string v) = Ok (VUnion [RR None (Some (reparsed v)) false false; RR (Some (reparsed v)) None false false]).
Proof.
  intros m v P. repeat split; [apply clause_ge|apply clause_le|apply clause_gt|apply clause_lt|apply clause_eq2|apply clause_bare|apply clause_ne]; exact P.
Qed.
Print Assumptions C04_clause_text.
Theorem C04_clause_text_applies : forall s v, parse s = Some v -> printable v = true /\ wf (reparsed v) = true /\ vkey (reparsed v) = vkey v.
Proof.
  intros s v H. pose proof (parse_printable s v H) as P. split; [exact P|]. split; [|reflexivity].
  unfold printable in P. apply Bool.andb_true_iff in P as [W _]. exact W.
Qed.
Print Assumptions C04_clause_text_applies.

(* the wildcard clauses, from their text, for every release of one to three components *)
Theorem C04_wildcard_text : forall m r, (1 <= List.length r <= 3)%nat ->
  let wild inv := match make_x_constraint_range (bare r) inv m with Ok c => Ok c | Err _ => Err EValue end in
  parse_single m ("==" ++ rel_text r ++ ".*") = wild false /\
  parse_single m (rel_text r ++ ".*") = wild false /\
  parse_single m ("!=" ++ rel_text r ++ ".*") = wild true.
Proof.
  intros m r H. cbv zeta. split; [|split].
  - apply (clause_wildcard m "==" false r H). auto.
  - apply (clause_wildcard m "" false r H). auto.
  - apply (clause_wildcard m "!=" true r H). auto.
Qed.
Print Assumptions C04_wildcard_text.
(* ... and what it admits: every well-formed candidate (pre-, post-, dev-releases, local builds) of epoch 0 whose zero-padded release
   starts with R, and nothing else - PEP 440's prefix matching, in the implementation's own membership *)
Theorem C04_wildcard_meaning : forall R, (1 <= List.length R <= 3)%nat ->
  exists r, parse_single false ("==" ++ rel_text R ++ ".*") = Ok (VOne r) /\
            forall v, wf v = true -> r_allows r v = (epoch v =? 0)%N && PrefixOrder.prefix R (rel v).
Proof. exact wildcard_clause_meaning. Qed.
Print Assumptions C04_wildcard_meaning.
Example C04_wildcard_meaning_example :
  exists r a b c, parse_single false "==1.2.*" = Ok (VOne r) /\ parse "1.2rc1+local" = Some a /\ parse "1.2.0.post3.dev1" = Some b /\ parse "1.20" = Some c /\
    r_allows r a = true /\ r_allows r b = true /\ r_allows r c = false /\ PrefixOrder.prefix [1; 2]%N (rel c) = false.
Proof. do 4 eexists. repeat split; vm_compute; reflexivity. Qed.
Example C04_wildcard_example : parse_single false "==1.2.*" = Ok (VOne (RR (Some (first_devrelease (bare [1; 2]%N))) (Some (first_devrelease (bare [1; 3]%N))) true false)).
Proof. vm_compute. reflexivity. Qed.

(* instances with blanks after the operator (the general statement above is for the text without blanks) *)
Example C04_desugar :
  (exists l, parse "1.2" = Some l /\
     parse_single false ">=1.2" = Ok (VOne (RR (Some l) None true false)) /\
     parse_single false "<= 1.2" = Ok (VOne (RR None (Some l) false true)) /\
     parse_single false ">1.2" = Ok (VOne (RR (Some l) None false false)) /\
     parse_single false "<1.2" = Ok (VOne (RR None (Some l) false false)) /\
     parse_single false "==1.2" = Ok (VOne (RV l)) /\ parse_single false "1.2" = Ok (VOne (RV l)) /\
     is_final l = true /\ wf l = true).
Proof. eexists. repeat split; vm_compute; reflexivity. Qed.

(* Not theorems at clause level (decided by the correspondence run and the reference oracle only): the meaning of '!=' as a
   set (its two half-lines are C04_gt/C04_lt shapes), negated wildcards as sets, blanks and upper case inside a clause;
   for '^', '~', '~=' see C15. *)

(* Proved by composition (every comma set of range-like clauses, every '||' of groups): what _parse_constraint builds from the
   clause lists means the conjunction of the clauses of a group and the disjunction of the groups, for every regular
   candidate, in the implementation's member-by-member membership [sem].  [simple]: the parsed clause is a single version,
   a range or empty (the clauses >=, >, <, <=, ==, ^, ~, ~= and positive wildcards), not a union (the clauses != and negated wildcards); [goodc]: bounds well-formed, proper, without
   local label.  Together with the clause theorems above this gives comma sets and '||' their PEP 440 / poetry meaning.
   Not covered: comma sets that contain a union-valued clause (!=), which need the members of intermediate unions to stay
   sorted and apart (run-time hypothesis of C05_intersect_exact). *)
Theorem C04_comma_set : forall m clauses g, parse_group m clauses = Ok g ->
  exists cs, mapR (parse_single_pep m) clauses = Ok cs /\
    (forallb goodc cs = true -> forallb simple cs = true ->
     goodc g = true /\ simple g = true /\
     forall v, wf v = true -> regular_for v cs = true -> sem g v = forallb (fun x => sem x v) cs).
Proof. exact parse_group_meaning. Qed.
Print Assumptions C04_comma_set.
Theorem C04_or_groups : forall m groups c, parse_constraint_groups m groups = Ok c ->
  exists gs, mapR (parse_group m) groups = Ok gs /\
    (forallb goodc gs = true ->
     goodc c = true /\ forall v, wf v = true -> regular_for v gs = true -> sem c v = existsb (fun x => sem x v) gs).
Proof. exact parse_groups_meaning. Qed.
Print Assumptions C04_or_groups.
Example C04_compose_example :
  exists g cs, parse_group false [">=1.0"; "<2.0"; "~=1.4"]%string = Ok g /\
    mapR (parse_single_pep false) [">=1.0"; "<2.0"; "~=1.4"]%string = Ok cs /\
    forallb goodc cs = true /\ forallb simple cs = true /\ vc_str g = Ok ">=1.4,<2.0"%string.
Proof. do 2 eexists. repeat split; vm_compute; reflexivity. Qed.

(* the tie by translation: VersionRange.allows of version_range.py, re-translated from /repo's working tree on this run
   (coq/Gen/RangeAllows.v; the bound adjustments it uses are coq/Gen/RangeCmp.v), is the function the membership theorems above speak
   about.  A change of meaning in the source breaks this proof obligation before any input is generated. *)
Theorem C04_allows_of_current_source : forall r v, rr_allows_gen r v = rr_allows r v.
Proof. exact rr_allows_agrees. Qed.
Print Assumptions C04_allows_of_current_source.
(* likewise Version.allows of version.py; together: membership in every range-like member of a constraint *)
Theorem C04_member_allows_of_current_source : forall r v,
  (match r with RV x => v_allows_gen x (Some v) | RR _ _ _ _ => rr_allows_gen r v end) = r_allows r v.
Proof. exact r_allows_agrees. Qed.
Print Assumptions C04_member_allows_of_current_source.

(* comma sets and '||' with ANY clauses - '!=' and negated wildcards included: the gap left by C04_comma_set (which asked for
   range-like clauses) is closed by the closure theorem of C05: over mutually regular bounds B, a comma set of clauses of the class
   K_B parses to a constraint of the class that admits exactly the conjunction, and '||' of such groups to one that admits exactly
   the disjunction; the parsed '!=V' is in the class *)
Theorem C04_comma_set_general : forall B, mutual B -> forall m clauses g, parse_group m clauses = Ok g ->
  exists cs, mapR (parse_single_pep m) clauses = Ok cs /\
    (Forall (inK B) cs -> inK B g /\ forall v, wf v = true -> regB B v = true -> sem g v = forallb (fun x => sem x v) cs).
Proof. exact parse_group_general. Qed.
Print Assumptions C04_comma_set_general.
Theorem C04_or_groups_general : forall B, mutual B -> forall m groups c, parse_constraint_groups m groups = Ok c ->
  exists gs, mapR (parse_group m) groups = Ok gs /\
    (Forall (inK B) gs -> inK B c /\ forall v, wf v = true -> regB B v = true -> sem c v = existsb (fun x => sem x v) gs).
Proof. exact or_groups_general. Qed.
Print Assumptions C04_or_groups_general.
Theorem C04_exclusion_in_class : forall B v, wf v = true -> is_local v = false -> In v B ->
  inK B (VUnion [RR None (Some v) false false; RR (Some v) None false false]).
Proof. exact ne_in_K. Qed.
Print Assumptions C04_exclusion_in_class.

(* end to end, for comma sets of comparison clauses: from the TEXT 'op1 V1, op2 V2, ...' (literals in normal form without local label,
   mutually regular) to PEP 440: the constraint _parse_constraint builds admits a candidate exactly when every specifier 'op_i V_i' of
   Spec/Specifier.v does, for every well-formed candidate that is regular for the literals - its local label, pre-, post- and dev
   segments included.  (Clause parser followed through the text: C04_clause_text; the six clauses on regular candidates:
   clause_regular_spec; the comma set: C04_comma_set_general.) *)
Theorem C04_comma_set_text_to_specifiers : forall B, mutual B -> forall m (cl : list (string * version)) g,
  Forall (clause_ok B) cl -> parse_group m (map clause_text cl) = Ok g ->
  forall c, wf c = true -> regB B c = true -> sem g c = forallb (fun oc => spec_of (fst oc) (reparsed (snd oc)) c) cl.
Proof. exact comma_text_spec. Qed.
Print Assumptions C04_comma_set_text_to_specifiers.
Theorem C04_clause_on_regular_candidates : forall op l c, In op [">="; "<="; ">"; "<"; "=="; "!="]%string -> wf l = true -> wf c = true -> is_local l = false ->
  regular1 c l = true -> sem (op_result op l) c = spec_of op l c.
Proof. exact clause_regular_spec. Qed.
Print Assumptions C04_clause_on_regular_candidates.
Example C04_text_to_specifiers_example :
  mutual ex_clB /\ Forall (clause_ok ex_clB) ex_cl /\
  match parse_group false (map clause_text ex_cl) with Ok g => vc_str g | Err e => Err e end = Ok ">=1.0,<1.5 || >1.5,<2.0"%string.
Proof. exact text_to_specifiers_example. Qed.
