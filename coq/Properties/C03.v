(* C03 — version parsing, normalisation and ordering follow PEP 440.
   Statements only; every proof is [exact lemma].  Model: Model/Pep440.v; reference: Spec/Pep440Spec.v. *)
From Coq Require Import List Bool NArith String.
From PC Require Import Base.Cmp Model.Pep440 Spec.Pep440Spec Proofs.Pep440Order Proofs.Pep440Parse Proofs.Pep440RoundTrip.
Import ListNotations.
Open Scope N_scope.

(* every accepted string yields a well-formed version (so the theorems below apply to it) *)
Theorem C03_parse_wf : forall s v, parse s = Some v -> wf v = true.
Proof. exact parse_wf. Qed.
Print Assumptions C03_parse_wf.

(* the comparison equals the reference (packaging _cmpkey / PEP 440) order, releases compared by zero padding *)
Theorem C03_order_agrees : forall v w, wf v = true -> wf w = true -> vcmp v w = scmp (norm v) (norm w).
Proof. exact order_agrees. Qed.
Print Assumptions C03_order_agrees.

(* strict total order; == is an equivalence compatible with the order; equal versions have equal hash keys *)
Theorem C03_strict_total :
  (forall v, vltb v v = false) /\
  (forall u v w, vltb u v = true -> vltb v w = true -> vltb u w = true) /\
  (forall v w, (vltb v w = true /\ veqb v w = false /\ vltb w v = false) \/
               (vltb v w = false /\ veqb v w = true /\ vltb w v = false) \/
               (vltb v w = false /\ veqb v w = false /\ vltb w v = true)).
Proof. exact (conj vlt_irrefl (conj vlt_trans v_trichotomy)). Qed.
Print Assumptions C03_strict_total.

Theorem C03_eq_equivalence :
  (forall v, veqb v v = true) /\ (forall v w, veqb v w = veqb w v) /\
  (forall u v w, veqb u v = true -> veqb v w = true -> veqb u w = true) /\
  (forall u v w, veqb u v = true -> vcmp u w = vcmp v w /\ vcmp w u = vcmp w v).
Proof. destruct veq_equiv as (a & b & c). exact (conj a (conj b (conj c veq_congr))). Qed.
Print Assumptions C03_eq_equivalence.

(* the hash is computed from the compare key: equal versions have structurally equal keys, and conversely *)
Theorem C03_eq_iff_hash_key : forall v w, veqb v w = true <-> vkey v = vkey w.
Proof. exact (fun v w => conj (veqb_key v w) (key_veqb v w)). Qed.
Print Assumptions C03_eq_iff_hash_key.

(* 1.0 == 1.0.0: trailing zero components never matter *)
Theorem C03_padding : forall v k, vcmp v (with_rel v (rel v ++ repeat 0 k)%list) = Eq.
Proof. exact padding_irrelevant. Qed.
Print Assumptions C03_padding.

(* dev < pre < final < post, a < b < rc, X.devN directly below X *)
Theorem C03_phase_chain : forall e r n p m k, pre_phase p = true ->
  vcmp (mkV e r None None (Some (mkTag PDev n)) None "") (mkV e r (Some (mkTag p m)) None None None "") = Lt /\
  vcmp (mkV e r (Some (mkTag p m)) None None None "") (bare e r) = Lt /\
  vcmp (bare e r) (mkV e r None (Some (mkTag PPost k)) None None "") = Lt.
Proof. exact phase_chain. Qed.
Print Assumptions C03_phase_chain.
Theorem C03_pre_phase_order : forall e r n m,
  vcmp (mkV e r (Some (mkTag PA n)) None None None "") (mkV e r (Some (mkTag PB m)) None None None "") = Lt /\
  vcmp (mkV e r (Some (mkTag PB n)) None None None "") (mkV e r (Some (mkTag PRC m)) None None None "") = Lt.
Proof. exact pre_phase_order. Qed.
Print Assumptions C03_pre_phase_order.
Theorem C03_dev_below : forall e r p po n l,
  vcmp (mkV e r p po (Some (mkTag PDev n)) l "") (mkV e r p po None l "") = Lt.
Proof. exact dev_below. Qed.
Print Assumptions C03_dev_below.

(* local labels: absent < alphabetic < numeric; numeric by value; a proper prefix sorts first *)
Theorem C03_local_order : forall e r p po d,
  (forall x l, wf_lseg x = true -> vcmp (mkV e r p po d None "") (mkV e r p po d (Some (x :: l)) "") = Lt) /\
  (forall s n l l', vcmp (mkV e r p po d (Some (LStr s :: l)) "") (mkV e r p po d (Some (LNum n :: l')) "") = Lt) /\
  (forall n m l l', n < m -> vcmp (mkV e r p po d (Some (LNum n :: l)) "") (mkV e r p po d (Some (LNum m :: l')) "") = Lt) /\
  (forall l x l', vcmp (mkV e r p po d (Some l) "") (mkV e r p po d (Some (l ++ x :: l')%list) "") = Lt).
Proof. exact local_order. Qed.
Print Assumptions C03_local_order.

(* the normalised text is the reference's canonical form *)
Theorem C03_normal_form : forall v, wf_tags v = true -> to_string v = canonical (norm v).
Proof. exact normal_form. Qed.
Print Assumptions C03_normal_form.

(* non-vacuity: a parsed version with every kind of segment meets the hypotheses *)
Example C03_example :
  exists v, parse "1!2.0.0RC-3.post4.dev5+Ubuntu_01" = Some v /\ wf v = true /\
            to_string v = "1!2.0.0rc3.post4.dev5+ubuntu.1"%string.
Proof. eexists. split; [vm_compute; reflexivity|]. split; vm_compute; reflexivity. Qed.

(* the normalised text re-parses to the same version: every field is recovered, for every version the parser can
   return (and for every hand-built version that is [printable]: well-formed, alphabetic local segments in lower-case
   alphanumerics and not all digits).  The matcher is followed through the printed text: at every optional group of
   VERSION_PATTERN the first alternative the regex engine tries is the right one. *)
Theorem C03_text_roundtrip : forall v, printable v = true ->
  parse (to_string v) = Some (mkV (epoch v) (rel v) (pre v) (post v) (dev v) (local v) (to_string v)).
Proof. exact roundtrip. Qed.
Print Assumptions C03_text_roundtrip.
Theorem C03_parsed_is_printable : forall s v, parse s = Some v -> printable v = true.
Proof. exact parse_printable. Qed.
Print Assumptions C03_parsed_is_printable.
Theorem C03_normalised_text_reparses_equal : forall s v, parse s = Some v ->
  exists v', parse (to_string v) = Some v' /\ veqb v v' = true /\ vkey v' = vkey v /\
             to_string v' = to_string v /\ text v' = to_string v.
Proof. exact normalise_reparse. Qed.
Print Assumptions C03_normalised_text_reparses_equal.
Example C03_roundtrip_example :
  exists v, parse "1!2.0.0RC-3.post4.dev5+Ubuntu_01" = Some v /\ printable v = true /\
            parse (to_string v) = Some (mkV 1 [2; 0; 0] (Some (mkTag PRC 3)) (Some (mkTag PPost 4)) (Some (mkTag PDev 5))
                                            (Some [LStr "ubuntu"; LNum 1]) "1!2.0.0rc3.post4.dev5+ubuntu.1").
Proof. eexists. split; [vm_compute; reflexivity|]. split; vm_compute; reflexivity. Qed.
