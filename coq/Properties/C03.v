From PC Require Import Base.Cmp Model.Pep440 Spec.Pep440Spec.
