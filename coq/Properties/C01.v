(* C01 — every built wheel is a self-consistent archive: the bookkeeping, permission and timestamp
   part that is logic.  zipfile/hashlib/csv and the filesystem are parameters; the real archives are
   judged by the oracle on every run, and the model's RECORD prediction from the operation log is
   compared with the RECORD inside the archive. *)
From Coq Require Import List Bool NArith String.
From PC Require Import Model.Wheel Proofs.WheelProofs Proofs.GenAgree Gen.Helpers.
Import ListNotations.
Open Scope N_scope.

Section C01.
  Variable bytes : Type.
  Variable digest : bytes -> string.
  Variable size_of : bytes -> N.

  (* every reachable state of the builder: the record list is the member list, in order, with the
     digest and size of what was written *)
  Theorem C01_record_invariant : forall date ops,
    records (wrun bytes digest size_of date ops) =
    map (row_of_member bytes digest size_of) (members (wrun bytes digest size_of date ops)).
  Proof. exact (record_invariant bytes digest size_of). Qed.

  (* RECORD lists exactly the members written before it, then itself without hash and size *)
  Theorem C01_record_exact : forall date ops dist_info,
    record_lines bytes dist_info (wrun bytes digest size_of date ops) =
    (map (fun m => Line (m_path m) (digest (m_data m)) (size_of (m_data m))) (members (wrun bytes digest size_of date ops))
     ++ [SelfLine (dist_info ++ "/RECORD")%string])%list.
  Proof. exact (record_exact bytes digest size_of). Qed.

  (* each member is listed once exactly when the target paths of the operations are pairwise distinct *)
  Theorem C01_record_once : forall date ops,
    NoDup (map (fun o => match o with OAdd p _ _ => p | OWrite p _ => p end) ops) <->
    NoDup (map r_path (records (wrun bytes digest size_of date ops))).
  Proof. exact (record_once bytes digest size_of). Qed.
End C01.
Print Assumptions C01_record_invariant.
Print Assumptions C01_record_exact.
Print Assumptions C01_record_once.

(* modes: the low nine bits are 0644 or 0755 (by the owner-execute bit), higher bits kept, idempotent *)
Theorem C01_modes : forall m,
  low9 (normalize_file_permissions m) = (if N.testbit m 6 then 493 else 420) /\
  N.shiftr (normalize_file_permissions m) 9 = N.shiftr m 9 /\
  normalize_file_permissions (normalize_file_permissions m) = normalize_file_permissions m.
Proof. exact (fun m => conj (modes_low m) (conj (modes_high m) (modes_idempotent m))). Qed.
Print Assumptions C01_modes.

(* the definition re-translated from /repo on this run is the one the theorem is about *)
Theorem C01_modes_of_current_source : forall m, normalize_file_permissions_gen m = normalize_file_permissions m.
Proof. exact normalize_file_permissions_agrees. Qed.
Print Assumptions C01_modes_of_current_source.

Example C01_example :
  normalize_file_permissions 33204 = 33188 /\ normalize_file_permissions 33261 = 33261 /\
  normalize_file_permissions 33216 = 33261.
Proof. repeat split; vm_compute; reflexivity. Qed.
