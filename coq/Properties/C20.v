(* C20 — results do not depend on thread scheduling or on call history: the two state machines.
   The GIL, atomicity of dict/list operations and lark's thread safety are runtime; the oracle runs real
   workloads sequentially, permuted and from 2-16 threads in fresh processes and compares every result. *)
From Coq Require Import List Bool Arith.
From PC Require Import Model.Memo Proofs.MemoProofs.
Import ListNotations.

(* memoisation keyed by an equality coarser than identity is invisible up to the equivalence [veq], provided keys the
   cache identifies give equivalent results (the premise D23 violated for markers before its fix; for versions and
   constraints [veq] is equality, for markers "same truth table") *)
Theorem C20_memo_refines : forall (K V : Type) (keq : K -> K -> bool) (f : K -> V) (veq : V -> V -> Prop),
  (forall v, veq v v) -> (forall a b, veq a b -> veq b a) -> (forall a b c, veq a b -> veq b c -> veq a c) ->
  (forall k k', keq k k' = true -> veq (f k) (f k')) ->
  forall ks c, cache_ok K V f veq c -> Forall2 (fun k v => veq v (f k)) ks (run K V keq f c ks).
Proof. exact memo_refines. Qed.
Print Assumptions C20_memo_refines.
(* the recursion guard: in every interleaving that completes, thread t's stack is what t's own calls make it *)
Theorem C20_guard_noninterference : forall (A : Type) (aeq : A -> A -> bool) t ops s1 s2 r1,
  s1 t = s2 t -> grun A aeq s1 ops = Some r1 ->
  exists r2, grun A aeq s2 (filter (fun o => Nat.eqb (op_tid A o) t) ops) = Some r2 /\ r2 t = r1 t.
Proof. exact guard_noninterference. Qed.
Print Assumptions C20_guard_noninterference.
Theorem C20_guard_balanced : forall (A : Type) (aeq : A -> A -> bool) s t a, existsb (aeq a) (s t) = false ->
  exists s', grun A aeq s [Enter A t a; Leave A t] = Some s' /\ s' t = s t.
Proof. exact guard_balanced. Qed.
Print Assumptions C20_guard_balanced.
