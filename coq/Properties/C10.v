(* C10 — a dependency survives the round trip through its PEP 508 text.
   (1) Name normalisation: packaging.utils.canonicalize_name is re-implemented (Model/Marker.v: canon_name) and compared with
   the real function on every run.  Proved: it is idempotent and insensitive to case, to the separator used and to the length
   of separator runs, so spellings of one name share one normal form.
   (2) The registry fragment of the requirement parser and the printer base_pep_508_name (Model/Req.v: the lexer of
   pep508.lark by hand for NAME, extras and version specs; compared with Requirement(...) and base_pep_508_name on every run,
   on generated and on damaged texts).  Proved: the text printed for a registry dependency (with or without extras) whose constraint is
   a single version, a half-line or a bounded range in normal form is read back as the same name, the same extras and the same
   constraint.
   Not modelled: markers inside requirements, URL and VCS handling (five hand-grown regexes
   in vcs/git.py, Link, urllib): those parts of the round trip are judged on the implementation against
   packaging.requirements, probe versions and the environment grid. *)
From Coq Require Import List Bool NArith String Ascii.
From PC Require Import Base.Result Model.Pep440 Model.VConstraint Model.Marker Model.Req Proofs.MarkerProofs Proofs.AnyIff Proofs.ConstraintText Proofs.ReqRoundTrip Proofs.ReqExtras.
Import ListNotations.

Theorem C10_name_norm_idempotent : forall s, canon_name (canon_name s) = canon_name s.
Proof. exact canon_name_idempotent. Qed.
Print Assumptions C10_name_norm_idempotent.
Theorem C10_name_norm_case : forall l p, canon_chars p (map lower l) = canon_chars p l.
Proof. exact canon_case_insensitive. Qed.
Print Assumptions C10_name_norm_case.
Theorem C10_name_norm_separators : forall s1 s2 l p, is_sep s1 = true -> is_sep s2 = true ->
  canon_chars p (s1 :: s2 :: l) = canon_chars p (s1 :: l) /\ canon_chars p (s1 :: l) = canon_chars p ("-"%char :: l).
Proof. exact canon_separator_runs. Qed.
Print Assumptions C10_name_norm_separators.
Example C10_example : canon_name "Foo__Bar.-baz" = "foo-bar-baz"%string /\ canon_name "foo-bar-baz" = "foo-bar-baz"%string.
Proof. split; vm_compute; reflexivity. Qed.


(* the PEP 508 text of a registry dependency parses back to the same name and the same constraint *)
Theorem C10_registry_roundtrip : forall (name : string) r,
  valid_name (list_ascii_of_string name) = true ->
  match r with
  | RV v => normal v = true
  | RR (Some a) None _ false => normal a = true
  | RR None (Some b) false _ => normal b = true
  | RR (Some a) (Some b) _ _ => normal a = true /\ normal b = true /\ vltb a b = true /\ nondeg r = true /\ is_single_wildcard_range r = false
  | _ => False
  end ->
  exists s, dep_text name [] (VOne r) = Some s /\ req_parse s = ReqOk name [] (VOne r).
Proof. exact registry_roundtrip. Qed.
Print Assumptions C10_registry_roundtrip.
(* ... and with extras: a non-empty list of extra names is read back as written *)
Theorem C10_registry_roundtrip_extras : forall (name : string) (extras : list string) r,
  valid_name (list_ascii_of_string name) = true -> extras <> [] -> forallb valid_name (map list_ascii_of_string extras) = true ->
  match r with
  | RV v => normal v = true
  | RR (Some a) None _ false => normal a = true
  | RR None (Some b) false _ => normal b = true
  | RR (Some a) (Some b) _ _ => normal a = true /\ normal b = true /\ vltb a b = true /\ nondeg r = true /\ is_single_wildcard_range r = false
  | _ => False
  end ->
  exists s, dep_text name extras (VOne r) = Some s /\ req_parse s = ReqOk name extras (VOne r).
Proof. exact registry_roundtrip_extras. Qed.
Print Assumptions C10_registry_roundtrip_extras.
Example C10_registry_example :
  exists a b, parse "1.2" = Some a /\ parse "2.0rc1" = Some b /\ normal a = true /\ normal b = true /\
    dep_text "Foo_Bar.zip" [] (VOne (RR (Some a) (Some b) true false)) = Some "Foo_Bar.zip (>=1.2,<2.0rc1)"%string /\
    req_parse "Foo_Bar.zip (>=1.2,<2.0rc1)" = ReqOk "Foo_Bar.zip" [] (VOne (RR (Some a) (Some b) true false)) /\
    req_parse "  Foo_Bar.zip[b, a]>= 1.2 ,<2.0rc1" = ReqOk "Foo_Bar.zip" ["b"; "a"]%string (VOne (RR (Some (mkV (epoch a) (rel a) None None None None "1.2")) (Some b) true false)).
Proof. do 2 eexists. repeat split; vm_compute; reflexivity. Qed.
