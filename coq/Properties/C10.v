(* C10 — a dependency survives the round trip through its PEP 508 text: the name-normalisation part.
   packaging.utils.canonicalize_name is re-implemented (Model/Marker.v: canon_name) and compared with the real function
   on every run.  Proved: it is idempotent and insensitive to case, to the separator used and to the length of
   separator runs, so spellings of one name share one normal form.  The lark requirement grammar, URL and VCS handling
   (five hand-grown regexes in vcs/git.py, Link, urllib) are not modelled: the round trip itself is judged on the
   implementation against packaging.requirements, probe versions and the environment grid. *)
From Coq Require Import List Bool NArith String Ascii.
From PC Require Import Model.Pep440 Model.Marker Proofs.MarkerProofs.
Import ListNotations.

Theorem C10_name_norm_idempotent : forall s, canon_name (canon_name s) = canon_name s.
Proof. exact canon_name_idempotent. Qed.
Print Assumptions C10_name_norm_idempotent.
Theorem C10_name_norm_case : forall l p, canon_chars p (map lower l) = canon_chars p l.
Proof. exact canon_case_insensitive. Qed.
Print Assumptions C10_name_norm_case.
Theorem C10_name_norm_separators : forall s1 s2 l p, is_sep s1 = true -> is_sep s2 = true ->
  canon_chars p (s1 :: s2 :: l) = canon_chars p (s1 :: l) /\ canon_chars p (s1 :: l) = canon_chars p ("-"%char :: l).
Proof. exact canon_separator_runs. Qed.
Print Assumptions C10_name_norm_separators.
Example C10_example : canon_name "Foo__Bar.-baz" = "foo-bar-baz"%string /\ canon_name "foo-bar-baz" = "foo-bar-baz"%string.
Proof. split; vm_compute; reflexivity. Qed.
