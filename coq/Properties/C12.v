(* C12 — containment, overlap and emptiness answers about version constraints are never wrong. *)
From Coq Require Import List Bool NArith String.
From PC Require Import Base.Cmp Base.Result Model.Pep440 Spec.Pep440Spec Model.VConstraint
     Proofs.VersionFacts Proofs.RangeSpec Proofs.RangeAlg Proofs.RangeOps.
Import ListNotations.

(* full statement, kept visible (unions included); proved below for two VersionRange operands *)
Definition C12_full_statement : Prop :=
  forall a b v x y, allows a v = Ok x -> allows b v = Ok y ->
    forallb (regular1 v) (cbounds a ++ cbounds b) = true ->
    (allows_all a b = true -> y = true -> x = true) /\
    (allows_any a b = Ok false -> x && y = false).

Theorem C12_allows_all_sound_partial : forall lo hi i j lo' hi' i' j' v,
  let a := RR lo hi i j in let b := RR lo' hi' i' j' in
  wf_rng a = true -> wf_rng b = true -> wf v = true -> regular_r v a = true -> regular_r v b = true ->
  allows_all (VOne a) (VOne b) = true -> r_allows b v = true -> r_allows a v = true.
Proof.
  intros lo hi i j lo' hi' i' j' v a b Wa Wb Wv Ra Rb H.
  rewrite (allows_regular a v Wa Wv Ra), (allows_regular b v Wb Wv Rb).
  exact (rr_allows_all_sound lo hi i j lo' hi' i' j' v Wa Wb Ra Rb H).
Qed.
Print Assumptions C12_allows_all_sound_partial.

Theorem C12_allows_any_sound_partial : forall lo hi i j lo' hi' i' j' v,
  let a := RR lo hi i j in let b := RR lo' hi' i' j' in
  wf_rng a = true -> wf_rng b = true -> wf v = true -> regular_r v a = true -> regular_r v b = true ->
  allows_any (VOne a) (VOne b) = Ok false -> r_allows a v && r_allows b v = false.
Proof.
  intros lo hi i j lo' hi' i' j' v a b Wa Wb Wv Ra Rb H.
  rewrite (allows_regular a v Wa Wv Ra), (allows_regular b v Wb Wv Rb).
  apply (rr_allows_any_sound lo hi i j lo' hi' i' j' v Wa Wb Ra Rb).
  cbn in H. injection H as H. exact H.
Qed.
Print Assumptions C12_allows_any_sound_partial.

(* flags: unconditional, every probe (no regularity, no well-formedness) *)
Theorem C12_flags : forall c v,
  (is_empty c = true -> allows c v = Ok false) /\
  (is_any c = true -> allows c v = Ok true).
Proof.
  intros c v. split.
  - destruct c; try discriminate. reflexivity.
  - destruct c as [|[x|[lo|] [hi|] i j]|l]; try discriminate. reflexivity.
Qed.
Print Assumptions C12_flags.

Theorem C12_range_allows_all_self : forall lo hi i j,
  allows_all (VOne (RR lo hi i j)) (VOne (RR lo hi i j)) = true.
Proof. exact rr_allows_all_self. Qed.
Print Assumptions C12_range_allows_all_self.
