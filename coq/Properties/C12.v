(* C12 — containment, overlap and emptiness answers about version constraints are never wrong. *)
From Coq Require Import List Bool NArith String.
From PC Require Import Base.Cmp Base.Result Model.Pep440 Spec.Pep440Spec Model.VConstraint
     Proofs.VersionFacts Proofs.RangeSpec Proofs.RangeAlg Proofs.RangeOps Proofs.UnionHull Proofs.UnionExact Proofs.Contain Proofs.InterExact Proofs.AnyIff.
From PC Require Import Gen.RangeCmp Proofs.GenAgreeRange.
From PC Require Import Proofs.DiffUnion Proofs.SortedOrder Proofs.UnionSorted Proofs.Closure.
Import ListNotations.

(* full statement, kept visible (unions included).  Proved: the allows_all half for every constraint shape (C12_allows_all_sound),
   self-containment for every shape; the allows_any half for every shape under the decidable hypothesis [sorted_c] (members of a
   union sorted and apart, evaluated on every generated operand by the check).  'any iff intersection non-empty' is proved for operands without a degenerate member, except a range against a union. *)
Definition C12_full_statement : Prop :=
  forall a b v x y, allows a v = Ok x -> allows b v = Ok y ->
    forallb (regular1 v) (cbounds a ++ cbounds b) = true ->
    (allows_all a b = true -> y = true -> x = true) /\
    (allows_any a b = Ok false -> x && y = false).

Theorem C12_allows_all_sound_partial : forall lo hi i j lo' hi' i' j' v,
  let a := RR lo hi i j in let b := RR lo' hi' i' j' in
  wf_rng a = true -> wf_rng b = true -> wf v = true -> regular_r v a = true -> regular_r v b = true ->
  allows_all (VOne a) (VOne b) = true -> r_allows b v = true -> r_allows a v = true.
Proof.
  intros lo hi i j lo' hi' i' j' v a b Wa Wb Wv Ra Rb H.
  rewrite (allows_regular a v Wa Wv Ra), (allows_regular b v Wb Wv Rb).
  exact (rr_allows_all_sound lo hi i j lo' hi' i' j' v Wa Wb Ra Rb H).
Qed.
Print Assumptions C12_allows_all_sound_partial.

Theorem C12_allows_any_sound_partial : forall lo hi i j lo' hi' i' j' v,
  let a := RR lo hi i j in let b := RR lo' hi' i' j' in
  wf_rng a = true -> wf_rng b = true -> wf v = true -> regular_r v a = true -> regular_r v b = true ->
  allows_any (VOne a) (VOne b) = Ok false -> r_allows a v && r_allows b v = false.
Proof.
  intros lo hi i j lo' hi' i' j' v a b Wa Wb Wv Ra Rb H.
  rewrite (allows_regular a v Wa Wv Ra), (allows_regular b v Wb Wv Rb).
  apply (rr_allows_any_sound lo hi i j lo' hi' i' j' v Wa Wb Ra Rb).
  cbn in H. injection H as H. exact H.
Qed.
Print Assumptions C12_allows_any_sound_partial.

(* flags: unconditional, every probe (no regularity, no well-formedness) *)
Theorem C12_flags : forall c v,
  (is_empty c = true -> allows c v = Ok false) /\
  (is_any c = true -> allows c v = Ok true).
Proof.
  intros c v. split.
  - destruct c; try discriminate. reflexivity.
  - destruct c as [|[x|[lo|] [hi|] i j]|l]; try discriminate. reflexivity.
Qed.
Print Assumptions C12_flags.

Theorem C12_range_allows_all_self : forall lo hi i j,
  allows_all (VOne (RR lo hi i j)) (VOne (RR lo hi i j)) = true.
Proof. exact rr_allows_all_self. Qed.
Print Assumptions C12_range_allows_all_self.

(* Proved, every constraint shape (single versions, ranges, unions on either side, through the containment walk of
   VersionUnion.allows_all): a yes is never wrong — in the implementation's member-by-member membership [sem], for
   operands that are [goodc] (well-formed proper bounds without local labels) and every regular probe. *)
Theorem C12_allows_all_sound : forall a b v, goodc a = true -> goodc b = true -> wf v = true ->
  regular_c v a = true -> regular_c v b = true ->
  allows_all a b = true -> sem b v = true -> sem a v = true.
Proof. exact allows_all_yes_is_right. Qed.
Print Assumptions C12_allows_all_sound.
(* each constraint allows all of itself, whatever its members are (no hypothesis at all) *)
Theorem C12_allows_all_self : forall c, match c with VOne (RV _) => True | _ => allows_all c c = true end.
Proof. exact allows_all_self. Qed.
Print Assumptions C12_allows_all_self.
Theorem C12_allows_all_self_version : forall x, allows_all (VOne (RV x)) (VOne (RV x)) = true.
Proof. exact allows_all_self_version. Qed.
Print Assumptions C12_allows_all_self_version.
Example C12_union_example :
  exists a b, parse_constraint_text false false ">=1.0,<2.0 || >3.0,<=4.0"%string = Ok a /\
    parse_constraint_text false false ">=1.5,<1.7 || 3.5"%string = Ok b /\
    goodc a = true /\ goodc b = true /\ allows_all a b = true /\ allows_all b a = false.
Proof. do 2 eexists. repeat split; vm_compute; reflexivity. Qed.

(* Proved, every constraint shape: a no from allows_any is never wrong, for operands that are [goodc] and [sorted_c]. *)
Theorem C12_allows_any_sound : forall a b, goodc a = true -> goodc b = true -> sorted_c a = true -> sorted_c b = true ->
  allows_any a b = Ok false ->
  forall v, wf v = true -> regular_c v a = true -> regular_c v b = true -> sem a v && sem b v = false.
Proof. exact allows_any_no_is_right. Qed.
Print Assumptions C12_allows_any_sound.

(* the tie by translation: the bound comparisons of version_range_constraint.py, re-translated from /repo's working tree on
   this run (coq/Gen/RangeCmp.v), are the functions the theorems above speak about *)
Theorem C12_comparisons_of_current_source : forall a b,
  allowed_max_gen a = allowed_max a /\ allows_lower_gen a b = allows_lower a b /\ allows_higher_gen a b = allows_higher a b /\
  is_strictly_lower_gen a b = is_strictly_lower a b /\ is_strictly_higher_gen a b = is_strictly_higher a b /\
  is_adjacent_to_gen a b = is_adjacent_to a b.
Proof.
  intros a b. split; [apply allowed_max_agrees|]. split; [apply allows_lower_agrees|]. split; [apply allows_higher_agrees|].
  split; [apply is_strictly_lower_agrees|]. split; [apply is_strictly_higher_agrees|apply is_adjacent_to_agrees].
Qed.
Print Assumptions C12_comparisons_of_current_source.

(* Proved: 'allows any' is yes exactly when the intersection is not the empty constraint - about the two computations themselves,
   no probe involved - when no member of either operand is degenerate ([nondeg_c]: the allowed maximum of a range is not
   below its own minimum; decidable, evaluated at run time), for every shape except a range against a union (there allows_any
   tests every member while intersect walks them in order; the two agree when the members are sorted, not proved). *)
Theorem C12_any_iff_intersection : forall a b x i, nondeg_c a = true -> nondeg_c b = true ->
  (match a, b with VOne (RR _ _ _ _), VUnion _ => False | _, _ => True end) ->
  allows_any a b = Ok x -> intersect a b = Ok i -> x = negb (is_empty i).
Proof. exact any_iff_intersection. Qed.
Print Assumptions C12_any_iff_intersection.

(* on results of the algebra: [sorted_c], the hypothesis of C12_allows_any_sound, is preserved by union / intersection / difference over
   mutually regular bounds (C05_class_closed_and_exact), so the answers about two constraints obtained by any history of operations are
   answers about what the two expressions mean: a "contains" never wrong, a "do not overlap" never wrong *)
Theorem C12_answers_on_expressions : forall B, mutual B -> forall e1 e2 x y, leaves_in B e1 -> leaves_in B e2 -> ceval e1 = Ok x -> ceval e2 = Ok y ->
  (allows_all x y = true -> forall v, wf v = true -> regB B v = true -> cmeans e2 v = true -> cmeans e1 v = true) /\
  (allows_any x y = Ok false -> forall v, wf v = true -> regB B v = true -> cmeans e1 v && cmeans e2 v = false).
Proof. exact answers_on_expressions. Qed.
Print Assumptions C12_answers_on_expressions.
