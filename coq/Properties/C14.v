(* C14 — core metadata is well-formed and faithful: the rendering part.
   Model: Model/Meta.v (get_metadata_content with the CR/LF guard; an RFC 822 header reader in the manner of
   email.feedparser).  Proved: the rendered header lines read back as exactly the intended fields, in order, each
   value intact up to leading blanks, the multi-line licence as one field with indented continuation lines, and the
   body after the blank line; rendering succeeds exactly when no single-line value contains CR or LF.  So no value
   can add, remove or alter another field.  The mapping pyproject -> fields (both table styles, classifiers) and the
   splitting of the text into lines are tied by correspondence and by email.parser on the real text. *)
From Coq Require Import List Bool NArith String.
From PC Require Import Base.Result Model.Meta Proofs.MetaProofs.
Import ListNotations.

Theorem C14_roundtrip : forall m,
  parse_lines (render_lines m) = (expected_headers m, match m_description m with Some d => [d] | None => [] end).
Proof. exact render_lines_roundtrip. Qed.
Print Assumptions C14_roundtrip.
Theorem C14_no_injection_guard : forall m,
  (exists t, render m = Ok t) <-> existsb has_nl (single_line_values m) = false.
Proof. exact render_guard. Qed.
Print Assumptions C14_no_injection_guard.

Example C14_example :
  let m := mkMeta "demo" "1.0" "  padded summary: with a colon" (Some ("MIT" ++ String (Ascii.ascii_of_N 10) (String (Ascii.ascii_of_N 10) "second paragraph")))
                  (Some "a,b") None None None None (Some ">=3.8") ["Classifier :: X"] ["extra1"] ["dep (>=1.0)"] [] None (Some "From body: not a header") in
  map fst (fst (parse_lines (render_lines m))) =
  ["Metadata-Version"; "Name"; "Version"; "Summary"; "License"; "Keywords"; "Requires-Python"; "Classifier"; "Provides-Extra"; "Requires-Dist"]%string.
Proof. vm_compute. reflexivity. Qed.
