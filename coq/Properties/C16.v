From PC Require Import Model.Generic.
