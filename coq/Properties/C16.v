(* C16 — string constraints (platform, extras) form a sound set algebra.
   Model: Model/Generic.v (every class and operation, incl. the substring operators the code branches on).
   Proved here: inversion (both readings) and the clause-level and conjunction-level meets/joins on the
   == / != fragment.  The union-level distribution/de-duplication code (UnionConstraint.intersect/union) and the
   containment/overlap answers are decided by correspondence (model = implementation, structurally, on every
   generated pair) and by the oracle; not yet by theorems. *)
From Coq Require Import List Bool String.
From PC Require Import Base.Result Model.Generic Proofs.GenericProofs.
Import ListNotations.

(* full statement, kept visible *)
Definition C16_full_statement : Prop :=
  forall a b : gc,
    (forall r, g_intersect a b = Ok r -> forall x, sat r x = sat a x && sat b x) /\
    (forall r, g_union a b = Ok r -> forall x, sat r x = sat a x || sat b x) /\
    (forall r, g_invert a = Ok r -> forall x, sat r x = negb (sat a x)).

Theorem C16_invert_clause : forall a x, atom_sat (atom_invert a) x = negb (atom_sat a x).
Proof. exact atom_invert_sat. Qed.
Print Assumptions C16_invert_clause.
Theorem C16_invert_clause_extras : forall a act, eqne a = true -> atom_xsat (atom_invert a) act = negb (atom_xsat a act).
Proof. exact atom_invert_xsat. Qed.
Print Assumptions C16_invert_clause_extras.
Theorem C16_invert_conjunction : forall mx l x c,
  g_invert (GS (SMulti mx l)) = Ok c -> sat c x = negb (sat (GS (SMulti mx l)) x).
Proof. exact (fun mx l x => multi_invert_exact mx l x). Qed.
Print Assumptions C16_invert_conjunction.
Theorem C16x_invert_conjunction : forall mx l act, forallb eqne l = true ->
  forall c, g_invert (GS (SMulti mx l)) = Ok c -> xsat c act = negb (xsat (GS (SMulti mx l)) act).
Proof. exact multi_invert_exact_extras. Qed.
Print Assumptions C16x_invert_conjunction.

Theorem C16_intersect_clauses_partial : forall a b x,
  ax a = false -> ax b = false -> eqne a = true -> eqne b = true ->
  forall r, atom_intersect_atom a b = Ok r -> gs_sat r x = atom_sat a x && atom_sat b x.
Proof. exact atom_intersect_exact. Qed.
Print Assumptions C16_intersect_clauses_partial.
Theorem C16_union_clauses_partial : forall a b x,
  ax a = false -> ax b = false -> eqne a = true -> eqne b = true ->
  forall r, atom_union_atom a b = Ok r -> sat r x = atom_sat a x || atom_sat b x.
Proof. exact atom_union_exact. Qed.
Print Assumptions C16_union_clauses_partial.
Theorem C16_intersect_conjunction_clause_partial : forall l b x,
  all_ne l = true -> ax b = false -> eqne b = true ->
  forall r, multi_intersect_atom false l b = Ok r ->
  gs_sat r x = forallb (fun a => atom_sat a x) l && atom_sat b x.
Proof. exact multi_intersect_atom_exact. Qed.
Print Assumptions C16_intersect_conjunction_clause_partial.
Theorem C16_intersect_conjunctions_partial : forall l l' x r,
  multi_intersect_multi false l l' = Ok r ->
  gs_sat r x = forallb (fun a => atom_sat a x) l && forallb (fun a => atom_sat a x) l'.
Proof. exact (fun l l' x => multi_intersect_multi_exact l l' x). Qed.
Print Assumptions C16_intersect_conjunctions_partial.

(* flags: a result reported universal / empty admits every / no value — by definition of the two classes *)
Theorem C16_flags : forall c x, (g_is_any c = true -> sat c x = true) /\ (g_is_empty c = true -> sat c x = false).
Proof. intros [[| |a|mx l]|l] x; split; intros H; try discriminate; reflexivity. Qed.
Print Assumptions C16_flags.

Example C16_example :
  exists a b r, parse_g false "!=linux, !=win32" = Ok a /\ parse_g false "darwin || linux" = Ok b /\
    g_intersect a b = Ok r /\ g_str r = "darwin"%string.
Proof. do 3 eexists. repeat split; vm_compute; reflexivity. Qed.
