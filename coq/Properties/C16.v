(* C16 — string constraints (platform, extras) form a sound set algebra.
   Model: Model/Generic.v (every class and operation, incl. the substring operators the code branches on).
   Proved here: inversion for every shape (single-valued reading; conjunctions also in the extras reading); intersection
   and union for every shape — clauses, conjunctions and unions on either side, through the distribution, de-duplication
   and early exits of UnionConstraint.intersect / UnionConstraint.union — on the == / != fragment of the single-valued
   reading ([Fc]); the union level is proved for any class of members on which the member-level meet and join are exact
   (Proofs/GenericUnion.v), so extending the fragment only needs member-level facts.  Not proved: the substring operators
   (finding D35 lives there) and the containment/overlap answers; those are decided
   by correspondence (model = implementation, structurally, on every generated pair) and by the oracle. *)
From Coq Require Import List Bool String.
From PC Require Import Base.Result Model.Generic Proofs.GenericProofs Proofs.GenericUnion Proofs.GenericUnionX Proofs.GenericExtras.
Import ListNotations.

(* full statement, kept visible *)
Definition C16_full_statement : Prop :=
  forall a b : gc,
    (forall r, g_intersect a b = Ok r -> forall x, sat r x = sat a x && sat b x) /\
    (forall r, g_union a b = Ok r -> forall x, sat r x = sat a x || sat b x) /\
    (forall r, g_invert a = Ok r -> forall x, sat r x = negb (sat a x)).

Theorem C16_invert_clause : forall a x, atom_sat (atom_invert a) x = negb (atom_sat a x).
Proof. exact atom_invert_sat. Qed.
Print Assumptions C16_invert_clause.
Theorem C16_invert_clause_extras : forall a act, eqne a = true -> atom_xsat (atom_invert a) act = negb (atom_xsat a act).
Proof. exact atom_invert_xsat. Qed.
Print Assumptions C16_invert_clause_extras.
Theorem C16_invert_conjunction : forall mx l x c,
  g_invert (GS (SMulti mx l)) = Ok c -> sat c x = negb (sat (GS (SMulti mx l)) x).
Proof. exact (fun mx l x => multi_invert_exact mx l x). Qed.
Print Assumptions C16_invert_conjunction.
Theorem C16x_invert_conjunction : forall mx l act, forallb eqne l = true ->
  forall c, g_invert (GS (SMulti mx l)) = Ok c -> xsat c act = negb (xsat (GS (SMulti mx l)) act).
Proof. exact multi_invert_exact_extras. Qed.
Print Assumptions C16x_invert_conjunction.

Theorem C16_intersect_clauses_partial : forall a b x,
  ax a = false -> ax b = false -> eqne a = true -> eqne b = true ->
  forall r, atom_intersect_atom a b = Ok r -> gs_sat r x = atom_sat a x && atom_sat b x.
Proof. exact atom_intersect_exact. Qed.
Print Assumptions C16_intersect_clauses_partial.
Theorem C16_union_clauses_partial : forall a b x,
  ax a = false -> ax b = false -> eqne a = true -> eqne b = true ->
  forall r, atom_union_atom a b = Ok r -> sat r x = atom_sat a x || atom_sat b x.
Proof. exact atom_union_exact. Qed.
Print Assumptions C16_union_clauses_partial.
Theorem C16_intersect_conjunction_clause_partial : forall l b x,
  all_ne l = true -> ax b = false -> eqne b = true ->
  forall r, multi_intersect_atom false l b = Ok r ->
  gs_sat r x = forallb (fun a => atom_sat a x) l && atom_sat b x.
Proof. exact multi_intersect_atom_exact. Qed.
Print Assumptions C16_intersect_conjunction_clause_partial.
Theorem C16_intersect_conjunctions_partial : forall l l' x r,
  multi_intersect_multi false l l' = Ok r ->
  gs_sat r x = forallb (fun a => atom_sat a x) l && forallb (fun a => atom_sat a x) l'.
Proof. exact (fun l l' x => multi_intersect_multi_exact l l' x). Qed.
Print Assumptions C16_intersect_conjunctions_partial.

(* flags: a result reported universal / empty admits every / no value — by definition of the two classes *)
Theorem C16_flags : forall c x, (g_is_any c = true -> sat c x = true) /\ (g_is_empty c = true -> sat c x = false).
Proof. intros [[| |a|mx l]|l] x; split; intros H; try discriminate; reflexivity. Qed.
Print Assumptions C16_flags.

Example C16_example :
  exists a b r, parse_g false "!=linux, !=win32" = Ok a /\ parse_g false "darwin || linux" = Ok b /\
    g_intersect a b = Ok r /\ g_str r = "darwin"%string.
Proof. do 3 eexists. repeat split; vm_compute; reflexivity. Qed.

(* Proved: the three operations, every shape, on the == / != fragment of the single-valued reading.
   [Fc c]: every clause of c is '== v' or '!= v' on a non-extra variable, conjunctions hold != clauses only (what
   MultiConstraint admits), unions are non-empty. *)
Theorem C16_intersect_exact : forall x a b r, Fc a -> Fc b -> g_intersect a b = Ok r -> sat r x = sat a x && sat b x.
Proof. exact g_intersect_F. Qed.
Print Assumptions C16_intersect_exact.
Theorem C16_union_exact : forall x a b r, Fc a -> Fc b -> g_union a b = Ok r -> sat r x = sat a x || sat b x.
Proof. exact g_union_F. Qed.
Print Assumptions C16_union_exact.
Theorem C16_invert_exact : forall x c r, g_invert c = Ok r -> sat r x = negb (sat c x).
Proof. exact g_invert_exact. Qed.
Print Assumptions C16_invert_exact.
(* the union level by itself, for any class P of members with an exact member-level meet / join *)
Theorem C16_union_level_intersect : forall x (P : gs -> Prop),
  (forall a b r, P a -> P b -> gs_intersect a b = Ok r -> gs_sat r x = gs_sat a x && gs_sat b x /\ P r) ->
  (forall mx l a, P (SMulti mx l) -> In a l -> P (SAtom a)) ->
  forall l other r, Forall P l -> (match other with GS s => P s | GU l' => Forall P l' end) ->
  union_intersect l other = Ok r -> sat r x = existsb (fun s => gs_sat s x) l && sat other x.
Proof. exact GenericUnion.union_intersect_exact. Qed.
Print Assumptions C16_union_level_intersect.
Theorem C16_union_level_union : forall x (P : gs -> Prop),
  (forall a b u, P a -> P b -> gs_union a b = Ok u -> sat u x = gs_sat a x || gs_sat b x) ->
  forall l other r, l <> [] -> Forall P l -> (match other with GS s => P s | GU l' => Forall P l' /\ l' <> [] end) ->
  union_union l other = Ok r -> sat r x = existsb (fun s => gs_sat s x) l || sat other x.
Proof. exact GenericUnion.union_union_exact. Qed.
Print Assumptions C16_union_level_union.
Example C16_fragment_example :
  exists a b, parse_g false "!=linux, !=win32 || ==cygwin" = Ok a /\ parse_g false "darwin || linux" = Ok b /\ Fc a /\ Fc b.
Proof.
  do 2 eexists. split; [vm_compute; reflexivity|]. split; [vm_compute; reflexivity|]. split.
  - split; [|discriminate]. repeat constructor.
  - split; [|discriminate]. repeat constructor.
Qed.

(* Proved: the extras reading (multi-valued: '== v' holds when f v is among the active extras, f any function - the name
   normalisation applied at evaluation time), every shape, on the == / != clauses of 'extra' ([XFc]: clauses of the extra
   class, conjunctions without two clauses on one value).  The union level is Proofs/GenericUnionX.v, derived from the
   single-valued file by renaming the evaluation functions (tools/gen_generic_x.py) and checked by coqc like any other file. *)
Theorem C16x_intersect_exact : forall f act a b r, XFc a -> XFc b -> g_intersect a b = Ok r -> cxs f act r = cxs f act a && cxs f act b.
Proof. exact xg_intersect. Qed.
Print Assumptions C16x_intersect_exact.
Theorem C16x_union_exact : forall f act a b r, XFc a -> XFc b -> g_union a b = Ok r -> cxs f act r = cxs f act a || cxs f act b.
Proof. exact xg_union. Qed.
Print Assumptions C16x_union_exact.
(* [cxs] with the identity is the model's own extras evaluation *)
Lemma axs_id act a : eqne a = true -> axs (fun v => v) act a = atom_xsat a act.
Proof. unfold axs, atom_xsat. destruct (aop a); reflexivity. Qed.
Theorem C16x_reading : forall act a, axs (fun v => v) act a = atom_xsat a act.
Proof. intros act a. unfold axs, atom_xsat. destruct (aop a); reflexivity. Qed.
Print Assumptions C16x_reading.
