(* C02 — requirements written into built metadata mean what pyproject declared: the composition.
   Factory.create_dependency intersects the declared markers, the marker of the python range and the marker of the
   platform list; to_pep_508 prints the result.  Proved: if the simplifier keeps truth (C07's statement, level 2, here a
   premise) then the emitted marker holds exactly when every declared condition holds, the python condition being the
   exact reading of the range (C11_forward_ref).  TOML/schema handling and Package plumbing are not modelled; every
   Requires-Dist / Requires-Python / Provides-Extra line of generated projects is evaluated by the reference and
   compared with the declared meaning on every run. *)
From Coq Require Import List Bool NArith String.
From PC Require Import Base.Result Model.Pep440 Spec.Pep440Spec Model.Generic Model.Marker Model.PyRange
     Model.MarkerAlg Proofs.MarkerProofs Proofs.MarkerAlgProofs Proofs.StringClass Proofs.ExtraClass Proofs.PyRangeProofs.
From PC Require Import Model.Pep440 Spec.Pep440Spec Model.VConstraint Proofs.DiffUnion Proofs.Closure Proofs.Pep440RoundTrip Proofs.ClauseText Proofs.ConstraintText Proofs.VersionClass.
Import ListNotations.
Open Scope N_scope.

Section Composition.
  Variable E : env.
  Variables declared_markers python_marker platform_marker emitted : marker.
  (* premise: the marker algebra keeps truth on this environment (what C07 states for intersection) *)
  Hypothesis simplifier_sound :
    beval E emitted = beval E (MMulti [declared_markers; python_marker; platform_marker]).
  Theorem C02_requirement_meaning :
    beval E emitted = beval E declared_markers && beval E python_marker && beval E platform_marker.
  Proof. rewrite simplifier_sound. cbn [beval forallb]. rewrite andb_true_r, andb_assoc. reflexivity. Qed.
  (* no condition is dropped: the emitted marker never holds where a declared condition fails *)
  Corollary C02_no_condition_dropped :
    beval E emitted = true -> beval E declared_markers = true /\ beval E python_marker = true /\ beval E platform_marker = true.
  Proof. rewrite C02_requirement_meaning, !andb_true_iff. tauto. Qed.
End Composition.
Print Assumptions C02_requirement_meaning.
Print Assumptions C02_no_condition_dropped.

(* the premise discharged by the simplifier's own soundness (C07), on every class of clauses meeting its premises: the marker
   the decorated intersection returns for the three conditions holds exactly when all three hold *)
Theorem C02_requirement_meaning_simplified : forall E R, clause_class E R ->
  forall fuel st d p pl r, G R d -> G R p -> G R pl ->
  intersection_fn fuel st [d; p; pl] = Ok r -> beval E r = beval E d && beval E p && beval E pl.
Proof.
  intros E R CC fuel st d p pl r Gd Gp Gpl H.
  destruct (nary_sound E R CC fuel st [d; p; pl]) as [I _]; [repeat constructor; assumption|].
  destruct (I r H) as [V _]. rewrite V. cbn [forallb]. rewrite andb_true_r, andb_assoc. reflexivity.
Qed.
Print Assumptions C02_requirement_meaning_simplified.

(* the python condition: exact for a single range with final bounds, on every interpreter a.b.c *)
Theorem C02_python_condition : forall lo hi imin imax a b c,
  forallb (fun l => eval_pleaf l [a; b; c]) (nested_range lo hi imin imax) = in_range lo hi imin imax [a; b; c].
Proof. exact nested_range_exact. Qed.
Print Assumptions C02_python_condition.
(* Provides-Extra is written in PEP 685 normal form, which is stable *)
Theorem C02_provides_extra_normal : forall s, canon_name (canon_name s) = canon_name s.
Proof. exact canon_name_idempotent. Qed.
Print Assumptions C02_provides_extra_normal.

(* with no premise left when the three conditions are markers over string and extra comparisons (C07) *)
Theorem C02_requirement_meaning_string_extra : forall E extras, e_extras E = Some extras ->
  forall fuel st d p pl r, G (BR E) d -> G (BR E) p -> G (BR E) pl ->
  intersection_fn fuel st [d; p; pl] = Ok r -> beval E r = beval E d && beval E p && beval E pl.
Proof.
  intros E extras Hex fuel st d p pl r Gd Gp Gpl H.
  destruct (both_nary E extras Hex fuel st [d; p; pl]) as [I _]; [repeat constructor; assumption|].
  destruct (I r H) as [V _]. rewrite V. cbn [forallb]. rewrite andb_true_r, andb_assoc. reflexivity.
Qed.
Print Assumptions C02_requirement_meaning_string_extra.

(* ... and when they also hold comparison clauses of python_full_version (the third clause class of C07) *)
Theorem C02_requirement_meaning_string_extra_version : forall E extras, e_extras E = Some extras ->
  forall ev, printable ev = true -> lookup pfv (e_vars E) = Some (to_string ev) ->
  forall B, mutual B -> (forall v, In v B -> normal v = true /\ pad_ok v = true /\ is_local v = false) -> regB B (reparsed ev) = true ->
  forall fuel st d p pl r, G (AR E B) d -> G (AR E B) p -> G (AR E B) pl ->
  intersection_fn fuel st [d; p; pl] = Ok r -> beval E r = beval E d && beval E p && beval E pl.
Proof.
  intros E extras Hex ev Pev Hl B MU BN Rg fuel st d p pl r Gd Gp Gpl H.
  destruct (nary_sound E (AR E B) (all_clause_class E extras Hex ev Pev Hl B MU BN Rg) fuel st [d; p; pl]) as [I _]; [repeat constructor; assumption|].
  destruct (I r H) as [V _]. rewrite V. cbn [forallb]. rewrite andb_true_r, andb_assoc. reflexivity.
Qed.
Print Assumptions C02_requirement_meaning_string_extra_version.
