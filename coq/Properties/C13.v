(* C13 — marker normal forms and marker text.
   Proved: the two facts the text/structure relation rests on, and (level 2, partial — on every class of clauses meeting the premises of
   Proofs/MarkerAlgProofs.v) that cnf and dnf keep the truth table, as do MultiMarker.of / MarkerUnion.of.
   Every cnf/dnf/intersect/union/invert result of the implementation is printed, re-parsed (poetry-core and the
   reference parser) and compared on the environment grid by the oracle, and the model computes the same structures
   (byte-identical text required). *)
From Coq Require Import List Bool NArith String.
From PC Require Import Base.Result Model.Generic Model.Marker Model.MarkerAlg Proofs.MarkerProofs Proofs.MarkerAlgProofs Proofs.StringClass Proofs.ExtraClass.
From PC Require Import Model.Pep440 Spec.Pep440Spec Model.VConstraint Proofs.DiffUnion Proofs.Closure Proofs.Pep440RoundTrip Proofs.ClauseText Proofs.ConstraintText Proofs.VersionClass.
Import ListNotations.

(* evaluation depends on the Boolean structure only *)
Theorem C13_structure : forall E m, leaves_ok E m = true -> validate m E = Ok (beval E m).
Proof. exact validate_beval. Qed.
Print Assumptions C13_structure.
(* re-building a conjunction / disjunction from its members (what parsing the printed text does) keeps the meaning, on any
   class R of clauses on which equal keys mean equal values *)
Theorem C13_rebuild : forall E (R : marker -> Prop),
  (forall x y, is_leaf_like x = true -> is_leaf_like y = true -> R x -> R y -> marker_eqb x y = true -> beval E x = beval E y) ->
  forall l, Forall (G R) l ->
    beval E (mk_union_marker l) = existsb (beval E) l /\ beval E (mk_multi_marker l) = forallb (beval E) l.
Proof.
  intros E R K l Gl. pose proof (fun a b Ga Gb => lift_key E R K a Ga b Gb) as HK.
  split; [exact (proj1 (mk_union_bv E R HK l Gl)) | exact (proj1 (mk_multi_bv E R HK l Gl))].
Qed.
Print Assumptions C13_rebuild.

(* cnf, dnf and the two "of" constructors keep the truth table, on every [clause_class] (see C07 for what that is and
   for a class on which the premises are proved) *)
Theorem C13_normal_forms_partial : forall E R, clause_class E R ->
  forall fuel st m, G R m ->
    (forall r, cnf fuel st m = Ok r -> beval E r = beval E m /\ G R r) /\ (forall r, dnf fuel st m = Ok r -> beval E r = beval E m /\ G R r).
Proof. exact normal_forms_sound. Qed.
Print Assumptions C13_normal_forms_partial.
Theorem C13_of_partial : forall E R, clause_class E R ->
  forall fuel st ms, Forall (G R) ms ->
    (forall r, multi_of fuel st ms = Ok r -> beval E r = forallb (beval E) ms /\ G R r) /\
    (forall r, union_of_m fuel st ms = Ok r -> beval E r = existsb (beval E) ms /\ G R r).
Proof. exact of_sound. Qed.
Print Assumptions C13_of_partial.
Theorem C13_class_exists : forall E, clause_class E demo_R.
Proof. exact demo_class. Qed.
Print Assumptions C13_class_exists.

(* no premise left on markers over '==' / '!=' comparisons of string variables with plain values (see C07) *)
Theorem C13_normal_forms_string_markers : forall E fuel st m, G (SR E) m ->
  (forall r, cnf fuel st m = Ok r -> beval E r = beval E m /\ G (SR E) r) /\ (forall r, dnf fuel st m = Ok r -> beval E r = beval E m /\ G (SR E) r).
Proof. exact string_normal_forms. Qed.
Print Assumptions C13_normal_forms_string_markers.

Theorem C13_normal_forms_string_extra_markers : forall E extras, e_extras E = Some extras -> forall fuel st m, G (BR E) m ->
  (forall r, cnf fuel st m = Ok r -> beval E r = beval E m /\ G (BR E) r) /\ (forall r, dnf fuel st m = Ok r -> beval E r = beval E m /\ G (BR E) r).
Proof. exact both_normal_forms. Qed.
Print Assumptions C13_normal_forms_string_extra_markers.

(* ... and for markers that also hold comparison clauses of python_full_version (the class of C07_intersect_union_string_extra_version_markers) *)
Theorem C13_normal_forms_string_extra_version_markers : forall E extras, e_extras E = Some extras ->
  forall ev, printable ev = true -> lookup pfv (e_vars E) = Some (to_string ev) ->
  forall B, mutual B -> (forall v, In v B -> normal v = true /\ pad_ok v = true /\ is_local v = false) -> regB B (reparsed ev) = true ->
  forall fuel st m, G (AR E B) m ->
  (forall r, cnf fuel st m = Ok r -> beval E r = beval E m /\ G (AR E B) r) /\ (forall r, dnf fuel st m = Ok r -> beval E r = beval E m /\ G (AR E B) r).
Proof. exact all_normal_forms. Qed.
Print Assumptions C13_normal_forms_string_extra_version_markers.
