(* C13 — marker normal forms and marker text.
   The normal-form search (cnf/dnf) is level 2 and not yet modelled; every cnf/dnf/intersect/union/invert result of
   the implementation is printed, re-parsed (poetry-core and the reference parser) and compared on the environment
   grid by the oracle, and the model evaluates and prints the same structures (byte-identical text required).
   Proved: the two facts the text/structure relation rests on. *)
From Coq Require Import List Bool NArith String.
From PC Require Import Base.Result Model.Generic Model.Marker Proofs.MarkerProofs.
Import ListNotations.

(* evaluation depends on the Boolean structure only *)
Theorem C13_structure : forall E m, leaves_ok E m = true -> validate m E = Ok (beval E m).
Proof. exact validate_beval. Qed.
Print Assumptions C13_structure.
(* re-building a conjunction / disjunction from its members (what parsing the printed text does) keeps the meaning *)
Theorem C13_rebuild : forall E,
  (forall a b, marker_eqb a b = true -> beval E a = beval E b) ->
  forall l, beval E (mk_union_marker l) = existsb (beval E) l /\ beval E (mk_multi_marker l) = forallb (beval E) l.
Proof. intros E H l. split; [apply flatten_union_sound | apply flatten_multi_sound]; exact H. Qed.
Print Assumptions C13_rebuild.
