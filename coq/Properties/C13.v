(* C13 — marker normal forms and marker text.
   Proved: the two facts the text/structure relation rests on, and (level 2, partial — relative to the premises of
   Proofs/MarkerAlgProofs.v) that cnf and dnf keep the truth table, as do MultiMarker.of / MarkerUnion.of.
   Every cnf/dnf/intersect/union/invert result of the implementation is printed, re-parsed (poetry-core and the
   reference parser) and compared on the environment grid by the oracle, and the model computes the same structures
   (byte-identical text required). *)
From Coq Require Import List Bool NArith String.
From PC Require Import Base.Result Model.Generic Model.Marker Model.MarkerAlg Proofs.MarkerProofs Proofs.MarkerAlgProofs.
Import ListNotations.

(* evaluation depends on the Boolean structure only *)
Theorem C13_structure : forall E m, leaves_ok E m = true -> validate m E = Ok (beval E m).
Proof. exact validate_beval. Qed.
Print Assumptions C13_structure.
(* re-building a conjunction / disjunction from its members (what parsing the printed text does) keeps the meaning *)
Theorem C13_rebuild : forall E,
  (forall a b, marker_eqb a b = true -> beval E a = beval E b) ->
  forall l, beval E (mk_union_marker l) = existsb (beval E) l /\ beval E (mk_multi_marker l) = forallb (beval E) l.
Proof. intros E H l. split; [apply flatten_union_sound | apply flatten_multi_sound]; exact H. Qed.
Print Assumptions C13_rebuild.

Theorem C13_normal_forms_partial : forall E, key_sound E -> key_symmetric -> merge_sound E ->
  forall fuel st m,
    (forall r, cnf fuel st m = Ok r -> beval E r = beval E m) /\ (forall r, dnf fuel st m = Ok r -> beval E r = beval E m).
Proof. exact normal_forms_sound. Qed.
Print Assumptions C13_normal_forms_partial.
Theorem C13_of_partial : forall E, key_sound E -> key_symmetric -> merge_sound E ->
  forall fuel st ms,
    (forall r, multi_of fuel st ms = Ok r -> beval E r = forallb (beval E) ms) /\
    (forall r, union_of_m fuel st ms = Ok r -> beval E r = existsb (beval E) ms).
Proof. exact of_sound. Qed.
Print Assumptions C13_of_partial.
