(* C19 — parsers accept or reject with the documented error, never crash: the post-lexing pipelines.
   Because every raise / assert / index of the Python code is an explicit [Err] in the model, "can only fail
   with the documented errors" is a real statement.  re, lark, fastjsonschema and the requirement / dependency
   parsers are covered by fuzzing on the implementation (with the model compared on outcome class). *)
From Coq Require Import List Bool NArith String.
From PC Require Import Base.Result Model.Pep440 Spec.Pep440Spec Model.VConstraint
     Proofs.Pep440Parse Proofs.UnionTotal Proofs.ParseTotal Proofs.UnionHull Proofs.UnionTotalGood Proofs.InterTotal Proofs.CommaDefined Proofs.DiffUnion Proofs.Closure Proofs.ExprTotal.
Import ListNotations.

(* versions: accepted -> a well-formed version (which always prints); otherwise InvalidVersionError *)
Theorem C19_version_total : forall s, (exists v, parse s = Some v /\ wf v = true) \/ parse s = None.
Proof. intros s. destruct (parse s) as [v|] eqn:E; [left; exists v; split; [reflexivity|apply (parse_wf s); exact E]|right; reflexivity]. Qed.
Print Assumptions C19_version_total.
(* one clause of a version constraint: only ParseConstraintError / InvalidVersionError / ValueError *)
Theorem C19_clause_errors : forall m s e, parse_single m s = Err e -> documented e.
Proof. exact parse_single_errors. Qed.
Print Assumptions C19_clause_errors.
(* VersionUnion.of on version ranges never trips its assertion *)
Theorem C19_union_of_ranges_total : forall fuel cs,
  forallb is_rr (flat_map flatten cs) = true -> exists c, vunion_of (S fuel) cs = Ok c.
Proof. exact union_of_ranges_total. Qed.
Print Assumptions C19_union_of_ranges_total.

(* no AssertionError either when the members are good (bounds well-formed, proper, without local label): a comma set whose clauses
   parse is then defined (the intersections never reach the asserts of VersionRange.intersect), and so is a '||' of defined groups
   (VersionUnion.of never indexes an empty list or loops).  D44 was exactly a comma set leaving this class ("<1.dev0.*" built an
   improper range). *)
Theorem C19_comma_set_defined : forall m clauses cs, clauses <> [] -> mapR (parse_single_pep m) clauses = Ok cs ->
  forallb goodc cs = true -> exists g, parse_group m clauses = Ok g /\ goodc g = true.
Proof. exact comma_set_defined. Qed.
Print Assumptions C19_comma_set_defined.
Theorem C19_or_groups_defined : forall m groups gs, mapR (parse_group m) groups = Ok gs -> forallb goodc gs = true ->
  exists c, parse_constraint_groups m groups = Ok c.
Proof. exact or_groups_defined. Qed.
Print Assumptions C19_or_groups_defined.
Example C19_comma_set_defined_example : exists cs, mapR (parse_single_pep false) [">=1.0"; "!=1.5"; "<2.0"]%string = Ok cs /\ forallb goodc cs = true.
Proof. eexists. split; vm_compute; reflexivity. Qed.

(* ... for any history: every expression built from union / intersection / difference over constraints with good, ordered, separated members
   and mutually regular bounds evaluates (no AssertionError, RecursionError or ValueError from the algebra) *)
Theorem C19_every_expression_defined : forall B, mutual B -> forall e, leaves_in' B e -> exists c, ceval e = Ok c.
Proof. intros B MU e L. destruct (expr_total B MU e L) as (c & H & _). exists c. exact H. Qed.
Print Assumptions C19_every_expression_defined.
