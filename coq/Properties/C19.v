(* C19 — parsers accept or reject with the documented error, never crash: the post-lexing pipelines.
   Because every raise / assert / index of the Python code is an explicit [Err] in the model, "can only fail
   with the documented errors" is a real statement.  re, lark, fastjsonschema and the requirement / dependency
   parsers are covered by fuzzing on the implementation (with the model compared on outcome class). *)
From Coq Require Import List Bool NArith String.
From PC Require Import Base.Result Model.Pep440 Spec.Pep440Spec Model.VConstraint
     Proofs.Pep440Parse Proofs.UnionTotal Proofs.ParseTotal.
Import ListNotations.

(* versions: accepted -> a well-formed version (which always prints); otherwise InvalidVersionError *)
Theorem C19_version_total : forall s, (exists v, parse s = Some v /\ wf v = true) \/ parse s = None.
Proof. intros s. destruct (parse s) as [v|] eqn:E; [left; exists v; split; [reflexivity|apply (parse_wf s); exact E]|right; reflexivity]. Qed.
Print Assumptions C19_version_total.
(* one clause of a version constraint: only ParseConstraintError / InvalidVersionError / ValueError *)
Theorem C19_clause_errors : forall m s e, parse_single m s = Err e -> documented e.
Proof. exact parse_single_errors. Qed.
Print Assumptions C19_clause_errors.
(* VersionUnion.of on version ranges never trips its assertion *)
Theorem C19_union_of_ranges_total : forall fuel cs,
  forallb is_rr (flat_map flatten cs) = true -> exists c, vunion_of (S fuel) cs = Ok c.
Proof. exact union_of_ranges_total. Qed.
Print Assumptions C19_union_of_ranges_total.
