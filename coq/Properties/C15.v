(* C15 — constraint text round-trips; range operators and bumps are monotone.
   Proved here: the bump and range-operator half, from the TEXT of the clause for every version literal in normal form
   (C15_operator_text), and the text round trip - what str() prints parses back to the very same constraint - for single
   versions, half-lines and bounded ranges (C15_printed_range_roundtrip), wildcard ranges (C15_wildcard_roundtrip), exclusions
   '!=V' (C15_exclusion_roundtrip), negated wildcards '!=R.*' (C15_negated_wildcard_roundtrip) and unions of those printed group
   by group (C15_union_roundtrip, C15_union_roundtrip_with_wildcards), for bounds in normal form.
   Left to the correspondence run (str() of every model result equals the implementation's, byte for byte) and the oracle
   (re-parse and compare on regular probes; reference specifier syntax): bounds whose text is not the normal form, wildcards
   with an epoch or more than three components, unions that contain an exclusion-shaped pair. *)
From Coq Require Import List Bool NArith String.
From PC Require Import Base.Cmp Base.Result Model.Pep440 Spec.Pep440Spec Spec.Specifier Model.VConstraint
     Proofs.VersionFacts Proofs.RangeSpec Proofs.SpecifierAgree Proofs.Bumps Proofs.Compat Proofs.Pep440RoundTrip Proofs.ClauseText Proofs.AnyIff Proofs.ConstraintText
     Proofs.WildcardText Proofs.WildcardMembership Proofs.ExclusionText Proofs.WildcardPrint Proofs.UnionOfNormal Proofs.UnionText Proofs.NegatedWildcard Proofs.MixedUnionText.
Import ListNotations.
Open Scope string_scope.

Theorem C15_next_major : forall v, wf v = true -> is_final (next_major v) = true /\ vltb v (next_major v) = true.
Proof. exact next_major_spec. Qed.
Print Assumptions C15_next_major.
Theorem C15_next_minor : forall v, wf v = true -> is_final (next_minor v) = true /\ vltb v (next_minor v) = true.
Proof. exact next_minor_spec. Qed.
Print Assumptions C15_next_minor.
Theorem C15_next_patch : forall v, wf v = true -> is_final (next_patch v) = true /\ vltb v (next_patch v) = true.
Proof. exact next_patch_spec. Qed.
Print Assumptions C15_next_patch.
Theorem C15_next_breaking : forall v, wf v = true ->
  is_final (next_breaking v) = true /\ vltb v (next_breaking v) = true /\
  epoch (next_breaking v) = epoch v /\ rel_lt (rel v) (rel (next_breaking v)) = true.
Proof. exact next_breaking_spec. Qed.
Print Assumptions C15_next_breaking.

(* ^V admits V and rejects its upper bound together with every version of the bound's release that is
   not above it (the bound itself, its pre-releases and dev releases, and local builds thereof) *)
Theorem C15_caret : forall v, wf v = true ->
  r_allows (caret_range v) v = true /\
  forall x, wf x = true -> same_class x (next_breaking v) = true -> vltb (next_breaking v) x = false ->
    r_allows (caret_range v) x = false.
Proof. exact caret_spec. Qed.
Print Assumptions C15_caret.
Theorem C15_tilde : forall v, wf v = true ->
  let hi := if Nat.eqb (List.length (rel v)) 1 then next_major (stable v) else next_minor (stable v) in
  is_final hi = true /\ vltb v hi = true /\
  r_allows (tilde_range v) v = true /\
  forall x, wf x = true -> same_class x hi = true -> vltb hi x = false -> r_allows (tilde_range v) x = false.
Proof. exact tilde_spec. Qed.
Print Assumptions C15_tilde.

(* the parser builds exactly caret_range / tilde_range / compat_range from the text of the clause, for every version literal in
   normal form (every printable v, i.e. everything the version parser returns); [reparsed v] is v with the normal form as text *)
Theorem C15_operator_text : forall m v, printable v = true ->
  parse_single m ("^" ++ to_string v) = Ok (VOne (caret_range (reparsed v))) /\
  parse_single m ("~" ++ to_string v) = Ok (VOne (tilde_range (reparsed v))) /\
  parse_single m ("~=" ++ to_string v) = Ok (VOne (compat_range (reparsed v))).
Proof. intros m v P. repeat split; [exact (clause_caret m v P)|exact (clause_tilde m v P)|exact (clause_compatible m v P)]. Qed.
Print Assumptions C15_operator_text.
(* from the text of the clause to its meaning: '^V' (likewise '~V', '~=V' with C15_tilde / C15_compatible_release) read from text admits V
   and rejects its upper bound together with the bound's pre- and dev-releases *)
Theorem C15_caret_text_meaning : forall m v, printable v = true ->
  exists r, parse_single m ("^" ++ to_string v) = Ok (VOne r) /\
    r_allows r (reparsed v) = true /\
    forall x, wf x = true -> same_class x (next_breaking (reparsed v)) = true -> vltb (next_breaking (reparsed v)) x = false -> r_allows r x = false.
Proof.
  intros m v P. exists (caret_range (reparsed v)). split; [exact (clause_caret m v P)|].
  assert (W : wf (reparsed v) = true) by (unfold printable in P; apply Bool.andb_true_iff in P as [W _]; exact W).
  exact (caret_spec (reparsed v) W).
Qed.
Print Assumptions C15_caret_text_meaning.
(* instances with blanks and a pre-release, and what is printed back *)
Example C15_desugar :
  exists v, parse "0.2.3rc1" = Some v /\ wf v = true /\
    parse_single false "^0.2.3rc1" = Ok (VOne (caret_range v)) /\
    parse_single false "~ 0.2.3rc1" = Ok (VOne (tilde_range v)) /\
    vc_str (VOne (caret_range v)) = Ok ">=0.2.3rc1,<0.3.0" /\
    vc_str (VOne (tilde_range v)) = Ok ">=0.2.3rc1,<0.3.0".
Proof. eexists. repeat split; vm_compute; reflexivity. Qed.

(* ~=V (the PEP 440 compatible-release clause as the parser builds it, for 1 to any number of release components): the upper bound
   is a final release strictly above V; the range admits V and rejects the upper bound and every version of its release class
   that is not above it (its pre- and dev-releases) *)
Theorem C15_compatible_release : forall v, wf v = true ->
  is_final (compat_high v) = true /\ vltb v (compat_high v) = true /\
  r_allows (compat_range v) v = true /\
  forall x, wf x = true -> same_class x (compat_high v) = true -> vltb (compat_high v) x = false -> r_allows (compat_range v) x = false.
Proof. exact compat_spec. Qed.
Print Assumptions C15_compatible_release.
(* [compat_range] is what parse_single builds *)
Example C15_compat_is_parsed :
  exists v w u, parse "2.1.0rc1" = Some v /\ parse_single false "~=2.1.0rc1" = Ok (VOne (compat_range v)) /\ vc_str (VOne (compat_range v)) = Ok ">=2.1.0rc1,<2.2.0" /\
    parse "1.4.5.2" = Some w /\ parse_single false "~=1.4.5.2" = Ok (VOne (compat_range w)) /\
    parse "1!3.7" = Some u /\ parse_single false "~= 1!3.7" = Ok (VOne (compat_range u)).
Proof. do 3 eexists. repeat split; vm_compute; reflexivity. Qed.

(* the text round trip, as a theorem, for single versions, half-lines and bounded ranges: what str() prints parses back (through the
   two re.split calls of _parse_constraint and the clause patterns) to the very same constraint.  [normal v]: v is printable
   and carries its normal form as text (true of every bound the algebra builds and of every bound parsed from normal text);
   bounded ranges must be proper, not degenerate ('>=2.0.dev1,<2.0' parses to the empty constraint) and not of the shape that
   prints as a wildcard. *)
Theorem C15_printed_range_roundtrip : forall m r,
  match r with
  | RV v => normal v = true
  | RR (Some a) None _ false => normal a = true
  | RR None (Some b) false _ => normal b = true
  | RR (Some a) (Some b) _ _ => normal a = true /\ normal b = true /\ vltb a b = true /\ nondeg r = true /\ is_single_wildcard_range r = false
  | _ => False
  end ->
  parse_constraint_text m true (r_str r) = Ok (VOne r).
Proof. exact printed_range_roundtrip. Qed.
Print Assumptions C15_printed_range_roundtrip.
Example C15_roundtrip_example :
  exists a b, parse "1!2.0rc1" = Some a /\ parse "1!3.1.post2" = Some b /\ normal a = true /\ normal b = true /\
    vltb a b = true /\ nondeg (RR (Some a) (Some b) false true) = true /\ is_single_wildcard_range (RR (Some a) (Some b) false true) = false /\
    r_str (RR (Some a) (Some b) false true) = ">1!2.0rc1,<=1!3.1.post2".
Proof. do 2 eexists. repeat split; vm_compute; reflexivity. Qed.

(* the text round trip of the remaining printed forms *)
(* an exclusion: printed as '!=V' (excludes_single_version finds V), read back as the same two half-lines *)
Theorem C15_exclusion_roundtrip : forall m v, normal v = true ->
  vc_str (excl v) = Ok ("!=" ++ text v) /\ parse_constraint_text m true ("!=" ++ text v) = Ok (excl v).
Proof. exact exclusion_text_roundtrip. Qed.
Print Assumptions C15_exclusion_roundtrip.
(* a wildcard range: printed as '==R.*', read back as the same range *)
Theorem C15_wildcard_roundtrip : forall m R, (1 <= List.length R <= 3)%nat ->
  r_str (wild_range R) = "==" ++ rel_text R ++ ".*" /\
  parse_single m ("==" ++ rel_text R ++ ".*") = match make_x_constraint_range (bare R) false m with Ok c => Ok c | Err _ => Err EValue end /\
  make_x_constraint_range (bare R) false false = Ok (VOne (wild_range R)).
Proof. exact wildcard_text_roundtrip. Qed.
Print Assumptions C15_wildcard_roundtrip.
(* a union of versions, half-lines and bounded ranges that is printed group by group: read back as the same union, provided its members
   are in order and pairwise apart ([apart_all]: no overlap, no adjacency - decidable; VersionUnion.of returns such a list unchanged) *)
Theorem C15_union_roundtrip : forall m l, (2 <= List.length l)%nat -> apart_all l = true -> Forall range_shape l ->
  vc_str (VUnion l) = Ok (sjoin " || " (map r_str l)) ->
  exists s, vc_str (VUnion l) = Ok s /\ parse_constraint_text m true s = Ok (VUnion l).
Proof. exact printed_union_roundtrip. Qed.
Print Assumptions C15_union_roundtrip.
Example C15_union_roundtrip_example :
  exists a b c, parse "1.0" = Some a /\ parse "2.0rc1" = Some b /\ parse "3.1" = Some c /\
    let l := [RR (Some a) (Some b) true false; RV c] in
    apart_all l = true /\ vc_str (VUnion l) = Ok ">=1.0,<2.0rc1 || 3.1" /\ sjoin " || " (map r_str l) = ">=1.0,<2.0rc1 || 3.1" /\
    normal a = true /\ normal b = true /\ normal c = true /\ vltb a b = true /\ nondeg (RR (Some a) (Some b) true false) = true /\
    is_single_wildcard_range (RR (Some a) (Some b) true false) = false.
Proof. do 3 eexists. repeat split; vm_compute; reflexivity. Qed.

(* a negated wildcard: printed as '!=R.*', read back as the same two half-lines *)
Theorem C15_negated_wildcard_roundtrip : forall R, (1 <= List.length R <= 3)%nat ->
  vc_str (nwild R) = Ok ("!=" ++ rel_text R ++ ".*") /\ parse_single false ("!=" ++ rel_text R ++ ".*") = Ok (nwild R).
Proof. exact nwild_text_roundtrip. Qed.
Print Assumptions C15_negated_wildcard_roundtrip.
(* unions whose members may also be wildcard ranges *)
Theorem C15_union_roundtrip_with_wildcards : forall l, (2 <= List.length l)%nat -> apart_all l = true -> Forall member_shape l ->
  vc_str (VUnion l) = Ok (sjoin " || " (map r_str l)) ->
  exists s, vc_str (VUnion l) = Ok s /\ parse_constraint_text false true s = Ok (VUnion l).
Proof. exact printed_union_roundtrip_w. Qed.
Print Assumptions C15_union_roundtrip_with_wildcards.
