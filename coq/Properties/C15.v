From PC Require Import Model.VConstraint.
