(* C11 — Python ranges and python_version markers convert into each other exactly.
   Model: Model/PyRange.v (the variable/operator choice of create_nested_marker for one range or version with
   final bounds).  Proved: the choice is exact for every interpreter X.Y.Z under the reference reading of the two
   variables; the single-version branch is refuted for precision < 3 (finding D14) and proved for precision 3.
   The backward direction (marker -> range) goes through the simplifier (level 2) and is judged by the oracle. *)
From Coq Require Import List Bool NArith String.
From PC Require Import Base.Cmp Model.Pep440 Spec.Pep440Spec Model.PyRange Proofs.PyRangeProofs.
Import ListNotations.
Open Scope N_scope.

Theorem C11_forward_ref : forall lo hi imin imax a b c,
  forallb (fun l => eval_pleaf l [a; b; c]) (nested_range lo hi imin imax) = in_range lo hi imin imax [a; b; c].
Proof. exact nested_range_exact. Qed.
Print Assumptions C11_forward_ref.
Theorem C11_single_version_refuted :
  exists v a b c, eval_pleaf (single_leaf v) [a; b; c] <> is_eq (cmp_rel_pad [a; b; c] v).
Proof. exact single_version_refuted. Qed.
Print Assumptions C11_single_version_refuted.
Theorem C11_single_version_partial : forall v a b c, (3 <= List.length v)%nat ->
  eval_pleaf (single_leaf v) [a; b; c] = is_eq (cmp_rel_pad [a; b; c] v).
Proof. exact single_version_exact_precision3. Qed.
Print Assumptions C11_single_version_partial.

Example C11_example :
  nested_str (nested_range (Some [3; 6]) (Some [4]) true false) = "python_version >= ""3.6"" and python_version < ""4"""%string /\
  nested_str (nested_range (Some [3; 6]) (Some [3; 9]) false true) =
    "python_full_version > ""3.6.0"" and python_full_version <= ""3.9.0"""%string /\
  nested_str (nested_range (Some [3; 6; 1]) None true false) = "python_full_version >= ""3.6.1"""%string.
Proof. repeat split; vm_compute; reflexivity. Qed.
