From PC Require Import Model.Marker.
