(* C05 — intersection, union and difference of version constraints are exact set operations.
   Model: Model/VConstraint.v.  Proofs: Proofs/RangeSpec.v, RangeAlg.v, RangeOps.v, UnionHull.v, UnionExact.v. *)
From Coq Require Import List Bool NArith String.
From PC Require Import Base.Cmp Base.Result Model.Pep440 Spec.Pep440Spec Model.VConstraint
     Proofs.VersionFacts Proofs.RangeSpec Proofs.RangeAlg Proofs.RangeOps Proofs.UnionHull Proofs.UnionExact Proofs.Contain Proofs.InterExact Proofs.DiffExact Proofs.DiffUnion Proofs.UnionTotalGood Proofs.DiffTotal Proofs.InterTotal Model.VHyp Proofs.SortedOrder Proofs.UnionSorted Proofs.Closure Proofs.ExprTotal.
From PC Require Import Gen.RangeCmp Proofs.GenAgreeRange.
Import ListNotations.

(* The property at full strength (every constraint shape, the three operations), kept visible.
   [regular_c v c]: v is regular for every bound of c; [wf_c]: bounds well-formed, ranges proper. *)
(* regular_c is defined in Proofs/UnionHull.v: forallb (regular1 v) (cbounds c) *)
Definition wf_c (c : vc) : bool := forallb wf (cbounds c) && forallb proper (flatten c).
Definition C05_full_statement : Prop :=
  forall a b, wf_c a = true -> wf_c b = true ->
  exists ci cu cd, intersect a b = Ok ci /\ union a b = Ok cu /\ difference a b = Ok cd /\
    forall v, wf v = true -> regular_c v a = true -> regular_c v b = true ->
    exists x y, allows a v = Ok x /\ allows b v = Ok y /\
      allows ci v = Ok (x && y) /\ allows cu v = Ok (x || y) /\ allows cd v = Ok (x && negb y).

(* Proved: on regular probes membership in a range-like is plain interval membership
   (all PEP 440 adjustments of VersionRange.allows / Version.allows are invisible there). *)
Theorem C05_allows_regular : forall r v, wf_rng r = true -> wf v = true -> regular_r v r = true ->
  r_allows r v = mem r v.
Proof. exact allows_regular. Qed.
Print Assumptions C05_allows_regular.

(* Proved: what the four bound comparisons answer means, for every regular probe. *)
Theorem C05_allows_lower_spec : forall a b v, regular_r v a = true -> regular_r v b = true ->
  (allows_lower a b = true -> above b v = true -> above a v = true) /\
  (allows_lower a b = false -> above a v = true -> above b v = true).
Proof. exact allows_lower_spec. Qed.
Print Assumptions C05_allows_lower_spec.
Theorem C05_allows_higher_spec : forall a b v,
  wf_rng a = true -> wf_rng b = true -> regular_r v a = true -> regular_r v b = true ->
  (allows_higher a b = true -> below b v = true -> below a v = true) /\
  (allows_higher a b = false -> below a v = true -> below b v = true).
Proof. exact allows_higher_spec. Qed.
Print Assumptions C05_allows_higher_spec.
Theorem C05_strictly_lower_spec : forall a b v,
  wf_rng a = true -> regular_r v a = true -> regular_r v b = true ->
  (is_strictly_lower a b = true -> below a v = true -> above b v = true -> False) /\
  (is_strictly_lower a b = false -> below a v = true \/ above b v = true).
Proof. exact strictly_lower_spec. Qed.
Print Assumptions C05_strictly_lower_spec.

(* Proved (partial: two VersionRange operands; intersection with union-valued operands and the difference
   operation are covered by the correspondence stream and the oracle, not yet by a theorem; union: see C05_union_exact):
   the intersection is defined — the assertion in VersionRange.intersect is unreachable — and admits
   a regular probe exactly when both operands do. *)
Theorem C05_intersect_partial : forall lo hi i j lo' hi' i' j',
  let a := RR lo hi i j in let b := RR lo' hi' i' j' in
  wf_rng a = true -> wf_rng b = true -> proper a = true -> proper b = true ->
  exists c, intersect (VOne a) (VOne b) = Ok c /\
    forall v, wf v = true -> regular_r v a = true -> regular_r v b = true ->
      allows c v = Ok (r_allows a v && r_allows b v).
Proof. exact intersect_ranges_exact. Qed.
Print Assumptions C05_intersect_partial.

(* combining with the empty constraint *)
Theorem C05_empty_identities : forall a,
  intersect VEmpty a = Ok VEmpty /\ union VEmpty a = Ok a /\ difference VEmpty a = Ok VEmpty /\
  (forall r, intersect (VOne r) VEmpty = Ok VEmpty) /\ (forall r, difference (VOne (RR (rmin r) (rmax r) (imin r) (imax r))) VEmpty = Ok (VOne (RR (rmin r) (rmax r) (imin r) (imax r)))).
Proof. intros a. repeat split; reflexivity. Qed.
Print Assumptions C05_empty_identities.

(* non-vacuity: parsed operands meet the hypotheses, and the theorem's conclusion is what runs *)
Example C05_example :
  exists a b c, parse_single false ">=1.0,<2.0"%string = Err ENoPattern /\
    parse_single false ">=1.0"%string = Ok (VOne a) /\ parse_single false "<2.0"%string = Ok (VOne b) /\
    wf_rng a = true /\ wf_rng b = true /\ proper a = true /\ proper b = true /\
    intersect (VOne a) (VOne b) = Ok c /\ vc_str c = Ok ">=1.0,<2.0"%string.
Proof. do 3 eexists. repeat split; vm_compute; reflexivity. Qed.

(* Proved (the union clause, every constraint shape): for operands whose bounds are well-formed, carry no local label,
   whose ranges are proper and mark no absent bound inclusive ([goodc]; every constraint the parser builds from bounds
   without local labels is one, and results are again — first conjunct), the union is exact on every regular probe, in the
   implementation's own member-by-member membership [sem].  This covers single versions, ranges and unions on either
   side, through VersionUnion.of with its sorting, look-back merging and recursion, for the fuel the model runs with.
   [allows] is [sem] except for a union that excludes exactly one version with a local label ([allows_sem]); that
   exception is why the first operand being a single version asks for [no_local_hole] of the second.
   Not covered by this theorem: that union returns at all (for ranges: Proofs/UnionTotal.v, C19). *)
Theorem C05_union_exact : forall a b c, goodc a = true -> goodc b = true ->
  (match a with VOne (RV _) => no_local_hole b | _ => True end) ->
  union a b = Ok c ->
  goodc c = true /\ forall v, wf v = true -> regular_for v [a; b] = true -> sem c v = sem a v || sem b v.
Proof. exact union_admits_exactly. Qed.
Print Assumptions C05_union_exact.
Theorem C05_allows_is_sem : forall c v b, no_local_hole c -> allows c v = Ok b -> b = sem c v.
Proof. exact allows_sem. Qed.
Print Assumptions C05_allows_is_sem.
(* VersionUnion.of itself, for every fuel *)
Theorem C05_union_of_exact : forall fuel cs c, forallb goodc cs = true -> vunion_of fuel cs = Ok c ->
  goodc c = true /\ incl (cbounds c) (flat_map cbounds cs) /\
  forall v, wf v = true -> regular_for v cs = true -> sem c v = existsb (fun x => sem x v) cs.
Proof. intros fuel cs c G H. exact (exact_sem cs c G (vunion_of_sound fuel cs c G H)). Qed.
Print Assumptions C05_union_of_exact.
(* ... and defined: VersionUnion.of and union never raise on such operands, for every positive fuel (the look-back merge never trips
   its assertion, the recursion guard is never needed) *)
Theorem C05_union_of_defined : forall fuel cs, forallb goodc cs = true -> exists c, vunion_of (S fuel) cs = Ok c.
Proof. exact vunion_of_total. Qed.
Print Assumptions C05_union_of_defined.
Theorem C05_union_defined : forall a b, goodc a = true -> goodc b = true ->
  (match a with VOne (RV x) => exists al, allows b x = Ok al | _ => True end) ->
  exists c, union a b = Ok c.
Proof. exact union_total. Qed.
Print Assumptions C05_union_defined.
(* non-vacuity: parsed operands (a union and a range that bridges its members) meet the hypotheses, the union runs,
   and the result is the single range one expects *)
Example C05_union_example :
  exists a b c, parse_constraint_text false false ">=1.0,<2.0 || >3.0,<=4.0"%string = Ok a /\
    parse_constraint_text false false ">=2.0,<=3.0"%string = Ok b /\
    goodc a = true /\ goodc b = true /\ union a b = Ok c /\ vc_str c = Ok ">=1.0,<=4.0"%string.
Proof. do 3 eexists. repeat split; vm_compute; reflexivity. Qed.

(* Proved (the intersection clause, every constraint shape): as C05_union_exact, with the further decidable hypothesis that
   the members of each union are sorted and apart ([sorted_c]: every earlier member is strictly lower than every later
   one — what VersionUnion.of establishes; the check evaluates [h_goodc] and [h_sorted] on every generated operand and
   reports how many meet them).  The two-pointer walk of VersionUnion.intersect is proved complete: no overlapping pair of
   members is skipped. *)
Theorem C05_intersect_exact : forall a b c, goodc a = true -> goodc b = true -> sorted_c a = true -> sorted_c b = true ->
  intersect a b = Ok c ->
  goodc c = true /\ forall v, wf v = true -> regular_c v a = true -> regular_c v b = true -> sem c v = sem a v && sem b v.
Proof. exact intersect_admits_exactly. Qed.
Print Assumptions C05_intersect_exact.
(* ... and defined, with no hypothesis beyond good members: the assertion inside VersionRange.intersect never fails, the walk and
   VersionUnion.of on the pieces return *)
Theorem C05_intersect_defined : forall a b, goodc a = true -> goodc b = true -> exists c, intersect a b = Ok c.
Proof. exact intersect_total. Qed.
Print Assumptions C05_intersect_defined.
Theorem C05_hypotheses_are_the_executable_ones : forall c, h_goodc c = goodc c /\ h_sorted c = sorted_c c.
Proof. intros c. split; reflexivity. Qed.
Example C05_intersect_example :
  exists a b c, parse_constraint_text false false ">=1.0,<2.0 || >3.0,<=4.0 || 5.0"%string = Ok a /\
    parse_constraint_text false false ">=1.5,<=3.5 || >=5.0"%string = Ok b /\
    goodc a = true /\ goodc b = true /\ sorted_c a = true /\ sorted_c b = true /\
    intersect a b = Ok c /\ vc_str c = Ok ">=1.5,<2.0 || >3.0,<=3.5 || 5.0"%string /\ sorted_c c = true.
Proof. do 3 eexists. repeat split; vm_compute; reflexivity. Qed.
(* Proved (the difference clause, two range-likes of any shape — single version or range on either side): exact on regular
   probes when every bound of b is regular for a ([mreg_r], decidable: equal to, or of another release class than, each
   bound of a; without it the implementation itself builds improper pieces such as [2.0, 2.0a1]). *)
Theorem C05_difference_ranges : forall a b c, good a = true -> good b = true -> mreg_r a b = true ->
  r_difference a b = Ok c ->
  goodc c = true /\ incl (cbounds c) (rbounds a ++ rbounds b) /\
  forall v, wf v = true -> regular_r v a = true -> regular_r v b = true -> vmem c v = mem a v && negb (mem b v).
Proof. intros a b c Ga Gb MR H. destruct (r_difference_exact a b c Ga Gb MR H) as (A & B & C). auto. Qed.
Print Assumptions C05_difference_ranges.
Example C05_difference_example :
  exists a b c, parse_single false ">=1.0"%string = Ok (VOne a) /\ parse_single false "<=2.0"%string = Ok (VOne b) /\
    good a = true /\ good b = true /\ mreg_r a b = true /\ r_difference a b = Ok c /\ vc_str c = Ok ">2.0"%string.
Proof. do 3 eexists. repeat split; vm_compute; reflexivity. Qed.
(* Proved (the difference clause, every constraint shape: single versions, ranges and unions on either side, through
   VersionRange.difference(VersionUnion), VersionUnion._inverted and the two-cursor state machine of VersionUnion.difference):
   exact on regular probes, in the implementation's own member-by-member membership [sem].  Hypotheses, all decidable and
   evaluated by the check on every generated pair (Api command chyp2; the evidence reports how many pairs meet them): members
   good, unions sorted and apart, and the bounds mentioned by the two operands mutually regular ([h_mutual]: any two bounds are
   equal or of different release classes — without it the implementation itself builds improper pieces such as [2.0, 2.0a1]).
   C05_difference_exact is about results [Ok c]; that the result exists is C05_difference_defined below. *)
Theorem C05_difference_exact : forall a b c, goodc a = true -> goodc b = true -> sorted_c a = true -> sorted_c b = true ->
  h_mutual a b = true -> (match a with VOne (RV _) => no_local_hole b | _ => True end) ->
  difference a b = Ok c ->
  goodc c = true /\ forall v, wf v = true -> regular_c v a = true -> regular_c v b = true -> sem c v = sem a v && negb (sem b v).
Proof. exact difference_admits_exactly. Qed.
Print Assumptions C05_difference_exact.
(* ... and defined, under the same hypotheses (the bounds in one mutually regular set B): every step of the sweep and of the state
   machine returns, and the fuel suffices *)
Theorem C05_difference_defined : forall B a b, mutual B -> goodc a = true -> goodc b = true -> sorted_c a = true -> sorted_c b = true ->
  incl (cbounds a) B -> incl (cbounds b) B -> nonempty_union a -> nonempty_union b ->
  (match a with VOne (RV x) => exists al, allows b x = Ok al | _ => True end) ->
  exists c, difference a b = Ok c.
Proof. exact difference_total. Qed.
Print Assumptions C05_difference_defined.
(* the complement of a union (VersionUnion._inverted, used by allows / excludes_single_version and by printing) *)
Theorem C05_inverted_exact : forall B l c, mutual B -> forallb good l = true -> sepb l = true -> incl (lbounds l) B ->
  inverted l = Ok c ->
  goodc c = true /\ incl (cbounds c) B /\ forall v, wf v = true -> regB B v = true -> vmem c v = negb (lmem l v).
Proof.
  intros B l c MU G S I H. destruct (rng_minus_union_exact B ANY l c MU good_any G S (fun e He => match He with end) I H) as (A1 & A2 & A3).
  split; [exact A1|]. split; [exact A2|]. intros v Wv R. rewrite (A3 v Wv R), none_of_lmem. reflexivity.
Qed.
Print Assumptions C05_inverted_exact.
Example C05_difference_union_example :
  exists a b c, parse_constraint_text false false ">=1.0,<2.0 || >3.0,<=4.0 || >=5.0"%string = Ok a /\
    parse_constraint_text false false ">=1.5,<=3.5 || 5.0 || >6.0"%string = Ok b /\
    goodc a = true /\ goodc b = true /\ sorted_c a = true /\ sorted_c b = true /\ h_mutual a b = true /\
    difference a b = Ok c /\ vc_str c = Ok ">=1.0,<1.5 || >3.5,<=4.0 || >5.0,<=6.0"%string.
Proof. do 3 eexists. repeat split; vm_compute; reflexivity. Qed.
(* Not provable: that VersionUnion.of's result is
   [sorted_c] - it is not in general — '>2.0 || 2.0.post2' is a union the implementation builds (the range excludes
   post-releases of its bound) whose members overlap in the plain order; such operands are outside the hypotheses and are
   counted by the check at run time. *)


(* the tie by translation: the bound comparisons of version_range_constraint.py, re-translated from /repo's working tree on
   this run (coq/Gen/RangeCmp.v), are the functions the theorems above speak about *)
Theorem C05_comparisons_of_current_source : forall a b,
  allowed_max_gen a = allowed_max a /\ allows_lower_gen a b = allows_lower a b /\ allows_higher_gen a b = allows_higher a b /\
  is_strictly_lower_gen a b = is_strictly_lower a b /\ is_strictly_higher_gen a b = is_strictly_higher a b /\
  is_adjacent_to_gen a b = is_adjacent_to a b.
Proof.
  intros a b. split; [apply allowed_max_agrees|]. split; [apply allows_lower_agrees|]. split; [apply allows_higher_agrees|].
  split; [apply is_strictly_lower_agrees|]. split; [apply is_strictly_higher_agrees|apply is_adjacent_to_agrees].
Qed.
Print Assumptions C05_comparisons_of_current_source.

(* ---- closure: the hypotheses of the exactness theorems are preserved by the operations ----
   [sorted_c] (members in order, each strictly below the next) was a hypothesis that the check evaluates on every generated operand.
   It is what VersionUnion.of establishes: over bounds that are mutually regular ([mutual B]: any two bounds are equal or of
   different release classes), the sorted, look-back-merging loop returns members in order and strictly apart
   (Proofs/SortedOrder.v: the order facts by the rank embedding; Proofs/UnionSorted.v: the loop invariant). *)
Theorem C05_union_of_is_sorted : forall B, mutual B -> forall fuel cs c, forallb goodc cs = true -> incl (flat_map cbounds cs) B ->
  vunion_of fuel cs = Ok c -> sorted_c c = true.
Proof. exact vunion_of_sorted. Qed.
Print Assumptions C05_union_of_is_sorted.
(* hence the class K_B of constraints over B - members good, in order, strictly apart ([inK B c]) - is closed under the three
   operations, and on it each operation is exact on every probe that is regular for B, with no further hypothesis (the
   no_local_hole side condition of C05_union_exact / C05_difference_exact follows from membership in the class) *)
Theorem C05_class_closed_and_exact : forall B, mutual B -> forall a b, inK B a -> inK B b ->
  (forall c, union a b = Ok c -> inK B c /\ forall v, wf v = true -> regB B v = true -> sem c v = sem a v || sem b v) /\
  (forall c, intersect a b = Ok c -> inK B c /\ forall v, wf v = true -> regB B v = true -> sem c v = sem a v && sem b v) /\
  (forall c, difference a b = Ok c -> inK B c /\ forall v, wf v = true -> regB B v = true -> sem c v = sem a v && negb (sem b v)).
Proof. exact class_closed_and_exact. Qed.
Print Assumptions C05_class_closed_and_exact.
(* ... and so is every history of operations: whatever expression is built from union / intersect / difference over constraints of the
   class, if it evaluates then the result is in the class and admits exactly what the expression means *)
Theorem C05_every_expression : forall B, mutual B -> forall e c, leaves_in B e -> ceval e = Ok c ->
  inK B c /\ forall v, wf v = true -> regB B v = true -> sem c v = cmeans e v.
Proof. exact expr_exact. Qed.
Print Assumptions C05_every_expression.
(* not vacuous: three parsed constraints (one of them an exclusion), their eleven bounds mutually regular, an expression of depth three *)
Example C05_expression_example :
  mutual ex_B /\ leaves_in ex_B ex_e /\
  match ceval ex_e with Ok c => vc_str c | Err e => Err e end = Ok ">=1.0,<1.5 || >=2.0,<=3.0 || >3.5,<=4.0 || >5.0"%string.
Proof. exact (conj ex_mutual (conj ex_leaves ex_eval)). Qed.

(* ... and every such expression IS defined (Proofs/ExprTotal.v): together with C05_every_expression, any history of operations over the
   class returns a constraint of the class that admits exactly what the history means; [inK'] adds that a union has members (true of
   everything the parser and the operations return) *)
Theorem C05_every_expression_defined : forall B, mutual B -> forall e, leaves_in' B e -> exists c, ceval e = Ok c /\ inK' B c.
Proof. exact expr_total. Qed.
Print Assumptions C05_every_expression_defined.
