(* C05 — intersection, union and difference of version constraints are exact set operations.
   Model: Model/VConstraint.v.  Proofs: Proofs/RangeSpec.v, RangeAlg.v, RangeOps.v. *)
From Coq Require Import List Bool NArith String.
From PC Require Import Base.Cmp Base.Result Model.Pep440 Spec.Pep440Spec Model.VConstraint
     Proofs.VersionFacts Proofs.RangeSpec Proofs.RangeAlg Proofs.RangeOps.
Import ListNotations.

(* The property at full strength (every constraint shape, the three operations), kept visible.
   [regular_c v c]: v is regular for every bound of c; [wf_c]: bounds well-formed, ranges proper. *)
Definition regular_c (v : version) (c : vc) : bool := forallb (regular1 v) (cbounds c).
Definition wf_c (c : vc) : bool := forallb wf (cbounds c) && forallb proper (flatten c).
Definition C05_full_statement : Prop :=
  forall a b, wf_c a = true -> wf_c b = true ->
  exists ci cu cd, intersect a b = Ok ci /\ union a b = Ok cu /\ difference a b = Ok cd /\
    forall v, wf v = true -> regular_c v a = true -> regular_c v b = true ->
    exists x y, allows a v = Ok x /\ allows b v = Ok y /\
      allows ci v = Ok (x && y) /\ allows cu v = Ok (x || y) /\ allows cd v = Ok (x && negb y).

(* Proved: on regular probes membership in a range-like is plain interval membership
   (all PEP 440 adjustments of VersionRange.allows / Version.allows are invisible there). *)
Theorem C05_allows_regular : forall r v, wf_rng r = true -> wf v = true -> regular_r v r = true ->
  r_allows r v = mem r v.
Proof. exact allows_regular. Qed.
Print Assumptions C05_allows_regular.

(* Proved: what the four bound comparisons answer means, for every regular probe. *)
Theorem C05_allows_lower_spec : forall a b v, regular_r v a = true -> regular_r v b = true ->
  (allows_lower a b = true -> above b v = true -> above a v = true) /\
  (allows_lower a b = false -> above a v = true -> above b v = true).
Proof. exact allows_lower_spec. Qed.
Print Assumptions C05_allows_lower_spec.
Theorem C05_allows_higher_spec : forall a b v,
  wf_rng a = true -> wf_rng b = true -> regular_r v a = true -> regular_r v b = true ->
  (allows_higher a b = true -> below b v = true -> below a v = true) /\
  (allows_higher a b = false -> below a v = true -> below b v = true).
Proof. exact allows_higher_spec. Qed.
Print Assumptions C05_allows_higher_spec.
Theorem C05_strictly_lower_spec : forall a b v,
  wf_rng a = true -> regular_r v a = true -> regular_r v b = true ->
  (is_strictly_lower a b = true -> below a v = true -> above b v = true -> False) /\
  (is_strictly_lower a b = false -> below a v = true \/ above b v = true).
Proof. exact strictly_lower_spec. Qed.
Print Assumptions C05_strictly_lower_spec.

(* Proved (partial: two VersionRange operands; union-valued operands and the union/difference
   operations are covered by the correspondence stream and the oracle, not yet by a theorem):
   the intersection is defined — the assertion in VersionRange.intersect is unreachable — and admits
   a regular probe exactly when both operands do. *)
Theorem C05_intersect_partial : forall lo hi i j lo' hi' i' j',
  let a := RR lo hi i j in let b := RR lo' hi' i' j' in
  wf_rng a = true -> wf_rng b = true -> proper a = true -> proper b = true ->
  exists c, intersect (VOne a) (VOne b) = Ok c /\
    forall v, wf v = true -> regular_r v a = true -> regular_r v b = true ->
      allows c v = Ok (r_allows a v && r_allows b v).
Proof. exact intersect_ranges_exact. Qed.
Print Assumptions C05_intersect_partial.

(* combining with the empty constraint *)
Theorem C05_empty_identities : forall a,
  intersect VEmpty a = Ok VEmpty /\ union VEmpty a = Ok a /\ difference VEmpty a = Ok VEmpty /\
  (forall r, intersect (VOne r) VEmpty = Ok VEmpty) /\ (forall r, difference (VOne (RR (rmin r) (rmax r) (imin r) (imax r))) VEmpty = Ok (VOne (RR (rmin r) (rmax r) (imin r) (imax r)))).
Proof. intros a. repeat split; reflexivity. Qed.
Print Assumptions C05_empty_identities.

(* non-vacuity: parsed operands meet the hypotheses, and the theorem's conclusion is what runs *)
Example C05_example :
  exists a b c, parse_single false ">=1.0,<2.0"%string = Err ENoPattern /\
    parse_single false ">=1.0"%string = Ok (VOne a) /\ parse_single false "<2.0"%string = Ok (VOne b) /\
    wf_rng a = true /\ wf_rng b = true /\ proper a = true /\ proper b = true /\
    intersect (VOne a) (VOne b) = Ok c /\ vc_str c = Ok ">=1.0,<2.0"%string.
Proof. do 3 eexists. repeat split; vm_compute; reflexivity. Qed.
