(* C06 — marker evaluation agrees with the PEP 508 reference.
   Model: Model/Marker.v (leaf construction from the two regexes and the constraint parsers; evaluation of every
   marker class).  The lark grammar is not modelled (the model receives the engine's parse tree).
   Proved: what each kind of leaf evaluates to, in terms of the specifier semantics validated against packaging
   (Spec/Specifier.v), string equality / token lists, and normalised-extra membership; and-or structure.
   The link from leaf text to leaf constraint (SingleMarker.__init__) is tied by correspondence only. *)
From Coq Require Import List Bool NArith String.
From PC Require Import Base.Result Model.Pep440 Spec.Pep440Spec Spec.Specifier Model.VConstraint Model.Generic Model.Marker
     Proofs.SpecifierAgree Proofs.MarkerProofs.
Import ListNotations.
Open Scope string_scope.

Theorem C06_version_leaf_ge : forall E name l value c,
  String.eqb name "extra" = false -> lookup name (e_vars E) = Some value ->
  parse_constraint_text true (negb (String.eqb name "platform_release")) value = Ok (VOne (RV c)) ->
  is_local l = false ->
  validate_con name (CV (VOne (RR (Some l) None true false))) E = Ok (sp_ge l c).
Proof. exact leaf_ge. Qed.
Print Assumptions C06_version_leaf_ge.
Theorem C06_version_leaf_le : forall E name l value c,
  String.eqb name "extra" = false -> lookup name (e_vars E) = Some value ->
  parse_constraint_text true (negb (String.eqb name "platform_release")) value = Ok (VOne (RV c)) ->
  is_local l = false ->
  validate_con name (CV (VOne (RR None (Some l) false true))) E = Ok (sp_le l c).
Proof. exact leaf_le. Qed.
Print Assumptions C06_version_leaf_le.
Theorem C06_version_leaf_eq : forall E name l value c,
  String.eqb name "extra" = false -> lookup name (e_vars E) = Some value ->
  parse_constraint_text true (negb (String.eqb name "platform_release")) value = Ok (VOne (RV c)) ->
  validate_con name (CV (VOne (RV l))) E = Ok (sp_eq l c).
Proof. exact leaf_eq. Qed.
Print Assumptions C06_version_leaf_eq.
Theorem C06_version_leaf_gt : forall E name l value c,
  String.eqb name "extra" = false -> lookup name (e_vars E) = Some value ->
  parse_constraint_text true (negb (String.eqb name "platform_release")) value = Ok (VOne (RV c)) ->
  wf l = true -> wf c = true -> is_final l = true ->
  validate_con name (CV (VOne (RR (Some l) None false false))) E = Ok (sp_gt l c).
Proof. exact leaf_gt_final. Qed.
Print Assumptions C06_version_leaf_gt.
Theorem C06_version_leaf_lt : forall E name l value c,
  String.eqb name "extra" = false -> lookup name (e_vars E) = Some value ->
  parse_constraint_text true (negb (String.eqb name "platform_release")) value = Ok (VOne (RV c)) ->
  wf l = true -> wf c = true -> is_final l = true ->
  validate_con name (CV (VOne (RR None (Some l) false false))) E = Ok (sp_lt l c).
Proof. exact leaf_lt_final. Qed.
Print Assumptions C06_version_leaf_lt.
Theorem C06_string_leaf : forall E name c value,
  String.eqb name "extra" = false -> lookup name (e_vars E) = Some value ->
  validate_con name (CG c) E = Ok (sat c value).
Proof. exact leaf_string. Qed.
Print Assumptions C06_string_leaf.
Theorem C06_extra_leaf : forall E v op act, e_extras E = Some act ->
  validate_con "extra" (CG (GS (SAtom (mkA v op true)))) E =
  match op with
  | GEq => Ok (mem_str (canon_name v) (map canon_name act))
  | GNe => Ok (negb (mem_str (canon_name v) (map canon_name act)))
  | _ => Err EAssert
  end.
Proof. exact leaf_extra. Qed.
Print Assumptions C06_extra_leaf.
(* compound markers: when no leaf raises, evaluation is the Boolean formula over the leaves *)
Theorem C06_structure : forall E m, leaves_ok E m = true -> validate m E = Ok (beval E m).
Proof. exact validate_beval. Qed.
Print Assumptions C06_structure.

Definition leaf_holds (name cstr : string) (swapped : bool) (E : env) : bool :=
  match mk_leaf name cstr swapped with
  | Ok l => match validate_con (l_name l) (l_con l) E with Ok true => true | _ => false end
  | Err _ => false
  end.
Example C06_example :
  let E := mkEnv [("python_version", "3.9"); ("sys_platform", "linux")] (Some ["A_b"]) in
  leaf_holds "python_version" ">=3.8" false E = true /\
  leaf_holds "sys_platform" "in win32 linux" false E = true /\
  leaf_holds "extra" "==a.B" false E = true /\
  leaf_holds "sys_platform" """nux"" in" true E = true /\
  leaf_holds "python_version" "<3.9" false E = false.
Proof. vm_compute. repeat split. Qed.
