(* C06 — marker evaluation agrees with the PEP 508 reference.
   Model: Model/Marker.v (leaf construction from the two regexes and the constraint parsers; evaluation of every
   marker class).  The lark grammar is not modelled (the model receives the engine's parse tree).
   Proved: what each kind of leaf evaluates to, in terms of the specifier semantics validated against packaging
   (Spec/Specifier.v), string equality / token lists, and normalised-extra membership; and-or structure.
   The link from leaf text to leaf constraint (SingleMarker.__init__) is proved for '==' / '!=' leaves of string variables and of
   'extra' with plain values (C06_string_leaf_from_text, C06_extra_leaf_from_text) and for comparison leaves of python_version /
   python_full_version with a literal in normal form (C06_version_leaf_from_text, ..._text_to_truth); for the other leaves it is tied
   by correspondence. *)
From Coq Require Import List Bool NArith String.
From PC Require Import Base.Result Model.Pep440 Spec.Pep440Spec Spec.Specifier Model.VConstraint Model.Generic Model.Marker
     Proofs.SpecifierAgree Proofs.MarkerProofs Proofs.LeafRebuild Proofs.Pep440RoundTrip Proofs.ClauseText Proofs.ConstraintText Proofs.VersionLeafText.
Import ListNotations.
Open Scope string_scope.

Theorem C06_version_leaf_ge : forall E name l value c,
  String.eqb name "extra" = false -> lookup name (e_vars E) = Some value ->
  parse_constraint_text true (negb (String.eqb name "platform_release")) value = Ok (VOne (RV c)) ->
  is_local l = false ->
  validate_con name (CV (VOne (RR (Some l) None true false))) E = Ok (sp_ge l c).
Proof. exact leaf_ge. Qed.
Print Assumptions C06_version_leaf_ge.
Theorem C06_version_leaf_le : forall E name l value c,
  String.eqb name "extra" = false -> lookup name (e_vars E) = Some value ->
  parse_constraint_text true (negb (String.eqb name "platform_release")) value = Ok (VOne (RV c)) ->
  is_local l = false ->
  validate_con name (CV (VOne (RR None (Some l) false true))) E = Ok (sp_le l c).
Proof. exact leaf_le. Qed.
Print Assumptions C06_version_leaf_le.
Theorem C06_version_leaf_eq : forall E name l value c,
  String.eqb name "extra" = false -> lookup name (e_vars E) = Some value ->
  parse_constraint_text true (negb (String.eqb name "platform_release")) value = Ok (VOne (RV c)) ->
  validate_con name (CV (VOne (RV l))) E = Ok (sp_eq l c).
Proof. exact leaf_eq. Qed.
Print Assumptions C06_version_leaf_eq.
Theorem C06_version_leaf_gt : forall E name l value c,
  String.eqb name "extra" = false -> lookup name (e_vars E) = Some value ->
  parse_constraint_text true (negb (String.eqb name "platform_release")) value = Ok (VOne (RV c)) ->
  wf l = true -> wf c = true -> is_final l = true ->
  validate_con name (CV (VOne (RR (Some l) None false false))) E = Ok (sp_gt l c).
Proof. exact leaf_gt_final. Qed.
Print Assumptions C06_version_leaf_gt.
Theorem C06_version_leaf_lt : forall E name l value c,
  String.eqb name "extra" = false -> lookup name (e_vars E) = Some value ->
  parse_constraint_text true (negb (String.eqb name "platform_release")) value = Ok (VOne (RV c)) ->
  wf l = true -> wf c = true -> is_final l = true ->
  validate_con name (CV (VOne (RR None (Some l) false false))) E = Ok (sp_lt l c).
Proof. exact leaf_lt_final. Qed.
Print Assumptions C06_version_leaf_lt.
Theorem C06_string_leaf : forall E name c value,
  String.eqb name "extra" = false -> lookup name (e_vars E) = Some value ->
  validate_con name (CG c) E = Ok (sat c value).
Proof. exact leaf_string. Qed.
Print Assumptions C06_string_leaf.
Theorem C06_extra_leaf : forall E v op act, e_extras E = Some act ->
  validate_con "extra" (CG (GS (SAtom (mkA v op true)))) E =
  match op with
  | GEq => Ok (mem_str (canon_name v) (map canon_name act))
  | GNe => Ok (negb (mem_str (canon_name v) (map canon_name act)))
  | _ => Err EAssert
  end.
Proof. exact leaf_extra. Qed.
Print Assumptions C06_extra_leaf.
(* compound markers: when no leaf raises, evaluation is the Boolean formula over the leaves *)
Theorem C06_structure : forall E m, leaves_ok E m = true -> validate m E = Ok (beval E m).
Proof. exact validate_beval. Qed.
Print Assumptions C06_structure.

Definition leaf_holds (name cstr : string) (swapped : bool) (E : env) : bool :=
  match mk_leaf name cstr swapped with
  | Ok l => match validate_con (l_name l) (l_con l) E with Ok true => true | _ => false end
  | Err _ => false
  end.
Example C06_example :
  let E := mkEnv [("python_version", "3.9"); ("sys_platform", "linux")] (Some ["A_b"]) in
  leaf_holds "python_version" ">=3.8" false E = true /\
  leaf_holds "sys_platform" "in win32 linux" false E = true /\
  leaf_holds "extra" "==a.B" false E = true /\
  leaf_holds "sys_platform" """nux"" in" true E = true /\
  leaf_holds "python_version" "<3.9" false E = false.
Proof. vm_compute. repeat split. Qed.

(* from the text of a leaf to its truth value: a leaf 'name == "v"' / 'name != "v"' on a string variable (not a version variable,
   not 'extra'), v a plain value (letters, digits, _ . -), holds exactly when the environment value is (is not) literally v *)
Theorem C06_string_leaf_from_text : forall E n o v value,
  is_version_like n = false -> String.eqb n "extra" = false -> alias n = n -> eqne_op o = true -> plain_value v = true ->
  lookup n (e_vars E) = Some value ->
  exists l, mk_leaf n (op_text o ++ string_of_list_ascii v) false = Ok l /\
            validate (MSingle l) E = Ok (match o with GNe => negb (String.eqb value (string_of_list_ascii v)) | _ => String.eqb value (string_of_list_ascii v) end).
Proof.
  intros E n o v value Hn He Ha Ho Hv Hl. eexists. split; [exact (mk_leaf_eqne n o v Hn He Ho Hv)|].
  cbn [validate l_name l_con]. rewrite Ha. rewrite (leaf_string E n _ value He Hl). cbn [sat gs_sat]. unfold atom_sat. cbn [aop av].
  destruct o; try discriminate; reflexivity.
Qed.
Print Assumptions C06_string_leaf_from_text.
Theorem C06_extra_leaf_from_text : forall E o v act, eqne_op o = true -> plain_value v = true -> e_extras E = Some act ->
  exists l, mk_leaf "extra" (op_text o ++ string_of_list_ascii v) false = Ok l /\
            validate (MSingle l) E = Ok (match o with GNe => negb (mem_str (canon_name (string_of_list_ascii v)) (map canon_name act))
                                                   | _ => mem_str (canon_name (string_of_list_ascii v)) (map canon_name act) end).
Proof.
  intros E o v act Ho Hv He. eexists. split; [exact (mk_leaf_eqne_any "extra" o v eq_refl Ho Hv)|].
  cbn [validate l_name l_con alias String.eqb Ascii.eqb]. rewrite (leaf_extra E _ o act He). destruct o; try discriminate; reflexivity.
Qed.
Print Assumptions C06_extra_leaf_from_text.

(* comparison leaves on python_version / python_full_version from their TEXT: the leaf 'name op V' is built with exactly the range
   of the clause 'op V', for every literal V in normal form (for python_full_version: V with three or more components or a
   suffix; shorter literals are padded with '.0' first) *)
Theorem C06_version_leaf_from_text : forall name op v, printable v = true ->
  name = "python_version" \/ name = "python_full_version" ->
  In op [">="; "<="; ">"; "<"; "=="; "!="] ->
  (Nat.ltb (S (count_dots (to_string v))) 3 && digits_and_dots (to_string v) = false \/ name = "python_version") ->
  mk_leaf name (op ++ to_string v) false = Ok (mkLeaf name op (to_string v) false (CV (op_result op (reparsed v)))).
Proof. exact version_leaf_text. Qed.
Print Assumptions C06_version_leaf_from_text.
(* ... and from text to truth: with the interpreter's version given in normal form, 'name >= V' holds exactly when PEP 440's
   '>=' does (likewise for the other operators through C06_version_leaf_le / _eq / _gt / _lt) *)
Theorem C06_version_leaf_text_to_truth : forall E name l c, printable l = true -> printable c = true -> is_local l = false ->
  name = "python_version" \/ name = "python_full_version" ->
  (Nat.ltb (S (count_dots (to_string l))) 3 && digits_and_dots (to_string l) = false \/ name = "python_version") ->
  lookup name (e_vars E) = Some (to_string c) ->
  exists lf, mk_leaf name (">=" ++ to_string l) false = Ok lf /\ validate_con name (l_con lf) E = Ok (sp_ge (reparsed l) (reparsed c)).
Proof.
  intros E name l c Pl Pc Ll Hn Hpad Hlook. eexists. split.
  - apply (version_leaf_text name ">=" l Pl Hn); [cbn; auto|exact Hpad].
  - cbn [l_con]. unfold op_result. cbn [String.eqb Ascii.eqb].
    apply (leaf_ge E name (reparsed l) (to_string c) (reparsed c)).
    + destruct Hn as [-> | ->]; reflexivity.
    + exact Hlook.
    + assert (PR : negb (String.eqb name "platform_release") = true) by (destruct Hn as [-> | ->]; reflexivity). rewrite PR.
      change (to_string c) with ("" ++ to_string c). apply (one_clause_text true "" c _ Pc eq_refl). apply clause_bare, Pc.
    + exact Ll.
Qed.
Print Assumptions C06_version_leaf_text_to_truth.
Example C06_version_leaf_text_example :
  exists l c, parse "3.8.1" = Some l /\ parse "3.10.12" = Some c /\ printable l = true /\ printable c = true /\
    to_string l = "3.8.1" /\ Nat.ltb (S (count_dots (to_string l))) 3 && digits_and_dots (to_string l) = false /\ sp_ge (reparsed l) (reparsed c) = true.
Proof. do 2 eexists. repeat split; vm_compute; reflexivity. Qed.
