(* C09 — include/exclude decisions of the shared file-selection routine (Model/Select.v).
   Globs, git and the filesystem are inputs; byte identity of wheel-from-sdist and wheel-from-tree is
   judged on real archives. *)
From Coq Require Import List Bool String.
From PC Require Import Model.Select Proofs.SelectProofs.
Import ListNotations.

(* whatever is selected is not excluded (by a pattern, by version control, or as bytecode cache),
   unless a plain include names that very file *)
Theorem C09_no_excluded : forall excluded incs f,
  In f (find_files_to_add excluded incs) ->
  is_excluded excluded f = false \/
  exists inc, In inc incs /\ is_package inc = false /\ In (EFile f) (elements inc).
Proof. exact selected_not_excluded. Qed.
Print Assumptions C09_no_excluded.
Theorem C09_no_bytecode : forall excluded incs f,
  In f (find_files_to_add excluded incs) -> (has_pycache f = true \/ is_pyc f = true) ->
  exists inc, In inc incs /\ is_package inc = false /\ In (EFile f) (elements inc).
Proof. exact no_bytecode_from_packages. Qed.
Print Assumptions C09_no_bytecode.
(* an explicitly included file is present, and an explicit include for the format lifts the exclusion *)
Theorem C09_explicit_included : forall excluded incs inc f,
  In inc incs -> is_package inc = false -> In (EFile f) (elements inc) -> has_pycache f = false ->
  In f (find_files_to_add excluded incs).
Proof. exact explicit_file_selected. Qed.
Print Assumptions C09_explicit_included.
Theorem C09_include_readds : forall vcs globs incl p,
  in_paths p incl = true -> in_paths p (excluded_set vcs globs incl) = false.
Proof. exact explicit_include_readds. Qed.
Print Assumptions C09_include_readds.

Example C09_example :
  is_excluded [["pkg"; "data"]] ["pkg"; "data"; "x.json"] = true /\
  is_excluded [] ["pkg"; "__pycache__"; "m.cpython-312.pyc"] = true /\
  is_excluded [] ["pkg"; ".pyc"] = false /\
  find_files_to_add [["pkg"; "b.py"]] [mkInc true true [EFile ["pkg"; "a.py"]; EFile ["pkg"; "b.py"]]] = [["pkg"; "a.py"]].
Proof. repeat split; vm_compute; reflexivity. Qed.
