(* C07 — marker intersection, union and inversion preserve truth.
   Proved (level 1): inversion is complementation — for the atomic markers in both readings, and through
   MultiMarker / MarkerUnion by De Morgan, including the constructors' flattening and de-duplication.
   Not yet modelled (level 2): intersection / union / cnf / dnf / MultiMarker.of / MarkerUnion.of /
   _merge_single_markers; their results are judged on the implementation by the oracle (truth tables on the
   environment grid) and their structure and text are evaluated by this model on every run. *)
From Coq Require Import List Bool NArith String.
From PC Require Import Base.Result Model.Generic Model.Marker Proofs.GenericProofs Proofs.MarkerProofs.
Import ListNotations.
Open Scope string_scope.

Theorem C07_invert_atomic : forall E name atoms v,
  String.eqb name "extra" = false -> lookup name (e_vars E) = Some v ->
  beval E (MAtomicUnion name (map atom_invert atoms)) = negb (beval E (MAtomicMulti name atoms)).
Proof. exact invert_atomic_multi. Qed.
Print Assumptions C07_invert_atomic.
Theorem C07_invert_atomic_extra : forall E atoms act,
  e_extras E = Some act -> forallb eqne atoms = true ->
  beval E (MAtomicUnion "extra" (map atom_invert atoms)) = negb (beval E (MAtomicMulti "extra" atoms)).
Proof. exact invert_atomic_multi_extra. Qed.
Print Assumptions C07_invert_atomic_extra.
Theorem C07_invert_multi : forall E l inv,
  Forall2 (fun m i => beval E i = negb (beval E m)) l inv -> beval E (MUnion inv) = negb (beval E (MMulti l)).
Proof. exact invert_multi_structure. Qed.
Print Assumptions C07_invert_multi.
Theorem C07_invert_union : forall E l inv,
  Forall2 (fun m i => beval E i = negb (beval E m)) l inv -> beval E (MMulti inv) = negb (beval E (MUnion l)).
Proof. exact invert_union_structure. Qed.
Print Assumptions C07_invert_union.
(* MultiMarker(...) / MarkerUnion(...) constructors: splicing nested members and dropping duplicates keeps the meaning,
   provided equal keys mean equal values (true of every leaf built by SingleMarker.__init__: the constraint is a
   function of name, operator, value and operand order) *)
Theorem C07_constructors_sound : forall E,
  (forall a b, marker_eqb a b = true -> beval E a = beval E b) ->
  forall l, beval E (mk_union_marker l) = beval E (MUnion l) /\ beval E (mk_multi_marker l) = beval E (MMulti l).
Proof. intros E H l. split; [apply flatten_union_sound | apply flatten_multi_sound]; exact H. Qed.
Print Assumptions C07_constructors_sound.
