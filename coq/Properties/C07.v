(* C07 — marker intersection, union and inversion preserve truth.
   Proved (level 1): inversion is complementation — for the atomic markers in both readings, and through
   MultiMarker / MarkerUnion by De Morgan, including the constructors' flattening and de-duplication.
   Proved (level 2, partial): intersection and union through the whole simplifier (Model/MarkerAlg.v: the decorated
   intersection/union with the recursion guard, cnf, dnf, MultiMarker.of, MarkerUnion.of, intersect_simplify,
   union_simplify) have the truth table of "and" / "or" on every environment, for every fuel and guard state —
   on every class of clauses that meets the three premises of Proofs/MarkerAlgProofs.v (exact same-variable merge, sound and
   symmetric key equality on the class); a class meeting them is exhibited, but the class of all parsed clauses is not shown
   to be one: that is what "_partial" stands for.  The model is tied to the implementation by
   byte-identical text and equal truth tables on every run. *)
From Coq Require Import List Bool NArith String.
From PC Require Import Base.Result Model.Generic Model.Marker Model.MarkerAlg Proofs.GenericProofs Proofs.MarkerProofs Proofs.MarkerAlgProofs Proofs.LeafRebuild Proofs.StringClass Proofs.ExtraClass.
From PC Require Import Model.Pep440 Spec.Pep440Spec Model.VConstraint Proofs.DiffUnion Proofs.Closure Proofs.Pep440RoundTrip Proofs.ClauseText Proofs.ConstraintText Proofs.VersionClass.
Import ListNotations.
Open Scope string_scope.

Theorem C07_invert_atomic : forall E name atoms v,
  String.eqb name "extra" = false -> lookup name (e_vars E) = Some v ->
  beval E (MAtomicUnion name (map atom_invert atoms)) = negb (beval E (MAtomicMulti name atoms)).
Proof. exact invert_atomic_multi. Qed.
Print Assumptions C07_invert_atomic.
Theorem C07_invert_atomic_extra : forall E atoms act,
  e_extras E = Some act -> forallb eqne atoms = true ->
  beval E (MAtomicUnion "extra" (map atom_invert atoms)) = negb (beval E (MAtomicMulti "extra" atoms)).
Proof. exact invert_atomic_multi_extra. Qed.
Print Assumptions C07_invert_atomic_extra.
Theorem C07_invert_multi : forall E l inv,
  Forall2 (fun m i => beval E i = negb (beval E m)) l inv -> beval E (MUnion inv) = negb (beval E (MMulti l)).
Proof. exact invert_multi_structure. Qed.
Print Assumptions C07_invert_multi.
Theorem C07_invert_union : forall E l inv,
  Forall2 (fun m i => beval E i = negb (beval E m)) l inv -> beval E (MMulti inv) = negb (beval E (MUnion l)).
Proof. exact invert_union_structure. Qed.
Print Assumptions C07_invert_union.
(* MultiMarker(...) / MarkerUnion(...) constructors: splicing nested members and dropping duplicates keeps the meaning, on any
   class R of clauses on which equal keys mean equal values (G R m: every clause of m is in R) *)
Theorem C07_constructors_sound : forall E (R : marker -> Prop),
  (forall x y, is_leaf_like x = true -> is_leaf_like y = true -> R x -> R y -> marker_eqb x y = true -> beval E x = beval E y) ->
  forall l, Forall (G R) l ->
    beval E (mk_union_marker l) = beval E (MUnion l) /\ beval E (mk_multi_marker l) = beval E (MMulti l).
Proof.
  intros E R K l Gl. pose proof (fun a b Ga Gb => lift_key E R K a Ga b Gb) as HK.
  split; [exact (proj1 (mk_union_bv E R HK l Gl)) | exact (proj1 (mk_multi_bv E R HK l Gl))].
Qed.
Print Assumptions C07_constructors_sound.

(* The full statement: for all environments E, fuel, guard stacks st and markers a b,
     m_intersect fuel st a b = Ok r -> beval E r = beval E a && beval E b   (and dually for union).
   Proved on every class R of clauses that is a [clause_class]: equal keys mean equal values, key equality is symmetric,
   and the merge of two clauses on one variable is exact and stays in the class.  The class is threaded through all
   seventeen invariants, so the premises are used only on clauses the computation meets; [C07_class_exists] exhibits a
   class for which all three are proved.  What is NOT proved is that the clauses the parser builds from arbitrary text form
   such a class: that is where the constraint algebras (C05, C16) and the python_version special cases enter, and where
   finding D35 lives (the union of two 'not in' substring clauses is not exact). *)
Theorem C07_intersect_union_partial : forall E R, clause_class E R ->
  forall fuel st a b, G R a -> G R b ->
    (forall r, m_intersect fuel st a b = Ok r -> beval E r = beval E a && beval E b /\ G R r) /\
    (forall r, m_union fuel st a b = Ok r -> beval E r = beval E a || beval E b /\ G R r).
Proof. exact intersect_union_sound. Qed.
Print Assumptions C07_intersect_union_partial.
Theorem C07_nary_partial : forall E R, clause_class E R ->
  forall fuel st args, Forall (G R) args ->
    (forall r, intersection_fn fuel st args = Ok r -> beval E r = forallb (beval E) args /\ G R r) /\
    (forall r, union_fn fuel st args = Ok r -> beval E r = existsb (beval E) args /\ G R r).
Proof. exact nary_sound. Qed.
Print Assumptions C07_nary_partial.
(* the premises can be met: three concrete clauses on three variables form a class, for every environment *)
Theorem C07_class_exists : forall E, clause_class E demo_R.
Proof. exact demo_class. Qed.
Print Assumptions C07_class_exists.
(* ... and on markers over that class the simplifier runs and the theorem applies with no premise left *)
Example C07_runs :
  let a := nth 0 demo_clauses MAny in let b := nth 1 demo_clauses MAny in let c := nth 2 demo_clauses MAny in
  exists r, m_intersect FUEL ST0 (MUnion [a; b]) (MMulti [c; MUnion [b; a]]) = Ok r /\
            forall E, beval E r = beval E (MUnion [a; b]) && beval E (MMulti [c; MUnion [b; a]]).
Proof.
  cbv zeta. eexists. split; [vm_compute; reflexivity|]. intros E.
  assert (G0 : G demo_R (nth 0 demo_clauses MAny)) by (constructor; unfold demo_R; cbn; tauto).
  assert (G1 : G demo_R (nth 1 demo_clauses MAny)) by (constructor; unfold demo_R; cbn; tauto).
  assert (G2 : G demo_R (nth 2 demo_clauses MAny)) by (constructor; unfold demo_R; cbn; tauto).
  destruct (intersect_union_sound E demo_R (demo_class E) FUEL ST0 (MUnion [nth 0 demo_clauses MAny; nth 1 demo_clauses MAny])
              (MMulti [nth 2 demo_clauses MAny; MUnion [nth 1 demo_clauses MAny; nth 0 demo_clauses MAny]])) as [I _].
  - constructor. repeat constructor; assumption.
  - constructor. constructor; [assumption|]. constructor; [|constructor]. constructor. repeat constructor; assumption.
  - refine (proj1 (I _ _)). vm_compute. reflexivity.
Qed.

(* Proved with no premise left: on markers whose clauses are '==' / '!=' comparisons of a string variable (any variable that is
   not a version variable and not 'extra') with a plain value (letters, digits, '_', '.', '-') — and the atomic
   conjunctions / disjunctions the merge builds from them — intersection and union through the whole simplifier have the
   truth table of and / or on every environment that defines the variables, for every fuel and guard state.  The class
   [SR E] is a [clause_class] (Proofs/StringClass.v): the same-variable merge goes through the string-constraint algebra,
   exact on this fragment (C16), and a single-clause result through SingleMarker.__init__ on the rebuilt text
   (Proofs/LeafRebuild.v follows the two regexes and the constraint parser symbolically over an arbitrary plain value). *)
Theorem C07_string_clauses_form_a_class : forall E, clause_class E (SR E).
Proof. exact string_clause_class. Qed.
Print Assumptions C07_string_clauses_form_a_class.
Theorem C07_intersect_union_string_markers : forall E fuel st a b, G (SR E) a -> G (SR E) b ->
  (forall r, m_intersect fuel st a b = Ok r -> beval E r = beval E a && beval E b /\ G (SR E) r) /\
  (forall r, m_union fuel st a b = Ok r -> beval E r = beval E a || beval E b /\ G (SR E) r).
Proof. exact string_intersect_union. Qed.
Print Assumptions C07_intersect_union_string_markers.
(* the clauses of that class are what the constructor builds from text *)
Theorem C07_parsed_clause_in_class : forall E n o v, str_name n = true -> defined E n -> eqne_op o = true -> plain_value v = true ->
  exists l, mk_leaf n (op_text o ++ string_of_list_ascii v)%string false = Ok l /\ SR E (MSingle l).
Proof. exact clause_of_text_in_class. Qed.
Print Assumptions C07_parsed_clause_in_class.

(* ... and likewise, with no premise left, when clauses on 'extra' ('==' / '!=' with a plain name, evaluated as membership of the
   normalised name in the set of active extras) are allowed next to the string clauses: [BR E] is a clause class on every
   environment that defines the variables and a set of active extras (Proofs/ExtraClass.v; the merge goes through the extras
   reading of the C16 algebra). *)
Theorem C07_string_and_extra_clauses_form_a_class : forall E extras, e_extras E = Some extras -> clause_class E (BR E).
Proof. exact both_clause_class. Qed.
Print Assumptions C07_string_and_extra_clauses_form_a_class.
Theorem C07_intersect_union_string_extra_markers : forall E extras, e_extras E = Some extras ->
  forall fuel st a b, G (BR E) a -> G (BR E) b ->
  (forall r, m_intersect fuel st a b = Ok r -> beval E r = beval E a && beval E b /\ G (BR E) r) /\
  (forall r, m_union fuel st a b = Ok r -> beval E r = beval E a || beval E b /\ G (BR E) r).
Proof. exact both_intersect_union. Qed.
Print Assumptions C07_intersect_union_string_extra_markers.

(* ... and, with no premise left, for comparison clauses of python_full_version: every comparison (>=, <=, >, <, ==, !=) with a literal
   of a set B of literals in normal form that are mutually regular (any two equal or of different releases), of three components or
   not purely numeric ([pad_ok]: the constructor does not pad them), without local label - on every environment whose interpreter
   version (given in normal form) is regular for B.  [VR B] is a clause class (Proofs/VersionClass.v): the same-variable merge goes
   through the version-constraint algebra, which is exact and closed on the class of C05_class_closed_and_exact, and a single-clause
   result through SingleMarker(name, constraint): the printer of the constraint and SingleMarker.__init__ on the printed text. *)
Theorem C07_version_clauses_form_a_class : forall E ev, printable ev = true -> lookup pfv (e_vars E) = Some (to_string ev) ->
  forall B, mutual B -> (forall v, In v B -> normal v = true /\ pad_ok v = true /\ is_local v = false) -> regB B (reparsed ev) = true ->
  clause_class E (VR B).
Proof. exact version_clause_class. Qed.
Print Assumptions C07_version_clauses_form_a_class.
Theorem C07_intersect_union_version_markers : forall E ev, printable ev = true -> lookup pfv (e_vars E) = Some (to_string ev) ->
  forall B, mutual B -> (forall v, In v B -> normal v = true /\ pad_ok v = true /\ is_local v = false) -> regB B (reparsed ev) = true ->
  forall fuel st a b, G (VR B) a -> G (VR B) b ->
  (forall r, m_intersect fuel st a b = Ok r -> beval E r = beval E a && beval E b /\ G (VR B) r) /\
  (forall r, m_union fuel st a b = Ok r -> beval E r = beval E a || beval E b /\ G (VR B) r).
Proof. exact version_intersect_union. Qed.
Print Assumptions C07_intersect_union_version_markers.
Theorem C07_parsed_version_clause_in_class : forall B, (forall v, In v B -> normal v = true /\ pad_ok v = true /\ is_local v = false) ->
  forall op v, In op vops -> In v B -> exists l, mk_leaf pfv (op ++ to_string v) false = Ok l /\ VR B (MSingle l).
Proof. exact version_clause_of_text. Qed.
Print Assumptions C07_parsed_version_clause_in_class.
(* the three classes together: string clauses, 'extra' clauses and python_full_version comparisons in one marker *)
Theorem C07_intersect_union_string_extra_version_markers : forall E extras, e_extras E = Some extras ->
  forall ev, printable ev = true -> lookup pfv (e_vars E) = Some (to_string ev) ->
  forall B, mutual B -> (forall v, In v B -> normal v = true /\ pad_ok v = true /\ is_local v = false) -> regB B (reparsed ev) = true ->
  forall fuel st a b, G (AR E B) a -> G (AR E B) b ->
  (forall r, m_intersect fuel st a b = Ok r -> beval E r = beval E a && beval E b /\ G (AR E B) r) /\
  (forall r, m_union fuel st a b = Ok r -> beval E r = beval E a || beval E b /\ G (AR E B) r).
Proof. exact all_intersect_union. Qed.
Print Assumptions C07_intersect_union_string_extra_version_markers.
(* not vacuous: four literals, the interpreter 3.9.7, two markers of depth two and three over them *)
Example C07_version_class_runs :
  let a := MUnion [ex_leaf ">=" "3.9.0"; ex_leaf "<" "3.8.1"] in
  let b := MMulti [ex_leaf "<" "3.11.4"; MUnion [ex_leaf "!=" "3.10.0"; ex_leaf ">=" "3.9.0"]] in
  exists r, m_intersect FUEL ST0 a b = Ok r /\ beval ex_env r = beval ex_env a && beval ex_env b.
Proof. exact version_class_runs. Qed.
