(* C07 — marker intersection, union and inversion preserve truth.
   Proved (level 1): inversion is complementation — for the atomic markers in both readings, and through
   MultiMarker / MarkerUnion by De Morgan, including the constructors' flattening and de-duplication.
   Proved (level 2, partial): intersection and union through the whole simplifier (Model/MarkerAlg.v: the decorated
   intersection/union with the recursion guard, cnf, dnf, MultiMarker.of, MarkerUnion.of, intersect_simplify,
   union_simplify) have the truth table of "and" / "or" on every environment, for every fuel and guard state —
   relative to the three premises of Proofs/MarkerAlgProofs.v (exact same-variable merge, sound and symmetric key
   equality), which are not proved; that is what "_partial" stands for.  The model is tied to the implementation by
   byte-identical text and equal truth tables on every run. *)
From Coq Require Import List Bool NArith String.
From PC Require Import Base.Result Model.Generic Model.Marker Model.MarkerAlg Proofs.GenericProofs Proofs.MarkerProofs Proofs.MarkerAlgProofs.
Import ListNotations.
Open Scope string_scope.

Theorem C07_invert_atomic : forall E name atoms v,
  String.eqb name "extra" = false -> lookup name (e_vars E) = Some v ->
  beval E (MAtomicUnion name (map atom_invert atoms)) = negb (beval E (MAtomicMulti name atoms)).
Proof. exact invert_atomic_multi. Qed.
Print Assumptions C07_invert_atomic.
Theorem C07_invert_atomic_extra : forall E atoms act,
  e_extras E = Some act -> forallb eqne atoms = true ->
  beval E (MAtomicUnion "extra" (map atom_invert atoms)) = negb (beval E (MAtomicMulti "extra" atoms)).
Proof. exact invert_atomic_multi_extra. Qed.
Print Assumptions C07_invert_atomic_extra.
Theorem C07_invert_multi : forall E l inv,
  Forall2 (fun m i => beval E i = negb (beval E m)) l inv -> beval E (MUnion inv) = negb (beval E (MMulti l)).
Proof. exact invert_multi_structure. Qed.
Print Assumptions C07_invert_multi.
Theorem C07_invert_union : forall E l inv,
  Forall2 (fun m i => beval E i = negb (beval E m)) l inv -> beval E (MMulti inv) = negb (beval E (MUnion l)).
Proof. exact invert_union_structure. Qed.
Print Assumptions C07_invert_union.
(* MultiMarker(...) / MarkerUnion(...) constructors: splicing nested members and dropping duplicates keeps the meaning,
   provided equal keys mean equal values (true of every leaf built by SingleMarker.__init__: the constraint is a
   function of name, operator, value and operand order) *)
Theorem C07_constructors_sound : forall E,
  (forall a b, marker_eqb a b = true -> beval E a = beval E b) ->
  forall l, beval E (mk_union_marker l) = beval E (MUnion l) /\ beval E (mk_multi_marker l) = beval E (MMulti l).
Proof. intros E H l. split; [apply flatten_union_sound | apply flatten_multi_sound]; exact H. Qed.
Print Assumptions C07_constructors_sound.

(* the full statement: for all environments E, fuel, guard stacks st and markers a b,
     m_intersect fuel st a b = Ok r -> beval E r = beval E a && beval E b   (and dually for union).
   Proved relative to the premises key_sound, key_symmetric, merge_sound: *)
Theorem C07_intersect_union_partial : forall E, key_sound E -> key_symmetric -> merge_sound E ->
  forall fuel st a b,
    (forall r, m_intersect fuel st a b = Ok r -> beval E r = beval E a && beval E b) /\
    (forall r, m_union fuel st a b = Ok r -> beval E r = beval E a || beval E b).
Proof. exact intersect_union_sound. Qed.
Print Assumptions C07_intersect_union_partial.
Theorem C07_nary_partial : forall E, key_sound E -> key_symmetric -> merge_sound E ->
  forall fuel st args,
    (forall r, intersection_fn fuel st args = Ok r -> beval E r = forallb (beval E) args) /\
    (forall r, union_fn fuel st args = Ok r -> beval E r = existsb (beval E) args).
Proof. exact nary_sound. Qed.
Print Assumptions C07_nary_partial.
(* the functions do return results on real input (the statements above are not about an empty set of runs) *)
Example C07_runs : exists r, intersection_fn FUEL ST0 [MUnion [MAny; MEmpty]; MMulti [MAny]] = Ok r.
Proof. eexists. vm_compute. reflexivity. Qed.
