(* C18 — equal values hash equally and equality is an equivalence.
   Versions: equality is equality of the compare key, which is also what is hashed (C03); equal versions are
   interchangeable as constraints and as probes.  String-constraint clauses: == is an equivalence and implies the same
   (operator, value) pair (the hashed tuple) and the same admitted values.  Version ranges and unions: == (as VersionRange.__eq__,
   Version.__eq__ and VersionUnion.__eq__ compute it) is an equivalence on constraints whose members are well-formed and proper, and
   equal constraints admit the same versions - every candidate (Proofs/EqCompound.v).  Markers, dependencies and
   specifications are judged on the implementation (all pairs and triples of the spelling pools). *)
From Coq Require Import List Bool NArith String.
From PC Require Import Base.Cmp Model.Pep440 Spec.Pep440Spec Proofs.Pep440Order Model.VConstraint Proofs.RangeSpec
     Model.Generic Proofs.EqProofs Base.Result Model.Marker Model.MarkerAlg Proofs.RangeOps Proofs.UnionHull Proofs.UnionExact Proofs.EqCompound.
Import ListNotations.

Theorem C18_version_equivalence :
  (forall v, veqb v v = true) /\ (forall v w, veqb v w = veqb w v) /\
  (forall u v w, veqb u v = true -> veqb v w = true -> veqb u w = true).
Proof. exact veq_equiv. Qed.
Print Assumptions C18_version_equivalence.
Theorem C18_version_hash : forall v w, veqb v w = true <-> vkey v = vkey w.
Proof. exact (fun v w => conj (veqb_key v w) (key_veqb v w)). Qed.
Print Assumptions C18_version_hash.
Theorem C18_version_interchangeable : forall v w x, wf v = true -> wf w = true -> veqb v w = true ->
  r_allows (RV v) x = r_allows (RV w) x.
Proof. exact equal_versions_interchangeable. Qed.
Print Assumptions C18_version_interchangeable.
Theorem C18_probe_interchangeable : forall r v w, wf_rng r = true -> wf v = true -> wf w = true ->
  veqb v w = true -> regular_r v r = true -> regular_r w r = true -> r_allows r v = r_allows r w.
Proof. exact equal_probes_interchangeable. Qed.
Print Assumptions C18_probe_interchangeable.
Theorem C18_clause_equivalence :
  (forall a, atom_eqb a a = true) /\ (forall a b, ax a = ax b -> atom_eqb a b = atom_eqb b a) /\
  (forall a b c, atom_eqb a b = true -> atom_eqb b c = true -> ax a = ax b -> atom_eqb a c = true) /\
  (forall a b x, atom_eqb a b = true -> atom_sat a x = atom_sat b x /\ (av a, aop a) = (av b, aop b)).
Proof. exact (conj atom_eq_refl (conj atom_eq_sym (conj atom_eq_trans atom_eq_interchangeable))). Qed.
Print Assumptions C18_clause_equivalence.

(* compound version constraints: [vc_eqb] is == between EmptyConstraint, Version, VersionRange and VersionUnion objects (the model runs
   it against the implementation on the spelling pools, command ceq); [wpc c]: every member of c has well-formed bounds and is proper
   (lower bound below upper bound) - implied by [goodc], which every constraint parsed from text without local labels satisfies
   and which union / intersect / difference preserve (C05). *)
Theorem C18_constraint_equivalence :
  (forall c, vc_eqb c c = true) /\
  (forall a b, wpc a = true -> wpc b = true -> vc_eqb a b = vc_eqb b a) /\
  (forall a b c, wpc a = true -> wpc b = true -> wpc c = true -> vc_eqb a b = true -> vc_eqb b c = true -> vc_eqb a c = true).
Proof. exact (conj vc_eqb_refl (conj vc_eqb_sym vc_eqb_trans)). Qed.
Print Assumptions C18_constraint_equivalence.
Theorem C18_constraint_interchangeable : forall a b x, wpc a = true -> wpc b = true -> vc_eqb a b = true -> sem a x = sem b x.
Proof. exact vc_eqb_interchangeable. Qed.
Print Assumptions C18_constraint_interchangeable.
Theorem C18_good_constraints_qualify : forall c, goodc c = true -> wpc c = true.
Proof. exact goodc_wpc. Qed.
Print Assumptions C18_good_constraints_qualify.
Example C18_constraint_example :
  exists a b, parse_constraint_text false false ">=1.0,<2.0 || 3.0" = Ok a /\ parse_constraint_text false false ">=1,<2.0.0 || 3" = Ok b /\
    goodc a = true /\ goodc b = true /\ vc_eqb a b = true /\ a <> b.
Proof. do 2 eexists. repeat split; try (vm_compute; reflexivity). vm_compute. discriminate. Qed.
(* without properness == is not symmetric: the point 1.0 equals the improper range [1.0, 1.0) but not conversely; no parser or
   operation builds such a range from good operands (C05: results are good) *)
Example C18_improper_range_asymmetric :
  exists x, parse "1.0" = Some x /\ rng_eqb (RV x) (RR (Some x) (Some x) true false) = true /\ rng_eqb (RR (Some x) (Some x) true false) (RV x) = false.
Proof. eexists. repeat split; vm_compute; reflexivity. Qed.
