(* C18 — equal values hash equally and equality is an equivalence.
   Versions: equality is equality of the compare key, which is also what is hashed (C03); equal versions are
   interchangeable as constraints and as probes.  String-constraint clauses: == is an equivalence and implies the same
   (operator, value) pair (the hashed tuple) and the same admitted values.  Ranges, unions, markers, dependencies and
   specifications are judged on the implementation (all pairs and triples of the spelling pools). *)
From Coq Require Import List Bool NArith String.
From PC Require Import Base.Cmp Model.Pep440 Spec.Pep440Spec Proofs.Pep440Order Model.VConstraint Proofs.RangeSpec
     Model.Generic Proofs.EqProofs.
Import ListNotations.

Theorem C18_version_equivalence :
  (forall v, veqb v v = true) /\ (forall v w, veqb v w = veqb w v) /\
  (forall u v w, veqb u v = true -> veqb v w = true -> veqb u w = true).
Proof. exact veq_equiv. Qed.
Print Assumptions C18_version_equivalence.
Theorem C18_version_hash : forall v w, veqb v w = true <-> vkey v = vkey w.
Proof. exact (fun v w => conj (veqb_key v w) (key_veqb v w)). Qed.
Print Assumptions C18_version_hash.
Theorem C18_version_interchangeable : forall v w x, wf v = true -> wf w = true -> veqb v w = true ->
  r_allows (RV v) x = r_allows (RV w) x.
Proof. exact equal_versions_interchangeable. Qed.
Print Assumptions C18_version_interchangeable.
Theorem C18_probe_interchangeable : forall r v w, wf_rng r = true -> wf v = true -> wf w = true ->
  veqb v w = true -> regular_r v r = true -> regular_r w r = true -> r_allows r v = r_allows r w.
Proof. exact equal_probes_interchangeable. Qed.
Print Assumptions C18_probe_interchangeable.
Theorem C18_clause_equivalence :
  (forall a, atom_eqb a a = true) /\ (forall a b, ax a = ax b -> atom_eqb a b = atom_eqb b a) /\
  (forall a b c, atom_eqb a b = true -> atom_eqb b c = true -> ax a = ax b -> atom_eqb a c = true) /\
  (forall a b x, atom_eqb a b = true -> atom_sat a x = atom_sat b x /\ (av a, aop a) = (av b, aop b)).
Proof. exact (conj atom_eq_refl (conj atom_eq_sym (conj atom_eq_trans atom_eq_interchangeable))). Qed.
Print Assumptions C18_clause_equivalence.
