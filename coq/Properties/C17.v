(* C17 — marker projections only ever weaken.
   Proved on the unsimplified structure ([only_raw]: foreign leaves replaced by the universal marker):
   the projection mentions only the requested names and holds wherever the marker holds.  The implementation
   additionally re-simplifies (MultiMarker.of / MarkerUnion.of, level 2); exclusion and reduction by a Python range
   also go through the simplifier: they are judged on the implementation by the oracle. *)
From Coq Require Import List Bool NArith String.
From PC Require Import Base.Result Model.Generic Model.Marker Proofs.MarkerProofs.
Import ListNotations.

Theorem C17_only_weakens : forall E names m, beval E m = true -> beval E (only_raw names m) = true.
Proof. exact only_raw_weakens. Qed.
Print Assumptions C17_only_weakens.
Theorem C17_only_names : forall names m n, In n (names_of (only_raw names m)) -> mem_str n names = true.
Proof. exact only_raw_names. Qed.
Print Assumptions C17_only_names.
