(* C17 — marker projections only ever weaken.
   Proved on the unsimplified structure ([only_raw]: foreign leaves replaced by the universal marker):
   the projection mentions only the requested names and holds wherever the marker holds; and (level 2, partial —
   on every class of clauses meeting the premises of Proofs/MarkerAlgProofs.v; one such class is exhibited) on the projection as implemented, which re-simplifies
   through MultiMarker.of / MarkerUnion.of.  Exclusion and reduction by a Python range are judged on the
   implementation by the oracle. *)
From Coq Require Import List Bool NArith String.
From PC Require Import Base.Result Model.Generic Model.Marker Model.MarkerAlg Proofs.MarkerProofs Proofs.MarkerAlgProofs Proofs.StringClass Proofs.ExtraClass.
From PC Require Import Model.Pep440 Spec.Pep440Spec Model.VConstraint Proofs.DiffUnion Proofs.Closure Proofs.Pep440RoundTrip Proofs.ClauseText Proofs.ConstraintText Proofs.VersionClass.
Import ListNotations.

Theorem C17_only_weakens : forall E names m, beval E m = true -> beval E (only_raw names m) = true.
Proof. exact only_raw_weakens. Qed.
Print Assumptions C17_only_weakens.
Theorem C17_only_names : forall names m n, In n (names_of (only_raw names m)) -> mem_str n names = true.
Proof. exact only_raw_names. Qed.
Print Assumptions C17_only_names.

Theorem C17_only_simplified_partial : forall E R, clause_class E R ->
  forall fuel st names m r, G R m -> only fuel st names m = Ok r -> (beval E m = true -> beval E r = true) /\ G R r.
Proof. exact only_weakens. Qed.
Print Assumptions C17_only_simplified_partial.
Theorem C17_class_exists : forall E, clause_class E demo_R.
Proof. exact demo_class. Qed.
Print Assumptions C17_class_exists.

(* no premise left on markers over '==' / '!=' comparisons of string variables with plain values (see C07) *)
Theorem C17_only_string_markers : forall E fuel st names m r, G (SR E) m -> only fuel st names m = Ok r ->
  (beval E m = true -> beval E r = true) /\ G (SR E) r.
Proof. exact string_only. Qed.
Print Assumptions C17_only_string_markers.

Theorem C17_only_string_extra_markers : forall E extras, e_extras E = Some extras -> forall fuel st names m r, G (BR E) m ->
  only fuel st names m = Ok r -> (beval E m = true -> beval E r = true) /\ G (BR E) r.
Proof. exact both_only. Qed.
Print Assumptions C17_only_string_extra_markers.

(* ... and for markers that also hold comparison clauses of python_full_version *)
Theorem C17_only_string_extra_version_markers : forall E extras, e_extras E = Some extras ->
  forall ev, printable ev = true -> lookup pfv (e_vars E) = Some (to_string ev) ->
  forall B, mutual B -> (forall v, In v B -> normal v = true /\ pad_ok v = true /\ is_local v = false) -> regB B (reparsed ev) = true ->
  forall fuel st names m r, G (AR E B) m -> only fuel st names m = Ok r -> (beval E m = true -> beval E r = true) /\ G (AR E B) r.
Proof. exact all_only. Qed.
Print Assumptions C17_only_string_extra_version_markers.
