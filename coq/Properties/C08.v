(* C08 — reproducible builds: the part that is logic.  The member order is a function of the set of
   files; permission bits depend only on the owner-execute bit; every member carries the one timestamp
   chosen from SOURCE_DATE_EPOCH.  Byte layout of deflate/gzip/tar/zip is observed on real archives. *)
From Coq Require Import List Bool NArith ZArith String Permutation.
From PC Require Import Model.Wheel Proofs.WheelProofs.
Import ListNotations.
Open Scope N_scope.

(* sorted(...) by path: two listings of the same files (any order) give the same sequence *)
Theorem C08_listing_order : forall (A : Type) (key : A -> string) (l l' : list A),
  (forall x y, In x l -> In y l -> key x = key y -> x = y) ->
  Permutation l l' -> sort A key l = sort A key l'.
Proof. exact listing_order_irrelevant. Qed.
Print Assumptions C08_listing_order.

(* modes: group/other bits and umask do not matter, only the owner-execute bit (and the file-type bits) *)
Theorem C08_mode_class : forall m m', N.testbit m 6 = N.testbit m' 6 -> N.shiftr m 9 = N.shiftr m' 9 ->
  normalize_file_permissions m = normalize_file_permissions m'.
Proof. exact modes_class. Qed.
Print Assumptions C08_mode_class.

(* every member of a wheel carries the same timestamp, whatever the files' own mtimes *)
Theorem C08_one_timestamp : forall bytes digest size_of date ops m,
  In m (members (wrun bytes digest size_of date ops)) -> m_time m = date.
Proof. exact one_timestamp. Qed.
Print Assumptions C08_one_timestamp.

(* SOURCE_DATE_EPOCH: integer t at or after 1980-01-01 -> gmtime t; earlier, unset or not an integer -> the fixed default *)
Theorem C08_timestamp : forall (gmtime6 : Z -> list N),
  (forall t, (nth 0 (gmtime6 t) 0 <? 1980) = (t <? 315532800)%Z) ->
  forall sde, zip_date_time gmtime6 sde =
    match sde with
    | None => ZIP_DEFAULT
    | Some s => match py_int s with
                | None => ZIP_DEFAULT
                | Some t => if (t <? 315532800)%Z then ZIP_DEFAULT else gmtime6 t
                end
    end.
Proof. exact zip_date_spec. Qed.
Print Assumptions C08_timestamp.

Example C08_example :
  py_int " 42 " = Some 42%Z /\ py_int "abc" = None /\ py_int "315532799" = Some 315532799%Z /\ py_int "1e9" = None /\
  sdist_mtime (Some "abc"%string) 0%Z = 0%Z /\ sdist_mtime (Some "7"%string) 0%Z = 7%Z.
Proof. repeat split; vm_compute; reflexivity. Qed.
