(* C15: next_major / next_minor / next_patch / next_breaking give final releases strictly above V;
   ^V and ~V admit V, reject their upper bound and every pre-release of it. *)
From Coq Require Import List Bool NArith ZArith String Ascii Lia.
From PC Require Import Base.Cmp Base.Result Model.Pep440 Spec.Pep440Spec Spec.Specifier Proofs.Pep440Order
     Proofs.VersionFacts Model.VConstraint Proofs.RangeSpec Proofs.SpecifierAgree.
Import ListNotations.
Open Scope N_scope.

Definition rel_lt (a b : release) : bool := is_lt (cmp_rel_pad a b).
Lemma rel_ltb_pad a b : rel_ltb a b = rel_lt a b.
Proof. unfold rel_ltb, rel_lt. rewrite strip_is_padding. reflexivity. Qed.
Lemma cmp_pad_r_zeros l : cmp_pad_r (zeros l) = Eq.
Proof. induction l; simpl; auto. Qed.
Lemma cmp_pad_l_zeros l : cmp_pad_l (zeros l) = Eq.
Proof. induction l; simpl; auto. Qed.
Lemma lt_succ n : (n ?= n + 1) = Lt. Proof. apply N.compare_lt_iff. lia. Qed.

Lemma next_major_gt r : r <> [] -> rel_lt r (rel_next_major r) = true.
Proof.
  destruct r as [|m rest]; [congruence|]. intros _. unfold rel_lt, rel_next_major.
  cbn [cmp_rel_pad]. rewrite lt_succ. reflexivity.
Qed.
Lemma next_minor_gt r : r <> [] -> rel_lt r (rel_next_minor r) = true.
Proof.
  destruct r as [|m [|n rest]]; [congruence| |]; intros _; unfold rel_lt, rel_next_minor;
    cbn [cmp_rel_pad cmp_pad_l]; rewrite N.compare_refl; cbn [lex].
  - reflexivity.
  - rewrite lt_succ. reflexivity.
Qed.
Lemma next_patch_gt r : r <> [] -> rel_lt r (rel_next_patch r) = true.
Proof.
  destruct r as [|m [|n [|p rest]]]; [congruence| | |]; intros _; unfold rel_lt, rel_next_patch;
    cbn [cmp_rel_pad cmp_pad_l]; rewrite ?N.compare_refl; cbn [lex].
  - reflexivity.
  - reflexivity.
  - rewrite lt_succ. reflexivity.
Qed.

(* a version of a greater release class is greater *)
Lemma class_lt_vlt v w : epoch v = epoch w -> rel_lt (rel v) (rel w) = true -> vltb v w = true.
Proof.
  intros He Hr. apply clt_vltb. unfold clt, rcmp, cmp_pair; cbn [fst snd].
  rewrite He, N.compare_refl. cbn [lex]. rewrite strip_is_padding. exact Hr.
Qed.
(* a final release is above every unstable version of its class that is not a post-release-only *)
Lemma final_above_unstable v : wf v = true -> is_increment_required v = false ->
  vltb v (mk (epoch v) (rel v) None None None None) = true.
Proof.
  intros W H. set (f := mk (epoch v) (rel v) None None None None).
  assert (Sc : same_class v f = true).
  { unfold same_class. rewrite (rcmp_congr_r v f v) by reflexivity. rewrite (ol_refl rcmp_laws). reflexivity. }
  unfold vltb. rewrite (same_class_cmp _ _ Sc).
  unfold is_increment_required, is_stable, is_unstable, is_prerelease, is_devrelease, is_postrelease in H.
  unfold wf in W. rewrite !andb_true_iff in W. destruct W as [[Wt _] _].
  unfold wf_tags in Wt. rewrite !andb_true_iff in Wt. destruct Wt as [[Wp _] _].
  unfold skey, cmp_skey, cmp_pair, f, mk, pre_key, post_key, dev_key, local_key; cbn [fst snd pre post dev local].
  destruct (pre v) as [[pp pn]|]; cbn [t_ph] in *.
  - destruct pp; try discriminate; reflexivity.
  - destruct (post v), (dev v); cbn in H; try discriminate. reflexivity.
Qed.

Definition is_final_v (v : version) : bool := is_final v.
Lemma mk_final e r : is_final (mk e r None None None None) = true. Proof. reflexivity. Qed.

Theorem next_major_spec v : wf v = true -> is_final (next_major v) = true /\ vltb v (next_major v) = true.
Proof.
  intros W. split; [reflexivity|]. unfold next_major.
  assert (Hr : rel v <> []) by (unfold wf in W; destruct (rel v); [rewrite andb_false_r in W; discriminate|discriminate]).
  destruct (is_increment_required v) eqn:I; cbn [orb].
  - apply class_lt_vlt; [reflexivity|]. cbn [rel mk]. apply next_major_gt; exact Hr.
  - destruct (rel_ltb _ (rel v)).
    + apply class_lt_vlt; [reflexivity|]. apply next_major_gt; exact Hr.
    + apply final_above_unstable; assumption.
Qed.
Theorem next_minor_spec v : wf v = true -> is_final (next_minor v) = true /\ vltb v (next_minor v) = true.
Proof.
  intros W. split; [reflexivity|]. unfold next_minor.
  assert (Hr : rel v <> []) by (unfold wf in W; destruct (rel v); [rewrite andb_false_r in W; discriminate|discriminate]).
  destruct (is_increment_required v) eqn:I; cbn [orb].
  - apply class_lt_vlt; [reflexivity|]. apply next_minor_gt; exact Hr.
  - destruct (rel_ltb _ (rel v)).
    + apply class_lt_vlt; [reflexivity|]. apply next_minor_gt; exact Hr.
    + apply final_above_unstable; assumption.
Qed.
Theorem next_patch_spec v : wf v = true -> is_final (next_patch v) = true /\ vltb v (next_patch v) = true.
Proof.
  intros W. split; [reflexivity|]. unfold next_patch.
  assert (Hr : rel v <> []) by (unfold wf in W; destruct (rel v); [rewrite andb_false_r in W; discriminate|discriminate]).
  destruct (is_increment_required v) eqn:I; cbn [orb].
  - apply class_lt_vlt; [reflexivity|]. apply next_patch_gt; exact Hr.
  - destruct (rel_ltb _ (rel v)).
    + apply class_lt_vlt; [reflexivity|]. apply next_patch_gt; exact Hr.
    + apply final_above_unstable; assumption.
Qed.

(* Version.stable: same class, never below, stable, and an increment is always required on it *)
Lemma stable_facts v : wf v = true ->
  wf (stable v) = true /\ epoch (stable v) = epoch v /\ rel (stable v) = rel v /\
  is_increment_required (stable v) = true.
Proof.
  intros W. unfold stable. destruct (is_stable v) eqn:S.
  - repeat split; auto. unfold is_increment_required. rewrite S. reflexivity.
  - repeat split.
    unfold wf, wf_tags, wf_local, mk in *. cbn [pre post dev local rel].
    rewrite !andb_true_iff in W. destruct W as [[[[Wp Wpo] Wd] Wl] Wr].
    rewrite Wr. destruct (pre v); [reflexivity|]. rewrite Wpo. reflexivity.
Qed.
Lemma bump_stable_gt (bump : version -> version) v :
  (forall w, wf w = true -> is_increment_required w = true ->
             epoch (bump w) = epoch w /\ rel_lt (rel w) (rel (bump w)) = true) ->
  wf v = true -> epoch (bump (stable v)) = epoch v /\ rel_lt (rel v) (rel (bump (stable v))) = true.
Proof.
  intros Hb W. destruct (stable_facts v W) as (Ws & He & Hr & Hi).
  destruct (Hb (stable v) Ws Hi) as [E R]. rewrite He in E. rewrite Hr in R. auto.
Qed.
Lemma next_major_incr w : wf w = true -> is_increment_required w = true ->
  epoch (next_major w) = epoch w /\ rel_lt (rel w) (rel (next_major w)) = true.
Proof.
  intros W I. unfold next_major. rewrite I. cbn [orb mk epoch rel]. split; [reflexivity|].
  apply next_major_gt. unfold wf in W. destruct (rel w); [rewrite andb_false_r in W; discriminate|discriminate].
Qed.
Lemma next_minor_incr w : wf w = true -> is_increment_required w = true ->
  epoch (next_minor w) = epoch w /\ rel_lt (rel w) (rel (next_minor w)) = true.
Proof.
  intros W I. unfold next_minor. rewrite I. cbn [orb mk epoch rel]. split; [reflexivity|].
  apply next_minor_gt. unfold wf in W. destruct (rel w); [rewrite andb_false_r in W; discriminate|discriminate].
Qed.
Lemma next_patch_incr w : wf w = true -> is_increment_required w = true ->
  epoch (next_patch w) = epoch w /\ rel_lt (rel w) (rel (next_patch w)) = true.
Proof.
  intros W I. unfold next_patch. rewrite I. cbn [orb mk epoch rel]. split; [reflexivity|].
  apply next_patch_gt. unfold wf in W. destruct (rel w); [rewrite andb_false_r in W; discriminate|discriminate].
Qed.

Theorem next_breaking_spec v : wf v = true ->
  is_final (next_breaking v) = true /\ vltb v (next_breaking v) = true /\
  epoch (next_breaking v) = epoch v /\ rel_lt (rel v) (rel (next_breaking v)) = true.
Proof.
  intros W. unfold next_breaking.
  destruct (_ || _); [|destruct (_ || _)].
  - destruct (bump_stable_gt next_major v next_major_incr W) as [E R].
    repeat split; auto. apply class_lt_vlt; auto.
  - destruct (bump_stable_gt next_minor v next_minor_incr W) as [E R].
    repeat split; auto. apply class_lt_vlt; auto.
  - destruct (bump_stable_gt next_patch v next_patch_incr W) as [E R].
    repeat split; auto. apply class_lt_vlt; auto.
Qed.

(* ---- ^V and ~V ---- *)
(* a range [V, hi) whose upper bound is a final release of a greater class *)
Section Upper.
  Variables v hi : version.
  Hypothesis Wv : wf v = true.
  Hypothesis Whi : wf hi = true.
  Hypothesis Fhi : is_final hi = true.
  Hypothesis He : epoch hi = epoch v.
  Hypothesis Hr : rel_lt (rel v) (rel hi) = true.
  Let r := RR (Some v) (Some hi) true false.

  Lemma upper_other_class : same_class v hi = false.
  Proof.
    unfold same_class, rcmp, cmp_pair; cbn [fst snd]. rewrite He, N.compare_refl. cbn [lex].
    rewrite strip_is_padding. unfold rel_lt in Hr. destruct (cmp_rel_pad (rel v) (rel hi)); try discriminate. reflexivity.
  Qed.
  Lemma hi_facts : negb (is_prerelease hi) && negb (is_postrelease hi) && negb (is_devrelease hi) && negb (is_local hi) = true.
  Proof. exact Fhi. Qed.

  Theorem admits_lower : r_allows r v = true.
  Proof.
    unfold r, r_allows, rr_allows. apply andb_true_iff. split.
    - unfold rr_allows_lo; cbn [rmin imin negb andb].
      assert (O : (if negb (is_local v) && is_local v then without_local v else v) = v) by (destruct (is_local v); reflexivity).
      rewrite O, vlt_irrefl. reflexivity.
    - pose proof (lt_final_agrees hi v Whi Wv Fhi) as L.
      unfold r_allows, rr_allows in L. cbn [rr_allows_lo rmin andb] in L.
      assert (E : rr_allows_hi (RR (Some v) (Some hi) true false) v = rr_allows_hi (RR None (Some hi) false false) v).
      { unfold rr_allows_hi, allowed_max. cbn [rmax rmin imax imin oveq].
        pose proof hi_facts as F. rewrite !andb_true_iff, !negb_true_iff in F. destruct F as [[[F1 F2] F3] F4].
        unfold is_unstable. rewrite F1, F3. cbn [orb].
        rewrite (other_class_not_eq _ _ upper_other_class). reflexivity. }
      rewrite E, L. unfold sp_lt.
      rewrite (class_lt_vlt v hi (eq_sym He) Hr). cbn [andb].
      change (same_base v hi) with (same_class v hi). rewrite upper_other_class. rewrite andb_false_r. reflexivity.
  Qed.
  (* the upper bound itself and every version of its class below it (its pre- and dev-releases) are rejected *)
  Theorem rejects_upper_class x : wf x = true -> same_class x hi = true -> vltb hi x = false ->
    r_allows r x = false.
  Proof.
    intros Wx Sc Hle. unfold r, r_allows, rr_allows. apply andb_false_iff. right.
    assert (E : rr_allows_hi (RR (Some v) (Some hi) true false) x = rr_allows_hi (RR None (Some hi) false false) x).
    { unfold rr_allows_hi, allowed_max. cbn [rmax rmin imax imin oveq].
      pose proof hi_facts as F. rewrite !andb_true_iff, !negb_true_iff in F. destruct F as [[[F1 F2] F3] F4].
      unfold is_unstable. rewrite F1, F3. cbn [orb].
      rewrite (other_class_not_eq _ _ upper_other_class). reflexivity. }
    rewrite E.
    pose proof (lt_final_agrees hi x Whi Wx Fhi) as L.
    unfold r_allows, rr_allows in L. cbn [rr_allows_lo rmin andb] in L. rewrite L.
    unfold sp_lt. change (same_base x hi) with (same_class x hi). rewrite Sc.
    destruct (vltb x hi) eqn:Lt; [|reflexivity]. cbn [andb].
    pose proof hi_facts as F. rewrite !andb_true_iff, !negb_true_iff in F. destruct F as [[[F1 F2] F3] F4].
    unfold sp_is_prerelease at 1. rewrite F1, F3. cbn [orb negb andb].
    (* x < hi in the class of the final hi: x has a pre or dev segment *)
    destruct (sp_is_prerelease x) eqn:U; [reflexivity|]. exfalso.
    pose proof (lt_final_agrees hi x Whi Wx Fhi) as L2. clear L2.
    unfold sp_is_prerelease in U. apply orb_false_iff in U. destruct U as [U1 U2].
    (* then x >= hi, contradiction with Lt *)
    assert (G : vltb x hi = false).
    { unfold vltb. rewrite (same_class_cmp _ _ Sc), (final_skey hi Fhi).
      unfold skey, cmp_skey, cmp_pair, pre_key, post_key, dev_key, local_key, is_prerelease, is_devrelease in *; cbn [fst snd].
      destruct (pre x); [discriminate|]. destruct (dev x); [discriminate|].
      unfold wf in Wx. rewrite !andb_true_iff in Wx. destruct Wx as [[Wt Wlc] _].
      unfold wf_tags in Wt. rewrite !andb_true_iff in Wt. destruct Wt as [[_ Wpo] _].
      destruct (post x) as [[pop pon]|]; cbn [t_ph] in *.
      - destruct pop; try discriminate; reflexivity.
      - cbn [lex]. rewrite !(ol_refl cmp_tagkey_laws). cbn [lex].
        unfold wf_local in Wlc. destruct (local x) as [lx|]; [|reflexivity].
        assert (Hne : lx <> []) by (destruct lx; discriminate).
        pose proof (nolocal_le lx Hne) as Q.
        rewrite (ol_antisym (cmp_list_laws cmp_lkey_laws)).
        destruct (cmp_list cmp_lkey [(None, "")%string] (map lseg_key lx)) eqn:EQ; try reflexivity. congruence. }
    congruence.
  Qed.
End Upper.

(* ---- instantiation for the ranges the parser builds ---- *)
Lemma wf_final_mk e r : r <> [] -> wf (mk e r None None None None) = true.
Proof. intros H. unfold wf, wf_tags, wf_local, mk; cbn [pre post dev local rel]. destruct r; [congruence|reflexivity]. Qed.
Lemma next_major_rel_ne r : rel_next_major r <> []. Proof. destruct r; discriminate. Qed.
Lemma next_minor_rel_ne r : rel_next_minor r <> []. Proof. destruct r as [|m [|n rest]]; discriminate. Qed.
Lemma next_patch_rel_ne r : rel_next_patch r <> []. Proof. destruct r as [|m [|n [|p rest]]]; discriminate. Qed.
Lemma wf_rel_ne v : wf v = true -> rel v <> [].
Proof. unfold wf. destruct (rel v); [rewrite andb_false_r; discriminate|discriminate]. Qed.
Lemma wf_next_major v : wf v = true -> wf (next_major v) = true.
Proof. intros W. unfold next_major. apply wf_final_mk. destruct (_ || _); [apply next_major_rel_ne | apply wf_rel_ne; exact W]. Qed.
Lemma wf_next_minor v : wf v = true -> wf (next_minor v) = true.
Proof. intros W. unfold next_minor. apply wf_final_mk. destruct (_ || _); [apply next_minor_rel_ne | apply wf_rel_ne; exact W]. Qed.
Lemma wf_next_patch v : wf v = true -> wf (next_patch v) = true.
Proof. intros W. unfold next_patch. apply wf_final_mk. destruct (_ || _); [apply next_patch_rel_ne | apply wf_rel_ne; exact W]. Qed.
Lemma wf_next_breaking v : wf v = true -> wf (next_breaking v) = true.
Proof.
  intros W. destruct (stable_facts v W) as (Ws & _). unfold next_breaking.
  destruct (_ || _); [apply wf_next_major|destruct (_ || _); [apply wf_next_minor|apply wf_next_patch]]; exact Ws.
Qed.

Definition caret_range (v : version) : rng := RR (Some v) (Some (next_breaking v)) true false.
Definition tilde_range (v : version) : rng :=
  RR (Some v) (Some (if Nat.eqb (List.length (rel v)) 1 then next_major (stable v) else next_minor (stable v))) true false.

Theorem caret_spec v : wf v = true ->
  r_allows (caret_range v) v = true /\
  forall x, wf x = true -> same_class x (next_breaking v) = true -> vltb (next_breaking v) x = false ->
    r_allows (caret_range v) x = false.
Proof.
  intros W. destruct (next_breaking_spec v W) as (F & _ & E & R).
  pose proof (wf_next_breaking v W) as Wh. split.
  - apply admits_lower; auto.
  - intros x Wx Sc Le. apply rejects_upper_class; auto.
Qed.
Theorem tilde_spec v : wf v = true ->
  let hi := if Nat.eqb (List.length (rel v)) 1 then next_major (stable v) else next_minor (stable v) in
  is_final hi = true /\ vltb v hi = true /\
  r_allows (tilde_range v) v = true /\
  forall x, wf x = true -> same_class x hi = true -> vltb hi x = false -> r_allows (tilde_range v) x = false.
Proof.
  intros W hi. destruct (stable_facts v W) as (Ws & _).
  assert (H : is_final hi = true /\ wf hi = true /\ epoch hi = epoch v /\ rel_lt (rel v) (rel hi) = true).
  { unfold hi. destruct (Nat.eqb _ 1).
    - destruct (bump_stable_gt next_major v next_major_incr W) as [E R].
      repeat split; auto. apply wf_next_major; exact Ws.
    - destruct (bump_stable_gt next_minor v next_minor_incr W) as [E R].
      repeat split; auto. apply wf_next_minor; exact Ws. }
  destruct H as (F & Wh & E & R). split; [exact F|]. split; [apply class_lt_vlt; auto|]. split.
  - apply admits_lower; auto.
  - intros x Wx Sc Le. apply rejects_upper_class; auto.
Qed.
