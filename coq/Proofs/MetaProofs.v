(* C14: rendering core metadata and reading it back as RFC 822 headers gives exactly the intended fields —
   no value, whatever it contains, adds, removes or alters another field (values with a line break are refused). *)
From Coq Require Import List Bool NArith String Ascii Lia.
From PC Require Import Base.Result Model.Pep440 Model.Meta.
Import ListNotations.
Open Scope string_scope.

Definition name_char (c : ascii) : bool := ((33 <=? code c) && (code c <=? 126) && negb (code c =? 58))%N.
Definition good_name (n : string) : bool :=
  match lchars n with [] => false | _ => forallb name_char (lchars n) end.
Definition lstrip_str (s : string) : string := string_of_list_ascii (lstrip_ws (lchars s)).

Lemma lchars_app a b : lchars (a ++ b) = (lchars a ++ lchars b)%list.
Proof. unfold lchars. induction a; simpl; [reflexivity|]. rewrite IHa. reflexivity. Qed.
Lemma colon_split_name (n acc rest : chars) : forallb name_char n = true ->
  colon_split acc (n ++ ":"%char :: rest)%list = Some ((rev acc ++ n)%list, rest).
Proof.
  revert acc; induction n as [|c n IH]; intros acc H; cbn [app colon_split].
  - cbn. rewrite app_nil_r. reflexivity.
  - cbn [forallb] in H. apply andb_true_iff in H. destruct H as [Hc Hn].
    unfold name_char in Hc. apply andb_true_iff in Hc. destruct Hc as [Hr Hcol]. apply negb_true_iff in Hcol.
    rewrite Hcol, Hr. rewrite (IH (c :: acc) Hn). cbn [rev]. rewrite <- app_assoc. reflexivity.
Qed.
Lemma name_not_ws n c r : good_name n = true -> lchars n = c :: r -> is_ws c = false.
Proof.
  unfold good_name. intros H E. rewrite E in H. cbn [forallb] in H. apply andb_true_iff in H. destruct H as [H _].
  unfold name_char in H. apply andb_true_iff in H. destruct H as [H _]. apply andb_true_iff in H. destruct H as [H1 _].
  unfold is_ws. apply N.leb_le in H1. apply orb_false_iff. split; apply N.eqb_neq; lia.
Qed.
(* one header line is read back as its name and its value without leading blanks *)
Lemma read_one_header f rest acc : good_name (fst f) = true ->
  read_headers (header_line f :: rest) acc = read_headers rest ((fst f, [lstrip_str (snd f)]) :: acc).
Proof.
  intros G. destruct f as [n v]. cbn [fst snd] in *. unfold header_line. cbn [fst snd read_headers].
  rewrite !lchars_app. destruct (lchars n) as [|c r] eqn:E; [unfold good_name in G; rewrite E in G; discriminate|].
  cbn [app]. rewrite (name_not_ws n c r G E).
  assert (Hn : forallb name_char (c :: r) = true) by (unfold good_name in G; rewrite E in G; exact G).
  change (c :: (r ++ lchars ": " ++ lchars v))%list with ((c :: r) ++ ":"%char :: " "%char :: lchars v)%list.
  rewrite (colon_split_name (c :: r) [] _ Hn). cbn [rev app].
  assert (A : string_of_list_ascii (c :: r) = n).
  { rewrite <- E. unfold lchars. apply string_of_list_ascii_of_string. }
  assert (B : lstrip_ws (" "%char :: lchars v) = lstrip_ws (lchars v)).
  { unfold lstrip_ws. cbn [span]. change (is_ws " "%char) with true. cbn match.
    destruct (span is_ws (lchars v)); reflexivity. }
  rewrite A, B. reflexivity.
Qed.
Lemma read_header_block fs rest acc : forallb (fun f => good_name (fst f)) fs = true ->
  read_headers (map header_line fs ++ rest) acc =
  read_headers rest (rev (map (fun f => (fst f, [lstrip_str (snd f)])) fs) ++ acc).
Proof.
  revert acc; induction fs as [|f fs IH]; intros acc H; [reflexivity|].
  cbn [forallb] in H. apply andb_true_iff in H. destruct H as [Hf Hfs].
  cbn [map app]. rewrite (read_one_header f _ acc Hf), (IH _ Hfs). cbn [map rev]. rewrite <- app_assoc. reflexivity.
Qed.
(* continuation lines (the indented rest of a licence) attach to the header before them *)
Lemma read_continuations ls n vs rest acc :
  read_headers (map (fun l => indent9 ++ l) ls ++ rest) ((n, vs) :: acc) =
  read_headers rest ((n, (vs ++ map (fun l => (indent9 ++ l)%string) ls)%list) :: acc).
Proof.
  revert vs; induction ls as [|l ls IH]; intros vs; cbn [map app]; [rewrite app_nil_r; reflexivity|].
  cbn [read_headers]. unfold indent9 at 1. cbn [lchars append list_ascii_of_string].
  change (is_ws " "%char) with true. cbn match. rewrite IH. rewrite <- app_assoc. reflexivity.
Qed.

(* the headers and the body intended by the renderer *)
Definition expected_headers (m : meta) : list (string * list string) :=
  map (fun f => (fst f, [lstrip_str (snd f)])) (single_fields m) ++
  (match license_block m with
   | [] => []
   | first :: more => [("License", lstrip_str (string_of_list_ascii (skipn 8 (lchars first))) :: more)]
   end) ++
  map (fun f => (fst f, [lstrip_str (snd f)])) (later_fields m).

Lemma good_single m : forallb (fun f => good_name (fst f)) (single_fields m) = true.
Proof. reflexivity. Qed.
Lemma forallb_map' {A B} (f : B -> bool) (g : A -> B) l : forallb f (map g l) = forallb (fun x => f (g x)) l.
Proof. induction l as [|a l IH]; simpl; [reflexivity|]. rewrite IH. reflexivity. Qed.
Lemma good_later m : forallb (fun f => good_name (fst f)) (later_fields m) = true.
Proof.
  unfold later_fields. rewrite !forallb_app, !forallb_map'. cbn [fst].
  repeat (apply andb_true_iff; split); apply forallb_forall; intros; reflexivity.
Qed.
Lemma license_block_read m rest acc :
  read_headers (license_block m ++ rest) acc =
  read_headers rest (match license_block m with
                     | [] => acc
                     | first :: more => ("License", lstrip_str (string_of_list_ascii (skipn 8 (lchars first))) :: more) :: acc
                     end).
Proof.
  unfold license_block. destruct (truthy (m_license m)) as [t|]; [|reflexivity].
  destruct (license_lines t) as [|l1 ls].
  - cbn [app]. exact (read_one_header ("License", "") rest acc eq_refl).
  - cbn [app].
    change ("License: " ++ l1) with (header_line ("License", l1)).
    rewrite (read_one_header ("License", l1) _ acc eq_refl). cbn [fst snd]. rewrite read_continuations.
    cbn [app]. do 3 f_equal.
    unfold header_line, lstrip_str, lchars. cbn [fst snd append list_ascii_of_string skipn].
    rewrite list_ascii_of_string_of_list_ascii.
    unfold lstrip_ws. cbn [span]. change (is_ws " "%char) with true. cbn match.
    destruct (span is_ws (list_ascii_of_string l1)); reflexivity.
Qed.

(* the rendered lines read back as exactly the intended headers, then the body *)
Theorem render_lines_roundtrip m :
  parse_lines (render_lines m) =
  (expected_headers m, match m_description m with Some d => [d] | None => [] end).
Proof.
  unfold parse_lines, render_lines, expected_headers.
  rewrite (read_header_block (single_fields m) _ [] (good_single m)).
  rewrite license_block_read.
  set (acc1 := match license_block m with [] => _ | _ :: _ => _ end).
  rewrite (read_header_block (later_fields m) _ acc1 (good_later m)).
  subst acc1.
  destruct (m_description m) as [d|]; cbn [read_headers lchars list_ascii_of_string];
    destruct (license_block m) as [|first more]; rewrite ?rev_app_distr, ?rev_involutive; cbn [rev app];
    rewrite ?rev_app_distr, ?rev_involutive, ?app_nil_r; cbn [rev app]; rewrite <- ?app_assoc; reflexivity.
Qed.

(* rendering refuses exactly the values with a line break; otherwise every rendered line of a single-line
   field is free of line breaks, so splitting the text at line breaks gives the rendered lines back *)
Theorem render_guard m :
  (exists t, render m = Ok t) <-> existsb has_nl (single_line_values m) = false.
Proof.
  unfold render. destruct (existsb has_nl (single_line_values m)); split.
  - intros [t H]. discriminate.
  - intros H. discriminate.
  - reflexivity.
  - intros _. eexists. reflexivity.
Qed.
