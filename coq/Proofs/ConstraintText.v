(* C15: the printed text of a single version, a half-line or a bounded range parses back to the same constraint.
   The two re.split calls of _parse_constraint (modelled by hand in Model/VConstraint.v: split_or, split_and with the
   look-around conditions) are followed through the printed text: no separator can start inside a run of characters
   without blank, comma and bar; at the one comma of a range the separator conditions hold (the character before it is
   none of ^ ~ = > < blank comma dash, the one after it is no dash and no comma); each clause is then ClauseText.v, and the
   two half-lines intersect in the range when it is not degenerate ([nondeg], as in AnyIff.v). *)
From Coq Require Import List Bool Arith NArith String Ascii Lia.
From PC Require Import Base.Cmp Base.Result Model.Pep440 Spec.Pep440Spec Proofs.Pep440Order Proofs.Pep440Parse Model.VConstraint
     Proofs.VersionFacts Proofs.Pep440RoundTrip Proofs.ClauseText Proofs.AnyIff.
Import ListNotations.
Open Scope char_scope.
Open Scope N_scope.
Open Scope list_scope.

(* characters that take no part in the splitting of a constraint text: no blank, comma, bar *)
Definition plain (c : ascii) : bool := negb (is_space c) && negb (is_comma c) && negb (code c =? 124).
Lemma plain_not_blank c : plain c = true -> is_blank c = false.
Proof.
  unfold plain, is_blank, is_space. rewrite !andb_true_iff, !negb_true_iff. intros [[H _] _].
  apply orb_false_iff in H as [_ H]. apply andb_false_iff in H. apply N.eqb_neq. intros E. rewrite E in H. destruct H; discriminate.
Qed.
Lemma plain_not_comma c : plain c = true -> is_comma c = false.
Proof. unfold plain. rewrite !andb_true_iff, !negb_true_iff. tauto. Qed.

(* no separator starts inside a run of plain characters *)
Lemma no_sep_plain prev c r : plain c = true -> match_and_sep prev (c :: r) = None.
Proof.
  intros Hc. unfold match_and_sep. destruct prev as [p|]; [|reflexivity]. destruct (and_sep_class p); [reflexivity|].
  cbn [span]. rewrite (plain_not_blank c Hc). cbn [List.length and_try_ks and_try_k Nat.eqb andb].
  unfold and_try_k. cbn [Nat.eqb andb]. rewrite (plain_not_comma c Hc). cbn [andb]. destruct (is_dash p); reflexivity.
Qed.
Lemma split_and_plain l : forall fuel prev cur, forallb plain l = true -> (List.length l < fuel)%nat ->
  split_and fuel prev cur l = [rev cur ++ l].
Proof.
  induction l as [|c r IH]; intros fuel prev cur Hp Hf.
  - destruct fuel; [cbn in Hf; lia|]. cbn [split_and]. rewrite app_nil_r. reflexivity.
  - destruct fuel; [cbn in Hf; lia|]. cbn [forallb] in Hp. apply andb_true_iff in Hp as [Hc Hr].
    cbn [split_and]. rewrite (no_sep_plain prev c r Hc). rewrite (IH fuel (Some c) (c :: cur) Hr); [|cbn in Hf; lia].
    cbn [rev]. rewrite <- app_assoc. reflexivity.
Qed.

Definition semiplain (c : ascii) : bool := negb (is_space c) && negb (code c =? 124).   (* commas allowed *)
Lemma plain_semi c : plain c = true -> semiplain c = true.
Proof. unfold plain, semiplain. rewrite !andb_true_iff. tauto. Qed.
Lemma split_or_plain l : forall fuel cur, forallb semiplain l = true -> (List.length l < fuel)%nat ->
  split_or fuel cur l = [rev cur ++ l].
Proof.
  induction l as [|c r IH]; intros fuel cur Hp Hf.
  - destruct fuel; [cbn in Hf; lia|]. cbn [split_or]. rewrite app_nil_r. reflexivity.
  - destruct fuel; [cbn in Hf; lia|]. cbn [forallb] in Hp. apply andb_true_iff in Hp as [Hc Hr].
    unfold semiplain in Hc. apply andb_true_iff in Hc as [Hs Hb]. apply negb_true_iff in Hs, Hb.
    cbn [split_or span]. rewrite Hs, Hb. rewrite (IH fuel (c :: cur) Hr); [|cbn in Hf; lia].
    cbn [rev]. rewrite <- app_assoc. reflexivity.
Qed.
Lemma drop_spaces_semi l : forallb semiplain l = true -> drop_spaces l = l.
Proof.
  destruct l as [|c r]; [reflexivity|]. cbn [forallb]. intros H. apply andb_true_iff in H as [Hc _].
  unfold semiplain in Hc. apply andb_true_iff in Hc as [Hs _]. apply negb_true_iff in Hs. unfold drop_spaces. cbn [span]. rewrite Hs. reflexivity.
Qed.
Lemma forallb_rev' {A} (p : A -> bool) l : forallb p (rev l) = forallb p l.
Proof. induction l as [|x l IH]; [reflexivity|]. cbn [rev]. rewrite forallb_app, IH. cbn. rewrite andb_true_r. apply andb_comm. Qed.
Lemma rstrip_ws_semi l : forallb semiplain l = true -> rstrip_ws l = l.
Proof. intros H. unfold rstrip_ws. rewrite drop_spaces_semi by (rewrite forallb_rev'; exact H). apply rev_involutive. Qed.
Lemma rstrip_commas_end l c : is_comma c = false -> rstrip_commas (l ++ [c]) = l ++ [c].
Proof.
  intros Hc. induction l as [|x l IH]; cbn [app rstrip_commas]; [rewrite Hc; reflexivity|].
  rewrite IH. destruct (l ++ [c]) eqn:E; [destruct l; discriminate|reflexivity].
Qed.

Lemma sep_at_comma p b B : and_sep_class p = false -> is_dash p = false -> plain b = true -> is_dash b = false ->
  match_and_sep (Some p) ("," :: b :: B) = Some (b :: B).
Proof.
  intros Hp Hd Hb Hdb. unfold match_and_sep. rewrite Hp. cbn [span]. replace (is_blank ",") with false by reflexivity.
  cbn [List.length and_try_ks]. unfold and_try_k. cbn [Nat.eqb andb]. rewrite Hd. replace (is_comma ",") with true by reflexivity.
  cbn [head_is andb]. rewrite Hdb. cbn [negb andb]. unfold and_sep_tail. cbn [span]. rewrite (plain_not_blank b Hb), (plain_not_comma b Hb). reflexivity.
Qed.
Lemma split_and_comma A : forall b B fuel prev cur, A <> [] -> forallb plain A = true ->
  and_sep_class (last A " ") = false -> is_dash (last A " ") = false ->
  forallb plain (b :: B) = true -> is_dash b = false ->
  (List.length A + List.length B + 2 < fuel)%nat ->
  split_and fuel prev cur (A ++ "," :: b :: B) = [rev cur ++ A; b :: B].
Proof.
  induction A as [|a A IH]; intros b B fuel prev cur Hne HA Hc Hd HB Hdb Hf; [congruence|].
  destruct fuel; [cbn in Hf; lia|]. cbn [forallb] in HA. apply andb_true_iff in HA as [Ha HA].
  cbn [app split_and]. rewrite (no_sep_plain prev a _ Ha).
  destruct A as [|a' A'].
  - cbn [app]. destruct fuel; [cbn in Hf; lia|]. cbn [split_and]. cbn [last] in Hc, Hd.
    pose proof HB as HB'. cbn [forallb] in HB'. apply andb_true_iff in HB' as [Hb _].
    rewrite (sep_at_comma a b B Hc Hd Hb Hdb).
    rewrite (split_and_plain (b :: B) fuel (Some " ") [] HB); [|cbn in *; lia]. cbn [rev app]. reflexivity.
  - rewrite (IH b B fuel (Some a) (a :: cur)); try assumption; [|discriminate|cbn in *; lia].
    cbn [rev]. rewrite <- app_assoc. reflexivity.
Qed.

Lemma plain_printed v : printable v = true -> forallb plain (printed v) = true.
Proof.
  intros P. apply forallb_forall. apply Forall_forall. apply printed_P; try reflexivity; [|exact P].
  intros c Hc. pose proof (low_alnum_code c Hc) as B. unfold plain, is_space, is_comma.
  rewrite !andb_true_iff, !negb_true_iff. repeat split.
  - apply orb_false_iff. split; apply andb_false_iff; right; apply N.leb_gt; lia.
  - apply N.eqb_neq. lia.
  - apply N.eqb_neq. lia.
Qed.
Lemma last_Forall {A} (Q : A -> Prop) l d : Forall Q l -> l <> [] -> Q (last l d).
Proof. induction 1 as [|x l Hx _ IH]; [congruence|]. intros _. destruct l as [|y l']; [exact Hx|]. apply IH. discriminate. Qed.
Lemma last_app_ne {A} (x y : list A) d : y <> [] -> last (x ++ y) d = last y d.
Proof.
  intros Hy. induction x as [|c x IH]; [reflexivity|]. cbn [app]. destruct (x ++ y) eqn:E; [destruct x; [cbn in E; congruence|discriminate]|].
  change (last (c :: a :: l) d) with (last (a :: l) d). exact IH.
Qed.
Definition quiet (c : ascii) : Prop := and_sep_class c = false /\ is_dash c = false.
Lemma quiet_printed v : printable v = true -> Forall quiet (printed v).
Proof.
  intros P. apply printed_P; try (split; reflexivity); [|exact P].
  intros c Hc. pose proof (low_alnum_code c Hc) as B. unfold quiet, and_sep_class, is_dash. rewrite !orb_false_iff. repeat split; apply N.eqb_neq; lia.
Qed.
Lemma printed_ne v : printable v = true -> printed v <> [].
Proof. intros P. destruct (printed_starts_digit v P) as (d & r & E & _). rewrite E. discriminate. Qed.

Definition lo_op (i : bool) : string := if i then ">=" else ">".
Definition hi_op (j : bool) : string := if j then "<=" else "<".
Lemma soa_app x y : string_of_list_ascii (x ++ y) = (string_of_list_ascii x ++ string_of_list_ascii y)%string.
Proof. induction x; cbn; [reflexivity|]. rewrite IHx. reflexivity. Qed.
Lemma soa_lchars s : string_of_list_ascii (lchars s) = s.
Proof. apply string_of_list_ascii_of_string. Qed.
Lemma plain_semi_all l : forallb plain l = true -> forallb semiplain l = true.
Proof. intros H. rewrite forallb_forall in *. intros c Hc. apply plain_semi, H, Hc. Qed.

Section RangeText.
  Variables (a b : version) (i j : bool).
  Hypothesis Pa : printable a = true.
  Hypothesis Pb : printable b = true.
  Let A : chars := lchars (lo_op i) ++ printed a.
  Let Bc : chars := lchars (hi_op j) ++ printed b.
  Let s : string := (lo_op i ++ to_string a ++ "," ++ hi_op j ++ to_string b)%string.

  Lemma lchars_s : lchars s = A ++ "," :: Bc.
  Proof.
    unfold s, A, Bc. rewrite !lchars_app. rewrite (lchars_to_string a), (lchars_to_string b).
    - rewrite <- !app_assoc. reflexivity.
    - unfold printable, wf in Pb. apply andb_true_iff in Pb as [Q _]. apply andb_true_iff in Q as [_ Q]. destruct (rel b); [discriminate|congruence].
    - unfold printable, wf in Pa. apply andb_true_iff in Pa as [Q _]. apply andb_true_iff in Q as [_ Q]. destruct (rel a); [discriminate|congruence].
  Qed.
  Lemma plain_A : forallb plain A = true.
  Proof. unfold A. rewrite forallb_app, (plain_printed a Pa). destruct i; reflexivity. Qed.
  Lemma plain_B : forallb plain Bc = true.
  Proof. unfold Bc. rewrite forallb_app, (plain_printed b Pb). destruct j; reflexivity. Qed.
  Lemma groups_range : clause_groups s = [[(lo_op i ++ to_string a)%string; (hi_op j ++ to_string b)%string]].
  Proof.
    unfold clause_groups. rewrite lchars_s.
    assert (SP : forallb semiplain (A ++ "," :: Bc) = true).
    { rewrite forallb_app. cbn [forallb]. rewrite (plain_semi_all A plain_A), (plain_semi_all Bc plain_B). reflexivity. }
    rewrite (drop_spaces_semi _ SP), (rstrip_ws_semi _ SP).
    rewrite (split_or_plain _ _ [] SP) by lia. cbn [rev app map].
    (* the group does not end in a comma *)
    assert (EB : exists B0 c, Bc = B0 ++ [c] /\ is_comma c = false).
    { destruct (exists_last (printed_ne b Pb)) as (p0 & c & E). exists (lchars (hi_op j) ++ p0), c. split.
      - unfold Bc. rewrite E, app_assoc. reflexivity.
      - pose proof (plain_printed b Pb) as H. rewrite E, forallb_app in H. apply andb_true_iff in H as [_ H]. cbn in H. rewrite andb_true_r in H.
        apply plain_not_comma, H. }
    destruct EB as (B0 & c & EB & Hc).
    replace (A ++ "," :: Bc) with ((A ++ "," :: B0) ++ [c]) by (rewrite EB, <- app_assoc; reflexivity).
    rewrite (rstrip_commas_end _ c Hc).
    replace ((A ++ "," :: B0) ++ [c]) with (A ++ "," :: Bc) by (rewrite EB, <- app_assoc; reflexivity).
    rewrite (rstrip_ws_semi _ SP).
    assert (EBc : exists b0 B', Bc = b0 :: B' /\ is_dash b0 = false) by (unfold Bc; destruct j; cbn; do 2 eexists; split; reflexivity).
    destruct EBc as (b0 & B' & EBc & Hd). rewrite EBc.
    assert (NA : A <> []) by (unfold A; destruct i; discriminate).
    assert (QA : quiet (last A " ")).
    { unfold A. rewrite (last_app_ne _ _ _ (printed_ne a Pa)). apply last_Forall; [apply quiet_printed, Pa|apply printed_ne, Pa]. }
    destruct QA as [Q1 Q2].
    rewrite (split_and_comma A b0 B' _ None [] NA plain_A Q1 Q2); [| rewrite <- EBc; exact plain_B | exact Hd |].
    - cbn [rev app map]. rewrite <- EBc. unfold A, Bc. rewrite !soa_app, !soa_lchars, (printed_to_string a Pa), (printed_to_string b Pb). reflexivity.
    - rewrite app_length. cbn [List.length]. lia.
  Qed.
End RangeText.

Lemma parse_single_ex_ok m c r : parse_single m c = Ok r -> parse_single_ex m true c = Ok r.
Proof. intros H. unfold parse_single_ex. rewrite H. reflexivity. Qed.

(* C15: the text of a bounded range parses back to that range *)
Theorem range_text_roundtrip m a b i j : printable a = true -> printable b = true ->
  let a' := reparsed a in let b' := reparsed b in
  vltb a' b' = true -> nondeg (RR (Some a') (Some b') i j) = true ->
  parse_constraint_text m true (lo_op i ++ to_string a ++ "," ++ hi_op j ++ to_string b) = Ok (VOne (RR (Some a') (Some b') i j)).
Proof.
  intros Pa Pb a' b' Lt ND. unfold parse_constraint_text.
  assert (NS : String.eqb (lo_op i ++ to_string a ++ "," ++ hi_op j ++ to_string b) "*" = false) by (destruct i; reflexivity).
  rewrite NS, (groups_range a b i j Pa Pb). cbn [mapR parse_group_ex].
  assert (C1 : parse_single_ex m true (lo_op i ++ to_string a) = Ok (VOne (RR (Some a') None i false))).
  { apply parse_single_ex_ok. destruct i; [apply clause_ge|apply clause_gt]; exact Pa. }
  assert (C2 : parse_single_ex m true (hi_op j ++ to_string b) = Ok (VOne (RR None (Some b') false j))).
  { apply parse_single_ex_ok. destruct j; [apply clause_le|apply clause_lt]; exact Pb. }
  rewrite C1. cbn [bind fold_left]. rewrite C2. cbn [bind intersect r_intersect].
  (* the two half-lines meet in the range *)
  assert (AL : allows_lower (RR (Some a') None i false) (RR None (Some b') false j) = false) by reflexivity.
  rewrite AL.
  assert (SL : is_strictly_lower (RR None (Some b') false j) (RR (Some a') None i false) = false).
  { unfold nondeg in ND. apply negb_true_iff in ND. unfold is_strictly_lower in *. cbn [rmin imin imax] in *.
    assert (AM : allowed_max (RR None (Some b') false j) = allowed_max (RR (Some a') (Some b') i j)).
    { unfold allowed_max. cbn [rmax rmin imin imax oveq]. destruct (j || is_unstable b'); [reflexivity|].
      replace (veqb a' b') with false; [reflexivity|]. symmetry. rewrite veqb_ltb, Lt. reflexivity. }
    rewrite AM. exact ND. }
  rewrite SL.
  assert (AH : allows_higher (RR (Some a') None i false) (RR None (Some b') false j) = true).
  { unfold allows_higher. unfold allowed_max at 1. cbn [rmax]. unfold allowed_max. cbn [rmax rmin imin imax oveq].
    destruct (j || is_unstable b'); reflexivity. }
  rewrite AH. cbn [rmin rmax imin imax oveq].
  replace (veqb a' b') with false by (symmetry; rewrite veqb_ltb, Lt; reflexivity).
  reflexivity.
Qed.
Print Assumptions range_text_roundtrip.

Lemma reparsed_normal v : text v = to_string v -> reparsed v = v.
Proof. intros H. destruct v as [e r p po d l t]. unfold reparsed. cbn in *. rewrite <- H. reflexivity. Qed.

(* a text without blanks, commas and bars is one clause *)
Lemma groups_single (l : chars) : l <> [] -> forallb plain l = true -> clause_groups (string_of_list_ascii l) = [[string_of_list_ascii l]].
Proof.
  intros Hne Hp. unfold clause_groups, lchars. rewrite list_ascii_of_string_of_list_ascii.
  pose proof (plain_semi_all l Hp) as SP.
  rewrite (drop_spaces_semi _ SP), (rstrip_ws_semi _ SP). rewrite (split_or_plain _ _ [] SP) by lia. cbn [rev app map].
  destruct (exists_last Hne) as (l0 & c & E).
  assert (Hc : is_comma c = false).
  { rewrite E, forallb_app in Hp. apply andb_true_iff in Hp as [_ Hp]. cbn in Hp. rewrite andb_true_r in Hp. apply plain_not_comma, Hp. }
  assert (RC : rstrip_commas l = l) by (rewrite E; apply rstrip_commas_end; exact Hc).
  rewrite RC, (rstrip_ws_semi _ SP).
  rewrite (split_and_plain l _ None [] Hp) by lia. reflexivity.
Qed.
Lemma one_clause_text m (op : string) v r : printable v = true -> forallb plain (lchars op) = true ->
  parse_single m (op ++ to_string v) = Ok r ->
  parse_constraint_text m true (op ++ to_string v) = Ok r.
Proof.
  intros P Hop H. unfold parse_constraint_text.
  assert (NS : String.eqb (op ++ to_string v) "*" = false).
  { apply String.eqb_neq. intros E. apply (f_equal lchars) in E. rewrite (lchars_clause op v P) in E.
    destruct (printed_starts_digit v P) as (d & r0 & E0 & Hd). rewrite E0 in E.
    destruct (lchars op) as [|c [|c' l']]; cbn in E; try discriminate. injection E as E _. subst d. discriminate Hd. }
  rewrite NS.
  assert (G : clause_groups (op ++ to_string v) = [[(op ++ to_string v)%string]]).
  { rewrite <- (soa_lchars (op ++ to_string v)). rewrite (lchars_clause op v P). apply groups_single.
    - destruct (printed_starts_digit v P) as (d & r0 & E0 & _). rewrite E0. destruct (lchars op); discriminate.
    - rewrite forallb_app, Hop, (plain_printed v P). reflexivity. }
  rewrite G. cbn [mapR parse_group_ex]. rewrite (parse_single_ex_ok m _ r H). reflexivity.
Qed.

(* C15: the printed text of a single version, a half-line or a bounded range parses back to the same constraint, for bounds in
   normal form; bounded ranges that print as a wildcard ('==1.2.*') are excluded here *)
Definition normal (v : version) : bool := printable v && String.eqb (text v) (to_string v).
Theorem printed_range_roundtrip m r : 
  match r with
  | RV v => normal v = true
  | RR (Some a) None _ false => normal a = true
  | RR None (Some b) false _ => normal b = true
  | RR (Some a) (Some b) _ _ => normal a = true /\ normal b = true /\ vltb a b = true /\ nondeg r = true /\ is_single_wildcard_range r = false
  | _ => False
  end ->
  parse_constraint_text m true (r_str r) = Ok (VOne r).
Proof.
  assert (N : forall v, normal v = true -> printable v = true /\ text v = to_string v /\ reparsed v = v).
  { intros v H. unfold normal in H. apply andb_true_iff in H as [P E]. apply String.eqb_eq in E. auto using reparsed_normal. }
  destruct r as [v|[a|] [b|] i j]; intros H.
  - destruct (N v H) as (P & E & R). cbn [r_str]. rewrite E. change (to_string v) with ("" ++ to_string v)%string.
    apply (one_clause_text m "" v _ P eq_refl). rewrite <- R at 2. apply clause_bare, P.
  - destruct H as (Ha & Hb & Lt & ND & W). destruct (N a Ha) as (Pa & Ea & Ra). destruct (N b Hb) as (Pb & Eb & Rb).
    unfold r_str. rewrite W, Ea, Eb.
    pose proof (range_text_roundtrip m a b i j Pa Pb) as T. cbv zeta in T. rewrite Ra, Rb in T. specialize (T Lt ND).
    unfold lo_op, hi_op in T. destruct i, j; exact T.
  - destruct j; [contradiction|]. destruct (N a H) as (P & E & R). unfold r_str. cbn [is_single_wildcard_range]. rewrite E.
    destruct i.
    + apply (one_clause_text m ">=" a _ P eq_refl). rewrite <- R at 2. apply clause_ge, P.
    + apply (one_clause_text m ">" a _ P eq_refl). rewrite <- R at 2. apply clause_gt, P.
  - destruct i; [contradiction|]. destruct (N b H) as (P & E & R). unfold r_str. cbn [is_single_wildcard_range]. rewrite E.
    destruct j.
    + apply (one_clause_text m "<=" b _ P eq_refl). rewrite <- R at 2. apply clause_le, P.
    + apply (one_clause_text m "<" b _ P eq_refl). rewrite <- R at 2. apply clause_lt, P.
  - contradiction.
Qed.
Print Assumptions printed_range_roundtrip.
