(* C07/C13/C17/C02: the '==' / '!=' clauses on 'extra' (with the atomic conjunctions / disjunctions the merge builds from them)
   form a clause class on every environment that defines the active extras; and the union of this class with the class of
   string clauses (Proofs/StringClass.v) is again a class. *)
From Coq Require Import List Bool Arith NArith String Ascii Lia.
From PC Require Import Base.Cmp Base.Result Model.Pep440 Model.VConstraint Model.Generic Model.Marker Model.MarkerAlg
     Proofs.GenericProofs Proofs.GenericUnion Proofs.GenericUnionX Proofs.GenericExtras Proofs.GenericAtoms Proofs.GenericClosed
     Proofs.MarkerProofs Proofs.MarkerAlgProofs Proofs.LeafRebuild Proofs.StringClass.
Import ListNotations.
Open Scope list_scope.

Lemma forallb_ext_in' {A} (f g : A -> bool) l : (forall a, In a l -> f a = g a) -> forallb f l = forallb g l.
Proof. induction l as [|a l IH]; intros H; cbn; [reflexivity|]. rewrite (H a (or_introl eq_refl)), IH; [reflexivity|]. intros b Hb. apply H. right. exact Hb. Qed.

Definition XFa' (a : atom) : Prop := ax a = true /\ eqne a = true /\ pv (av a) = true.

(* the member class is closed under the union-level operations *)
Lemma xgs_union_closed a b u : XFs a -> XFs b -> gs_union a b = Ok u -> Pc XFs u.
Proof.
  intros Fa_ Fb_ H. destruct a as [| |a|ma la], b as [| |b|mb lb]; cbn [gs_union] in H; try (injection H as <-; cbn; auto).
  - unfold atom_union_atom in H. destruct Fa_ as [Xa Ea]. rewrite Xa in H. destruct (atom_eqb b a); [injection H as <-; split; assumption|].
    destruct (_ && _); injection H as <-; cbn; [exact I|]. constructor; [split; assumption|constructor; [exact Fb_|constructor]].
  - destruct Fb_ as (-> & Fl & Nd). unfold multi_union_atom in H. cbn [negb andb] in H.
    destruct (atom_in a lb); [injection H as <-; exact Fa_|]. destruct (_ && _); injection H as <-; cbn [Pc].
    + apply Forall_app. split; [|constructor; [exact Fa_|constructor]]. apply Forall_forall. intros s Hs. apply in_map_iff in Hs. destruct Hs as [c [<- Hc]].
      apply filter_In in Hc. rewrite Forall_forall in Fl. exact (Fl c (proj1 Hc)).
    + constructor; [split; [reflexivity|split; assumption]|constructor; [exact Fa_|constructor]].
  - destruct Fa_ as (-> & Fl & Nd). unfold multi_union_atom in H. cbn [negb andb] in H.
    destruct (atom_in b la); [injection H as <-; exact Fb_|]. destruct (_ && _); injection H as <-; cbn [Pc].
    + apply Forall_app. split; [|constructor; [exact Fb_|constructor]]. apply Forall_forall. intros s Hs. apply in_map_iff in Hs. destruct Hs as [c [<- Hc]].
      apply filter_In in Hc. rewrite Forall_forall in Fl. exact (Fl c (proj1 Hc)).
    + constructor; [split; [reflexivity|split; assumption]|constructor; [exact Fb_|constructor]].
  - destruct Fa_ as (-> & Fl & Nd). destruct Fb_ as (_ & Fl' & Nd'). unfold multi_union_multi in H. cbv zeta in H. cbn [negb andb] in H.
    destruct (forallb _ la); [injection H as <-; split; [reflexivity|split; assumption]|].
    destruct (forallb _ lb); injection H as <-; [split; [reflexivity|split; assumption]|].
    constructor; [split; [reflexivity|split; assumption]|constructor; [split; [reflexivity|split; assumption]|constructor]].
Qed.
Lemma XFc_closed_meet a b r : XFc a -> XFc b -> g_intersect a b = Ok r -> Pc XFs r.
Proof.
  intros Fa_ Fb_. apply (g_intersect_closed XFs I (fun a b r Ha Hb H => proj2 (xgs_intersect (fun v => v) [] a b r Ha Hb H)) XFs_atom).
  - destruct a; [exact Fa_|exact (proj1 Fa_)].
  - destruct b; [exact Fb_|exact (proj1 Fb_)].
Qed.
Lemma XFc_closed_join a b r : XFc a -> XFc b -> g_union a b = Ok r -> Pc XFs r.
Proof.
  intros Fa_ Fb_. apply (g_union_closed XFs I xgs_union_closed).
  - destruct a; [exact Fa_|exact (proj1 Fa_)].
  - destruct b; [exact Fb_|exact (proj1 Fb_)].
Qed.

Section XClass.
  Variable E : env.
  Variable extras : list string.
  Hypothesis Hex : e_extras E = Some extras.
  Definition xact : list string := map canon_name extras.
  Notation axs' := (axs canon_name xact).
  Notation gxs' := (gxs canon_name xact).
  Notation cxs' := (cxs canon_name xact).

  Definition XR (m : marker) : Prop :=
    match m with
    | MSingle l => l_name l = "extra"%string /\ l_swapped l = false /\
                   exists o, eqne_op o = true /\ l_op l = op_text o /\ pv (l_value l) = true /\
                             l_con l = CG (GS (SAtom (mkA (l_value l) o true)))
    | MAtomicMulti n a => n = "extra"%string /\ Forall XFa' a /\ NoDup (map av a)
    | MAtomicUnion n a => n = "extra"%string /\ a <> [] /\ Forall XFa' a
    | _ => False
    end.

  Lemma lval_extra a : eqne a = true -> lval E "extra" (CG (GS (SAtom a))) = axs' a.
  Proof.
    intros Ea. unfold lval, validate_con. cbn [String.eqb Ascii.eqb]. rewrite Hex. unfold GenericUnionX.axs, xact, eqne in *.
    destruct (aop a); try discriminate; reflexivity.
  Qed.
  Lemma XFa'_XFa a : XFa' a -> XFa a. Proof. intros (A & B & _). split; assumption. Qed.

  Lemma XR_leaf_like m : XR m -> exists c, leaf_like m = Some ("extra"%string, CG c) /\ beval E m = cxs' c /\
                                         XFc c /\ nonempty_c c /\ Forall XFa' (atoms_c c).
  Proof.
    destruct m as [| |l|n a|n a|l|l]; cbn [XR]; try contradiction.
    - intros (Hn & Hs & o & Ho & Hop & Hv & Hc). exists (GS (SAtom (mkA (l_value l) o true))).
      assert (Eo : eqne (mkA (l_value l) o true) = true) by (unfold eqne; cbn; destruct o; try discriminate; reflexivity).
      cbn [leaf_like]. rewrite Hc, Hn. refine (conj eq_refl (conj _ (conj _ (conj I _)))).
      + cbn [beval]. rewrite Hc, Hn. apply lval_extra, Eo.
      + cbn. split; [reflexivity|exact Eo].
      + cbn [atoms_c atoms_s]. constructor; [|constructor]. split; [reflexivity|]. split; [exact Eo|exact Hv].
    - intros (-> & Ha & Nd). exists (GS (SMulti true a)). cbn [leaf_like String.eqb Ascii.eqb]. refine (conj eq_refl (conj _ (conj _ (conj I _)))).
      + cbn [beval String.eqb Ascii.eqb GenericUnionX.cxs GenericUnionX.gxs]. apply forallb_ext_in'. intros x Hx. rewrite Forall_forall in Ha.
        apply lval_extra. exact (proj1 (proj2 (Ha x Hx))).
      + cbn. split; [reflexivity|]. split; [|exact Nd]. apply Forall_forall. intros x Hx. rewrite Forall_forall in Ha. exact (XFa'_XFa x (Ha x Hx)).
      + exact Ha.
    - intros (-> & Hne & Ha). exists (GU (map SAtom a)). cbn [leaf_like].
      assert (Nm : map SAtom a <> []) by (intros H; apply map_eq_nil in H; contradiction).
      refine (conj eq_refl (conj _ (conj _ (conj Nm _)))).
      + cbn [beval String.eqb Ascii.eqb GenericUnionX.cxs]. rewrite GenericProofs.existsb_map'. apply GenericProofs.existsb_ext_in'. intros x Hx. rewrite Forall_forall in Ha.
        cbn [GenericUnionX.gxs]. apply lval_extra. exact (proj1 (proj2 (Ha x Hx))).
      + cbn. split; [|exact Nm]. apply Forall_forall. intros s Hs. apply in_map_iff in Hs. destruct Hs as [x [<- Hx]]. rewrite Forall_forall in Ha. exact (XFa'_XFa x (Ha x Hx)).
      + cbn [atoms_c]. rewrite map_satom_atoms. exact Ha.
  Qed.
End XClass.

Section XFacts.
  Variable E : env.
  Variable extras : list string.
  Hypothesis Hex : e_extras E = Some extras.
  Notation R := XR.
  Notation act := (xact extras).

  Lemma xatoms_eqb_any : forall l l', atoms_eqb l l' = true -> existsb (gxs canon_name act) (map SAtom l) = existsb (gxs canon_name act) (map SAtom l').
  Proof.
    induction l as [|a l IH]; intros [|b l'] H; try discriminate; [reflexivity|]. cbn in H. apply andb_true_iff in H. destruct H as [H1 H2].
    cbn [map existsb GenericUnionX.gxs]. rewrite (GenericUnionX.atom_eqb_sat canon_name act a b H1), (IH l' H2). reflexivity.
  Qed.
  Lemma xatom_eqb_sym a b : ax a = true -> ax b = true -> atom_eqb a b = atom_eqb b a.
  Proof. intros Xa Xb. unfold atom_eqb. rewrite Xa, Xb, (String.eqb_sym (av a) (av b)). destruct (aop a), (aop b); reflexivity. Qed.
  Lemma xatoms_eqb_sym : forall l l', Forall (fun a => ax a = true) l -> Forall (fun a => ax a = true) l' -> atoms_eqb l l' = atoms_eqb l' l.
  Proof.
    induction l as [|a l IH]; intros [|b l'] Hl Hl'; try reflexivity. inversion Hl; inversion Hl'; subst. cbn.
    rewrite (xatom_eqb_sym a b), (IH l'); auto.
  Qed.

  Theorem xr_key x y : is_leaf_like x = true -> is_leaf_like y = true -> R x -> R y -> marker_eqb x y = true -> beval E x = beval E y.
  Proof.
    intros _ _ Rx Ry H. destruct (XR_leaf_like E extras Hex x Rx) as (cx & _ & Bx & _). destruct (XR_leaf_like E extras Hex y Ry) as (cy & _ & By & _).
    destruct x as [| |lx|nx ax_|nx ax_|l|l], y as [| |ly|ny ay|ny ay|l'|l']; try discriminate; cbn [XR] in Rx, Ry; try contradiction.
    - destruct Rx as (Hn & Hs & o & Ho & Hop & Hv & Hc). destruct Ry as (Hn' & Hs' & o' & Ho' & Hop' & Hv' & Hc').
      cbn [marker_eqb] in H. unfold leaf_key_eqb in H. rewrite !andb_true_iff in H. destruct H as [[[E1 E2] E3] _].
      apply String.eqb_eq in E1, E2, E3. cbn [beval]. rewrite Hc, Hc', E1, E3.
      rewrite Hop, Hop' in E2. rewrite (op_text_inj o o' Ho Ho' E2). reflexivity.
    - pose proof Rx as Rx'. pose proof Ry as Ry'. destruct Rx as (-> & _ & _). destruct Ry as (-> & _ & _). cbn [marker_eqb] in H. apply andb_true_iff in H. destruct H as [_ E2].
      clear Bx By. destruct (XR_leaf_like E extras Hex (MAtomicMulti "extra" ax_) Rx') as (c1 & L1 & B1 & _).
      destruct (XR_leaf_like E extras Hex (MAtomicMulti "extra" ay) Ry') as (c2 & L2 & B2 & _).
      cbn [leaf_like String.eqb Ascii.eqb] in L1, L2. injection L1 as <-. injection L2 as <-. rewrite B1, B2. cbn [GenericUnionX.cxs GenericUnionX.gxs].
      apply (GenericUnionX.atoms_eqb_sat canon_name act), E2.
    - pose proof Rx as Rx'. pose proof Ry as Ry'. destruct Rx as (-> & _ & _). destruct Ry as (-> & _ & _). cbn [marker_eqb] in H. apply andb_true_iff in H. destruct H as [_ E2].
      clear Bx By. destruct (XR_leaf_like E extras Hex (MAtomicUnion "extra" ax_) Rx') as (c1 & L1 & B1 & _).
      destruct (XR_leaf_like E extras Hex (MAtomicUnion "extra" ay) Ry') as (c2 & L2 & B2 & _).
      cbn [leaf_like] in L1, L2. injection L1 as <-. injection L2 as <-. rewrite B1, B2. cbn [GenericUnionX.cxs]. apply xatoms_eqb_any, E2.
  Qed.
  Theorem xr_sym x y : is_leaf_like x = true -> is_leaf_like y = true -> R x -> R y -> marker_eqb x y = marker_eqb y x.
  Proof.
    intros _ _ Rx Ry. destruct x as [| |lx|nx ax_|nx ax_|l|l], y as [| |ly|ny ay|ny ay|l'|l']; try reflexivity; cbn [XR] in Rx, Ry; try contradiction.
    - cbn [marker_eqb]. unfold leaf_key_eqb. rewrite (String.eqb_sym (l_name lx)), (String.eqb_sym (l_op lx)), (String.eqb_sym (l_value lx)).
      destruct (l_swapped lx), (l_swapped ly); reflexivity.
    - destruct Rx as (_ & Ha & _). destruct Ry as (_ & Ha' & _). cbn [marker_eqb]. rewrite (String.eqb_sym nx ny). f_equal.
      apply xatoms_eqb_sym; apply Forall_forall; intros a Hin; rewrite Forall_forall in Ha, Ha'; [exact (proj1 (Ha a Hin))|exact (proj1 (Ha' a Hin))].
    - destruct Rx as (_ & _ & Ha). destruct Ry as (_ & _ & Ha'). cbn [marker_eqb]. rewrite (String.eqb_sym nx ny). f_equal.
      apply xatoms_eqb_sym; apply Forall_forall; intros a Hin; rewrite Forall_forall in Ha, Ha'; [exact (proj1 (Ha a Hin))|exact (proj1 (Ha' a Hin))].
  Qed.
End XFacts.

Section XMerge.
  Variable E : env.
  Variable extras : list string.
  Hypothesis Hex : e_extras E = Some extras.
  Notation R := XR.
  Notation act := (xact extras).
  Notation cxs' := (cxs canon_name act).

  Lemma xg_eqb_sat a b : g_eqb a b = true -> cxs' a = cxs' b.
  Proof. destruct a as [sa|la], b as [sb|lb]; try discriminate; cbn [g_eqb GenericUnionX.cxs]; [apply GenericUnionX.gs_eqb_sat|apply GenericUnionX.gss_eqb_sat]. Qed.

  Theorem xr_merge fuel st m1 m2 is_multi r : G R m1 -> G R m2 -> merge_single fuel st m1 m2 is_multi = Ok (Some r) ->
    beval E r = (if is_multi then beval E m1 && beval E m2 else beval E m1 || beval E m2) /\ G R r.
  Proof.
    intros G1 G2 H. destruct fuel as [|f]; [discriminate|]. cbn [merge_single] in H.
    assert (R1 : R m1) by (inversion G1; subst; try assumption; cbn in H; discriminate).
    assert (R2 : R m2).
    { inversion G2; subst; try assumption; destruct (leaf_like m1) as [[? ?]|]; cbn in H; discriminate. }
    destruct (XR_leaf_like E extras Hex m1 R1) as (c1 & Hl1 & Hb1 & Fc1 & Ne1 & Fa1).
    destruct (XR_leaf_like E extras Hex m2 R2) as (c2 & Hl2 & Hb2 & Fc2 & Ne2 & Fa2).
    rewrite Hl1, Hl2 in H.
    change (String.eqb "extra" "python_version") with false in H. change (String.eqb "extra" "python_full_version") with false in H.
    change (String.eqb "extra" "extra") with true in H. cbn [andb orb negb] in H.
    destruct (if is_multi then g_intersect c1 c2 else g_union c1 c2) as [rc|e] eqn:Hrc; [|discriminate]. cbn [bind] in H.
    assert (Sem : cxs' rc = if is_multi then cxs' c1 && cxs' c2 else cxs' c1 || cxs' c2).
    { destruct is_multi; [exact (xg_intersect canon_name act c1 c2 rc Fc1 Fc2 Hrc)|exact (xg_union canon_name act c1 c2 rc Fc1 Fc2 Hrc)]. }
    assert (Ats : incl (atoms_c rc) (atoms_c c1 ++ atoms_c c2) /\ nonempty_c rc).
    { destruct is_multi; [exact (g_intersect_atoms c1 c2 rc Ne1 Ne2 Hrc)|exact (g_union_atoms c1 c2 rc Ne1 Ne2 Hrc)]. }
    destruct Ats as [Ats Nrc].
    assert (Clo : Pc XFs rc) by (destruct is_multi; [exact (XFc_closed_meet c1 c2 rc Fc1 Fc2 Hrc)|exact (XFc_closed_join c1 c2 rc Fc1 Fc2 Hrc)]).
    assert (Far : forall a, In a (atoms_c rc) -> XFa' a).
    { intros a Ha. apply Ats in Ha. apply in_app_or in Ha. rewrite Forall_forall in Fa1, Fa2. destruct Ha as [Ha|Ha]; auto. }
    assert (Val : cxs' rc = if is_multi then beval E m1 && beval E m2 else beval E m1 || beval E m2) by (rewrite Hb1, Hb2; exact Sem).
    cbn [mcon_is_empty mcon_is_any mcon_eqb] in H.
    destruct (g_is_empty rc) eqn:Em.
    { injection H as <-. split; [|constructor]. rewrite <- Val. destruct rc as [[| | |]|]; try discriminate. reflexivity. }
    destruct (g_is_any rc) eqn:An.
    { injection H as <-. split; [|constructor]. rewrite <- Val. destruct rc as [[| | |]|]; try discriminate. reflexivity. }
    destruct (g_eqb rc c1) eqn:E1.
    { injection H as <-. split; [|exact G1]. rewrite <- Val, Hb1. symmetry. apply xg_eqb_sat, E1. }
    destruct (g_eqb rc c2) eqn:E2.
    { injection H as <-. split; [|exact G2]. rewrite <- Val, Hb2. symmetry. apply xg_eqb_sat, E2. }
    destruct rc as [[| |a0|mx' l0]|l0]; try discriminate.
    - (* a single clause: rebuilt from its text *)
      destruct (Far a0 (or_introl eq_refl)) as (Xa & Ea & Pa).
      assert (Ho : eqne_op (aop a0) = true) by (unfold eqne in Ea; destruct (aop a0); try discriminate; reflexivity).
      assert (Txt : match aop a0 with GEq => Ok ("==" ++ av a0)%string | _ => mcon_str (CG (GS (SAtom a0))) end
                    = Ok (op_text (aop a0) ++ string_of_list_ascii (lchars (av a0)))%string).
      { rewrite string_chars. cbn [mcon_str g_str gs_str]. unfold atom_str. destruct (aop a0); try discriminate; reflexivity. }
      unfold single_of_con in H. rewrite Txt in H. cbn [bind] in H.
      rewrite (mk_leaf_eqne_any "extra" (aop a0) (lchars (av a0)) eq_refl Ho Pa) in H. cbn [bind] in H. injection H as <-.
      rewrite string_chars. cbn [alias String.eqb Ascii.eqb]. split.
      + cbn [beval l_name l_con]. rewrite (lval_extra E extras Hex); [|unfold eqne; cbn [aop]; exact Ea]. rewrite <- Val. cbn [GenericUnionX.cxs GenericUnionX.gxs].
        unfold GenericUnionX.axs. cbn [aop av]. reflexivity.
      + constructor. cbn [XR l_name l_swapped l_op l_value l_con]. refine (conj eq_refl (conj eq_refl _)). exists (aop a0). auto.
    - (* a conjunction *)
      cbv zeta in H. match type of H with (if ?c then _ else _) = _ => destruct c eqn:Ok_ end; [|discriminate]. injection H as <-.
      destruct Clo as (_ & Fl0 & Nd0). split.
      + destruct (XR_leaf_like E extras Hex (MAtomicMulti "extra" l0)) as (c' & L' & B' & _).
        { cbn [XR]. refine (conj eq_refl (conj _ Nd0)). apply Forall_forall. intros a Ha. exact (Far a Ha). }
        cbn [leaf_like String.eqb Ascii.eqb] in L'. injection L' as <-. rewrite B'. rewrite <- Val. reflexivity.
      + constructor. cbn [XR]. refine (conj eq_refl (conj _ Nd0)). apply Forall_forall. intros a Ha. exact (Far a Ha).
    - (* a disjunction of clauses *)
      cbv zeta in H. match type of H with (if ?c then _ else _) = _ => destruct c eqn:Ok_ end; [|discriminate]. injection H as <-.
      assert (AllA : forallb (fun s => match s with SAtom _ => true | _ => false end) l0 = true).
      { apply forallb_forall. intros s Hs. rewrite forallb_forall in Ok_. specialize (Ok_ s Hs). destruct s; try discriminate; reflexivity. }
      pose proof (all_satoms l0 AllA) as El. set (atoms := flat_map (fun s => match s with SAtom a => [a] | _ => [] end) l0) in *.
      assert (RU : XR (MAtomicUnion "extra" atoms)).
      { cbn [XR]. refine (conj eq_refl (conj _ _)).
        - intros Hn. rewrite Hn in El. cbn in El. cbn in Nrc. contradiction.
        - apply Forall_forall. intros a Ha. apply Far. cbn [atoms_c]. rewrite El, map_satom_atoms. exact Ha. }
      split; [|constructor; exact RU].
      destruct (XR_leaf_like E extras Hex _ RU) as (c' & L' & B' & _). cbn [leaf_like] in L'. injection L' as <-. rewrite B', <- Val, <- El. reflexivity.
  Qed.
End XMerge.

Theorem extra_clause_class E extras : e_extras E = Some extras -> clause_class E XR.
Proof. intros Hex. split; [exact (xr_key E extras Hex) | exact xr_sym | exact (xr_merge E extras Hex)]. Qed.

(* ---------- the two classes together ---------- *)
Lemma G_mono (R R' : marker -> Prop) : (forall m, R m -> R' m) -> forall m, G R m -> G R' m.
Proof.
  intros Sub. induction m as [| |l|n a|n a|l IHl|l IHl] using marker_ind'; intros Gm; inversion Gm; subst; try (constructor; auto; fail).
  - constructor. rewrite Forall_forall in *. intros x Hx. apply (IHl x Hx). match goal with Hf : forall _, In _ l -> G R _ |- _ => exact (Hf x Hx) end.
  - constructor. rewrite Forall_forall in *. intros x Hx. apply (IHl x Hx). match goal with Hf : forall _, In _ l -> G R _ |- _ => exact (Hf x Hx) end.
Qed.

Section Both.
  Variable E : env.
  Variable extras : list string.
  Hypothesis Hex : e_extras E = Some extras.
  Definition BR (m : marker) : Prop := SR E m \/ XR m.

  Definition mname (m : marker) : option string := match leaf_like m with Some (n, _) => Some n | None => None end.
  Lemma sr_name m : SR E m -> exists n, mname m = Some n /\ str_name n = true.
  Proof. intros H. destruct (SR_leaf_like E m H) as (n & c & L & Hn & _). exists n. unfold mname. rewrite L. auto. Qed.
  Lemma xr_name m : XR m -> mname m = Some "extra"%string.
  Proof. intros H. destruct (XR_leaf_like E extras Hex m H) as (c & L & _). unfold mname. rewrite L. reflexivity. Qed.
  Lemma eqb_name x y n n' : mname x = Some n -> mname y = Some n' -> marker_eqb x y = true -> n = n'.
  Proof.
    unfold mname. destruct x as [| |lx|nx ax_|nx ax_|l|l], y as [| |ly|ny ay|ny ay|l'|l']; cbn [leaf_like marker_eqb]; try discriminate; intros [= <-] [= <-] H.
    - unfold leaf_key_eqb in H. rewrite !andb_true_iff in H. destruct H as [[[H _] _] _]. apply String.eqb_eq, H.
    - apply andb_true_iff in H. destruct H as [H _]. apply String.eqb_eq, H.
    - apply andb_true_iff in H. destruct H as [H _]. apply String.eqb_eq, H.
  Qed.
  Lemma str_not_extra n : str_name n = true -> n <> "extra"%string.
  Proof. intros H ->. discriminate. Qed.
  Lemma mixed_neq x y : SR E x -> XR y -> marker_eqb x y = false /\ marker_eqb y x = false.
  Proof.
    intros Sx Xy. destruct (sr_name x Sx) as (n & Nx & Hn). pose proof (xr_name y Xy) as Ny. split.
    - destruct (marker_eqb x y) eqn:H; [|reflexivity]. exfalso. exact (str_not_extra n Hn (eqb_name x y n _ Nx Ny H)).
    - destruct (marker_eqb y x) eqn:H; [|reflexivity]. exfalso. exact (str_not_extra n Hn (eq_sym (eqb_name y x _ n Ny Nx H))).
  Qed.

  Theorem both_clause_class : clause_class E BR.
  Proof.
    split.
    - intros x y Lx Ly [Sx|Xx] [Sy|Xy] H.
      + exact (sr_key E x y Lx Ly Sx Sy H).
      + rewrite (proj1 (mixed_neq x y Sx Xy)) in H. discriminate.
      + rewrite (proj2 (mixed_neq y x Sy Xx)) in H. discriminate.
      + exact (xr_key E extras Hex x y Lx Ly Xx Xy H).
    - intros x y Lx Ly [Sx|Xx] [Sy|Xy].
      + exact (sr_sym E x y Lx Ly Sx Sy).
      + destruct (mixed_neq x y Sx Xy) as [A B]. rewrite A, B. reflexivity.
      + destruct (mixed_neq y x Sy Xx) as [A B]. rewrite A, B. reflexivity.
      + exact (xr_sym x y Lx Ly Xx Xy).
    - intros fuel st m1 m2 is_multi r G1 G2 H.
      assert (L1 : is_leaf_like m1 = true) by (destruct fuel; [discriminate|]; cbn [merge_single] in H; unfold is_leaf_like; destruct (leaf_like m1); [reflexivity|discriminate]).
      assert (L2 : is_leaf_like m2 = true).
      { destruct fuel; [discriminate|]. cbn [merge_single] in H. unfold is_leaf_like. destruct (leaf_like m1) as [[? ?]|]; [|discriminate]. destruct (leaf_like m2); [reflexivity|discriminate]. }
      assert (R1 : BR m1) by (inversion G1; subst; try assumption; discriminate).
      assert (R2 : BR m2) by (inversion G2; subst; try assumption; discriminate).
      assert (Lift : forall (R0 : marker -> Prop) m, (forall x, R0 x -> BR x) -> is_leaf_like m = true -> R0 m -> G R0 m).
      { intros R0 m _ Lm Rm. destruct m; try discriminate; constructor; exact Rm. }
      destruct R1 as [S1|X1], R2 as [S2|X2].
      + destruct (sr_merge E fuel st m1 m2 is_multi r (Lift _ m1 (fun x Hx => or_introl Hx) L1 S1) (Lift _ m2 (fun x Hx => or_introl Hx) L2 S2) H) as [V Gr].
        split; [exact V|exact (G_mono _ _ (fun x Hx => or_introl Hx) r Gr)].
      + exfalso. destruct fuel as [|f]; [discriminate|]. cbn [merge_single] in H.
        destruct (SR_leaf_like E m1 S1) as (n1 & c1 & Hl1 & Hn1 & _). destruct (XR_leaf_like E extras Hex m2 X2) as (c2 & Hl2 & _).
        rewrite Hl1, Hl2 in H. destruct (not_python n1 Hn1) as [P1 P1']. rewrite P1, P1' in H. cbn [andb orb] in H.
        destruct (str_name_parts n1 Hn1) as (_ & Ex & _). rewrite Ex in H. cbn [negb] in H. discriminate.
      + exfalso. destruct fuel as [|f]; [discriminate|]. cbn [merge_single] in H.
        destruct (XR_leaf_like E extras Hex m1 X1) as (c1 & Hl1 & _). destruct (SR_leaf_like E m2 S2) as (n2 & c2 & Hl2 & Hn2 & _).
        rewrite Hl1, Hl2 in H. destruct (not_python n2 Hn2) as [P2 P2'].
        change (String.eqb "extra" "python_version") with false in H. change (String.eqb "extra" "python_full_version") with false in H.
        cbn [andb orb] in H. destruct (str_name_parts n2 Hn2) as (_ & Ex & _). rewrite String.eqb_sym, Ex in H. cbn [negb] in H. discriminate.
      + destruct (xr_merge E extras Hex fuel st m1 m2 is_multi r (Lift _ m1 (fun x Hx => or_intror Hx) L1 X1) (Lift _ m2 (fun x Hx => or_intror Hx) L2 X2) H) as [V Gr].
        split; [exact V|exact (G_mono _ _ (fun x Hx => or_intror Hx) r Gr)].
  Qed.
End Both.

(* the simplifier on markers over string and extra comparisons: no premise left *)
Section Unconditional2.
  Variable E : env.
  Variable extras : list string.
  Hypothesis Hex : e_extras E = Some extras.
  Let CC := both_clause_class E extras Hex.
  Theorem both_intersect_union fuel st a b : G (BR E) a -> G (BR E) b ->
    (forall r, m_intersect fuel st a b = Ok r -> beval E r = beval E a && beval E b /\ G (BR E) r) /\
    (forall r, m_union fuel st a b = Ok r -> beval E r = beval E a || beval E b /\ G (BR E) r).
  Proof. exact (intersect_union_sound E (BR E) CC fuel st a b). Qed.
  Theorem both_nary fuel st args : Forall (G (BR E)) args ->
    (forall r, intersection_fn fuel st args = Ok r -> beval E r = forallb (beval E) args /\ G (BR E) r) /\
    (forall r, union_fn fuel st args = Ok r -> beval E r = existsb (beval E) args /\ G (BR E) r).
  Proof. exact (nary_sound E (BR E) CC fuel st args). Qed.
  Theorem both_normal_forms fuel st m : G (BR E) m ->
    (forall r, cnf fuel st m = Ok r -> beval E r = beval E m /\ G (BR E) r) /\ (forall r, dnf fuel st m = Ok r -> beval E r = beval E m /\ G (BR E) r).
  Proof. exact (normal_forms_sound E (BR E) CC fuel st m). Qed.
  Theorem both_only fuel st names m r : G (BR E) m -> only fuel st names m = Ok r -> (beval E m = true -> beval E r = true) /\ G (BR E) r.
  Proof. exact (only_weakens E (BR E) CC fuel st names m r). Qed.
End Unconditional2.
(* the 'extra' clauses the constructor builds from text are in the class *)
Theorem extra_clause_of_text_in_class o v : eqne_op o = true -> plain_value v = true ->
  exists l, mk_leaf "extra" (op_text o ++ string_of_list_ascii v)%string false = Ok l /\ XR (MSingle l).
Proof.
  intros Ho Hv. eexists. split; [exact (mk_leaf_eqne_any "extra" o v eq_refl Ho Hv)|].
  cbn [XR l_name l_swapped l_op l_value l_con alias String.eqb Ascii.eqb]. refine (conj eq_refl (conj eq_refl _)). exists o.
  refine (conj Ho (conj eq_refl (conj _ eq_refl))). unfold pv, lchars. rewrite list_ascii_of_string_of_list_ascii. exact Hv.
Qed.
