(* C04 / C15: what parse_single_constraint builds from the text of a clause, for every version literal in normal form.
   For every printable version v (Pep440RoundTrip.v) and each operator, the clause "op ++ to_string v" is followed through
   the five patterns the parser tries in order (any, ~, ~=, ^, wildcard, basic): the earlier patterns do not match, the
   right one consumes the whole text, and the version it reads is v again.  [reparsed v] is v with its text set to the
   normal form. *)
From Coq Require Import List Bool Arith NArith String Ascii Lia.
From PC Require Import Base.Cmp Base.Result Model.Pep440 Spec.Pep440Spec Proofs.Pep440Order Proofs.Pep440Parse Model.VConstraint
     Proofs.Pep440RoundTrip.
Import ListNotations.
Open Scope char_scope.
Open Scope N_scope.
Open Scope list_scope.
Local Arguments Ascii.eqb : simpl never.

(* the version the normalised text of v parses to: v's fields, the text itself *)
Definition reparsed (v : version) : version := mkV (epoch v) (rel v) (pre v) (post v) (dev v) (local v) (to_string v).

Lemma printed_to_string v : printable v = true -> string_of_list_ascii (printed v) = to_string v.
Proof.
  intros P. assert (Hr : rel v <> []).
  { unfold printable, wf in P. apply andb_true_iff in P as [P _]. apply andb_true_iff in P as [_ P]. destruct (rel v); [discriminate|congruence]. }
  rewrite <- (lchars_to_string v Hr). unfold lchars. apply string_of_list_ascii_of_string.
Qed.
Lemma consumed_all l : consumed l [] = string_of_list_ascii l.
Proof. unfold consumed. cbn [List.length]. rewrite Nat.sub_0_r, firstn_all. reflexivity. Qed.

(* op \s* VERSION tail, on the printed text: the whole text is consumed *)
Lemma match_op_version_printed v (tail : chars -> bool) : printable v = true -> tail [] = true ->
  match_op_version (printed v) tail = Some (to_string v, []).
Proof.
  intros P Ht. unfold match_op_version.
  destruct (printed_starts_digit v P) as (d & r & E & Hd).
  assert (DS : drop_spaces (printed v) = printed v).
  { rewrite E. unfold drop_spaces. cbn [span]. rewrite (digit_not_space d Hd). reflexivity. }
  rewrite DS, (map_lower_fixed _ (printed_fixed v P)).
  destruct (match_version_printed v P) as [tl M]. rewrite M. cbn [find c_rest]. rewrite Ht.
  rewrite consumed_all, (printed_to_string v P). reflexivity.
Qed.
Lemma parse_version_printed v : printable v = true -> parse_version_or_fail (to_string v) = Ok (reparsed v).
Proof. intros P. unfold parse_version_or_fail. rewrite (roundtrip v P). reflexivity. Qed.

(* every character of the printed text is a digit, a lower-case letter, '.', '+' or '!' *)
Section PrintedForall.
  Variable P : ascii -> Prop.
  Hypothesis Pl : forall c, low_alnum c = true -> P c.
  Hypothesis Pdot : P ".". Hypothesis Pplus : P "+". Hypothesis Pbang : P "!".
  Lemma digits_P l : forallb is_digit l = true -> Forall P l.
  Proof. intros H. apply Forall_forall. intros c Hc. apply Pl. unfold low_alnum. rewrite forallb_forall in H. rewrite (H c Hc). reflexivity. Qed.
  Lemma tag_P t : Forall P (tag_chars t).
  Proof.
    unfold tag_chars. apply Forall_app. split; [|apply digits_P, dchars_digits].
    destruct (t_ph t); cbn; repeat constructor; apply Pl; reflexivity.
  Qed.
  Lemma lseg_P x : p_lseg x = true -> Forall P (lseg_chars x).
  Proof.
    destruct x as [n|s]; unfold lseg_chars, lseg_text; cbn [p_lseg]; intros H.
    - apply digits_P. apply dchars_digits.
    - unfold lstr_ok in H. apply andb_true_iff in H as [H _]. apply Forall_forall. intros c Hc.
      apply Pl. rewrite forallb_forall in H. apply H, Hc.
  Qed.
  Lemma rel_tail_P ns : Forall P (rel_tail ns).
  Proof.
    induction ns as [|n ns IH]; [constructor|]. change (rel_tail (n :: ns)) with ("." :: dchars n ++ rel_tail ns).
    constructor; [exact Pdot|]. apply Forall_app. split; [apply digits_P, dchars_digits|exact IH].
  Qed.
  Lemma loc_tail_P l : forallb p_lseg l = true -> Forall P (loc_tail l).
  Proof.
    induction l as [|x l IH]; cbn [forallb]; intros H; [constructor|]. apply andb_true_iff in H as [Hx Hl].
    change (loc_tail (x :: l)) with ("." :: lseg_chars x ++ loc_tail l).
    constructor; [exact Pdot|]. apply Forall_app. split; [apply lseg_P, Hx|apply IH, Hl].
  Qed.
  Lemma printed_P v : printable v = true -> Forall P (printed v).
  Proof.
    unfold printable. intros H. apply andb_true_iff in H as [_ Hl]. unfold printed.
    repeat (apply Forall_app; split).
    - unfold epoch_chars. destruct (epoch v =? 0); [constructor|]. apply Forall_app. split; [apply digits_P, dchars_digits|repeat constructor; exact Pbang].
    - destruct (rel v) as [|n ns]; [constructor|]. cbn [rel_chars]. apply Forall_app. split; [apply digits_P, dchars_digits|apply rel_tail_P].
    - destruct (pre v); [apply tag_P|constructor].
    - destruct (post v); cbn [dot_chars]; [constructor; [exact Pdot|apply tag_P]|constructor].
    - destruct (dev v); cbn [dot_chars]; [constructor; [exact Pdot|apply tag_P]|constructor].
    - destruct (local v) as [[|x l]|]; cbn [local_chars]; try constructor; [exact Pplus|].
      cbn [forallb] in Hl. apply andb_true_iff in Hl as [Hx Hl].
      apply Forall_app. split; [apply lseg_P, Hx|apply loc_tail_P, Hl].
  Qed.
End PrintedForall.
Lemma low_alnum_code c : low_alnum c = true -> 48 <= code c <= 57 \/ 97 <= code c <= 122.
Proof.
  unfold low_alnum, is_digit, is_lower. intros H. apply orb_true_iff in H as [H|H]; apply andb_true_iff in H as [H1 H2]; apply N.leb_le in H1, H2; lia.
Qed.

Lemma lchars_clause (op : string) v : printable v = true -> lchars (op ++ to_string v)%string = lchars op ++ printed v.
Proof.
  intros P. rewrite lchars_app. f_equal. apply lchars_to_string.
  unfold printable, wf in P. apply andb_true_iff in P as [P _]. apply andb_true_iff in P as [_ P]. destruct (rel v); [discriminate|congruence].
Qed.

Lemma digit_code d : is_digit d = true -> 48 <= code d <= 57.
Proof. unfold is_digit. intros H. apply andb_true_iff in H as [H1 H2]. apply N.leb_le in H1, H2. lia. Qed.

Local Opaque match_op_version match_x_constraint parse_version_or_fail make_x_constraint_range.

Lemma x_none_nodigit l : (match l with c :: _ => is_digit c = false /\ is_space c = false /\ (code c =? 118) = false | [] => True end) ->
  (match l with a :: b :: _ => ((code a =? 33) && (code b =? 61)) = false /\ ((code a =? 61) && (code b =? 61)) = false | _ => True end) ->
  match_x_constraint l = None.
Proof.
  Local Transparent match_x_constraint.
  intros H1 H2. unfold match_x_constraint.
  assert (K : forall l0 : chars, (match l0 with c :: _ => is_digit c = false /\ is_space c = false /\ (code c =? 118) = false | [] => True end) ->
     x_components (strip_v (drop_spaces l0)) = None).
  { intros l0 H. destruct l0 as [|c r]; [reflexivity|]. destruct H as (Hd & Hs & Hv).
    unfold drop_spaces. cbn [span]. rewrite Hs. cbn [snd]. unfold strip_v. rewrite Hv.
    unfold x_components. cbn [span]. rewrite Hd. reflexivity. }
  destruct l as [|a [|b r]].
  - reflexivity.
  - rewrite (K [a] H1). reflexivity.
  - destruct H2 as [-> ->]. rewrite (K (a :: b :: r) H1). reflexivity.
Qed.

Definition nostar (l : chars) : Prop := Forall (fun c => (code c =? 42) = false) l.
Lemma span_snd_Forall (P : ascii -> Prop) p l : Forall P l -> Forall P (snd (span p l)).
Proof.
  induction l as [|c l IH]; cbn [span]; intros H; [constructor|]. inversion H as [|? ? Hc Hl]; subst.
  destruct (p c); [|exact H]. specialize (IH Hl). destruct (span p l). exact IH.
Qed.
Lemma dot_stars_nostar f l : nostar l -> dot_stars f l = None.
Proof.
  intros H. destruct f; [reflexivity|]. cbn [dot_stars]. destruct l as [|d [|s r]]; try reflexivity.
  inversion H as [|? ? _ H2]; subst. inversion H2 as [|? ? Hs _]; subst. rewrite Hs, andb_false_r. reflexivity.
Qed.
Definition xmore (r0 : chars) : option (chars * chars) :=
  match r0 with
  | d :: c0 :: _ => if (code d =? 46) && is_digit c0 then let '(ds, r') := span is_digit (tl r0) in Some (d :: ds, r') else None
  | _ => None end.
Lemma xmore_rest r0 c2 r2 : nostar r0 -> xmore r0 = Some (c2, r2) -> nostar r2.
Proof.
  intros H0. unfold xmore. destruct r0 as [|d [|c0 r0']]; try discriminate.
  destruct ((code d =? 46) && is_digit c0); [|discriminate]. cbn [tl].
  inversion H0 as [|? ? _ H0']; subst.
  pose proof (span_snd_Forall _ is_digit (c0 :: r0') H0') as H2. destruct (span is_digit (c0 :: r0')) as [ds r']. cbn [snd] in H2.
  intros E. injection E as _ <-. exact H2.
Qed.
Lemma x_components_rest l t r : nostar l -> x_components l = Some (t, r) -> nostar r.
Proof.
  intros H. unfold x_components.
  pose proof (span_snd_Forall _ is_digit l H) as H1. destruct (span is_digit l) as [d1 r1]. cbn [snd] in H1.
  destruct d1 as [|c d1]; [discriminate|].
  assert (G : match xmore r1 with
              | Some (c2, r2) => match xmore r2 with Some (c3, r3) => Some ((c :: d1) ++ c2 ++ c3, r3) | None => Some ((c :: d1) ++ c2, r2) end
              | None => Some (c :: d1, r1) end = Some (t, r) -> nostar r).
  { destruct (xmore r1) as [[c2 r2]|] eqn:E1.
    - pose proof (xmore_rest r1 c2 r2 H1 E1) as H2. destruct (xmore r2) as [[c3 r3]|] eqn:E2.
      + intros E. injection E as _ <-. exact (xmore_rest r2 c3 r3 H2 E2).
      + intros E. injection E as _ <-. exact H2.
    - intros E. injection E as _ <-. exact H1. }
  exact G.
Qed.
Lemma x_none_nostar l : nostar l -> match_x_constraint l = None.
Proof.
  intros H. unfold match_x_constraint.
  assert (K : forall l0 : chars, nostar l0 ->
     match x_components (strip_v (drop_spaces l0)) with
     | Some (txt, rest) => match dot_stars (List.length rest) rest with Some r' => if at_dollar r' then Some (false, string_of_list_ascii txt) else None | None => None end
     | None => None end = None /\
     match x_components (strip_v (drop_spaces l0)) with
     | Some (txt, rest) => match dot_stars (List.length rest) rest with Some r' => if at_dollar r' then Some (true, string_of_list_ascii txt) else None | None => None end
     | None => None end = None).
  { intros l0 H0.
    assert (H1 : nostar (strip_v (drop_spaces l0))).
    { unfold drop_spaces. pose proof (span_snd_Forall _ is_space l0 H0) as H1. destruct (snd (span is_space l0)) as [|c r]; [constructor|].
      unfold strip_v. destruct (code c =? 118); [inversion H1; assumption|exact H1]. }
    destruct (x_components (strip_v (drop_spaces l0))) as [[txt rest]|] eqn:E; [|split; reflexivity].
    rewrite (dot_stars_nostar _ rest (x_components_rest _ _ _ H1 E)). split; reflexivity. }
  destruct l as [|a [|b r]].
  - apply (K [] H).
  - apply (K [a] H).
  - assert (Hr : nostar r) by (inversion H as [|? ? _ H']; subst; inversion H'; assumption).
    destruct ((code a =? 33) && (code b =? 61)); [apply (K r Hr)|].
    destruct ((code a =? 61) && (code b =? 61)); [apply (K r Hr)|apply (K _ H)].
Qed.

Local Opaque match_x_constraint.

Definition basic_result (m : bool) (op : bop) (v : version) : res vc :=
  match op with
  | OpLt => Ok (VOne (RR None (Some v) false false))
  | OpLe => Ok (VOne (RR None (Some v) false true))
  | OpGt => Ok (VOne (RR (Some v) None false false))
  | OpGe => Ok (VOne (RR (Some v) None true false))
  | OpNe => Ok (VUnion [RR None (Some v) false false; RR (Some v) None false false])
  | _ => Ok (VOne (RV v))
  end.
Lemma to_string_not_dev v : printable v = true -> String.eqb (to_string v) "dev" = false.
Proof.
  intros P. rewrite <- (printed_to_string v P). destruct (printed_starts_digit v P) as (d & r & E & Hd). rewrite E.
  cbn [string_of_list_ascii]. apply String.eqb_neq. intros X. injection X as X _. subst d. discriminate Hd.
Qed.
Lemma basic_core m clause l op v : lchars clause = l -> printable v = true ->
  is_any_pattern l = false ->
  match l with t :: _ => (code t =? 126) = false /\ (code t =? 94) = false | [] => False end ->
  match_x_constraint l = None -> match_basic_op l = (op, printed v) ->
  parse_single m clause = basic_result m op (reparsed v).
Proof.
  intros Hl P Hany Ht Hx Hop. unfold parse_single. rewrite Hl, Hany.
  destruct l as [|t r0]; [contradiction|]. destruct Ht as [H1 H2].
  destruct r0 as [|e r1]; rewrite ?H1; cbn [andb]; rewrite H2, Hx, Hop;
  rewrite (match_op_version_printed v basic_tail P eq_refl);
  rewrite (to_string_not_dev v P), (parse_version_printed v P); cbn [bind has_wildcard];
  destruct op; reflexivity.
Qed.

Lemma nostar_printed v : printable v = true -> nostar (printed v).
Proof.
  intros P. apply printed_P; try reflexivity; [|exact P]. intros c Hc. apply N.eqb_neq. pose proof (low_alnum_code c Hc). lia.
Qed.
Lemma digit_facts d : is_digit d = true ->
  (code d =? 126) = false /\ (code d =? 94) = false /\ (code d =? 61) = false /\ (code d =? 60) = false /\ (code d =? 62) = false /\
  (code d =? 33) = false /\ (code d =? 118) = false /\ (code d =? 86) = false /\ ver_x_star d = false.
Proof.
  intros H. pose proof (digit_code d H) as B. unfold ver_x_star. rewrite !orb_false_iff. repeat split; apply N.eqb_neq; lia.
Qed.

Section Clauses.
  Variable m : bool.
  Variable v : version.
  Hypothesis P : printable v = true.

  Ltac start d r E F :=
    destruct (printed_starts_digit v P) as (d & r & E & Hd);
    destruct (digit_facts d Hd) as (F126 & F94 & F61 & F60 & F62 & F33 & F118 & F86 & Fx).

  Theorem clause_ge : parse_single m (">=" ++ to_string v) = Ok (VOne (RR (Some (reparsed v)) None true false)).
  Proof.
    apply (basic_core m _ (">" :: "=" :: printed v) OpGe v); [apply (lchars_clause ">=" v P)|exact P|reflexivity|split; reflexivity| |reflexivity].
    apply x_none_nodigit; repeat split; reflexivity.
  Qed.
  Theorem clause_le : parse_single m ("<=" ++ to_string v) = Ok (VOne (RR None (Some (reparsed v)) false true)).
  Proof.
    apply (basic_core m _ ("<" :: "=" :: printed v) OpLe v); [apply (lchars_clause "<=" v P)|exact P|reflexivity|split; reflexivity| |reflexivity].
    apply x_none_nodigit; repeat split; reflexivity.
  Qed.
  Theorem clause_gt : parse_single m (">" ++ to_string v) = Ok (VOne (RR (Some (reparsed v)) None false false)).
  Proof.
    start d r E F.
    apply (basic_core m _ (">" :: printed v) OpGt v); [apply (lchars_clause ">" v P)|exact P|reflexivity|split; reflexivity| |].
    - apply x_none_nodigit; [repeat split; reflexivity|]. rewrite E. split; reflexivity.
    - rewrite E. unfold match_basic_op. cbn [tl]. replace (code ">" =? 60) with false by reflexivity.
      replace (code ">" =? 33) with false by reflexivity. replace (code ">" =? 62) with true by reflexivity. cbn [andb]. rewrite F61. reflexivity.
  Qed.
  Theorem clause_lt : parse_single m ("<" ++ to_string v) = Ok (VOne (RR None (Some (reparsed v)) false false)).
  Proof.
    start d r E F.
    apply (basic_core m _ ("<" :: printed v) OpLt v); [apply (lchars_clause "<" v P)|exact P|reflexivity|split; reflexivity| |].
    - apply x_none_nodigit; [repeat split; reflexivity|]. rewrite E. split; reflexivity.
    - rewrite E. unfold match_basic_op. cbn [tl]. replace (code "<" =? 60) with true by reflexivity.
      replace (code "<" =? 33) with false by reflexivity. replace (code "<" =? 62) with false by reflexivity. cbn [andb]. rewrite F62, F61. reflexivity.
  Qed.
  Theorem clause_eq2 : parse_single m ("==" ++ to_string v) = Ok (VOne (RV (reparsed v))).
  Proof.
    apply (basic_core m _ ("=" :: "=" :: printed v) OpEq v); [apply (lchars_clause "==" v P)|exact P|reflexivity|split; reflexivity| |reflexivity].
    apply x_none_nostar. repeat constructor. apply nostar_printed, P.
  Qed.
  Theorem clause_ne : parse_single m ("!=" ++ to_string v) =
    Ok (VUnion [RR None (Some (reparsed v)) false false; RR (Some (reparsed v)) None false false]).
  Proof.
    apply (basic_core m _ ("!" :: "=" :: printed v) OpNe v); [apply (lchars_clause "!=" v P)|exact P|reflexivity|split; reflexivity| |reflexivity].
    apply x_none_nostar. repeat constructor. apply nostar_printed, P.
  Qed.
  Theorem clause_bare : parse_single m (to_string v) = Ok (VOne (RV (reparsed v))).
  Proof.
    start d r E F.
    apply (basic_core m _ (printed v) OpNone v).
    - apply (lchars_clause "" v P).
    - exact P.
    - rewrite E. unfold is_any_pattern. rewrite F118, F86. cbn [orb]. rewrite Fx. reflexivity.
    - rewrite E. split; assumption.
    - apply x_none_nostar, nostar_printed, P.
    - rewrite E. unfold match_basic_op. rewrite F60, F33, F62, F61. reflexivity.
  Qed.
End Clauses.

Section RangeOperators.
  Variable m : bool.
  Variable v : version.
  Hypothesis P : printable v = true.
  Let v' := reparsed v.

  Theorem clause_caret : parse_single m ("^" ++ to_string v) = Ok (VOne (RR (Some v') (Some (next_breaking v')) true false)).
  Proof.
    unfold parse_single. rewrite (lchars_clause "^" v P).
    change (lchars "^" ++ printed v) with ("^" :: printed v).
    replace (is_any_pattern ("^" :: printed v)) with false by reflexivity.
    replace (code "^" =? 126) with false by reflexivity. cbn [andb].
    assert (E2 : forall (X : Type) (l : chars), match l with [] => @None X | _ :: _ => None end = None) by (intros X l; destruct l; reflexivity).
    rewrite E2. replace (code "^" =? 94) with true by reflexivity.
    rewrite (match_op_version_printed v at_dollar P eq_refl), (parse_version_printed v P). reflexivity.
  Qed.
  Theorem clause_tilde : parse_single m ("~" ++ to_string v) =
    Ok (VOne (RR (Some v') (Some (if Nat.eqb (List.length (rel v')) 1 then next_major (stable v') else next_minor (stable v'))) true false)).
  Proof.
    destruct (printed_starts_digit v P) as (d & r & E & Hd).
    destruct (digit_facts d Hd) as (F126 & F94 & F61 & F60 & F62 & F33 & F118 & F86 & Fx).
    unfold parse_single. rewrite (lchars_clause "~" v P).
    change (lchars "~" ++ printed v) with ("~" :: printed v).
    replace (is_any_pattern ("~" :: printed v)) with false by reflexivity.
    replace (code "~" =? 126) with true by reflexivity.
    assert (E1 : negb match printed v with e :: _ => code e =? 61 | [] => false end = true) by (rewrite E, F61; reflexivity).
    rewrite E1. cbn [andb].
    rewrite (match_op_version_printed v at_dollar P eq_refl), (parse_version_printed v P). reflexivity.
  Qed.
  Theorem clause_compatible : parse_single m ("~=" ++ to_string v) =
    Ok (VOne (RR (Some v') (Some (let n := List.length (rel v') in
                                    if Nat.eqb n 2 then next_major (stable v')
                                    else if Nat.leb n 3 then next_minor (stable v')
                                    else mk (epoch v') (incr_last (removelast (rel v'))) None None None None)) true false)).
  Proof.
    unfold parse_single. rewrite (lchars_clause "~=" v P).
    change (lchars "~=" ++ printed v) with ("~" :: "=" :: printed v).
    replace (is_any_pattern ("~" :: "=" :: printed v)) with false by reflexivity.
    replace (code "~" =? 126) with true by reflexivity. replace (code "=" =? 61) with true by reflexivity. cbn [andb negb].
    rewrite (match_op_version_printed v at_dollar P eq_refl), (parse_version_printed v P). reflexivity.
  Qed.
End RangeOperators.
