(* C07 / C13 / C17: a class of version clauses for which the three premises of the simplifier's soundness are proved - every comparison
   (>=, <=, >, <, ==, !=) of python_full_version with a literal of a set B of three-component (or non-numeric) literals in normal form
   whose members are mutually regular, on every environment whose interpreter version is regular for B.  The same-variable merge goes
   through the version-constraint algebra, exact and closed on the class K_B of C05 (Proofs/Closure.v); a single-clause result goes
   through SingleMarker(name, constraint), i.e. the printer of the constraint and the two patterns of SingleMarker.__init__ on the
   printed text (VersionLeafText.v, ConstraintText.v).  Joined with the string and 'extra' classes (ExtraClass.v) at the end. *)
From Coq Require Import List Bool Arith NArith ZArith String Ascii Lia ZifyBool.
From PC Require Import Base.Cmp Base.Result Base.RankEmbed Model.Pep440 Spec.Pep440Spec Proofs.Pep440Order Proofs.Pep440Parse
     Proofs.VersionFacts Model.VConstraint Proofs.RangeSpec Proofs.RangeAlg Proofs.RangeOps Proofs.UnionHull Proofs.UnionExact Proofs.Contain Proofs.InterExact
     Proofs.UnionTotal Proofs.UnionTotalGood Proofs.DiffExact Proofs.DiffUnion Proofs.DiffTotal Proofs.EqCompound Proofs.ParseCompose Proofs.SortedOrder Proofs.UnionSorted Proofs.Closure
     Model.Generic Model.Marker Model.MarkerAlg Proofs.GenericProofs Proofs.MarkerProofs Proofs.MarkerAlgProofs Proofs.LeafRebuild Proofs.StringClass Proofs.ExtraClass
     Proofs.Pep440RoundTrip Proofs.ClauseText Proofs.AnyIff Proofs.ConstraintText Proofs.VersionLeafText.
Import ListNotations.
Open Scope list_scope.
Definition pfv : string := "python_full_version".
Definition pad_ok (v : version) : bool := negb (Nat.ltb (Datatypes.S (count_dots (to_string v))) 3 && digits_and_dots (to_string v)).
Definition vops : list string := [">="; "<="; ">"; "<"; "=="; "!="]%string.

Lemma normal_parts v : normal v = true -> printable v = true /\ text v = to_string v.
Proof. unfold normal. rewrite andb_true_iff. intros [P T]. apply String.eqb_eq in T. auto. Qed.
Lemma normal_reparsed v : normal v = true -> reparsed v = v.
Proof. intros N. destruct (normal_parts v N) as [_ T]. unfold reparsed. destruct v; cbn in *. rewrite T. reflexivity. Qed.
Lemma printable_wf v : printable v = true -> wf v = true.
Proof. unfold printable. rewrite andb_true_iff. tauto. Qed.

(* the bare version as a leaf text: no operator alternative of the first pattern matches a text that starts with a digit *)
Local Arguments Ascii.eqb : simpl never.
Local Arguments lower : simpl never.
Lemma p1_try_bare v : printable v = true -> p1_try p1_ops (printed v) = Some (None, printed v).
Proof.
  intros P. destruct (printed_starts_digit v P) as (d & r & E & Hd).
  assert (Ld : lower d = d) by (apply low_alnum_lower; unfold low_alnum; rewrite Hd; reflexivity).
  pose proof (p1_value_printed v P) as PV.
  assert (NE : forall c, is_digit c = false -> Ascii.eqb c d = false) by (intros c Hc; apply digit_not; assumption).
  unfold p1_ops.
  repeat (rewrite p1_step_skip;
    [|cbn [String.length firstn skipn map lchars list_ascii_of_string app]; rewrite ?E; cbn [firstn skipn map app]; rewrite ?Ld; lower_closed;
      cbn [strip_prefix]; rewrite NE by reflexivity; reflexivity]).
  cbn [p1_try]. rewrite PV. reflexivity.
Qed.

Lemma pad_ok_false v : pad_ok v = true -> (String.eqb pfv "python_full_version" && negb false && Nat.ltb (Datatypes.S (count_dots (to_string v))) 3 && digits_and_dots (to_string v)) = false.
Proof. unfold pad_ok. rewrite negb_true_iff. intros H. rewrite <- !andb_assoc. cbn [negb andb]. change (String.eqb pfv "python_full_version") with true. cbn [andb]. exact H. Qed.

(* a version leaf of python_full_version built from the bare text of a version (what str() of a single Version prints) *)
Lemma version_leaf_bare v : printable v = true -> pad_ok v = true ->
  mk_leaf pfv (to_string v) false = Ok (mkLeaf pfv "==" (to_string v) false (CV (VOne (RV (reparsed v))))).
Proof.
  intros P Hpad. unfold mk_leaf. cbn [andb].
  assert (L : lchars (to_string v) = printed v) by (change (to_string v) with ("" ++ to_string v)%string; rewrite (lchars_clause "" v P); reflexivity).
  rewrite L, (p1_try_bare v P). rewrite (printed_to_string v P).
  change (String.eqb "==" "in") with false. change (String.eqb "==" "not in") with false. cbn [orb].
  change (is_version_like pfv) with true. change (alias pfv) with pfv. change (negb (String.eqb pfv "platform_release")) with true.
  rewrite (pad_ok_false v Hpad).
  change (to_string v) with ("" ++ to_string v)%string at 1.
  rewrite (one_clause_text true "" v _ P eq_refl (clause_bare true v P)). reflexivity.
Qed.
Lemma version_leaf_op (op : string) v : printable v = true -> pad_ok v = true -> In op vops ->
  mk_leaf pfv (op ++ to_string v) false = Ok (mkLeaf pfv op (to_string v) false (CV (op_result op (reparsed v)))).
Proof.
  intros P Hpad Hop. apply version_leaf_text; [exact P|right; reflexivity|exact Hop|].
  left. unfold pad_ok in Hpad. apply negb_true_iff in Hpad. exact Hpad.
Qed.

Section AllowsTotal.
  Variable B : list version.
  Hypothesis MU : mutual B.
  (* membership in a constraint of the class is always defined (the complement that `allows` of a union computes exists) *)
  Lemma allows_total_K c x : inK B c -> exists b, allows c x = Ok b.
  Proof.
    intros (G & S & I). destruct c as [|r|l]; cbn [allows]; try (eexists; reflexivity).
    unfold goodc in G. cbn [flatten] in G. unfold sorted_c in S. cbn [flatten] in S. unfold cbounds in I. cbn [flatten] in I. fold (lbounds l) in I.
    unfold excluded_single_version, inverted, rng_minus_union.
    destruct (sweep_total B MU l ANY [] good_any G (fun e H => match H with end) I) as [rs Hrs]. rewrite Hrs. cbn [bind].
    destruct (sweep B MU l ANY [] rs good_any eq_refl G S (fun e H => match H with end) (fun e H => match H with end) I Hrs) as (G1 & _ & _).
    destruct (vunion_of_total (pred OF_FUEL) (map VOne rs) (good_map_vone _ G1)) as [i Hi].
    change (union_of (map VOne rs)) with (vunion_of OF_FUEL (map VOne rs)). change OF_FUEL with (Datatypes.S (pred OF_FUEL)). rewrite Hi. cbn [bind].
    destruct (match i with VOne (RV v) => Some v | _ => None end) as [e|]; [destruct (is_local e)|]; eexists; reflexivity.
  Qed.
End AllowsTotal.

Section VClass.
  Variable E : env.
  Variable ev : version.
  Hypothesis Pev : printable ev = true.
  Hypothesis Hlook : lookup pfv (e_vars E) = Some (to_string ev).
  Variable B : list version.
  Hypothesis MU : mutual B.
  Hypothesis BN : forall v, In v B -> normal v = true /\ pad_ok v = true /\ is_local v = false.
  Hypothesis RegE : regB B (reparsed ev) = true.

  Definition VR (m : marker) : Prop :=
    match m with
    | MSingle l => l_name l = pfv /\ l_swapped l = false /\
                   exists op v, In op vops /\ In v B /\ l_op l = op /\ l_value l = to_string v /\ l_con l = CV (op_result op v)
    | _ => False
    end.

  Lemma wf_ev : wf (reparsed ev) = true.
  Proof. pose proof (printable_wf ev Pev) as W. unfold wf in *. exact W. Qed.
  Lemma half_good v (lo : bool) (i : bool) : wf v = true -> is_local v = false ->
    good (if lo then RR (Some v) None i false else RR None (Some v) false i) = true.
  Proof. intros W L. destruct lo; unfold good, wf_rng, proper, nolocal_r, flags_ok, rbounds; cbn; rewrite W, L; destruct i; reflexivity. Qed.
  Lemma opres_K op v : In op vops -> In v B -> inK B (op_result op v).
  Proof.
    intros Hop Hv. destruct (BN v Hv) as (N & _ & L). destruct (normal_parts v N) as [P _]. pose proof (printable_wf v P) as W.
    assert (One : forall r, good r = true -> incl (rbounds r) B -> inK B (VOne r)).
    { intros r G I. unfold inK, goodc, sorted_c, cbounds. cbn [flatten forallb sepb flat_map]. rewrite G, app_nil_r. auto. }
    assert (IB : forall x, In x [v] -> In x B) by (intros x [<-|[]]; exact Hv).
    cbn [vops In] in Hop. destruct Hop as [<-|[<-|[<-|[<-|[<-|[<-|[]]]]]]]; unfold op_result; cbn [String.eqb Ascii.eqb].
    - apply One; [exact (half_good v true true W L)|exact IB].
    - apply One; [exact (half_good v false true W L)|exact IB].
    - apply One; [exact (half_good v true false W L)|exact IB].
    - apply One; [exact (half_good v false false W L)|exact IB].
    - apply One; [apply good_rv_of; assumption|]. intros x Hx. cbn in Hx. destruct Hx as [<-|[<-|[]]]; exact Hv.
    - apply ne_in_K; assumption.
  Qed.

  (* the interpreter's version as the environment gives it *)
  Lemma env_value : parse_constraint_text true true (to_string ev) = Ok (VOne (RV (reparsed ev))).
  Proof. change (to_string ev) with ("" ++ to_string ev)%string. apply (one_clause_text true "" ev _ Pev eq_refl). apply clause_bare, Pev. Qed.
  Lemma lval_K c : inK B c -> lval E pfv (CV c) = sem c (reparsed ev).
  Proof.
    intros K. unfold lval, validate_con. change (String.eqb pfv "extra") with false. rewrite Hlook.
    change (negb (String.eqb pfv "platform_release")) with true. rewrite env_value. cbn [bind].
    destruct (allows_total_K B MU c (reparsed ev) K) as [b Hb]. rewrite Hb. exact (allows_sem c _ b (K_hole B MU c K) Hb).
  Qed.
  Lemma VR_parts m : VR m -> exists l op v, m = MSingle l /\ l_name l = pfv /\ l_swapped l = false /\ In op vops /\ In v B /\
    l_op l = op /\ l_value l = to_string v /\ l_con l = CV (op_result op v) /\ beval E m = sem (op_result op v) (reparsed ev).
  Proof.
    destruct m as [| |l|n a|n a|l0|l0]; cbn [VR]; try contradiction.
    intros (Hn & Hs & op & v & Hop & Hv & Ho & Hval & Hc). exists l, op, v. repeat split; auto.
    cbn [beval]. rewrite Hn, Hc. apply lval_K, opres_K; assumption.
  Qed.
End VClass.

Section Shape.
  Variable B : list version.
  Hypothesis MU : mutual B.
  Hypothesis BN : forall v, In v B -> normal v = true /\ pad_ok v = true /\ is_local v = false.

  Lemma text_normal w : In w B -> text w = to_string w /\ printable w = true /\ pad_ok w = true /\ reparsed w = w.
  Proof. intros H. destruct (BN w H) as (N & Pd & _). destruct (normal_parts w N) as [P T]. repeat split; auto. apply normal_reparsed, N. Qed.

  (* a simple (half-line, single version, single exclusion), non-empty, non-universal constraint of the class is rebuilt by
     SingleMarker(name, constraint) - which prints it and reads the text back - as the clause 'op w' with the same meaning *)
  Lemma simple_rebuilt r0 : inK B r0 -> is_empty r0 = false -> is_any r0 = false -> is_simple r0 = Ok true ->
    exists op w, In op vops /\ In w B /\
      single_of_con pfv (CV r0) = Ok (MSingle (mkLeaf pfv op (to_string w) false (CV (op_result op w)))) /\
      forall x, wf x = true -> regB B x = true -> sem (op_result op w) x = sem r0 x.
  Proof.
    intros K NE NA HS. pose proof K as (G & S & I).
    destruct r0 as [|r|l]; [discriminate| |].
    - (* one range-like *)
      unfold goodc in G. cbn [flatten forallb] in G. rewrite andb_true_r in G.
      unfold cbounds in I. cbn [flatten flat_map] in I. rewrite app_nil_r in I.
      destruct (good_parts _ G) as (_ & _ & _ & F). unfold flags_ok in F.
      destruct r as [w|lo hi i j].
      + assert (Hw : In w B) by (apply I; left; reflexivity). destruct (text_normal w Hw) as (T & P & Pd & Rp).
        exists "=="%string, w. split; [cbn; tauto|]. split; [exact Hw|]. split; [|reflexivity].
        unfold single_of_con. cbn [mcon_str vc_str r_str bind]. rewrite T, (version_leaf_bare w P Pd), Rp. reflexivity.
      + cbn [is_simple] in HS. cbn [is_any r_is_any] in NA. cbn [rmin rmax imin imax] in F.
        destruct lo as [w|], hi as [h|]; cbn [is_some negb orb] in HS; try discriminate.
        * assert (Hw : In w B) by (apply I; left; reflexivity). destruct (text_normal w Hw) as (T & P & Pd & Rp).
          destruct j; [destruct i; cbn in F; discriminate|].
          exists (if i then ">=" else ">")%string, w. split; [destruct i; cbn; tauto|]. split; [exact Hw|]. split.
          -- unfold single_of_con. cbn [mcon_str vc_str r_str is_single_wildcard_range bind]. rewrite T.
             rewrite (version_leaf_op (if i then ">=" else ">")%string w P Pd) by (destruct i; cbn; tauto). rewrite Rp. destruct i; reflexivity.
          -- intros x _ _. destruct i; reflexivity.
        * assert (Hw : In h B) by (apply I; left; reflexivity). destruct (text_normal h Hw) as (T & P & Pd & Rp).
          destruct i; [destruct j; cbn in F; discriminate|].
          exists (if j then "<=" else "<")%string, h. split; [destruct j; cbn; tauto|]. split; [exact Hw|]. split.
          -- unfold single_of_con. cbn [mcon_str vc_str r_str is_single_wildcard_range bind]. rewrite T.
             rewrite (version_leaf_op (if j then "<=" else "<")%string h P Pd) by (destruct j; cbn; tauto). rewrite Rp. destruct j; reflexivity.
          -- intros x _ _. destruct j; reflexivity.
    - (* a union that excludes one version *)
      cbn [is_simple] in HS. destruct (excluded_single_version l) as [[e|]|] eqn:Ex; cbn [bind is_some] in HS; try discriminate.
      pose proof Ex as Ex0. unfold excluded_single_version, inverted in Ex.
      destruct (rng_minus_union ANY l) as [i|] eqn:Hi; cbn [bind] in Ex; [|discriminate].
      unfold goodc in G. cbn [flatten] in G. unfold sorted_c in S. cbn [flatten] in S. unfold cbounds in I. cbn [flatten] in I. fold (lbounds l) in I.
      destruct (rng_minus_union_exact B ANY l i MU good_any G S (fun e H => match H with end) I Hi) as (Gi & Ii & Mi).
      destruct i as [|[x|? ? ? ?]|]; try discriminate. injection Ex as <-.
      assert (He : In x B) by (apply Ii; unfold cbounds; cbn; left; reflexivity).
      destruct (text_normal x He) as (T & P & Pd & Rp).
      exists "!="%string, x. split; [cbn; tauto|]. split; [exact He|]. split.
      + unfold single_of_con. cbn [mcon_str vc_str bind]. rewrite Ex0. cbn [bind]. rewrite T.
        rewrite (version_leaf_op "!="%string x P Pd) by (cbn; tauto). rewrite Rp. reflexivity.
      + intros v Wv Rv.
        assert (Kx : inK B (op_result "!=" x)) by (apply (opres_K B BN); [cbn; tauto|exact He]).
        destruct Kx as (Gx & _ & Ix).
        rewrite (sem_regular _ v Gx Wv (regular_incl v _ _ Ix Rv)).
        assert (Gl : goodc (VUnion l) = true) by exact G.
        rewrite (sem_regular (VUnion l) v Gl Wv (regular_incl v _ _ I Rv)).
        specialize (Mi v Wv Rv). rewrite vmem_flatten in Mi. cbn [flatten lmem existsb] in Mi. rewrite mem_single, orb_false_r, none_of_lmem in Mi.
        assert (MA : mem ANY v = true) by reflexivity. rewrite MA in Mi. cbn [andb] in Mi.
        change (op_result "!=" x) with (VUnion [RR None (Some x) false false; RR (Some x) None false false]).
        rewrite !vmem_flatten. cbn [flatten].
        destruct (lmem l v) eqn:L; cbn [negb] in Mi; cbn [lmem existsb]; unfold mem, above, below; cbn [rmin rmax imin imax];
          rewrite ?andb_false_r, ?orb_false_r; cbn [andb]; rewrite ?andb_true_r; clear - Mi; ol [v; x].
  Qed.
End Shape.

Lemma to_string_inj v w : normal v = true -> normal w = true -> to_string v = to_string w -> v = w.
Proof.
  intros Nv Nw H. destruct (normal_parts v Nv) as [Pv _]. destruct (normal_parts w Nw) as [Pw _].
  pose proof (roundtrip v Pv) as Rv. pose proof (roundtrip w Pw) as Rw. rewrite H, Rw in Rv. injection Rv as Rv.
  rewrite <- (normal_reparsed v Nv), <- (normal_reparsed w Nw). unfold reparsed. congruence.
Qed.

Section VMerge.
  Variable E : env.
  Variable ev : version.
  Hypothesis Pev : printable ev = true.
  Hypothesis Hlook : lookup pfv (e_vars E) = Some (to_string ev).
  Variable B : list version.
  Hypothesis MU : mutual B.
  Hypothesis BN : forall v, In v B -> normal v = true /\ pad_ok v = true /\ is_local v = false.
  Hypothesis RegE : regB B (reparsed ev) = true.
  Notation R := (VR B).
  Let parts := VR_parts E ev Pev Hlook B MU BN.
  Let Wev := wf_ev ev Pev.

  Theorem vr_key x y : is_leaf_like x = true -> is_leaf_like y = true -> R x -> R y -> marker_eqb x y = true -> beval E x = beval E y.
  Proof.
    intros _ _ Rx Ry H.
    destruct (parts x Rx) as (lx & ox & vx & -> & Hnx & Hsx & Hox & Hvx & Hopx & Hvalx & Hcx & Bx).
    destruct (parts y Ry) as (ly & oy & vy & -> & Hny & Hsy & Hoy & Hvy & Hopy & Hvaly & Hcy & By).
    cbn [marker_eqb] in H. unfold leaf_key_eqb in H. rewrite !andb_true_iff in H. destruct H as [[[E1 E2] E3] _].
    apply String.eqb_eq in E2, E3. rewrite Hopx, Hopy in E2. rewrite Hvalx, Hvaly in E3.
    destruct (BN vx Hvx) as (Nx & _). destruct (BN vy Hvy) as (Ny & _).
    pose proof (to_string_inj vx vy Nx Ny E3). subst. rewrite Bx, By. reflexivity.
  Qed.
  Theorem vr_sym x y : is_leaf_like x = true -> is_leaf_like y = true -> R x -> R y -> marker_eqb x y = marker_eqb y x.
  Proof.
    intros _ _ Rx Ry.
    destruct (parts x Rx) as (lx & ox & vx & -> & _). destruct (parts y Ry) as (ly & oy & vy & -> & _).
    cbn [marker_eqb]. unfold leaf_key_eqb. rewrite (String.eqb_sym (l_name lx)), (String.eqb_sym (l_op lx)), (String.eqb_sym (l_value lx)).
    destruct (l_swapped lx), (l_swapped ly); reflexivity.
  Qed.

  Lemma sem_any_one r x : r_is_any r = true -> sem (VOne r) x = true.
  Proof. destruct r as [w|[|] [|] i j]; try discriminate. intros _. reflexivity. Qed.

  Theorem vr_merge fuel st m1 m2 is_multi r : G R m1 -> G R m2 -> merge_single fuel st m1 m2 is_multi = Ok (Some r) ->
    beval E r = (if is_multi then beval E m1 && beval E m2 else beval E m1 || beval E m2) /\ G R r.
  Proof.
    intros G1 G2 H. destruct fuel as [|f]; [discriminate|]. cbn [merge_single] in H.
    assert (L1 : is_leaf_like m1 = true) by (unfold is_leaf_like; destruct (leaf_like m1); [reflexivity|discriminate]).
    assert (L2 : is_leaf_like m2 = true).
    { unfold is_leaf_like. destruct (leaf_like m1) as [[? ?]|]; [|discriminate]. destruct (leaf_like m2); [reflexivity|discriminate]. }
    assert (R1 : R m1) by (inversion G1; subst; try discriminate; assumption).
    assert (R2 : R m2) by (inversion G2; subst; try discriminate; assumption).
    destruct (parts m1 R1) as (l1 & o1 & v1 & -> & Hn1 & Hs1 & Ho1 & Hv1 & Hop1 & Hval1 & Hc1 & B1).
    destruct (parts m2 R2) as (l2 & o2 & v2 & -> & Hn2 & Hs2 & Ho2 & Hv2 & Hop2 & Hval2 & Hc2 & B2).
    cbn [leaf_like] in H. rewrite Hn1, Hn2, Hc1, Hc2 in H.
    change (String.eqb pfv "python_version") with false in H. change (String.eqb pfv pfv) with true in H. cbn [andb orb negb] in H.
    set (a := op_result o1 v1) in *. set (b := op_result o2 v2) in *.
    pose proof (opres_K B BN o1 v1 Ho1 Hv1) as Ka. pose proof (opres_K B BN o2 v2 Ho2 Hv2) as Kb. fold a in Ka. fold b in Kb.
    destruct (if is_multi then intersect a b else union a b) as [r0|e] eqn:Hop; cbn [bind] in H; [|discriminate].
    assert (KM : inK B r0 /\ sem r0 (reparsed ev) = if is_multi then sem a (reparsed ev) && sem b (reparsed ev) else sem a (reparsed ev) || sem b (reparsed ev)).
    { destruct is_multi.
      - destruct (K_intersect B MU a b r0 Ka Kb Hop) as [K M]. split; [exact K|exact (M _ Wev RegE)].
      - destruct (K_union B MU a b r0 Ka Kb Hop) as [K M]. split; [exact K|exact (M _ Wev RegE)]. }
    destruct KM as [Kr Val]. rewrite <- B1, <- B2 in Val.
    cbn [mcon_is_empty mcon_is_any mcon_eqb] in H.
    destruct (is_empty r0) eqn:Em.
    { injection H as <-. split; [|constructor]. rewrite <- Val. destruct r0; try discriminate. reflexivity. }
    destruct (is_any r0) eqn:An.
    { injection H as <-. split; [|constructor]. rewrite <- Val. destruct r0 as [|r1|]; try discriminate. symmetry. apply sem_any_one, An. }
    pose proof Kr as (Gr & _ & _). pose proof Ka as (Ga & _ & _). pose proof Kb as (Gb & _ & _).
    destruct (vc_eqb r0 a) eqn:E1.
    { injection H as <-. split; [|exact G1]. rewrite <- Val, B1. symmetry. apply vc_eqb_interchangeable; [apply goodc_wpc, Gr|apply goodc_wpc, Ga|exact E1]. }
    destruct (vc_eqb r0 b) eqn:E2.
    { injection H as <-. split; [|exact G2]. rewrite <- Val, B2. symmetry. apply vc_eqb_interchangeable; [apply goodc_wpc, Gr|apply goodc_wpc, Gb|exact E2]. }
    destruct (is_simple r0) as [[|]|e] eqn:Hs; cbn [bind] in H; [| |discriminate].
    2:{ change (String.eqb pfv "python_version") with false in H. discriminate. }
    destruct (simple_rebuilt B MU BN r0 Kr Em An Hs) as (op & w & Hop' & Hw & Hre & Hsem).
    rewrite Hre in H. cbn [bind] in H. injection H as <-. split.
    - cbn [beval l_name l_con]. rewrite (lval_K E ev Pev Hlook B MU _ (opres_K B BN op w Hop' Hw)), (Hsem _ Wev RegE). exact Val.
    - constructor. cbn [VR l_name l_swapped l_op l_value l_con]. split; [reflexivity|]. split; [reflexivity|]. exists op, w. auto.
  Qed.

  Theorem version_clause_class : clause_class E R.
  Proof. split; [exact vr_key | exact vr_sym | exact vr_merge]. Qed.

  (* the simplifier on markers over comparison clauses of python_full_version: no premise left *)
  Theorem version_intersect_union fuel st a b : G R a -> G R b ->
    (forall r, m_intersect fuel st a b = Ok r -> beval E r = beval E a && beval E b /\ G R r) /\
    (forall r, m_union fuel st a b = Ok r -> beval E r = beval E a || beval E b /\ G R r).
  Proof. exact (intersect_union_sound E R version_clause_class fuel st a b). Qed.
  Theorem version_normal_forms fuel st m : G R m ->
    (forall r, cnf fuel st m = Ok r -> beval E r = beval E m /\ G R r) /\ (forall r, dnf fuel st m = Ok r -> beval E r = beval E m /\ G R r).
  Proof. exact (normal_forms_sound E R version_clause_class fuel st m). Qed.
End VMerge.

(* string clauses, 'extra' clauses and python_full_version comparisons together *)
Section Three.
  Variable E : env.
  Variable extras : list string.
  Hypothesis Hex : e_extras E = Some extras.
  Variable ev : version.
  Hypothesis Pev : printable ev = true.
  Hypothesis Hlook : lookup pfv (e_vars E) = Some (to_string ev).
  Variable B : list version.
  Hypothesis MU : mutual B.
  Hypothesis BN : forall v, In v B -> normal v = true /\ pad_ok v = true /\ is_local v = false.
  Hypothesis RegE : regB B (reparsed ev) = true.

  Definition AR (m : marker) : Prop := BR E m \/ VR B m.

  Lemma br_name m : BR E m -> exists n c, leaf_like m = Some (n, c) /\ String.eqb n "python_version" = false /\ String.eqb n pfv = false.
  Proof.
    intros [S|X].
    - destruct (SR_leaf_like E m S) as (n & c & L & Hn & _). exists n, (CG c). split; [exact L|]. destruct (not_python n Hn) as [A Bq]. split; [exact A|exact Bq].
    - destruct (XR_leaf_like E extras Hex m X) as (c & L & _). exists "extra"%string, (CG c). split; [exact L|]. split; reflexivity.
  Qed.
  Lemma vr_name m : VR B m -> exists c, leaf_like m = Some (pfv, c).
  Proof. destruct m as [| |l|n a|n a|l0|l0]; cbn [VR]; try contradiction. intros (Hn & _). exists (l_con l). cbn [leaf_like]. rewrite Hn. reflexivity. Qed.
  Lemma cross_neq x y : BR E x -> VR B y -> marker_eqb x y = false /\ marker_eqb y x = false.
  Proof.
    intros Bx Vy. destruct (br_name x Bx) as (n & c & Lx & _ & Np). destruct (vr_name y Vy) as (c' & Ly).
    assert (Nx : mname x = Some n) by (unfold mname; rewrite Lx; reflexivity).
    assert (Ny : mname y = Some pfv) by (unfold mname; rewrite Ly; reflexivity).
    split.
    - destruct (marker_eqb x y) eqn:H; [|reflexivity]. exfalso. pose proof (eqb_name x y n pfv Nx Ny H) as ->. rewrite String.eqb_refl in Np. discriminate.
    - destruct (marker_eqb y x) eqn:H; [|reflexivity]. exfalso. pose proof (eqb_name y x pfv n Ny Nx H) as <-. rewrite String.eqb_refl in Np. discriminate.
  Qed.

  Let CB := both_clause_class E extras Hex.
  Let CV_ := version_clause_class E ev Pev Hlook B MU BN RegE.

  Theorem all_clause_class : clause_class E AR.
  Proof.
    split.
    - intros x y Lx Ly [Bx|Vx] [By|Vy] H.
      + exact (cc_key E _ CB x y Lx Ly Bx By H).
      + rewrite (proj1 (cross_neq x y Bx Vy)) in H. discriminate.
      + rewrite (proj2 (cross_neq y x By Vx)) in H. discriminate.
      + exact (cc_key E _ CV_ x y Lx Ly Vx Vy H).
    - intros x y Lx Ly [Bx|Vx] [By|Vy].
      + exact (cc_sym E _ CB x y Lx Ly Bx By).
      + destruct (cross_neq x y Bx Vy) as [P Q]. rewrite P, Q. reflexivity.
      + destruct (cross_neq y x By Vx) as [P Q]. rewrite P, Q. reflexivity.
      + exact (cc_sym E _ CV_ x y Lx Ly Vx Vy).
    - intros fuel st m1 m2 is_multi r G1 G2 H.
      assert (L1 : is_leaf_like m1 = true) by (destruct fuel; [discriminate|]; cbn [merge_single] in H; unfold is_leaf_like; destruct (leaf_like m1); [reflexivity|discriminate]).
      assert (L2 : is_leaf_like m2 = true).
      { destruct fuel; [discriminate|]. cbn [merge_single] in H. unfold is_leaf_like. destruct (leaf_like m1) as [[? ?]|]; [|discriminate]. destruct (leaf_like m2); [reflexivity|discriminate]. }
      assert (R1 : AR m1) by (inversion G1; subst; try assumption; discriminate).
      assert (R2 : AR m2) by (inversion G2; subst; try assumption; discriminate).
      assert (Lift : forall (R0 : marker -> Prop) m, is_leaf_like m = true -> R0 m -> G R0 m).
      { intros R0 m Lm Rm. destruct m; try discriminate; constructor; exact Rm. }
      destruct R1 as [B1|V1], R2 as [B2|V2].
      + destruct (cc_merge E _ CB fuel st m1 m2 is_multi r (Lift _ m1 L1 B1) (Lift _ m2 L2 B2) H) as [V Gr].
        split; [exact V|exact (G_mono _ _ (fun x Hx => or_introl Hx) r Gr)].
      + exfalso. destruct fuel as [|f]; [discriminate|]. cbn [merge_single] in H.
        destruct (br_name m1 B1) as (n1 & c1 & Hl1 & P1 & P1'). destruct (vr_name m2 V2) as (c2 & Hl2).
        rewrite Hl1, Hl2 in H. unfold pfv in *. rewrite P1, P1' in H. cbn [andb orb negb] in H. discriminate.
      + exfalso. destruct fuel as [|f]; [discriminate|]. cbn [merge_single] in H.
        destruct (vr_name m1 V1) as (c1 & Hl1). destruct (br_name m2 B2) as (n2 & c2 & Hl2 & P2 & P2').
        rewrite Hl1, Hl2 in H. unfold pfv in *. rewrite P2 in H. change (String.eqb "python_full_version" "python_version") with false in H. cbn [andb orb] in H.
        rewrite (String.eqb_sym "python_full_version" n2), P2' in H. cbn [negb] in H. discriminate.
      + destruct (cc_merge E _ CV_ fuel st m1 m2 is_multi r (Lift _ m1 L1 V1) (Lift _ m2 L2 V2) H) as [V Gr].
        split; [exact V|exact (G_mono _ _ (fun x Hx => or_intror Hx) r Gr)].
  Qed.

  Theorem all_intersect_union fuel st a b : G AR a -> G AR b ->
    (forall r, m_intersect fuel st a b = Ok r -> beval E r = beval E a && beval E b /\ G AR r) /\
    (forall r, m_union fuel st a b = Ok r -> beval E r = beval E a || beval E b /\ G AR r).
  Proof. exact (intersect_union_sound E AR all_clause_class fuel st a b). Qed.
  Theorem all_normal_forms fuel st m : G AR m ->
    (forall r, cnf fuel st m = Ok r -> beval E r = beval E m /\ G AR r) /\ (forall r, dnf fuel st m = Ok r -> beval E r = beval E m /\ G AR r).
  Proof. exact (normal_forms_sound E AR all_clause_class fuel st m). Qed.
  Theorem all_only fuel st names m r : G AR m -> only fuel st names m = Ok r -> (beval E m = true -> beval E r = true) /\ G AR r.
  Proof. exact (only_weakens E AR all_clause_class fuel st names m r). Qed.
End Three.

(* the clauses of the class are what the constructor builds from text *)
Theorem version_clause_of_text B (BN : forall v, In v B -> normal v = true /\ pad_ok v = true /\ is_local v = false) op v :
  In op vops -> In v B -> exists l, mk_leaf pfv (op ++ to_string v) false = Ok l /\ VR B (MSingle l).
Proof.
  intros Hop Hv. destruct (BN v Hv) as (N & Pd & _). destruct (normal_parts v N) as [P _].
  eexists. split; [exact (version_leaf_op op v P Pd Hop)|]. rewrite (normal_reparsed v N).
  cbn [VR l_name l_swapped l_op l_value l_con]. split; [reflexivity|]. split; [reflexivity|]. exists op, v. auto.
Qed.

(* not vacuous: four three-component literals, an interpreter, two markers over them *)
Open Scope string_scope.
Definition vx (s : string) : version := match parse s with Some v => v | None => mkV 0 [] None None None None "" end.
Definition ex_VB : list version := [vx "3.8.1"; vx "3.9.0"; vx "3.10.0"; vx "3.11.4"].
Definition ex_env : env := mkEnv [("python_full_version", "3.9.7"); ("python_version", "3.9")] (Some []).
Definition ex_leaf (op v : string) : marker := match mk_leaf pfv (op ++ v) false with Ok l => MSingle l | Err _ => MAny end.
Lemma ex_VB_ok : mutual ex_VB /\ (forall v, In v ex_VB -> normal v = true /\ pad_ok v = true /\ is_local v = false) /\
  printable (vx "3.9.7") = true /\ lookup pfv (e_vars ex_env) = Some (to_string (vx "3.9.7")) /\ regB ex_VB (reparsed (vx "3.9.7")) = true.
Proof.
  split; [refine (mutual_of_bool ex_VB _); vm_compute; reflexivity|]. split.
  - intros v [<-|[<-|[<-|[<-|[]]]]]; vm_compute; auto.
  - repeat split; vm_compute; reflexivity.
Qed.
Example version_class_runs :
  let a := MUnion [ex_leaf ">=" "3.9.0"; ex_leaf "<" "3.8.1"] in
  let b := MMulti [ex_leaf "<" "3.11.4"; MUnion [ex_leaf "!=" "3.10.0"; ex_leaf ">=" "3.9.0"]] in
  exists r, m_intersect FUEL ST0 a b = Ok r /\ beval ex_env r = beval ex_env a && beval ex_env b.
Proof.
  cbv zeta. destruct ex_VB_ok as (MU & BN & Pev & Hl & Rg).
  assert (L : forall op v, In (op, v) [(">=", "3.9.0"); ("<", "3.8.1"); ("<", "3.11.4"); ("!=", "3.10.0")] -> G (VR ex_VB) (ex_leaf op v)).
  { intros op v H. cbn [In] in H.
    destruct H as [H|[H|[H|[H|[]]]]]; injection H as <- <-; constructor;
      (cbn [VR]; vm_compute; split; [reflexivity|]; split; [reflexivity|]);
      [exists ">=", (vx "3.9.0")|exists "<", (vx "3.8.1")|exists "<", (vx "3.11.4")|exists "!=", (vx "3.10.0")];
      (split; [cbn; tauto|]); (split; [unfold ex_VB; cbn [In]; tauto|]); repeat split; vm_compute; reflexivity. }
  eexists. split; [vm_compute; reflexivity|].
  refine (proj1 (proj1 (version_intersect_union ex_env (vx "3.9.7") Pev Hl ex_VB MU BN Rg FUEL ST0 _ _ _ _) _ _)).
  - constructor. constructor; [apply L; cbn; tauto|]. constructor; [apply L; cbn; tauto|constructor].
  - constructor. constructor; [apply L; cbn; tauto|]. constructor; [|constructor]. constructor.
    constructor; [apply L; cbn; tauto|]. constructor; [apply L; cbn; tauto|constructor].
  - vm_compute. reflexivity.
Qed.
