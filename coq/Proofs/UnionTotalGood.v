(* C05, the 'are defined (never raise)' clause for union: VersionUnion.of and union never raise on operands whose members are good.
   When two good members overlap or are adjacent, r_union answers with one range-like and does not call VersionUnion.of back, so the
   look-back merge never trips its assertion and the recursion guard is never needed, whatever the fuel. *)
From Coq Require Import List Bool NArith ZArith String Ascii Lia ZifyBool.
From PC Require Import Base.Cmp Base.Result Base.RankEmbed Model.Pep440 Spec.Pep440Spec Proofs.Pep440Order
     Proofs.VersionFacts Model.VConstraint Proofs.RangeSpec Proofs.RangeAlg Proofs.RangeOps Proofs.UnionHull Proofs.UnionExact Proofs.Contain Proofs.InterExact Proofs.UnionTotal.
Import ListNotations.
Open Scope list_scope.

(* when two good members touch or overlap, r_union returns one range-like: VersionUnion.of is not called back *)
Lemma r_union_touch ofn m c : good m = true -> good c = true -> r_allows_any m c || is_adjacent_to m c = true ->
  exists r, r_union ofn m c = Ok (VOne r).
Proof.
  intros Gm Gc T.
  destruct (good_parts _ Gm) as (Wm & Pm & Lm & Fm). destruct (good_parts _ Gc) as (Wc & Pc & Lc & Fc).
  destruct m as [x|lo hi i j] eqn:Em, c as [y|lo' hi' i' j'] eqn:Ec.
  - (* version, version *)
    destruct (good_rv x Gm) as [Wx Lx]. destruct (good_rv y Gc) as [Wy Ly].
    cbn [r_union r_allows rmin rmax]. cbn [r_allows_any is_adjacent_to] in T.
    rewrite (v_allows_nolocal y x Lx). rewrite (v_allows_nolocal x y Ly), (v_allows_nolocal y x Lx) in T.
    unfold is_adjacent_to in T. cbn [rmax rmin imax imin oveq negb andb orb] in T.
    destruct (veqb y x) eqn:E; [eexists; reflexivity|]. rewrite (v_allows_nolocal x y Ly).
    rewrite (veqb_sym x y), E in T. cbn in T. destruct (veqb x y); discriminate.
  - (* version, range *)
    destruct (good_rv x Gm) as [Wx Lx]. cbn [r_union]. cbn [r_allows_any] in T.
    rewrite (min_local_allowed_nolocal _ x Lc), orb_false_r in T.
    change (r_allows (RR lo' hi' i' j') x) with (rr_allows (RR lo' hi' i' j') x).
    destruct (rr_allows (RR lo' hi' i' j') x) eqn:A; [eexists; reflexivity|]. cbn [orb] in T.
    unfold is_adjacent_to in T. cbn [rmax rmin imax imin] in T.
    destruct (oveq (Some x) lo') eqn:E; cbn [negb] in T; [|discriminate].
    destruct lo' as [mn|]; [|discriminate]. cbn [oveq] in E. cbn [rmin].
    assert (Lmn : is_local mn = false) by (apply (good_bound_min (RR (Some mn) hi' i' j') mn Gc eq_refl)).
    rewrite (v_allows_nolocal x mn Lmn), E. eexists; reflexivity.
  - (* range, version *)
    destruct (good_rv y Gc) as [Wy Ly]. cbn [r_union]. cbn [r_allows_any] in T.
    rewrite (min_local_allowed_nolocal _ y Lm), orb_false_r in T.
    destruct (rr_allows (RR lo hi i j) y) eqn:A; [eexists; reflexivity|]. cbn [orb] in T.
    unfold is_adjacent_to in T. cbn [rmax rmin imax imin] in T.
    destruct (oveq hi (Some y)) eqn:E; cbn [negb] in T; [|discriminate].
    cbn [rmin rmax]. destruct (oveq (Some y) lo); [eexists; reflexivity|].
    assert (E' : oveq (Some y) hi = true) by (destruct hi as [h|]; [cbn [oveq] in *; rewrite veqb_sym; exact E|discriminate]).
    rewrite E'. eexists; reflexivity.
  - destruct (r_union_rr_touch ofn (RR lo hi i j) (RR lo' hi' i' j') eq_refl eq_refl T) as (r & H & _). exists r. exact H.
Qed.

Section Total.
  Variable ofn : list vc -> res vc.
  Hypothesis Hof : OfnSound ofn.

  Lemma merge_back_total : forall rm c, forallb good rm = true -> good c = true ->
    exists o, merge_back ofn rm c = Ok o /\ match o with Some l => forallb good l = true | None => True end.
  Proof.
    induction rm as [|m rest IH]; intros c Gl Gc; cbn [merge_back].
    - exists None. split; [reflexivity|exact I].
    - cbn [forallb] in Gl. apply andb_true_iff in Gl as [Gm Grest].
      destruct (r_allows_any m c || is_adjacent_to m c) eqn:T.
      + destruct (r_union_touch ofn m c Gm Gc T) as [r Hr]. rewrite Hr. cbn [bind].
        exists (Some (r :: rest)). split; [reflexivity|].
        destruct (r_union_exact ofn m c (VOne r) Hof Gm Gc Hr) as (_ & _ & Gr). unfold goodc in Gr. cbn [flatten forallb] in Gr.
        cbn [forallb]. rewrite andb_true_r in Gr. rewrite Gr, Grest. reflexivity.
      + destruct (IH c Grest Gc) as [o [-> Ho]]. cbn [bind]. destruct o as [l|].
        * exists (Some (m :: l)). split; [reflexivity|]. cbn [forallb]. rewrite Gm, Ho. reflexivity.
        * exists None. split; [reflexivity|exact I].
  Qed.
  Lemma merge_all_total : forall l rm, forallb good rm = true -> forallb good l = true ->
    exists res, merge_all ofn rm l = Ok res.
  Proof.
    induction l as [|c l IH]; intros rm Grm Gl; cbn [merge_all]; [eexists; reflexivity|].
    cbn [forallb] in Gl. apply andb_true_iff in Gl as [Gc Gl].
    destruct (merge_back_total rm c Grm Gc) as [o [-> Ho]]. cbn [bind].
    destruct o as [m|]; apply IH; auto. cbn [forallb]. rewrite Gc, Grm. reflexivity.
  Qed.
End Total.

(* C05, "the results are defined": VersionUnion.of never raises on members that are good (well-formed proper bounds without local label),
   for every positive fuel - the recursion guard is never needed *)
Theorem vunion_of_total (f : nat) cs : forallb goodc cs = true -> exists c, vunion_of (Datatypes.S f) cs = Ok c.
Proof.
  intros G. cbn [vunion_of]. pose proof (flat_goodc cs G) as Gf.
  destruct (flat_map flatten cs) as [|x l] eqn:E; [eexists; reflexivity|].
  destruct (existsb r_is_any (x :: l)); [eexists; reflexivity|].
  assert (Gs : forallb good (sort_ranges (x :: l)) = true).
  { unfold sort_ranges. destruct (sort_spec (x :: l) []) as (_ & _ & S). apply S; [reflexivity|exact Gf]. }
  destruct (merge_all_total (vunion_of f) (vunion_of_sound f) (sort_ranges (x :: l)) [] eq_refl Gs) as [res ->].
  cbn [bind]. destruct res as [|r [|r' rs]]; eexists; reflexivity.
Qed.
Print Assumptions vunion_of_total.

Lemma r_union_total a b : good a = true -> good b = true -> exists c, r_union union_of a b = Ok c.
Proof.
  intros Ga Gb.
  assert (U : exists c, union_of [VOne a; VOne b] = Ok c) by (apply vunion_of_total, good_two; assumption).
  destruct U as [u Hu]. unfold r_union.
  destruct a as [x|lo hi i j], b as [y|lo' hi' i' j'].
  - destruct (r_allows (RV y) x); [eexists; reflexivity|]. cbn [rmin rmax]. destruct (v_allows x y); [eexists; reflexivity|]. rewrite Hu. eexists; reflexivity.
  - destruct (r_allows (RR lo' hi' i' j') x); [eexists; reflexivity|].
    destruct (match rmin (RR lo' hi' i' j') with Some m => v_allows x m | None => false end); [eexists; reflexivity|].
    destruct (match rmax (RR lo' hi' i' j') with Some m => v_allows x m | None => false end); [eexists; reflexivity|]. rewrite Hu. eexists; reflexivity.
  - destruct (rr_allows (RR lo hi i j) y); [eexists; reflexivity|].
    destruct (oveq (Some y) (rmin (RR lo hi i j))); [eexists; reflexivity|].
    destruct (oveq (Some y) (rmax (RR lo hi i j))); [eexists; reflexivity|]. rewrite Hu. eexists; reflexivity.
  - destruct (negb _ && negb _); [rewrite Hu; eexists; reflexivity|].
    destruct (allows_lower _ _), (allows_higher _ _); eexists; reflexivity.
Qed.
(* C05: union is defined for operands whose members are good (for a single version against a union: when its membership test is) *)
Theorem union_total a b : goodc a = true -> goodc b = true ->
  (match a with VOne (RV x) => exists al, allows b x = Ok al | _ => True end) ->
  exists c, union a b = Ok c.
Proof.
  intros Ga Gb Hal.
  assert (U : exists c, union_of [a; b] = Ok c) by (apply vunion_of_total; cbn [forallb]; rewrite Ga, Gb; reflexivity).
  destruct U as [u Hu]. unfold union.
  destruct a as [|ra|la]; [eexists; reflexivity| |rewrite Hu; eexists; reflexivity].
  assert (Gra : good ra = true) by (unfold goodc in Ga; cbn in Ga; rewrite andb_true_r in Ga; exact Ga).
  destruct ra as [x|lo hi i j].
  - destruct Hal as [al ->]. cbn [bind]. destruct al; [eexists; reflexivity|].
    destruct b as [|rb|lb]; [rewrite Hu; eexists; reflexivity| |rewrite Hu; eexists; reflexivity].
    apply r_union_total; [exact Gra|unfold goodc in Gb; cbn in Gb; rewrite andb_true_r in Gb; exact Gb].
  - destruct b as [|rb|lb]; [rewrite Hu; eexists; reflexivity| |rewrite Hu; eexists; reflexivity].
    apply r_union_total; [exact Gra|unfold goodc in Gb; cbn in Gb; rewrite andb_true_r in Gb; exact Gb].
Qed.
Print Assumptions union_total.
