(* C15: the negated wildcard !=R.* : parsed to the two half-lines around [R.dev0, R'.dev0), printed again as '!=R.*' (the complement of the
   two half-lines is the wildcard range, so it is no single-version exclusion; excludes_single_wildcard_range recognises the edges). *)
From Coq Require Import List Bool Arith NArith String Ascii Lia.
From PC Require Import Base.Cmp Base.Result Model.Pep440 Spec.Pep440Spec Proofs.Pep440Order Proofs.Pep440Parse Model.VConstraint
     Proofs.VersionFacts Proofs.RangeSpec Proofs.Pep440RoundTrip Proofs.ClauseText Proofs.WildcardText Proofs.PrefixOrder Proofs.WildcardMembership
     Proofs.AnyIff Proofs.ConstraintText Proofs.WildcardPrint Proofs.UnionOfNormal.
Import ListNotations.
Open Scope string_scope.
Open Scope N_scope.

Definition wlo (R : release) : version := first_devrelease (bare R).
Definition whi (R : release) : version := first_devrelease (bare (incr_last R)).
Definition nwild (R : release) : vc := VUnion [RR None (Some (wlo R)) false false; RR (Some (whi R)) None true false].

Lemma prefix_refl R : prefix R R = true.
Proof. induction R as [|x R IH]; [reflexivity|]. cbn [prefix hd tl]. rewrite N.eqb_refl, IH. reflexivity. Qed.
Lemma wf_dev0 R : R <> [] -> wf (first_devrelease (bare R)) = true.
Proof. intros H. destruct R; [congruence|reflexivity]. Qed.
Lemma lo_lt_hi R : R <> [] -> vltb (wlo R) (whi R) = true.
Proof.
  intros HR. unfold wlo, whi. rewrite (lt_dev0 _ (incr_last R)) by (apply wf_dev0, HR).
  rewrite (rcmp_congr_l (first_devrelease (bare R)) (bare R)) by reflexivity. rewrite rcmp_bare. cbn [epoch bare mk rel lex N.compare].
  pose proof (between_prefix R R HR) as B. rewrite prefix_refl in B. apply andb_true_iff in B as [_ B]. exact B.
Qed.
Lemma lo_ne_hi R : R <> [] -> veqb (wlo R) (whi R) = false.
Proof. intros HR. rewrite veqb_ltb, (lo_lt_hi R HR). reflexivity. Qed.

(* '!=R.*' is parsed to the two half-lines around the wildcard range *)
Lemma nwild_is_parsed R : (1 <= List.length R <= 3)%nat -> make_x_constraint_range (bare R) true false = Ok (nwild R).
Proof.
  intros H. assert (HR : R <> []) by (destruct R; [cbn in H; lia|discriminate]).
  assert (E : make_x_constraint_range (bare R) true false = r_difference ANY (wild_range R)).
  { destruct R as [|a [|b [|c [|d R']]]]; cbn [List.length] in H; try lia; reflexivity. }
  rewrite E. unfold wild_range. fold (wlo R) (whi R).
  assert (AMw : allowed_max (RR (Some (wlo R)) (Some (whi R)) true false) = Some (whi R)).
  { unfold allowed_max. cbn [rmax imax orb]. replace (is_unstable (whi R)) with true by reflexivity. reflexivity. }
  unfold ANY at 1. cbn [r_difference r_allows_any]. fold ANY. unfold is_strictly_higher.
  assert (L1 : is_strictly_lower (RR (Some (wlo R)) (Some (whi R)) true false) ANY = false) by (unfold is_strictly_lower; rewrite AMw; reflexivity).
  assert (L2 : is_strictly_lower ANY (RR (Some (wlo R)) (Some (whi R)) true false) = false) by reflexivity.
  rewrite L1, L2. cbn [orb negb].
  assert (AL : allows_lower ANY (RR (Some (wlo R)) (Some (whi R)) true false) = true) by reflexivity.
  assert (AH : allows_higher ANY (RR (Some (wlo R)) (Some (whi R)) true false) = true) by (unfold allows_higher; rewrite AMw; reflexivity).
  rewrite AL, AH. unfold ANY. cbn [negb rmin rmax imin imax oveq].
  unfold nwild, union_of, OF_FUEL.
  change [VOne (RR None (Some (wlo R)) false false); VOne (RR (Some (whi R)) None true false)] with (map VOne [RR None (Some (wlo R)) false false; RR (Some (whi R)) None true false]).
  apply union_of_normal; [cbn; lia| |reflexivity].
  cbn [apart_all forallb]. rewrite !andb_true_r.
  assert (AMl : allowed_max (RR None (Some (wlo R)) false false) = Some (wlo R)).
  { unfold allowed_max. cbn [rmax imax orb]. replace (is_unstable (wlo R)) with true by reflexivity. reflexivity. }
  assert (SL : is_strictly_lower (RR None (Some (wlo R)) false false) (RR (Some (whi R)) None true false) = true).
  { unfold is_strictly_lower. rewrite AMl. cbn [rmin]. rewrite (lo_lt_hi R HR). reflexivity. }
  cbn [r_allows_any]. unfold is_strictly_higher. rewrite SL, orb_true_r. cbn [negb andb].
  unfold is_adjacent_to. cbn [rmax rmin oveq]. rewrite (lo_ne_hi R HR). cbn [negb andb]. reflexivity.
Qed.

(* the complement of the two half-lines is the wildcard range again: not a single version *)
Lemma excluded_of_nwild R : R <> [] ->
  excluded_single_version [RR None (Some (wlo R)) false false; RR (Some (whi R)) None true false] = Ok None.
Proof.
  intros HR. unfold excluded_single_version, inverted, rng_minus_union.
  assert (AMl : allowed_max (RR None (Some (wlo R)) false false) = Some (wlo R)).
  { unfold allowed_max. cbn [rmax imax orb]. replace (is_unstable (wlo R)) with true by reflexivity. reflexivity. }
  assert (S1 : rr_minus_union ANY [] [RR None (Some (wlo R)) false false; RR (Some (whi R)) None true false] = Ok [RR (Some (wlo R)) (Some (whi R)) true false]).
  { cbn [rr_minus_union]. unfold is_strictly_higher.
    assert (L1 : is_strictly_lower (RR None (Some (wlo R)) false false) ANY = false) by (unfold is_strictly_lower; rewrite AMl; reflexivity).
    assert (L2 : is_strictly_lower ANY (RR None (Some (wlo R)) false false) = false) by reflexivity.
    rewrite L1, L2.
    assert (D1 : r_difference ANY (RR None (Some (wlo R)) false false) = Ok (VOne (RR (Some (wlo R)) None true false))).
    { unfold ANY at 1. cbn [r_difference r_allows_any]. fold ANY. unfold is_strictly_higher. rewrite L1, L2. cbn [orb negb].
      assert (AL : allows_lower ANY (RR None (Some (wlo R)) false false) = false) by reflexivity.
      assert (AH : allows_higher ANY (RR None (Some (wlo R)) false false) = true) by (unfold allows_higher; rewrite AMl; reflexivity).
      rewrite AL, AH. reflexivity. }
    rewrite D1. cbn [bind rr_minus_union].
    assert (L3 : is_strictly_lower (RR (Some (whi R)) None true false) (RR (Some (wlo R)) None true false) = false) by reflexivity.
    assert (L4 : is_strictly_lower (RR (Some (wlo R)) None true false) (RR (Some (whi R)) None true false) = false) by reflexivity.
    rewrite L3, L4.
    assert (D2 : r_difference (RR (Some (wlo R)) None true false) (RR (Some (whi R)) None true false) = Ok (VOne (RR (Some (wlo R)) (Some (whi R)) true false))).
    { cbn [r_difference r_allows_any]. unfold is_strictly_higher. rewrite L3, L4. cbn [orb negb].
      assert (AL : allows_lower (RR (Some (wlo R)) None true false) (RR (Some (whi R)) None true false) = true).
      { unfold allows_lower. cbn [rmin imin]. rewrite (lo_lt_hi R HR). reflexivity. }
      assert (AH : allows_higher (RR (Some (wlo R)) None true false) (RR (Some (whi R)) None true false) = false) by reflexivity.
      rewrite AL, AH. cbn [negb rmin rmax imin imax oveq]. rewrite (lo_ne_hi R HR). reflexivity. }
    rewrite D2. cbn [bind rr_minus_union rev app]. reflexivity. }
  rewrite S1. cbn [bind map]. unfold union_of, OF_FUEL. cbn [vunion_of flat_map flatten app existsb r_is_any orb].
  unfold sort_ranges. cbn [fold_left insert_sorted merge_all merge_back bind rev app]. reflexivity.
Qed.

Lemma wc_candidate_inverted R : R <> [] -> is_wildcard_candidate (whi R) (wlo R) true = true.
Proof.
  intros HR. pose proof (incr_last_ne R HR) as HR'.
  assert (F1 : veqb (first_devrelease (whi R)) (whi R) = true) by (apply veqb_refl).
  assert (F2 : veqb (first_devrelease (wlo R)) (wlo R) = true) by (apply veqb_refl).
  unfold is_wildcard_candidate. rewrite F1, F2.
  replace (negb (epoch (whi R) =? epoch (wlo R))) with false by reflexivity.
  replace (is_local (whi R)) with false by reflexivity. replace (is_local (wlo R)) with false by reflexivity.
  replace (is_prerelease (whi R)) with false by reflexivity. replace (is_prerelease (wlo R)) with false by reflexivity.
  replace (is_postrelease (whi R)) with false by reflexivity. replace (is_postrelease (wlo R)) with false by reflexivity.
  replace (is_devrelease (wlo R)) with true by reflexivity. cbn [orb negb andb Bool.eqb].
  change (rel (whi R)) with (incr_last R). change (rel (wlo R)) with R. change (post (wlo R)) with (@None tag).
  rewrite (strip_incr_last R HR). destruct (incr_last R) as [|z l] eqn:E; [congruence|]. rewrite <- E.
  rewrite length_incr_last, Nat.sub_diag. cbn [repeat]. rewrite app_nil_r, skipn_all, firstn_all. cbn [forallb negb].
  rewrite removelast_incr_last, list_N_eqb_refl. unfold last_N. rewrite (last_incr_last R HR), N.eqb_refl. reflexivity.
Qed.
Theorem nwild_print R : R <> [] -> vc_str (nwild R) = Ok ("!=" ++ rel_text R ++ ".*").
Proof.
  intros HR. unfold vc_str, nwild. rewrite (excluded_of_nwild R HR).
  unfold excludes_single_wildcard_range. cbn [rmax rmin imax imin is_some orb negb]. rewrite (wc_candidate_inverted R HR).
  unfold single_wildcard_range_string. change (post (wlo R)) with (@None tag). change (rel (whi R)) with (incr_last R). change (epoch (whi R)) with 0.
  rewrite (strip_incr_last R HR), removelast_incr_last. unfold last_N. rewrite (last_incr_last R HR).
  replace (last R 0 + 1 - 1) with (last R 0) by lia. rewrite (removelast_last R HR). reflexivity.
Qed.
(* C15: a negated wildcard: printed as '!=R.*', read back as the same two half-lines *)
Theorem nwild_text_roundtrip R : (1 <= List.length R <= 3)%nat ->
  vc_str (nwild R) = Ok ("!=" ++ rel_text R ++ ".*") /\ parse_single false ("!=" ++ rel_text R ++ ".*") = Ok (nwild R).
Proof.
  intros H. assert (HR : R <> []) by (destruct R; [cbn in H; lia|discriminate]).
  split; [apply nwild_print, HR|]. rewrite (clause_wildcard false "!=" true R H) by auto. rewrite (nwild_is_parsed R H). reflexivity.
Qed.
Print Assumptions nwild_text_roundtrip.
