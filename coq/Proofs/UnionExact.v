(* C05/C12, union level (2): VersionUnion.of is exact for every fuel (sorting, the look-back merge, the recursion through
   the union of two members); the union of two arbitrary constraints is exact, in the implementation's own membership. *)
From Coq Require Import List Bool NArith ZArith String Ascii Lia ZifyBool.
From PC Require Import Base.Cmp Base.Result Base.RankEmbed Model.Pep440 Spec.Pep440Spec Proofs.Pep440Order
     Proofs.VersionFacts Model.VConstraint Proofs.RangeSpec Proofs.RangeAlg Proofs.RangeOps.
From PC Require Import Proofs.UnionHull.
Import ListNotations.
Open Scope list_scope.

Definition lmem (l : list rng) (v : version) : bool := existsb (fun r => mem r v) l.
Definition lbounds (l : list rng) : list version := flat_map rbounds l.
Lemma vmem_flatten c v : vmem c v = lmem (flatten c) v.
Proof. destruct c; cbn; rewrite ?orb_false_r; reflexivity. Qed.
Lemma cbounds_flatten c : cbounds c = lbounds (flatten c). Proof. reflexivity. Qed.
Lemma lmem_app l l' v : lmem (l ++ l') v = lmem l v || lmem l' v.
Proof. apply existsb_app. Qed.
Lemma lbounds_app l l' : lbounds (l ++ l') = lbounds l ++ lbounds l'.
Proof. apply flat_map_app. Qed.
Lemma lmem_rev l v : lmem (rev l) v = lmem l v.
Proof. induction l as [|x l IH]; [reflexivity|]. cbn [rev]. rewrite lmem_app, IH. cbn. rewrite orb_false_r. apply orb_comm. Qed.
Lemma lbounds_rev_incl l : incl (lbounds (rev l)) (lbounds l).
Proof.
  intros x Hx. unfold lbounds in *. apply in_flat_map in Hx. destruct Hx as [r [Hr Hx]]. apply in_flat_map. exists r. split; [apply in_rev, Hr|exact Hx].
Qed.
Lemma forallb_rev {A} (p : A -> bool) l : forallb p (rev l) = forallb p l.
Proof. induction l as [|x l IH]; [reflexivity|]. cbn [rev]. rewrite forallb_app, IH. cbn. rewrite andb_true_r. apply andb_comm. Qed.

(* sorting only permutes *)
Lemma insert_mem x l v : lmem (insert_sorted x l) v = mem x v || lmem l v.
Proof.
  induction l as [|y l IH]; [reflexivity|]. cbn [insert_sorted]. destruct (r_lt x y); [reflexivity|].
  cbn [lmem existsb] in *. fold (lmem (insert_sorted x l) v). rewrite IH. fold (lmem l v).
  destruct (mem x v), (mem y v); reflexivity.
Qed.
Lemma insert_bounds x l : incl (lbounds (insert_sorted x l)) (rbounds x ++ lbounds l).
Proof.
  induction l as [|y l IH]; [cbn; intros e He; exact He|]. cbn [insert_sorted]. destruct (r_lt x y); [cbn; apply incl_refl|].
  cbn [lbounds flat_map]. fold (lbounds (insert_sorted x l)) (lbounds l). intros e He. apply in_app_or in He. destruct He as [He|He].
  - apply in_or_app. right. apply in_or_app. left. exact He.
  - apply IH in He. apply in_app_or in He. destruct He as [He|He]; apply in_or_app; [left; exact He|right; apply in_or_app; right; exact He].
Qed.
Lemma insert_good x l : good x = true -> forallb good l = true -> forallb good (insert_sorted x l) = true.
Proof.
  intros Gx. induction l as [|y l IH]; intros Gl; [cbn; rewrite Gx; reflexivity|]. cbn [insert_sorted]. destruct (r_lt x y).
  - cbn [forallb]. rewrite Gx. exact Gl.
  - cbn [forallb] in *. apply andb_true_iff in Gl. destruct Gl as [Gy Gl]. rewrite Gy, (IH Gl). reflexivity.
Qed.
Lemma sort_spec l : forall acc,
  (forall v, lmem (fold_left (fun acc x => insert_sorted x acc) l acc) v = lmem acc v || lmem l v) /\
  incl (lbounds (fold_left (fun acc x => insert_sorted x acc) l acc)) (lbounds acc ++ lbounds l) /\
  (forallb good acc = true -> forallb good l = true -> forallb good (fold_left (fun acc x => insert_sorted x acc) l acc) = true).
Proof.
  induction l as [|x l IH]; intros acc; cbn [fold_left].
  - split; [intros v; cbn; rewrite orb_false_r; reflexivity|]. split; [cbn; rewrite app_nil_r; apply incl_refl|auto].
  - destruct (IH (insert_sorted x acc)) as (M & B & G). split; [|split].
    + intros v. rewrite M, insert_mem. cbn [lmem existsb]. fold (lmem l v) (lmem acc v). destruct (mem x v), (lmem acc v); reflexivity.
    + intros e He. apply B in He. apply in_app_or in He. cbn [lbounds flat_map]. fold (lbounds l). destruct He as [He|He].
      * apply insert_bounds in He. apply in_app_or in He. destruct He as [He|He]; apply in_or_app; [right; apply in_or_app; left; exact He|left; exact He].
      * apply in_or_app. right. apply in_or_app. right. exact He.
    + intros Ga Gl. cbn [forallb] in Gl. apply andb_true_iff in Gl. destruct Gl as [Gx Gl]. apply G; [apply insert_good; assumption|exact Gl].
Qed.

Lemma regular_app v l l' : forallb (regular1 v) (l ++ l') = true -> forallb (regular1 v) l = true /\ forallb (regular1 v) l' = true.
Proof. rewrite forallb_app, andb_true_iff. auto. Qed.

(* ---- merge_back: a candidate merged into the first member (from the back) it touches ---- *)
Lemma merge_back_spec ofn : OfnSound ofn -> forall rev_merged c l',
  forallb good rev_merged = true -> good c = true -> merge_back ofn rev_merged c = Ok (Some l') ->
  (forall v, wf v = true -> forallb (regular1 v) (lbounds rev_merged ++ rbounds c) = true -> lmem l' v = lmem rev_merged v || mem c v) /\
  incl (lbounds l') (lbounds rev_merged ++ rbounds c) /\ forallb good l' = true.
Proof.
  intros Hof. induction rev_merged as [|m rest IH]; intros c l' Gm Gc H; cbn [merge_back] in H; [discriminate|].
  cbn [forallb] in Gm. apply andb_true_iff in Gm. destruct Gm as [Gm Grest].
  destruct (r_allows_any m c || is_adjacent_to m c).
  - destruct (r_union ofn m c) as [u|] eqn:Hu; [|discriminate]. cbn [bind] in H.
    destruct u as [|r|]; try discriminate. injection H as <-.
    destruct (r_union_exact ofn m c _ Hof Gm Gc Hu) as (Mm & Mb & Mg). split; [|split].
    + intros v Wv R. cbn [lmem existsb lbounds flat_map] in *. fold (lmem rest v).
      rewrite <- app_assoc in R. destruct (regular_app _ _ _ R) as [R1 R2]. destruct (regular_app _ _ _ R2) as [R3 R4].
      assert (Rmc : forallb (regular1 v) (flat_map cbounds [VOne m; VOne c]) = true).
      { unfold cbounds. cbn [flat_map flatten]. rewrite !app_nil_r, forallb_app, R1, R4. reflexivity. }
      specialize (Mm v Wv Rmc). cbn [vmem existsb] in Mm. rewrite orb_false_r in Mm. rewrite Mm.
      destruct (mem m v), (lmem rest v), (mem c v); reflexivity.
    + unfold cbounds in Mb. cbn [flat_map flatten] in Mb. rewrite !app_nil_r in Mb.
      cbn [lbounds flat_map]. fold (lbounds rest). intros e He. apply in_app_or in He. destruct He as [He|He].
      * apply Mb in He. apply in_app_or in He. destruct He as [He|He]; apply in_or_app; [left; apply in_or_app; left; exact He|right; exact He].
      * apply in_or_app. left. apply in_or_app. right. exact He.
    + cbn [forallb]. unfold goodc in Mg. cbn [flatten forallb] in Mg. rewrite andb_true_r in Mg. rewrite Mg, Grest. reflexivity.
  - destruct (merge_back ofn rest c) as [o|] eqn:Ho; [|discriminate]. cbn [bind] in H. destruct o as [rest'|]; [|discriminate].
    injection H as <-. destruct (IH c rest' Grest Gc Ho) as (Mm & Mb & Mg). split; [|split].
    + intros v Wv R. cbn [lmem existsb lbounds flat_map] in *. fold (lmem rest v) (lmem rest' v).
      rewrite <- app_assoc in R. destruct (regular_app _ _ _ R) as [R1 R2]. fold (lbounds rest) in R2.
      rewrite (Mm v Wv R2). destruct (mem m v), (lmem rest v), (mem c v); reflexivity.
    + cbn [lbounds flat_map]. fold (lbounds rest) (lbounds rest'). intros e He. apply in_app_or in He. destruct He as [He|He].
      * apply in_or_app. left. apply in_or_app. left. exact He.
      * apply Mb in He. apply in_app_or in He. destruct He as [He|He]; apply in_or_app; [left; apply in_or_app; right; exact He|right; exact He].
    + cbn [forallb]. rewrite Gm, Mg. reflexivity.
Qed.

Lemma merge_all_spec ofn : OfnSound ofn -> forall l rev_merged out,
  forallb good rev_merged = true -> forallb good l = true -> merge_all ofn rev_merged l = Ok out ->
  (forall v, wf v = true -> forallb (regular1 v) (lbounds rev_merged ++ lbounds l) = true -> lmem out v = lmem rev_merged v || lmem l v) /\
  incl (lbounds out) (lbounds rev_merged ++ lbounds l) /\ forallb good out = true.
Proof.
  intros Hof. induction l as [|c l IH]; intros rev_merged out Gm Gl H; cbn [merge_all] in H.
  - injection H as <-. split; [|split].
    + intros v _ _. rewrite lmem_rev. cbn. rewrite orb_false_r. reflexivity.
    + cbn. rewrite app_nil_r. apply lbounds_rev_incl.
    + rewrite forallb_rev. exact Gm.
  - cbn [forallb] in Gl. apply andb_true_iff in Gl. destruct Gl as [Gc Gl].
    destruct (merge_back ofn rev_merged c) as [o|] eqn:Ho; [|discriminate]. cbn [bind] in H.
    set (nxt := match o with Some m => m | None => c :: rev_merged end) in *.
    assert (N : (forall v, wf v = true -> forallb (regular1 v) (lbounds rev_merged ++ rbounds c) = true -> lmem nxt v = lmem rev_merged v || mem c v) /\
                incl (lbounds nxt) (lbounds rev_merged ++ rbounds c) /\ forallb good nxt = true).
    { unfold nxt. destruct o as [m|].
      - exact (merge_back_spec ofn Hof rev_merged c m Gm Gc Ho).
      - split; [|split].
        + intros v _ _. cbn. apply orb_comm.
        + cbn [lbounds flat_map]. fold (lbounds rev_merged). intros e He. apply in_app_or in He. apply in_or_app. tauto.
        + cbn [forallb]. rewrite Gc, Gm. reflexivity. }
    destruct N as (Nm & Nb & Ng). destruct (IH nxt out Ng Gl H) as (Mm & Mb & Mg). split; [|split].
    + intros v Wv R. cbn [lbounds flat_map lmem existsb] in *. fold (lbounds l) (lmem l v) in *.
      destruct (regular_app _ _ _ R) as [R1 R2]. destruct (regular_app _ _ _ R2) as [R3 R4].
      assert (Rn : forallb (regular1 v) (lbounds nxt ++ lbounds l) = true).
      { rewrite forallb_app, R4, andb_true_r. apply (regular_incl v _ _ Nb). rewrite forallb_app, R1, R3. reflexivity. }
      rewrite (Mm v Wv Rn), Nm; [|exact Wv|rewrite forallb_app, R1, R3; reflexivity].
      destruct (lmem rev_merged v), (mem c v), (lmem l v); reflexivity.
    + cbn [lbounds flat_map]. fold (lbounds l). intros e He. apply Mb in He. apply in_app_or in He. destruct He as [He|He].
      * apply Nb in He. apply in_app_or in He. destruct He as [He|He]; apply in_or_app; [left; exact He|right; apply in_or_app; left; exact He].
      * apply in_or_app. right. apply in_or_app. right. exact He.
    + exact Mg.
Qed.

Lemma flat_goodc cs : forallb goodc cs = true -> forallb good (flat_map flatten cs) = true.
Proof.
  induction cs as [|c cs IH]; [reflexivity|]. cbn [forallb flat_map]. rewrite andb_true_iff, forallb_app. intros [G1 G2].
  unfold goodc in G1. rewrite G1, (IH G2). reflexivity.
Qed.
Lemma lmem_flat cs v : lmem (flat_map flatten cs) v = existsb (fun x => vmem x v) cs.
Proof. induction cs as [|c cs IH]; [reflexivity|]. cbn [flat_map existsb]. rewrite lmem_app, IH, vmem_flatten. reflexivity. Qed.
Lemma lbounds_flat cs : lbounds (flat_map flatten cs) = flat_map cbounds cs.
Proof. induction cs as [|c cs IH]; [reflexivity|]. cbn [flat_map]. rewrite lbounds_app, IH. reflexivity. Qed.
Lemma any_member_mem l v : existsb r_is_any l = true -> lmem l v = true.
Proof.
  intros H. apply existsb_exists in H. destruct H as [r [Hr Hi]]. apply existsb_exists. exists r. split; [exact Hr|].
  destruct r as [x|[|] [|] i j]; try discriminate. reflexivity.
Qed.

Theorem vunion_of_sound : forall f, OfnSound (vunion_of f).
Proof.
  induction f as [|f IH]; intros cs c G H; cbn [vunion_of] in H; [discriminate|].
  pose proof (flat_goodc cs G) as Gf.
  remember (flat_map flatten cs) as fl eqn:Hfl.
  assert (Mfl : forall v, lmem fl v = existsb (fun x => vmem x v) cs) by (intros v; subst fl; apply lmem_flat).
  assert (Bfl : lbounds fl = flat_map cbounds cs) by (subst fl; apply lbounds_flat).
  clear Hfl. destruct fl as [|r0 fl0].
  { injection H as <-. split; [|split]; [intros v _ _; rewrite <- Mfl; reflexivity | intros e [] | reflexivity]. }
  remember (r0 :: fl0) as fl eqn:Hfl. clear Hfl.
  destruct (existsb r_is_any fl) eqn:An.
  { injection H as <-. split; [|split].
    - intros v _ _. rewrite <- Mfl, (any_member_mem fl v An). reflexivity.
    - intros e [].
    - reflexivity. }
  destruct (merge_all (vunion_of f) [] (sort_ranges fl)) as [merged|] eqn:Hm; [|discriminate]. cbn [bind] in H.
  destruct (sort_spec fl []) as (Sm & Sb & Sg). fold (sort_ranges fl) in Sm, Sb, Sg.
  destruct (merge_all_spec (vunion_of f) IH (sort_ranges fl) [] merged eq_refl (Sg eq_refl Gf) Hm) as (Mm & Mb & Mg).
  assert (Res : (forall v, wf v = true -> forallb (regular1 v) (flat_map cbounds cs) = true -> lmem merged v = existsb (fun x => vmem x v) cs) /\
                incl (lbounds merged) (flat_map cbounds cs)).
  { split.
    - intros v Wv R. rewrite <- Mfl, <- Bfl in *. rewrite Mm; [|exact Wv|].
      + cbn [lmem existsb orb]. rewrite Sm. reflexivity.
      + cbn [lbounds flat_map app]. apply (regular_incl v _ _ Sb). exact R.
    - rewrite <- Bfl. intros e He. apply Mb in He. cbn [lbounds flat_map app] in He. apply Sb in He. exact He. }
  destruct Res as [Rm Rb].
  destruct merged as [|r [|r' rest]]; injection H as <-.
  - split; [|split]; [exact Rm | exact Rb | reflexivity].
  - split; [|split].
    + intros v Wv R. rewrite <- (Rm v Wv R). cbn. rewrite orb_false_r. reflexivity.
    + unfold cbounds. cbn [flatten flat_map]. cbn [lbounds flat_map] in Rb. exact Rb.
    + unfold goodc. cbn [flatten]. exact Mg.
  - split; [|split]; [exact Rm | exact Rb | exact Mg].
Qed.

(* ---------- constraint level ---------- *)

(* membership as the implementation computes it member by member *)
Definition sem (c : vc) (v : version) : bool := existsb (fun r => r_allows r v) (flatten c).
(* [allows] is [sem], except for the union that excludes exactly one version carrying a local label *)
Definition no_local_hole (c : vc) : Prop :=
  match c with VUnion l => forall e, excluded_single_version l = Ok (Some e) -> is_local e = false | _ => True end.
Lemma allows_sem c v b : no_local_hole c -> allows c v = Ok b -> b = sem c v.
Proof.
  destruct c as [|r|l]; cbn [allows sem flatten existsb no_local_hole]; intros N H.
  - injection H as <-. reflexivity.
  - injection H as <-. rewrite orb_false_r. reflexivity.
  - destruct (excluded_single_version l) as [[e|]|] eqn:Ex; cbn [bind] in H; try discriminate.
    + rewrite (N e eq_refl) in H. injection H as <-. reflexivity.
    + injection H as <-. reflexivity.
Qed.
Lemma good_wf r : good r = true -> wf_rng r = true.
Proof. intros G. destruct (good_parts r G) as (W & _). exact W. Qed.
Lemma sem_regular c v : goodc c = true -> wf v = true -> forallb (regular1 v) (cbounds c) = true -> sem c v = vmem c v.
Proof.
  intros G Wv R. rewrite vmem_flatten. unfold sem, lmem, goodc, cbounds in *.
  induction (flatten c) as [|r l IH]; [reflexivity|]. cbn [existsb forallb flat_map] in *.
  apply andb_true_iff in G. destruct G as [Gr Gl]. destruct (regular_app _ _ _ R) as [R1 R2].
  rewrite (allows_regular r v (good_wf r Gr) Wv R1), (IH Gl R2). reflexivity.
Qed.

Definition regular_for (v : version) (cs : list vc) : bool := forallb (regular1 v) (flat_map cbounds cs).
Lemma exact_sem cs c : forallb goodc cs = true -> Exact cs c ->
  goodc c = true /\ incl (cbounds c) (flat_map cbounds cs) /\
  forall v, wf v = true -> regular_for v cs = true -> sem c v = existsb (fun x => sem x v) cs.
Proof.
  intros G (Hm & Hb & Hg). split; [exact Hg|]. split; [exact Hb|]. intros v Wv R. unfold regular_for in R.
  rewrite (sem_regular c v Hg Wv (regular_incl v _ _ Hb R)), (Hm v Wv R).
  clear Hm Hb Hg. induction cs as [|x cs IH]; [reflexivity|]. cbn [existsb forallb flat_map] in *.
  apply andb_true_iff in G. destruct G as [Gx Gcs]. destruct (regular_app _ _ _ R) as [R1 R2].
  rewrite (sem_regular x v Gx Wv R1), (IH Gcs R2). reflexivity.
Qed.

Lemma exact_same b : goodc b = true -> forall a, (forall v, wf v = true -> regular_for v [a; b] = true -> vmem a v = true -> vmem b v = true) -> Exact [a; b] b.
Proof.
  intros G a H. split; [|split; [|exact G]].
  - intros v Wv R. cbn [existsb]. rewrite orb_false_r. destruct (vmem a v) eqn:A; [|reflexivity]. rewrite (H v Wv R A). reflexivity.
  - cbn [flat_map]. rewrite app_nil_r. intros e He. apply in_or_app. right. exact He.
Qed.

Theorem union_exact a b c : goodc a = true -> goodc b = true ->
  (match a with VOne (RV _) => no_local_hole b | _ => True end) ->
  union a b = Ok c -> Exact [a; b] c.
Proof.
  intros Ga Gb N H. pose proof (vunion_of_sound OF_FUEL) as Hof. fold union_of in Hof.
  assert (G2 : forallb goodc [a; b] = true) by (cbn; rewrite Ga, Gb; reflexivity).
  destruct a as [|ra|la]; cbn [union] in H.
  - (* empty *) injection H as <-. apply exact_same; [exact Gb|]. intros v _ _ A. discriminate.
  - assert (Gra : good ra = true) by (unfold goodc in Ga; cbn in Ga; rewrite andb_true_r in Ga; exact Ga).
    assert (Rng : forall rb, b = VOne rb -> r_union union_of ra rb = Ok c -> Exact [VOne ra; b] c).
    { intros rb -> Hu. unfold goodc in Gb. cbn in Gb. rewrite andb_true_r in Gb. exact (r_union_exact union_of ra rb c Hof Gra Gb Hu). }
    destruct ra as [x|lo hi i j].
    + (* a single version *)
      destruct (allows b x) as [al|] eqn:Al; [|discriminate]. cbn [bind] in H.
      pose proof (allows_sem b x al N Al) as Eal. destruct al.
      * injection H as <-. apply exact_same; [exact Gb|]. intros v Wv R A. cbn [vmem] in A. rewrite mem_single in A.
        unfold regular_for in R. cbn [flat_map] in R. rewrite app_nil_r in R. destruct (regular_app _ _ _ R) as [R1 R2].
        (* x is regular wherever v is *)
        assert (R2x : forallb (regular1 x) (cbounds b) = true).
        { rewrite forallb_forall in *. intros e He. rewrite (regular1_congr v x e A). apply R2, He. }
        destruct (good_rv x Gra) as [Wx _].
        rewrite <- (sem_regular b v Gb Wv R2). rewrite (sem_regular b x Gb Wx R2x) in Eal.
        rewrite (sem_regular b v Gb Wv R2). rewrite vmem_flatten in *. unfold lmem in *.
        symmetry in Eal. apply existsb_exists in Eal. destruct Eal as [r [Hr Mr]]. apply existsb_exists. exists r. split; [exact Hr|].
        rewrite (mem_congr r v x A). exact Mr.
      * destruct b as [|rb|lb]; [exact (Hof _ _ G2 H) | exact (Rng rb eq_refl H) | exact (Hof _ _ G2 H)].
    + destruct b as [|rb|lb]; [exact (Hof _ _ G2 H) | exact (Rng rb eq_refl H) | exact (Hof _ _ G2 H)].
  - exact (Hof _ _ G2 H).
Qed.

(* the statement of C05 for union, in the implementation's own membership *)
Theorem union_admits_exactly a b c : goodc a = true -> goodc b = true ->
  (match a with VOne (RV _) => no_local_hole b | _ => True end) ->
  union a b = Ok c ->
  goodc c = true /\
  forall v, wf v = true -> regular_for v [a; b] = true -> sem c v = sem a v || sem b v.
Proof.
  intros Ga Gb N H. assert (G2 : forallb goodc [a; b] = true) by (cbn; rewrite Ga, Gb; reflexivity).
  destruct (exact_sem [a; b] c G2 (union_exact a b c Ga Gb N H)) as (Gc & _ & Hs). split; [exact Gc|].
  intros v Wv R. rewrite (Hs v Wv R). cbn. rewrite orb_false_r. reflexivity.
Qed.
