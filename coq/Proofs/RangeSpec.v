(* Range level: on regular probes VersionRange.allows / Version.allows are plain interval membership. *)
From Coq Require Import List Bool NArith ZArith String Ascii Lia.
From PC Require Import Base.Cmp Base.Result Model.Pep440 Spec.Pep440Spec Proofs.Pep440Order
     Proofs.VersionFacts Model.VConstraint.
Import ListNotations.
Open Scope N_scope.

(* v is regular for bound e: equal to it, or of another (epoch, release) class *)
Definition regular1 (v e : version) : bool := veqb v e || negb (same_class v e).
Definition obounds (o : option version) : list version := match o with Some x => [x] | None => [] end.
Definition rbounds (r : rng) : list version := obounds (rmin r) ++ obounds (rmax r).
Definition regular_r (v : version) (r : rng) : bool := forallb (regular1 v) (rbounds r).
Definition wf_rng (r : rng) : bool := forallb wf (rbounds r).

(* plain interval semantics *)
Definition above (r : rng) (v : version) : bool :=
  match rmin r with None => true | Some m => vltb m v || (veqb v m && imin r) end.
Definition below (r : rng) (v : version) : bool :=
  match rmax r with None => true | Some m => vltb v m || (veqb v m && imax r) end.
Definition mem (r : rng) (v : version) : bool := above r v && below r v.

Lemma veqb_sym x y : veqb x y = veqb y x.
Proof. destruct veq_equiv as (_ & S & _). apply S. Qed.
Lemma veqb_refl x : veqb x x = true.
Proof. destruct veq_equiv as (R & _). apply R. Qed.
Lemma veqb_lt_l x y z : veqb x y = true -> vltb x z = vltb y z.
Proof. intros H. unfold vltb. destruct (veq_congr _ _ z H) as [-> _]. reflexivity. Qed.
Lemma veqb_lt_r x y z : veqb x y = true -> vltb z x = vltb z y.
Proof. intros H. unfold vltb. destruct (veq_congr _ _ z H) as [_ ->]. reflexivity. Qed.
Lemma veqb_eq_l x y z : veqb x y = true -> veqb x z = veqb y z.
Proof. intros H. unfold veqb. destruct (veq_congr _ _ z H) as [-> _]. reflexivity. Qed.
Lemma veqb_not_lt x y : veqb x y = true -> vltb x y = false /\ vltb y x = false.
Proof. rewrite veqb_ltb. rewrite andb_true_iff, !negb_true_iff. auto. Qed.
Lemma other_class_not_eq x y : same_class x y = false -> veqb x y = false.
Proof. intros H. destruct (veqb x y) eqn:E; [|reflexivity]. rewrite (veqb_same_class _ _ E) in H. discriminate. Qed.
Lemma cross_lt v v' e e' : same_class v' v = true -> same_class e' e = true -> same_class v e = false ->
  vltb v' e' = vltb v e /\ vltb e' v' = vltb e v /\ veqb v' e' = false.
Proof.
  intros Hv He Hd. unfold vltb, veqb.
  rewrite (cross_adjust v v' e e' Hv He Hd).
  assert (Hd' : same_class e v = false) by (rewrite same_class_sym; exact Hd).
  rewrite (cross_adjust e e' v v' He Hv Hd').
  repeat split; auto.
  pose proof (other_class_not_eq _ _ Hd) as Q. unfold veqb in Q. exact Q.
Qed.
Lemma same_class_refl x : same_class x x = true.
Proof. unfold same_class. rewrite (ol_refl rcmp_laws). reflexivity. Qed.

(* ---- Version.allows ---- *)
Lemma v_allows_regular x v : wf x = true -> wf v = true -> regular1 v x = true ->
  v_allows x v = veqb v x.
Proof.
  intros Wx Wv R. unfold v_allows. unfold regular1 in R. apply orb_true_iff in R. destruct R as [E|D].
  - rewrite veqb_sym in E. destruct (veqb_flags x v Wx Wv E) as (_ & _ & _ & Hl).
    rewrite Hl. destruct (is_local v); simpl; rewrite veqb_sym; rewrite veqb_sym in E; rewrite E; reflexivity.
  - apply negb_true_iff in D.
    rewrite (other_class_not_eq _ _ D).
    set (o := if negb (is_local x) && is_local v then without_local v else v).
    assert (Ho : same_class o v = true).
    { unfold o. destruct (negb (is_local x) && is_local v); [apply wl_class | apply same_class_refl]. }
    assert (Hd : same_class x o = false).
    { destruct (same_class x o) eqn:E; [|reflexivity].
      rewrite same_class_sym in D. rewrite (same_class_trans _ _ _ E Ho) in D. discriminate. }
    apply other_class_not_eq. exact Hd.
Qed.

(* ---- VersionRange.allows, lower half ---- *)
Lemma rr_lo_regular r v : wf_rng r = true -> wf v = true -> regular_r v r = true ->
  rr_allows_lo r v = above r v.
Proof.
  unfold wf_rng, regular_r, rbounds, rr_allows_lo, above. destruct (rmin r) as [this|]; [|reflexivity].
  cbn [obounds app forallb]. rewrite !andb_true_iff. intros [Wt _] Wv [R _].
  unfold regular1 in R. apply orb_true_iff in R. destruct R as [E|D].
  - (* v == this *)
    rewrite veqb_sym in E. destruct (veqb_flags this v Wt Wv E) as (_ & Hpo & _ & Hl).
    assert (O1 : (if negb (imin r) && negb (is_postrelease this) && is_postrelease v then without_postrelease v else v) = v).
    { rewrite Hpo. destruct (imin r), (is_postrelease v); reflexivity. }
    rewrite O1.
    assert (O2 : (if negb (is_local this) && is_local v then without_local v else v) = v).
    { rewrite Hl. destruct (is_local v); reflexivity. }
    rewrite O2. destruct (veqb_not_lt _ _ E) as [L1 L2]. rewrite L2.
    rewrite veqb_sym in E. rewrite E, L1. destruct (imin r); reflexivity.
  - apply negb_true_iff in D.
    set (o1 := if negb (imin r) && negb (is_postrelease this) && is_postrelease v then without_postrelease v else v).
    set (o2 := if negb (is_local this) && is_local o1 then without_local o1 else o1).
    assert (H1 : same_class o1 v = true).
    { unfold o1. destruct (negb (imin r) && negb (is_postrelease this) && is_postrelease v); [apply wp_class | apply same_class_refl]. }
    assert (H2 : same_class o2 v = true).
    { unfold o2. destruct (negb (is_local this) && is_local o1); [|exact H1]. eapply same_class_trans; [apply wl_class | exact H1]. }
    destruct (cross_lt v o2 this this H2 (same_class_refl _) D) as (A & B & C).
    rewrite A, C, (other_class_not_eq _ _ D). rewrite andb_false_r, !orb_false_r.
    unfold vltb. rewrite (ol_antisym vcmp_laws this v).
    pose proof (other_class_not_eq _ _ D) as NE. unfold veqb in NE.
    destruct (vcmp v this); simpl in *; try discriminate; destruct (imin r); reflexivity.
Qed.

(* ---- upper half ---- *)
Lemma allowed_max_cases r mx : rmax r = Some mx ->
  allowed_max r = Some mx \/
  (allowed_max r = Some (first_devrelease mx) /\ imax r = false /\ is_unstable mx = false).
Proof.
  intros H. unfold allowed_max. rewrite H.
  destruct (imax r) eqn:I; [left; reflexivity|].
  destruct (is_unstable mx) eqn:U; [left; reflexivity|]. cbn [orb].
  destruct (oveq (rmin r) (Some mx) && (imin r || false)); [left; reflexivity|].
  right. auto.
Qed.
Lemma rr_hi_regular r v : wf_rng r = true -> wf v = true -> regular_r v r = true ->
  rr_allows_hi r v = below r v.
Proof.
  unfold wf_rng, regular_r, rbounds, rr_allows_hi, below.
  destruct (rmax r) as [mx|] eqn:Hmx.
  2:{ intros _ _ _. unfold allowed_max. rewrite Hmx. reflexivity. }
  rewrite !forallb_app. cbn [obounds forallb]. rewrite !andb_true_iff.
  intros [_ [Wm _]] Wv [_ [R _]].
  unfold regular1 in R. apply orb_true_iff in R.
  destruct (allowed_max_cases r mx Hmx) as [Ha|(Ha & Hi & Hu)]; rewrite Ha.
  - (* allowed max is the max itself *)
    destruct R as [E|D].
    + rewrite veqb_sym in E. destruct (veqb_flags mx v Wm Wv E) as (_ & _ & _ & Hl).
      assert (O : (if negb (is_local mx) && is_local v then without_local v else v) = v).
      { rewrite Hl. destruct (is_local v); reflexivity. }
      rewrite O, vgtb_ltb. destruct (veqb_not_lt _ _ E) as [L1 L2]. rewrite L1, L2.
      rewrite veqb_sym in E. rewrite E. destruct (imax r); reflexivity.
    + apply negb_true_iff in D.
      set (o := if negb (is_local mx) && is_local v then without_local v else v).
      assert (Ho : same_class o v = true).
      { unfold o. destruct (negb (is_local mx) && is_local v); [apply wl_class | apply same_class_refl]. }
      destruct (cross_lt v o mx mx Ho (same_class_refl _) D) as (A & B & C).
      rewrite vgtb_ltb, B, C, (other_class_not_eq _ _ D). rewrite andb_false_r, !orb_false_r.
      unfold vltb. rewrite (ol_antisym vcmp_laws mx v).
      pose proof (other_class_not_eq _ _ D) as NE. unfold veqb in NE.
      destruct (vcmp v mx); simpl in *; try discriminate; reflexivity.
  - (* exclusive stable max: allowed max is its first dev release *)
    rewrite Hi. cbn [negb andb].
    set (fd := first_devrelease mx).
    assert (Ufd : is_local fd = false) by reflexivity. rewrite Ufd. cbn [negb andb].
    set (o := if is_local v then without_local v else v).
    assert (Ho : same_class o v = true).
    { unfold o. destruct (is_local v); [apply wl_class | apply same_class_refl]. }
    destruct R as [E|D].
    + (* v == mx: rejected, since o > fd *)
      rewrite andb_false_r, orb_false_r.
      destruct (veqb_not_lt _ _ E) as [L1 L2]. rewrite L1.
      assert (Hdev : is_devrelease mx = false).
      { unfold is_unstable in Hu. apply orb_false_iff in Hu. tauto. }
      assert (G : vltb fd o = true).
      { subst o. rewrite veqb_sym in E. destruct (veqb_flags mx v Wm Wv E) as (_ & _ & Hd & _).
        assert (Hdv : is_devrelease v = false) by congruence.
        destruct (is_local v) eqn:Lv.
        - (* fd mx == fd v < without_local v *)
          assert (F1 : veqb fd (first_devrelease v) = true) by (apply fd_congr; auto).
          rewrite (veqb_lt_l _ _ _ F1).
          assert (F2 : veqb (first_devrelease v) (first_devrelease (without_local v)) = true).
          { unfold veqb, vcmp, vkey, first_devrelease, without_local, mk, pre_key, post_key, dev_key, local_key;
              cbn [epoch rel pre post dev local]. rewrite (ol_refl cmp_vkey_laws). reflexivity. }
          rewrite (veqb_lt_l _ _ _ F2). apply fd_lt; [apply wf_wl; exact Wv|].
          unfold is_devrelease, without_local, mk in *; cbn [dev]. exact Hdv.
        - assert (F1 : veqb fd (first_devrelease v) = true) by (apply fd_congr; auto).
          rewrite (veqb_lt_l _ _ _ F1). apply fd_lt; auto. }
      rewrite vgtb_ltb, G. reflexivity.
    + apply negb_true_iff in D.
      destruct (cross_lt v o mx fd Ho (fd_class mx) D) as (A & B & C).
      destruct (cross_lt v o mx mx Ho (same_class_refl _) D) as (A' & B' & C').
      rewrite vgtb_ltb, B, C, C', (other_class_not_eq _ _ D). rewrite andb_false_r, !orb_false_r.
      unfold vltb. rewrite (ol_antisym vcmp_laws mx v).
      pose proof (other_class_not_eq _ _ D) as NE. unfold veqb in NE.
      destruct (vcmp v mx); simpl in *; try discriminate; reflexivity.
Qed.

Theorem allows_regular r v : wf_rng r = true -> wf v = true -> regular_r v r = true ->
  r_allows r v = mem r v.
Proof.
  intros Wr Wv R. destruct r as [x|lo hi a b].
  - unfold r_allows, mem, above, below, wf_rng, regular_r, rbounds in *. cbn [rmin rmax imin imax obounds app forallb] in *.
    rewrite !andb_true_iff in Wr, R. destruct Wr as [Wx _], R as [Rx _].
    rewrite (v_allows_regular x v Wx Wv Rx).
    unfold regular1 in Rx. apply orb_true_iff in Rx. destruct Rx as [E|D].
    + rewrite E. destruct (veqb_not_lt _ _ E) as [L1 L2]. rewrite L1, L2. reflexivity.
    + apply negb_true_iff in D. rewrite (other_class_not_eq _ _ D). rewrite !andb_false_l, !orb_false_r.
      unfold vltb. rewrite (ol_antisym vcmp_laws x v). destruct (vcmp v x); reflexivity.
  - unfold r_allows, rr_allows, mem.
    rewrite (rr_lo_regular _ v Wr Wv R), (rr_hi_regular _ v Wr Wv R). reflexivity.
Qed.
