(* The tie by translation for C04: VersionRange.allows of version_range.py, re-translated from /repo's working tree on every run
   (coq/Gen/RangeAllows.v), is the model's rr_allows - for every range and every candidate. *)
From Coq Require Import List Bool NArith String.
From PC Require Import Base.Cmp Model.Pep440 Model.VConstraint Gen.RangeCmp Gen.RangeAllows Proofs.GenAgreeRange.
Import ListNotations.

Lemma allowed_max_some r mx : rmax r = Some mx -> exists am, allowed_max r = Some am.
Proof. intros H. unfold allowed_max. rewrite H. destruct (imax r || is_unstable mx); [eauto|]. destruct (oveq _ _ && _); eauto. Qed.
Lemma allowed_max_none r : rmax r = None -> allowed_max r = None.
Proof. intros H. unfold allowed_max. rewrite H. reflexivity. Qed.

(* VersionRange.allows as re-translated from /repo is the model's rr_allows *)
Theorem rr_allows_agrees r v : rr_allows_gen r v = rr_allows r v.
Proof.
  unfold rr_allows_gen, rr_allows, rr_allows_lo, rr_allows_hi.
  rewrite allowed_max_agrees. unfold allowed_min_gen.
  destruct (rmax r) as [mx|] eqn:Ex.
  - destruct (allowed_max_some r mx Ex) as [am Ea]. rewrite Ea.
    destruct (rmin r) as [m|] eqn:Em; cbv zeta; cbn [oveq]; [|reflexivity].
    rewrite orb_diag. destruct (vltb _ m); [reflexivity|]. destruct (negb (imin r) && veqb _ m); reflexivity.
  - rewrite (allowed_max_none r Ex).
    destruct (rmin r) as [m|] eqn:Em; cbv zeta; cbn [oveq]; [|reflexivity].
    rewrite orb_diag. destruct (vltb _ m); [reflexivity|]. destruct (negb (imin r) && veqb _ m); reflexivity.
Qed.
Print Assumptions rr_allows_agrees.

(* Version.allows as re-translated from /repo is the model's v_allows (and refuses None) *)
Theorem v_allows_agrees x o : v_allows_gen x o = match o with None => false | Some v => v_allows x v end.
Proof. destruct o as [v|]; reflexivity. Qed.
Print Assumptions v_allows_agrees.
Theorem r_allows_agrees r v : (match r with RV x => v_allows_gen x (Some v) | RR _ _ _ _ => rr_allows_gen r v end) = r_allows r v.
Proof. destruct r as [x|lo hi i j]; [reflexivity|]. apply rr_allows_agrees. Qed.
