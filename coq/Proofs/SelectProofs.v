(* C09: what the selection can and cannot contain. *)
From Coq Require Import List Bool String Ascii.
From PC Require Import Model.Select.
Import ListNotations.

(* files coming from a package include, or from below an included directory, are never excluded files *)
Theorem selected_not_excluded excluded incs f :
  In f (find_files_to_add excluded incs) ->
  is_excluded excluded f = false \/
  exists inc, In inc incs /\ is_package inc = false /\ In (EFile f) (elements inc).
Proof.
  unfold find_files_to_add. intros H. apply in_flat_map in H. destruct H as [inc [Hi H]].
  apply in_flat_map in H. destruct H as [e [He H]]. unfold select_element in H.
  destruct (has_pycache (element_path e)); [destruct H|].
  destruct e as [p|p below].
  - destruct (is_excluded excluded p) eqn:E; simpl in H.
    + destruct (is_package inc) eqn:P; [destruct H|]. destruct H as [<-|[]]. right. exists inc. auto.
    + destruct H as [<-|[]]. left. exact E.
  - destruct (in_format inc); [|destruct H]. apply filter_In in H. destruct H as [_ H].
    left. apply negb_true_iff in H. exact H.
Qed.
(* in particular no bytecode cache reaches an archive through a package or a directory *)
Corollary no_bytecode_from_packages excluded incs f :
  In f (find_files_to_add excluded incs) -> (has_pycache f = true \/ is_pyc f = true) ->
  exists inc, In inc incs /\ is_package inc = false /\ In (EFile f) (elements inc).
Proof.
  intros H Hb. destruct (selected_not_excluded _ _ _ H) as [E|E]; [|exact E].
  unfold is_excluded in E. destruct Hb as [Hb|Hb]; rewrite Hb in E; simpl in E; try discriminate.
  rewrite orb_true_r in E. discriminate.
Qed.
(* an explicitly included file (a plain include naming the file itself) is always selected *)
Theorem explicit_file_selected excluded incs inc f :
  In inc incs -> is_package inc = false -> In (EFile f) (elements inc) -> has_pycache f = false ->
  In f (find_files_to_add excluded incs).
Proof.
  intros Hi Hp He Hc. unfold find_files_to_add. apply in_flat_map. exists inc. split; [exact Hi|].
  apply in_flat_map. exists (EFile f). split; [exact He|].
  unfold select_element. cbn [element_path]. rewrite Hc, Hp, andb_false_r. left. reflexivity.
Qed.
(* an explicit include for this format removes the file from the excluded set *)
Theorem explicit_include_readds vcs globs incl p :
  in_paths p incl = true -> in_paths p (excluded_set vcs globs incl) = false.
Proof.
  intros H. unfold excluded_set, in_paths in *. apply not_true_iff_false. intros Q.
  apply existsb_exists in Q. destruct Q as [q [Hq E]]. apply filter_In in Hq. destruct Hq as [_ Hq].
  apply negb_true_iff in Hq.
  assert (Heq : forall a b, path_eqb a b = true -> a = b).
  { induction a as [|x a IH]; destruct b as [|y b]; simpl; intros Hab; try discriminate; auto.
    apply andb_true_iff in Hab. destruct Hab as [H1 H2]. apply String.eqb_eq in H1. subst. f_equal. auto. }
  apply Heq in E. subst q. unfold in_paths in Hq. congruence.
Qed.
