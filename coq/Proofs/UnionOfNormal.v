(* VersionUnion.of applied to members that are in order and pairwise apart (no overlap, no adjacency) returns them unchanged: the sort keeps the order, the look-back merge finds nothing to merge. *)
From Coq Require Import List Bool Arith NArith String Ascii Lia.
From PC Require Import Base.Cmp Base.Result Model.Pep440 Spec.Pep440Spec Model.VConstraint Model.VHyp.
Import ListNotations.
Open Scope list_scope.

(* VersionUnion.of applied to members that are already in order and pairwise apart (no overlap, no adjacency) returns them unchanged *)
Fixpoint apart_all (l : list rng) : bool :=
  match l with
  | [] => true
  | x :: r => forallb (fun y => negb (r_allows_any x y) && negb (is_adjacent_to x y) && negb (r_lt y x)) r && apart_all r
  end.
Lemma insert_at_end x : forall acc, forallb (fun y => negb (r_lt x y)) acc = true -> insert_sorted x acc = acc ++ [x].
Proof.
  induction acc as [|y acc IH]; [reflexivity|]. cbn [forallb insert_sorted]. intros H. apply andb_true_iff in H as [Hy H].
  apply negb_true_iff in Hy. rewrite Hy, (IH H). reflexivity.
Qed.
Lemma sort_sorted : forall l acc, apart_all l = true -> forallb (fun x => forallb (fun y => negb (r_lt x y)) acc) l = true ->
  fold_left (fun a x => insert_sorted x a) l acc = acc ++ l.
Proof.
  induction l as [|x l IH]; intros acc Ha Hacc; [cbn; rewrite app_nil_r; reflexivity|].
  cbn [apart_all] in Ha. apply andb_true_iff in Ha as [Hx Hl]. cbn [forallb] in Hacc. apply andb_true_iff in Hacc as [Hxa Hla].
  cbn [fold_left]. rewrite (insert_at_end x acc Hxa). rewrite IH; [rewrite <- app_assoc; reflexivity|exact Hl|].
  rewrite forallb_forall in *. intros z Hz. rewrite forallb_app. rewrite (Hla z Hz). cbn [forallb]. rewrite andb_true_r.
  specialize (Hx z Hz). rewrite !andb_true_iff in Hx. tauto.
Qed.
Lemma merge_back_none ofn c : forall rm, forallb (fun m => negb (r_allows_any m c) && negb (is_adjacent_to m c)) rm = true ->
  merge_back ofn rm c = Ok None.
Proof.
  induction rm as [|m rm IH]; [reflexivity|]. cbn [forallb merge_back]. intros H. apply andb_true_iff in H as [Hm H].
  apply andb_true_iff in Hm as [H1 H2]. apply negb_true_iff in H1, H2. rewrite H1, H2. cbn [orb]. rewrite (IH H). reflexivity.
Qed.
Lemma merge_all_apart ofn : forall l rm, apart_all l = true ->
  forallb (fun c => forallb (fun m => negb (r_allows_any m c) && negb (is_adjacent_to m c)) rm) l = true ->
  merge_all ofn rm l = Ok (rev rm ++ l).
Proof.
  induction l as [|c l IH]; intros rm Ha Hrm; [cbn; rewrite app_nil_r; reflexivity|].
  cbn [apart_all] in Ha. apply andb_true_iff in Ha as [Hc Hl]. cbn [forallb] in Hrm. apply andb_true_iff in Hrm as [Hcr Hlr].
  cbn [merge_all]. rewrite (merge_back_none ofn c rm Hcr). cbn [bind].
  rewrite IH; [cbn [rev]; rewrite <- app_assoc; reflexivity|exact Hl|].
  rewrite forallb_forall in *. intros z Hz. cbn [forallb]. rewrite (Hlr z Hz), andb_true_r.
  specialize (Hc z Hz). rewrite !andb_true_iff in Hc. rewrite !andb_true_iff. tauto.
Qed.
Theorem union_of_normal (f : nat) l : (2 <= List.length l)%nat -> apart_all l = true -> existsb r_is_any l = false ->
  vunion_of (S f) (map VOne l) = Ok (VUnion l).
Proof.
  intros Hn Ha Hany. cbn [vunion_of].
  assert (F : flat_map flatten (map VOne l) = l) by (clear; induction l as [|x l IH]; [reflexivity|]; cbn; rewrite IH; reflexivity).
  rewrite F. destruct l as [|x [|y l']]; cbn [List.length] in Hn; try lia. rewrite Hany.
  unfold sort_ranges. rewrite (sort_sorted (x :: y :: l') [] Ha); [|clear; induction (x :: y :: l'); [reflexivity|cbn; assumption]].
  cbn [app]. rewrite (merge_all_apart _ (x :: y :: l') [] Ha); [|clear; induction (x :: y :: l'); [reflexivity|cbn; assumption]].
  reflexivity.
Qed.

(* the executable copy evaluated at run time (Model/VHyp.v) *)
Lemma h_apart_all_eq l : h_apart_all l = apart_all l.
Proof. induction l as [|x l IH]; [reflexivity|]. cbn [h_apart_all apart_all]. rewrite IH. reflexivity. Qed.
