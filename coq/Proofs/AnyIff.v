(* C12: 'allows any' is yes exactly when the intersection is not the empty constraint - a statement about the two computations
   themselves (no probe involved), for ranges that are not degenerate (the allowed maximum of a range is not below its own
   minimum: '>=2.0.dev1,<2.0' is such a range, and the parser returns the empty constraint for it). *)
From Coq Require Import List Bool NArith ZArith String Ascii Lia ZifyBool.
From PC Require Import Base.Cmp Base.Result Base.RankEmbed Model.Pep440 Spec.Pep440Spec Proofs.Pep440Order
     Proofs.VersionFacts Model.VConstraint Proofs.RangeSpec Proofs.RangeAlg Proofs.RangeOps Proofs.UnionHull Proofs.UnionExact Proofs.Contain Proofs.InterExact Model.VHyp.
Import ListNotations.
Open Scope list_scope.

Definition nondeg (r : rng) : bool := negb (is_strictly_lower r r).

(* the two answers of the bound comparison used by the intersection agree with the one used by allows_any *)
Lemma lower_not_sl a b : allows_lower a b = true -> nondeg b = true -> is_strictly_lower b a = false.
Proof.
  unfold nondeg, allows_lower, is_strictly_lower. intros AL ND. apply negb_true_iff in ND.
  destruct (allowed_max b) as [amb|]; [|reflexivity]. destruct (rmin a) as [la|] eqn:Ha; [|reflexivity].
  destruct (rmin b) as [lb|] eqn:Hb; [|discriminate].
  destruct (imin a), (imin b), (imax b); cbn [andb negb] in *; order_lia [amb; la; lb].
Qed.
Lemma not_lower_not_sl a b : allows_lower a b = false -> nondeg a = true -> is_strictly_lower a b = false.
Proof.
  unfold nondeg, allows_lower, is_strictly_lower. intros AL ND. apply negb_true_iff in ND.
  destruct (allowed_max a) as [ama|]; [|reflexivity]. destruct (rmin b) as [lb|] eqn:Hb; [|reflexivity].
  destruct (rmin a) as [la|] eqn:Ha; [|discriminate].
  destruct (imin a), (imin b), (imax a); cbn [andb negb] in *; order_lia [ama; la; lb].
Qed.

Theorem r_any_iff_meet a b c : nondeg a = true -> nondeg b = true -> r_intersect a b = Ok c -> r_allows_any a b = negb (is_empty c).
Proof.
  intros Na Nb H. destruct a as [x|lo hi i j] eqn:Ea, b as [y|lo' hi' i' j'] eqn:Eb.
  - cbn [r_intersect r_allows_any] in *. destruct (v_allows x y); [injection H as <-; reflexivity|]. destruct (v_allows y x); injection H as <-; reflexivity.
  - cbn [r_intersect r_allows_any] in *. destruct (rr_allows _ x); [injection H as <-; reflexivity|]. destruct (min_local_allowed_by _ x); injection H as <-; reflexivity.
  - cbn [r_intersect r_allows_any] in *. destruct (rr_allows _ y); [injection H as <-; reflexivity|]. destruct (min_local_allowed_by _ y); injection H as <-; reflexivity.
  - rewrite <- Ea, <- Eb in *. assert (RA : r_allows_any a b = negb (is_strictly_lower b a || is_strictly_lower a b)) by (rewrite Ea, Eb; reflexivity).
    rewrite RA. clear RA. unfold r_intersect in H. rewrite Ea, Eb in H. rewrite <- Ea, <- Eb in H.
    destruct (allows_lower a b) eqn:AL.
    + rewrite (lower_not_sl a b AL Nb). cbn [orb]. destruct (is_strictly_lower a b); [injection H as <-; reflexivity|].
      cbn [negb]. destruct c; [|reflexivity|reflexivity]. exfalso.
      destruct (allows_higher a b); destruct (rmin b), (rmax b), (rmax a); cbn in H;
        repeat match type of H with context [if ?c then _ else _] => destruct c end; cbn in H;
        repeat match type of H with context [assert ?c] => destruct (assert c); cbn in H end; try discriminate.
    + rewrite (not_lower_not_sl a b AL Na), orb_false_r. destruct (is_strictly_lower b a); [injection H as <-; reflexivity|].
      cbn [negb]. destruct c; [|reflexivity|reflexivity]. exfalso.
      destruct (allows_higher a b); destruct (rmin a), (rmax b), (rmax a); cbn in H;
        repeat match type of H with context [if ?c then _ else _] => destruct c end; cbn in H;
        repeat match type of H with context [assert ?c] => destruct (assert c); cbn in H end; try discriminate.
Qed.

Lemma walks_agree : forall ours theirs rs, forallb nondeg ours = true -> forallb nondeg theirs = true ->
  walk_intersect ours theirs = Ok rs -> walk_any ours theirs = negb (match rs with [] => true | _ => false end) /\ forallb (fun c => negb (is_empty c)) rs = true
                                       /\ forallb (fun c => match c with VUnion _ => false | _ => true end) rs = true.
Proof.
  induction ours as [|o os IHo]; intros theirs; induction theirs as [|t ts IHt]; intros rs No Nt H; try (injection H as <-; repeat split; reflexivity).
  cbn [walk_intersect] in H. cbn [walk_any]. cbn [forallb] in No, Nt. apply andb_true_iff in No, Nt. destruct No as [No1 Nos], Nt as [Nt1 Nts].
  destruct (r_intersect o t) as [i|] eqn:Hi; [|discriminate]. cbn [bind] in H.
  rewrite (r_any_iff_meet o t i No1 Nt1 Hi). pose proof (r_intersect_shape o t i Hi) as Sh.
  destruct (allows_higher t o).
  - match type of H with bind ?x _ = _ => destruct x as [rest|] eqn:Hr; [|discriminate] end. cbn [bind] in H.
    assert (Not1 : forallb nondeg (t :: ts) = true) by (cbn [forallb]; rewrite Nt1, Nts; reflexivity).
    destruct (IHo (t :: ts) rest Nos Not1 Hr) as (A & B & C).
    destruct (is_empty i) eqn:Ei; injection H as <-; cbn [negb].
    + split; [exact A|]. split; [exact B|exact C].
    + split; [reflexivity|]. split; [cbn [forallb]; rewrite Ei, B; reflexivity | cbn [forallb]; rewrite C; destruct i; [reflexivity|reflexivity|destruct Sh]].
  - match type of H with bind ?x _ = _ => destruct x as [rest|] eqn:Hr; [|discriminate] end. cbn [bind] in H.
    assert (No' : forallb nondeg (o :: os) = true) by (cbn [forallb]; rewrite No1, Nos; reflexivity).
    destruct (IHt rest No' Nts Hr) as (A & B & C).
    destruct (is_empty i) eqn:Ei; injection H as <-; cbn [negb].
    + split; [exact A|]. split; [exact B|exact C].
    + split; [reflexivity|]. split; [cbn [forallb]; rewrite Ei, B; reflexivity | cbn [forallb]; rewrite C; destruct i; [reflexivity|reflexivity|destruct Sh]].
Qed.

Lemma union_of_empty_iff rs c : forallb (fun c => negb (is_empty c)) rs = true -> forallb (fun c => match c with VUnion _ => false | _ => true end) rs = true ->
  union_of rs = Ok c -> is_empty c = match rs with [] => true | _ => false end.
Proof.
  intros Ne Sh H. unfold union_of, OF_FUEL in H. cbn [vunion_of] in H.
  destruct rs as [|r0 rs']; [cbn in H; injection H as <-; reflexivity|].
  assert (Fl : flat_map flatten (r0 :: rs') <> []).
  { cbn [flat_map]. cbn [forallb] in Ne, Sh. apply andb_true_iff in Ne, Sh. destruct r0 as [|r|l]; [destruct Ne; discriminate| |destruct Sh; discriminate]. cbn. discriminate. }
  destruct (flat_map flatten (r0 :: rs')) as [|f0 fl]; [contradiction|].
  destruct (existsb r_is_any (f0 :: fl)); [injection H as <-; reflexivity|].
  match type of H with bind ?x _ = _ => destruct x as [merged|]; [|discriminate] end. cbn [bind] in H.
  destruct merged as [|m [|m' ms]]; injection H as <-; reflexivity.
Qed.

Definition nondeg_c (c : vc) : bool := forallb nondeg (flatten c).
Theorem any_iff_intersection a b x i : nondeg_c a = true -> nondeg_c b = true ->
  (match a, b with VOne (RR _ _ _ _), VUnion _ => False | _, _ => True end) ->
  allows_any a b = Ok x -> intersect a b = Ok i -> x = negb (is_empty i).
Proof.
  intros Na Nb Shape Hx Hi. unfold nondeg_c in *.
  destruct a as [|ra|la].
  - cbn in Hx, Hi. injection Hx as <-. injection Hi as <-. reflexivity.
  - destruct ra as [v|lo hi ii jj].
    + cbn [allows_any] in Hx. rewrite Hi in Hx. cbn [bind] in Hx. injection Hx as <-. reflexivity.
    + destruct b as [|rb|lb]; [| |destruct Shape].
      * cbn in Hx, Hi. injection Hx as <-. injection Hi as <-. reflexivity.
      * cbn [allows_any intersect] in Hx, Hi. injection Hx as <-. cbn [flatten forallb] in Na, Nb. rewrite andb_true_r in Na, Nb.
        exact (r_any_iff_meet _ rb i Na Nb Hi).
  - cbn [allows_any intersect] in Hx, Hi. injection Hx as <-. unfold union_intersect in Hi.
    destruct (walk_intersect la (flatten b)) as [rs|] eqn:Hw; [|discriminate]. cbn [bind] in Hi.
    destruct (walks_agree la (flatten b) rs Na Nb Hw) as (A & B & C). rewrite A, (union_of_empty_iff rs i B C Hi). reflexivity.
Qed.

Lemma h_nondeg_eq c : h_nondeg c = nondeg_c c. Proof. reflexivity. Qed.
