(* VersionUnion.of never raises on version ranges: the assertion `isinstance(new_constraint,
   VersionRangeConstraint)` in its merge loop is unreachable for VersionRange members (C05 "defined",
   C19 "never AssertionError"). *)
From Coq Require Import List Bool NArith String Ascii.
From PC Require Import Base.Cmp Base.Result Model.Pep440 Model.VConstraint.
Import ListNotations.

Definition is_rr (r : rng) : bool := match r with RR _ _ _ _ => true | RV _ => false end.

Lemma adjacent_touches a b : is_adjacent_to a b = true ->
  oveq (rmax a) (rmin b) && (imax a || imin b) = true.
Proof.
  unfold is_adjacent_to. destruct (oveq (rmax a) (rmin b)); cbn; [|discriminate].
  destruct (imax a), (imin b); cbn; intros H; try discriminate; reflexivity.
Qed.
Lemma r_union_rr_touch ofn a b : is_rr a = true -> is_rr b = true ->
  r_allows_any a b || is_adjacent_to a b = true ->
  exists r, r_union ofn a b = Ok (VOne r) /\ is_rr r = true.
Proof.
  destruct a as [|lo hi i j], b as [|lo' hi' i' j']; try discriminate. intros _ _ H.
  unfold r_union.
  set (a := RR lo hi i j) in *. set (b := RR lo' hi' i' j') in *.
  assert (C : negb ((oveq (rmax a) (rmin b) && (imax a || imin b)) || (oveq (rmin a) (rmax b) && (imin a || imax b)))
              && negb (r_allows_any a b) = false).
  { apply orb_true_iff in H. destruct H as [H|H].
    - rewrite H. apply andb_false_r.
    - rewrite (adjacent_touches a b H). reflexivity. }
  rewrite C.
  destruct (allows_lower a b), (allows_higher a b); eexists; split; reflexivity.
Qed.

Lemma merge_back_rr ofn : forall rev_merged c,
  forallb is_rr rev_merged = true -> is_rr c = true ->
  exists o, merge_back ofn rev_merged c = Ok o /\
            match o with Some l => forallb is_rr l = true | None => True end.
Proof.
  induction rev_merged as [|m rest IH]; intros c Hl Hc; cbn [merge_back].
  - exists None. split; [reflexivity|exact I].
  - cbn [forallb] in Hl. apply andb_true_iff in Hl. destruct Hl as [Hm Hrest].
    destruct (r_allows_any m c || is_adjacent_to m c) eqn:T.
    + destruct (r_union_rr_touch ofn m c Hm Hc T) as [r [-> Hr]]. cbn [bind].
      exists (Some (r :: rest)). split; [reflexivity|]. cbn [forallb]. rewrite Hr, Hrest. reflexivity.
    + destruct (IH c Hrest Hc) as [o [-> Ho]]. cbn [bind]. destruct o as [l|].
      * exists (Some (m :: l)). split; [reflexivity|]. cbn [forallb]. rewrite Hm, Ho. reflexivity.
      * exists None. split; [reflexivity|exact I].
Qed.
Lemma merge_all_rr ofn : forall l rev_merged,
  forallb is_rr rev_merged = true -> forallb is_rr l = true ->
  exists res, merge_all ofn rev_merged l = Ok res /\ forallb is_rr res = true.
Proof.
  induction l as [|c l IH]; intros rm Hrm Hl; cbn [merge_all].
  - exists (rev rm). split; [reflexivity|]. rewrite forallb_forall in *. intros x Hx. apply Hrm, in_rev, Hx.
  - cbn [forallb] in Hl. apply andb_true_iff in Hl. destruct Hl as [Hc Hl].
    destruct (merge_back_rr ofn rm c Hrm Hc) as [o [-> Ho]]. cbn [bind].
    destruct o as [m|]; apply IH; auto. cbn [forallb]. rewrite Hc, Hrm. reflexivity.
Qed.
Lemma insert_sorted_rr x l : is_rr x = true -> forallb is_rr l = true -> forallb is_rr (insert_sorted x l) = true.
Proof.
  intros Hx. induction l as [|y l IH]; cbn [insert_sorted forallb]; intros H; [rewrite Hx; reflexivity|].
  apply andb_true_iff in H. destruct H as [Hy Hl]. destruct (r_lt x y); cbn [forallb]; rewrite ?Hx, ?Hy, ?Hl, ?IH; auto.
Qed.
Lemma sort_ranges_rr l : forallb is_rr l = true -> forallb is_rr (sort_ranges l) = true.
Proof.
  unfold sort_ranges. assert (G : forall acc, forallb is_rr acc = true -> forallb is_rr l = true ->
    forallb is_rr (fold_left (fun acc x => insert_sorted x acc) l acc) = true).
  { induction l as [|x l IH]; intros acc Ha Hl; cbn [fold_left]; [exact Ha|].
    cbn [forallb] in Hl. apply andb_true_iff in Hl. destruct Hl as [Hx Hl]. apply IH; [apply insert_sorted_rr; assumption|exact Hl]. }
  intros H. apply G; [reflexivity|exact H].
Qed.

(* VersionUnion.of on constraints whose flattened members are all VersionRanges: always defined *)
Theorem union_of_ranges_total fuel cs :
  forallb is_rr (flat_map flatten cs) = true ->
  exists c, vunion_of (S fuel) cs = Ok c.
Proof.
  intros H. cbn [vunion_of]. destruct (flat_map flatten cs) as [|x l] eqn:E; [eexists; reflexivity|].
  destruct (existsb r_is_any (x :: l)); [eexists; reflexivity|].
  destruct (merge_all_rr (vunion_of fuel) (sort_ranges (x :: l)) [] eq_refl (sort_ranges_rr _ H)) as [res [-> _]].
  cbn [bind]. destruct res as [|r [|r' rs]]; eexists; reflexivity.
Qed.

(* the complement of one range (used for the != and != wildcard clauses): always defined *)
Theorem complement_of_range_total lo hi i j : exists c, r_difference ANY (RR lo hi i j) = Ok c.
Proof.
  unfold r_difference, ANY.
  destruct (negb (r_allows_any (RR None None false false) (RR lo hi i j))); [eexists; reflexivity|].
  set (before := if negb (allows_lower _ _) then None else _).
  set (after := if negb (allows_higher _ _) then None else _).
  assert (Hb : match before with Some r => is_rr r = true | None => True end).
  { subst before. destruct (negb (allows_lower _ _)); [exact I|]. cbn [rmin]. destruct (oveq None lo); [exact I|reflexivity]. }
  assert (Ha : match after with Some r => is_rr r = true | None => True end).
  { subst after. destruct (negb (allows_higher _ _)); [exact I|]. cbn [rmax]. destruct (oveq None hi); [exact I|reflexivity]. }
  destruct before as [x|], after as [y|]; try (eexists; reflexivity).
  apply (union_of_ranges_total 39 [VOne x; VOne y]). cbn. rewrite Hb, Ha. reflexivity.
Qed.
