(* the zero-padded lexicographic order on releases: R <= r < (R with its last component increased) says exactly that r starts with R *)
From Coq Require Import List Bool Arith NArith String Ascii Lia.
From PC Require Import Base.Cmp Base.Result Model.Pep440 Spec.Pep440Spec.
Import ListNotations.
Open Scope N_scope.

(* the zero-padded release r starts with the components R *)
Fixpoint prefix (R r : list N) : bool :=
  match R with
  | [] => true
  | x :: R' => (hd 0 r =? x) && prefix R' (tl r)
  end.

Lemma cmp_nil_as_zero b : cmp_rel_pad [] b = cmp_rel_pad [0] b.
Proof. destruct b as [|y b]; [reflexivity|]. cbn [cmp_rel_pad cmp_pad_l]. reflexivity. Qed.
Lemma prefix_nil_as_zero R : prefix R [] = prefix R [0].
Proof. destruct R; reflexivity. Qed.
Lemma pad_r_not_lt a : cmp_pad_r a <> Lt.
Proof. induction a as [|w l IH]; [discriminate|]. cbn [cmp_pad_r]. destruct (N.compare_spec w 0) as [->|H|H]; cbn [lex]; [exact IH|lia|discriminate]. Qed.
Lemma cmp_nil_r a : cmp_rel_pad a [] = cmp_pad_r a. Proof. destruct a; reflexivity. Qed.

Lemma between_prefix_cons : forall R y r', R <> [] ->
  is_ge (cmp_rel_pad (y :: r') R) && is_lt (cmp_rel_pad (y :: r') (incr_last R)) = prefix R (y :: r').
Proof.
  induction R as [|x R IH]; intros y r' HR; [congruence|].
  destruct R as [|x2 R2].
  - (* last component *)
    cbn [incr_last cmp_rel_pad prefix hd tl]. rewrite andb_true_r, cmp_nil_r.
    pose proof (pad_r_not_lt r') as Z.
    destruct (N.compare_spec y x) as [->|H|H]; cbn [lex is_ge is_lt].
    + rewrite N.eqb_refl. destruct (N.compare_spec x (x + 1)) as [H|H|H]; try lia. cbn [lex].
      destruct (cmp_pad_r r') eqn:C; cbn; try reflexivity. congruence.
    + cbn. symmetry. apply N.eqb_neq. lia.
    + destruct (N.compare_spec y (x + 1)) as [H2|H2|H2]; cbn [lex is_lt]; try lia.
      * subst y. destruct (cmp_pad_r r') eqn:C; cbn; try (symmetry; apply N.eqb_neq; lia). congruence.
      * cbn. symmetry. apply N.eqb_neq. lia.
  - change (incr_last (x :: x2 :: R2)) with (x :: incr_last (x2 :: R2)).
    cbn [cmp_rel_pad prefix hd tl].
    assert (IH' : is_ge (cmp_rel_pad r' (x2 :: R2)) && is_lt (cmp_rel_pad r' (incr_last (x2 :: R2))) = prefix (x2 :: R2) r').
    { destruct r' as [|z r2]; [rewrite !cmp_nil_as_zero, prefix_nil_as_zero|]; apply IH; discriminate. }
    destruct (N.compare_spec y x) as [->|H|H]; cbn [lex is_ge is_lt].
    + rewrite N.eqb_refl. cbn [andb]. exact IH'.
    + cbn. symmetry. apply andb_false_iff. left. apply N.eqb_neq. lia.
    + cbn. symmetry. apply andb_false_iff. left. apply N.eqb_neq. lia.
Qed.
Lemma between_prefix R r : R <> [] ->
  is_ge (cmp_rel_pad r R) && is_lt (cmp_rel_pad r (incr_last R)) = prefix R r.
Proof.
  intros H. destruct r as [|y r']; [rewrite !cmp_nil_as_zero, prefix_nil_as_zero|]; apply between_prefix_cons; exact H.
Qed.
