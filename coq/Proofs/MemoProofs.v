(* C20: memoisation is invisible up to the equivalence the function respects; the recursion guard of one
   thread is not affected by what other threads do, in any interleaving. *)
From Coq Require Import List Bool Arith Lia.
From PC Require Import Model.Memo.
Import ListNotations.

Section MemoFacts.
  Variables K V : Type.
  Variable keq : K -> K -> bool.
  Variable f : K -> V.
  (* "means the same": equality for versions and constraints, same truth table for markers *)
  Variable veq : V -> V -> Prop.
  Hypothesis veq_refl : forall v, veq v v.
  Hypothesis veq_sym : forall a b, veq a b -> veq b a.
  Hypothesis veq_trans : forall a b c, veq a b -> veq b c -> veq a c.
  (* the premise that D23 violated: keys the cache identifies give equivalent results *)
  Hypothesis f_respects : forall k k', keq k k' = true -> veq (f k) (f k').

  Definition cache_ok (c : cache K V) : Prop := forall k v, In (k, v) c -> veq v (f k).
  Lemma lookup_ok c k v : cache_ok c -> lookup K V keq k c = Some v -> veq v (f k).
  Proof.
    induction c as [|[k' v'] c IH]; intros H L; [discriminate|]. cbn [lookup] in L.
    destruct (keq k k') eqn:E.
    - injection L as <-. eapply veq_trans; [apply (H k' v'); left; reflexivity|].
      apply veq_sym, f_respects; exact E.
    - apply IH; [|exact L]. intros k0 v0 Hin. apply H. right. exact Hin.
  Qed.
  Lemma call_ok c k : cache_ok c -> cache_ok (fst (call K V keq f c k)) /\ veq (snd (call K V keq f c k)) (f k).
  Proof.
    intros H. unfold call. destruct (lookup K V keq k c) as [v|] eqn:L; cbn [fst snd].
    - split; [exact H|eapply lookup_ok; eauto].
    - split; [|apply veq_refl]. intros k0 v0 [E|Hin]; [injection E as <- <-; apply veq_refl|apply H; exact Hin].
  Qed.
  (* whatever calls were made before, every call returns a value equivalent to the undecorated function's *)
  Theorem memo_refines : forall ks c, cache_ok c -> Forall2 (fun k v => veq v (f k)) ks (run K V keq f c ks).
  Proof.
    induction ks as [|k ks IH]; intros c H; cbn [run]; [constructor|].
    destruct (call_ok c k H) as [Hc Hv]. destruct (call K V keq f c k) as [c' v]. cbn [fst snd] in *.
    constructor; [exact Hv|apply IH; exact Hc].
  Qed.
  Corollary memo_history_independent : forall before k,
    veq (last (run K V keq f [] (before ++ [k])) (f k)) (f k).
  Proof.
    intros before k. pose proof (memo_refines (before ++ [k]) [] (fun _ _ H => match H with end)) as H.
    assert (G : forall ks vs d, Forall2 (fun k v => veq v (f k)) (ks ++ [k]) vs -> veq (last vs d) (f k)).
    { induction ks as [|x ks IHk]; intros vs d F; inversion F as [|? v ? vs' Hv Hrest]; subst.
      - inversion Hrest; subst. exact Hv.
      - destruct vs' as [|v' vs'']; [inversion Hrest; destruct ks; discriminate|]. change (veq (last (v' :: vs'') d) (f k)). apply IHk. exact Hrest. }
    apply G with (ks := before). exact H.
  Qed.
End MemoFacts.

Section GuardFacts.
  Variable A : Type.
  Variable aeq : A -> A -> bool.
  Notation gstep := (gstep A aeq). Notation grun := (grun A aeq).
  Notation gstate := (gstate A). Notation gupd := (gupd A). Notation op_tid := (op_tid A).

  (* a step of thread t only reads and writes t's stack *)
  Lemma gstep_other s o s' t : gstep s o = Some s' -> op_tid o <> t -> s' t = s t.
  Proof.
    destruct o as [u a|u]; cbn [gstep op_tid]; intros H N.
    - destruct (existsb (aeq a) (s u)); [discriminate|]. injection H as <-. unfold Memo.gupd.
      destruct (Nat.eqb_spec t u); [congruence|reflexivity].
    - injection H as <-. unfold Memo.gupd. destruct (Nat.eqb_spec t u); [congruence|reflexivity].
  Qed.
  Lemma gstep_same s1 s2 o t : op_tid o = t -> s1 t = s2 t ->
    match gstep s1 o, gstep s2 o with
    | Some a, Some b => a t = b t
    | None, None => True
    | _, _ => False
    end.
  Proof.
    destruct o as [u a|u]; cbn [gstep op_tid]; intros <- E; rewrite E.
    - destruct (existsb (aeq a) (s2 u)); [exact I|]. unfold Memo.gupd. rewrite Nat.eqb_refl. reflexivity.
    - unfold Memo.gupd. rewrite Nat.eqb_refl. reflexivity.
  Qed.
  (* in any interleaving that runs to completion, thread t's stack evolves exactly as in t's own sequential run:
     no other thread can make t see (or miss) a recursion *)
  Theorem guard_noninterference t : forall ops s1 s2 r1,
    s1 t = s2 t -> grun s1 ops = Some r1 ->
    exists r2, grun s2 (filter (fun o => Nat.eqb (op_tid o) t) ops) = Some r2 /\ r2 t = r1 t.
  Proof.
    induction ops as [|o ops IH]; intros s1 s2 r1 E H; cbn [grun filter] in *.
    - injection H as <-. exists s2. split; [reflexivity|symmetry; exact E].
    - destruct (gstep s1 o) as [s1'|] eqn:S1; [|discriminate].
      destruct (Nat.eqb_spec (op_tid o) t) as [Ht|Ht].
      + cbn [grun]. pose proof (gstep_same s1 s2 o t Ht E) as G. rewrite S1 in G.
        destruct (gstep s2 o) as [s2'|]; [|destruct G]. apply (IH s1' s2' r1 G H).
      + apply (IH s1' s2 r1); [|exact H]. rewrite (gstep_other s1 o s1' t S1 Ht). exact E.
  Qed.
  (* balanced use (every Enter matched by a Leave, as the decorator's try/finally does) leaves the stack as it was *)
  Lemma removelast_snoc (l : list A) a : removelast (l ++ [a]) = l.
  Proof. apply removelast_last. Qed.
  Theorem guard_balanced s t a : existsb (aeq a) (s t) = false ->
    exists s', grun s [Enter A t a; Leave A t] = Some s' /\ s' t = s t.
  Proof.
    intros H. cbn [grun gstep]. rewrite H. eexists. split; [reflexivity|].
    unfold Memo.gupd. rewrite !Nat.eqb_refl. apply removelast_snoc.
  Qed.
End GuardFacts.
