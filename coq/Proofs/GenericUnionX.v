(* C16, extras reading, union level: the same theorems as Proofs/GenericUnion.v for the multi-valued reading of 'extra' -
   a clause '== v' holds when f v is among the active extras (f: the name normalisation applied at evaluation time), '!= v'
   when it is not.  GENERATED from GenericUnion.v by tools/gen_generic_x.py (the union-level code never looks at how a clause
   is evaluated: only at clause equality, which is sound for both readings). *)
From Coq Require Import List Bool String Arith Lia.
From PC Require Import Base.Result Model.Generic Proofs.GenericProofs.
Import ListNotations.
Open Scope list_scope.

Section X.
Variable f : string -> string.
Variable act : list string.
Definition axs (a : atom) : bool :=
  match aop a with GEq => mem_str (f (av a)) act | GNe => negb (mem_str (f (av a)) act) | _ => false end.
Definition gxs (s : gs) : bool :=
  match s with SAny => true | SEmpty => false | SAtom a => axs a | SMulti _ l => forallb axs l end.
Definition cxs (c : gc) : bool := match c with GS s => gxs s | GU l => existsb gxs l end.

Section Sat.
  Notation gsat := gxs.

  Lemma atom_eqb_sat a b : atom_eqb a b = true -> axs a = axs b.
  Proof.
    unfold atom_eqb. rewrite !andb_true_iff. intros [[_ Hv] Ho]. apply String.eqb_eq in Hv.
    unfold axs. rewrite Hv. destruct (aop a), (aop b); try discriminate; reflexivity.
  Qed.
  Lemma atoms_eqb_sat : forall l l', atoms_eqb l l' = true -> forallb axs l = forallb axs l'.
  Proof.
    induction l as [|a l IH]; intros [|b l'] H; try discriminate; [reflexivity|]. cbn in H. apply andb_true_iff in H. destruct H as [H1 H2].
    cbn [forallb]. rewrite (atom_eqb_sat a b H1), (IH l' H2). reflexivity.
  Qed.
  Lemma gs_eqb_sat a b : gs_eqb a b = true -> gxs a = gxs b.
  Proof.
    destruct a as [| |a|ma la], b as [| |b|mb lb]; try discriminate; try reflexivity; cbn [gs_eqb gxs].
    - apply atom_eqb_sat.
    - rewrite andb_true_iff. intros [_ H]. apply atoms_eqb_sat, H.
  Qed.
  Lemma gs_in_sat s l : gs_in s l = true -> gxs s = true -> existsb gsat l = true.
  Proof.
    unfold gs_in. intros H B. apply existsb_exists in H. destruct H as [c [Hc E]]. apply existsb_exists. exists c. split; [exact Hc|].
    rewrite <- (gs_eqb_sat s c E). exact B.
  Qed.
  Lemma subset_gs_sat l l' : subset_gs l l' = true -> existsb gsat l = true -> existsb gsat l' = true.
  Proof.
    unfold subset_gs. intros S H. rewrite forallb_forall in S. apply existsb_exists in H. destruct H as [s [Hs B]].
    exact (gs_in_sat s l' (S s Hs) B).
  Qed.
  Lemma atom_in_sat a l : atom_in a l = true -> forallb axs l = true -> axs a = true.
  Proof.
    unfold atom_in. intros H F. apply existsb_exists in H. destruct H as [c [Hc E]]. rewrite (atom_eqb_sat a c E).
    rewrite forallb_forall in F. exact (F c Hc).
  Qed.
  Lemma same_atom_set_sat l l' : same_atom_set l l' = true ->
    forallb axs l = forallb axs l'.
  Proof.
    unfold same_atom_set. rewrite andb_true_iff. intros [H1 H2]. rewrite forallb_forall in H1, H2.
    destruct (forallb axs l) eqn:A, (forallb axs l') eqn:B; try reflexivity.
    - rewrite <- B. symmetry. apply forallb_forall. intros a Ha. exact (atom_in_sat a l (H2 a Ha) A).
    - rewrite <- A. apply forallb_forall. intros a Ha. exact (atom_in_sat a l' (H1 a Ha) B).
  Qed.

  (* ---- add_unseen_constraint: the de-duplication keeps the disjunction ---- *)
  Definition seen_ok (new : list gs) (seen : list (list atom)) : Prop :=
    forall l, In l seen -> exists mx, In (SMulti mx l) new.
  Lemma add_unseen_sat new seen s : seen_ok new seen ->
    seen_ok (fst (add_unseen (new, seen) s)) (snd (add_unseen (new, seen) s)) /\
    existsb gsat (fst (add_unseen (new, seen) s)) = existsb gsat new || gxs s.
  Proof.
    intros Ok_. unfold add_unseen.
    destruct (gs_is_empty s) eqn:E1; cbn [orb].
    { split; [exact Ok_|]. destruct s; try discriminate. cbn. rewrite orb_false_r. reflexivity. }
    destruct (gs_in s new) eqn:E2; cbn [orb].
    { split; [exact Ok_|]. cbn [fst]. destruct (gxs s) eqn:B; [|rewrite orb_false_r; reflexivity]. rewrite (gs_in_sat s new E2 B). reflexivity. }
    destruct (seen_multi s seen) eqn:E3.
    { split; [exact Ok_|]. cbn [fst]. destruct s as [| |a|mx l]; try discriminate. cbn [seen_multi] in E3.
      apply existsb_exists in E3. destruct E3 as [l' [Hl' Same]]. destruct (Ok_ l' Hl') as [mx' Hin].
      cbn [gxs]. rewrite (same_atom_set_sat l l' Same).
      destruct (forallb axs l') eqn:B; [|rewrite orb_false_r; reflexivity].
      assert (Q : existsb gsat new = true) by (apply existsb_exists; exists (SMulti mx' l'); split; [exact Hin|exact B]).
      rewrite Q. reflexivity. }
    cbn [fst snd]. split.
    - intros l Hl. destruct s as [| |a|mx l0].
      + destruct (Ok_ l Hl) as [m Hm]. exists m. apply in_or_app. left. exact Hm.
      + destruct (Ok_ l Hl) as [m Hm]. exists m. apply in_or_app. left. exact Hm.
      + destruct (Ok_ l Hl) as [m Hm]. exists m. apply in_or_app. left. exact Hm.
      + destruct Hl as [<-|Hl]; [exists mx; apply in_or_app; right; left; reflexivity|].
        destruct (Ok_ l Hl) as [m Hm]. exists m. apply in_or_app. left. exact Hm.
    - rewrite existsb_app. cbn. rewrite orb_false_r. reflexivity.
  Qed.
  Lemma fold_add_unseen_sat items : forall new seen, seen_ok new seen ->
    existsb gsat (fst (fold_left add_unseen items (new, seen))) = existsb gsat new || existsb gsat items.
  Proof.
    induction items as [|s items IH]; intros new seen Ok_; cbn [fold_left existsb]; [rewrite orb_false_r; reflexivity|].
    destruct (add_unseen_sat new seen s Ok_) as [Ok' E]. destruct (add_unseen (new, seen) s) as [new' seen'] eqn:A. cbn [fst snd] in *.
    rewrite (IH new' seen' Ok'), E, orb_assoc. reflexivity.
  Qed.
  Lemma finish_union_sat new : cxs (finish_union new) = existsb gsat new.
  Proof. destruct new as [|s [|t r]]; cbn; rewrite ?orb_false_r; reflexivity. Qed.
End Sat.

Section Intersect.
  Notation gsat := gxs.
  (* the class of simple constraints on which the member-level meet is exact and which it does not leave *)
  Variable P : gs -> Prop.
  Hypothesis Hmeet : forall a b r, P a -> P b -> gs_intersect a b = Ok r -> gxs r = gxs a && gxs b /\ P r.
  Hypothesis Patom : forall mx l a, P (SMulti mx l) -> In a l -> P (SAtom a).

  Lemma row_sat ours l' row : P ours -> Forall P l' -> mapR (fun theirs => gs_intersect ours theirs) l' = Ok row ->
    existsb gsat row = gxs ours && existsb gsat l'.
  Proof.
    intros Po. revert row. induction l' as [|t l' IH]; intros row Pl H; cbn [mapR] in H.
    - injection H as <-. cbn. rewrite andb_false_r. reflexivity.
    - inversion Pl as [|? ? Pt Pl']; subst. destruct (gs_intersect ours t) as [r|] eqn:Hr; [|discriminate]. cbn [bind] in H.
      destruct (mapR _ l') as [rs|] eqn:Hrs; [|discriminate]. cbn [bind] in H. injection H as <-.
      cbn [existsb]. rewrite (IH rs Pl' eq_refl). destruct (Hmeet _ _ _ Po Pt Hr) as [V _]. rewrite V.
      destruct (gxs ours), (gxs t), (existsb gsat l'); reflexivity.
  Qed.
  Lemma rows_sat l l' pieces : Forall P l -> Forall P l' ->
    mapR (fun ours => mapR (fun theirs => gs_intersect ours theirs) l') l = Ok pieces ->
    existsb gsat (List.concat pieces) = existsb gsat l && existsb gsat l'.
  Proof.
    revert pieces. induction l as [|o l IH]; intros pieces Pl Pl' H; cbn [mapR] in H.
    - injection H as <-. reflexivity.
    - inversion Pl as [|? ? Po Pl0]; subst. destruct (mapR (fun theirs => gs_intersect o theirs) l') as [row|] eqn:Hrow; [|discriminate]. cbn [bind] in H.
      destruct (mapR _ l) as [rest|] eqn:Hrest; [|discriminate]. cbn [bind] in H. injection H as <-.
      cbn [List.concat existsb]. rewrite existsb_app, (row_sat o l' row Po Pl' Hrow), (IH rest Pl0 Pl' eq_refl).
      destruct (gxs o), (existsb gsat l), (existsb gsat l'); reflexivity.
  Qed.
  (* one member against a conjunction, clause by clause *)
  Lemma chain_sat mx l' : forall ours r, P ours -> P (SMulti mx l') -> (forall a, In a l' -> P (SAtom a)) ->
    fold_left (fun acc their => do i <- acc; gs_intersect i (SAtom their)) l' (Ok ours) = Ok r ->
    gxs r = gxs ours && forallb axs l'.
  Proof.
    intros ours r Po _ Pa. revert ours r Po. induction l' as [|a l' IH]; intros ours r Po H; cbn [fold_left] in H.
    - injection H as <-. cbn. rewrite andb_true_r. reflexivity.
    - cbn [bind] in H. destruct (gs_intersect ours (SAtom a)) as [i|e] eqn:Hi.
      + destruct (Hmeet _ _ _ Po (Pa a (or_introl eq_refl)) Hi) as [V Pi].
        rewrite (IH (fun b Hb => Pa b (or_intror Hb)) i r Pi H), V. cbn [forallb gs_sat]. rewrite andb_assoc. reflexivity.
      + exfalso. clear - H. induction l' as [|b l' IHl]; cbn [fold_left bind] in H; [discriminate|auto].
  Qed.
  Lemma chains_sat mx l' l pieces : Forall P l -> P (SMulti mx l') ->
    mapR (fun ours => fold_left (fun acc their => do i <- acc; gs_intersect i (SAtom their)) l' (Ok ours)) l = Ok pieces ->
    existsb gsat pieces = existsb gsat l && forallb axs l'.
  Proof.
    intros Pl Pm. revert pieces. induction Pl as [|o l Po Pl IH]; intros pieces H; cbn [mapR] in H.
    - injection H as <-. reflexivity.
    - destruct (fold_left _ l' (Ok o)) as [r|] eqn:Hr; [|discriminate]. cbn [bind] in H.
      destruct (mapR _ l) as [rest|] eqn:Hrest; [|discriminate]. cbn [bind] in H. injection H as <-.
      cbn [existsb]. rewrite (IH rest eq_refl), (chain_sat mx l' o r Po Pm (fun a Ha => Patom mx l' a Pm Ha) Hr).
      destruct (gxs o), (existsb gsat l), (forallb axs l'); reflexivity.
  Qed.
  Lemma seen_ok_nil : seen_ok [] []. Proof. intros l []. Qed.

  Theorem union_intersect_exact l other r : Forall P l -> (match other with GS s => P s | GU l' => Forall P l' end) ->
    union_intersect l other = Ok r -> cxs r = existsb gsat l && cxs other.
  Proof.
    intros Pl Po H. unfold union_intersect in H.
    destruct other as [s|l'].
    - destruct s as [| |b|mx lb].
      + injection H as <-. cbn. rewrite andb_true_r. reflexivity.
      + injection H as <-. cbn. rewrite andb_false_r. reflexivity.
      + (* a single clause *)
        cbn [andb] in H. destruct (ax b && gs_in (SAtom b) l) eqn:C.
        { injection H as <-. apply andb_true_iff in C. destruct C as [_ C]. cbn [cxs gxs].
          destruct (axs b) eqn:B; [|rewrite andb_false_r; reflexivity]. rewrite (gs_in_sat (SAtom b) l C B). reflexivity. }
        assert (Pb : Forall P [SAtom b]) by (constructor; [exact Po|constructor]).
        destruct (subset_gs l [SAtom b]) eqn:S1.
        { injection H as <-. cbn [cxs gxs]. destruct (existsb gsat l) eqn:B; [|reflexivity].
          pose proof (subset_gs_sat l [SAtom b] S1 B) as Q. cbn in Q. rewrite orb_false_r in Q. rewrite Q. reflexivity. }
        destruct (subset_gs [SAtom b] l) eqn:S2.
        { injection H as <-. cbn [cxs gxs]. destruct (axs b) eqn:B; [|rewrite andb_false_r; reflexivity].
          assert (Q : existsb gsat [SAtom b] = true) by (cbn; rewrite B; reflexivity).
          rewrite (subset_gs_sat [SAtom b] l S2 Q). reflexivity. }
        destruct (mapR _ l) as [pieces|] eqn:Hp; [|discriminate]. cbn [bind] in H. injection H as <-.
        rewrite finish_union_sat, (fold_add_unseen_sat _ [] [] seen_ok_nil). cbn [existsb orb].
        rewrite (rows_sat l [SAtom b] pieces Pl Pb Hp). cbn. rewrite orb_false_r. reflexivity.
      + (* a conjunction *)
        cbn [andb] in H. destruct (mapR _ l) as [pieces|] eqn:Hp; [|discriminate]. cbn [bind] in H. injection H as <-.
        rewrite finish_union_sat, (fold_add_unseen_sat _ [] [] seen_ok_nil). cbn [existsb orb cxs gxs].
        exact (chains_sat mx lb l pieces Pl Po Hp).
    - (* a union *)
      destruct (subset_gs l l' && subset_gs l' l) eqn:C.
      { injection H as <-. apply andb_true_iff in C. destruct C as [C1 C2]. cbn [cxs].
        destruct (existsb gsat l) eqn:B; [|reflexivity]. rewrite (subset_gs_sat l l' C1 B). reflexivity. }
      cbn [andb] in H.
      destruct (subset_gs l l') eqn:S1.
      { injection H as <-. cbn [cxs]. destruct (existsb gsat l) eqn:B; [|reflexivity]. rewrite (subset_gs_sat l l' S1 B). reflexivity. }
      destruct (subset_gs l' l) eqn:S2.
      { injection H as <-. assert (Q : cxs (match l' with [s] => GS s | _ => GU l' end) = existsb gsat l').
        { destruct l' as [|s [|t r']]; cbn; rewrite ?orb_false_r; reflexivity. }
        rewrite Q. cbn [cxs]. destruct (existsb gsat l') eqn:B; [|rewrite andb_false_r; reflexivity]. rewrite (subset_gs_sat l' l S2 B). reflexivity. }
      destruct (mapR _ l) as [pieces|] eqn:Hp; [|discriminate]. cbn [bind] in H. injection H as <-.
      rewrite finish_union_sat, (fold_add_unseen_sat _ [] [] seen_ok_nil). cbn [existsb orb cxs].
      exact (rows_sat l l' pieces Pl Po Hp).
  Qed.
End Intersect.

Section Union.
  Notation gsat := gxs.
  Variable P : gs -> Prop.
  Hypothesis Hjoin : forall a b u, P a -> P b -> gs_union a b = Ok u -> cxs u = gxs a || gxs b.

  Lemma gss_eqb_sat : forall l l', gss_eqb l l' = true -> existsb gsat l = existsb gsat l'.
  Proof.
    induction l as [|a l IH]; intros [|b l'] H; try discriminate; [reflexivity|]. cbn in H. apply andb_true_iff in H. destruct H as [H1 H2].
    cbn [existsb]. rewrite (gs_eqb_sat a b H1), (IH l' H2). reflexivity.
  Qed.
  Lemma add_new_sat l s : existsb gsat (add_new l s) = existsb gsat l || gxs s.
  Proof.
    unfold add_new. destruct (gs_in s l) eqn:I.
    - destruct (gxs s) eqn:B; [|rewrite orb_false_r; reflexivity]. rewrite (gs_in_sat s l I B). reflexivity.
    - rewrite existsb_app. cbn. rewrite orb_false_r. reflexivity.
  Qed.
  Lemma fold_add_new_sat items : forall l, existsb gsat (fold_left add_new items l) = existsb gsat l || existsb gsat items.
  Proof.
    induction items as [|s items IH]; intros l; cbn [fold_left existsb]; [rewrite orb_false_r; reflexivity|].
    rewrite IH, add_new_sat, orb_assoc. reflexivity.
  Qed.

  (* the truth carried by a loop state; None = the universal constraint was reached *)
  Definition T (st : option (list gs * list gs * list gs)) : bool :=
    match st with None => true | Some (on, tn, mn) => existsb gsat on || existsb gsat tn || existsb gsat mn end.
  Definition step (their : gs) (acc : res (option (list gs * list gs * list gs))) (our : gs) :=
    do st <- acc;
    match st with
    | None => Ok None
    | Some (on, tn, mn) =>
      do u <- gs_union our their;
      if g_is_any u then Ok None
      else match u with
           | GS (SAtom ua) =>
             if gs_eqb (SAtom ua) our then Ok (Some (add_new on (SAtom ua), tn, mn))
             else if gs_eqb (SAtom ua) their then Ok (Some (on, add_new tn their, mn))
             else Ok (Some (on, tn, add_new mn (SAtom ua)))
           | _ => Ok (Some (add_new on our, add_new tn their, mn))
           end
    end.
  Lemma step_sat their our st st' : P our -> P their -> step their (Ok st) our = Ok st' ->
    T st' = T st || (gxs our || gxs their).
  Proof.
    intros Po Pt H. unfold step in H. cbn [bind] in H. destruct st as [[[on tn] mn]|]; [|injection H as <-; reflexivity].
    destruct (gs_union our their) as [u|] eqn:Hu; [|discriminate]. cbn [bind] in H.
    pose proof (Hjoin _ _ _ Po Pt Hu) as V.
    destruct (g_is_any u) eqn:An.
    { injection H as <-. destruct u as [[| | |]|]; try discriminate. cbn in V. rewrite <- V. cbn. rewrite orb_true_r. reflexivity. }
    destruct u as [[| |ua|mx lu]|lu].
    - injection H as <-. cbn [T]. rewrite !add_new_sat. cbn in V.
      destruct (existsb gsat on), (existsb gsat tn), (existsb gsat mn), (gxs our), (gxs their); try reflexivity; discriminate.
    - injection H as <-. cbn [T]. rewrite !add_new_sat.
      destruct (existsb gsat on), (existsb gsat tn), (existsb gsat mn), (gxs our), (gxs their); reflexivity.
    - cbn [cxs] in V. destruct (gs_eqb (SAtom ua) our) eqn:E1.
      + injection H as <-. cbn [T]. rewrite add_new_sat, V.
        destruct (existsb gsat on), (existsb gsat tn), (existsb gsat mn), (gxs our), (gxs their); reflexivity.
      + destruct (gs_eqb (SAtom ua) their) eqn:E2.
        * injection H as <-. cbn [T]. rewrite add_new_sat. rewrite <- (gs_eqb_sat _ _ E2), V.
          destruct (existsb gsat on), (existsb gsat tn), (existsb gsat mn), (gxs our), (gxs their); reflexivity.
        * injection H as <-. cbn [T]. rewrite add_new_sat, V.
          destruct (existsb gsat on), (existsb gsat tn), (existsb gsat mn), (gxs our), (gxs their); reflexivity.
    - injection H as <-. cbn [T]. rewrite !add_new_sat.
      destruct (existsb gsat on), (existsb gsat tn), (existsb gsat mn), (gxs our), (gxs their); reflexivity.
    - injection H as <-. cbn [T]. rewrite !add_new_sat.
      destruct (existsb gsat on), (existsb gsat tn), (existsb gsat mn), (gxs our), (gxs their); reflexivity.
  Qed.
  Lemma step_err their e ours : fold_left (step their) ours (Err e) = Err e.
  Proof. induction ours as [|o ours IH]; [reflexivity|]. cbn [fold_left]. exact IH. Qed.
  Lemma inner_sat their : P their -> forall ours st st', Forall P ours -> fold_left (step their) ours (Ok st) = Ok st' ->
    T st' = T st || existsb (fun o => gxs o || gxs their) ours.
  Proof.
    intros Pt. induction ours as [|o ours IH]; intros st st' Po H; cbn [fold_left existsb] in *.
    - injection H as <-. rewrite orb_false_r. reflexivity.
    - inversion Po as [|? ? Po1 Po2]; subst. destruct (step their (Ok st) o) as [st1|e] eqn:Hs; [|rewrite step_err in H; discriminate].
      rewrite (IH st1 st' Po2 H), (step_sat their o st st1 Po1 Pt Hs), !orb_assoc. reflexivity.
  Qed.
  Lemma outer_err ours e theirs : fold_left (fun acc their => fold_left (step their) ours acc) theirs (Err e) = Err e.
  Proof. induction theirs as [|t theirs IH]; [reflexivity|]. cbn [fold_left]. rewrite step_err. exact IH. Qed.
  Lemma outer_sat ours : Forall P ours -> forall theirs st st', Forall P theirs ->
    fold_left (fun acc their => fold_left (step their) ours acc) theirs (Ok st) = Ok st' ->
    T st' = T st || existsb (fun t => existsb (fun o => gxs o || gxs t) ours) theirs.
  Proof.
    intros Po. induction theirs as [|t theirs IH]; intros st st' Pt H; cbn [fold_left existsb] in *.
    - injection H as <-. rewrite orb_false_r. reflexivity.
    - inversion Pt as [|? ? Pt1 Pt2]; subst. destruct (fold_left (step t) ours (Ok st)) as [st1|e] eqn:Hi; [|rewrite outer_err in H; discriminate].
      rewrite (IH st1 st' Pt2 H), (inner_sat t Pt1 ours st st1 Po Hi), !orb_assoc. reflexivity.
  Qed.
  Lemma pairs_sat ours theirs : ours <> [] -> theirs <> [] ->
    existsb (fun t => existsb (fun o => gxs o || gxs t) ours) theirs = existsb gsat ours || existsb gsat theirs.
  Proof.
    intros No Nt.
    assert (In_ : forall t, existsb (fun o => gxs o || gxs t) ours = existsb gsat ours || gxs t).
    { intros t. destruct ours as [|o0 os]; [contradiction|]. clear No. revert o0. induction os as [|o os IH]; intros o0; cbn [existsb] in *.
      - rewrite !orb_false_r. reflexivity.
      - rewrite (IH o). cbn [existsb]. destruct (gxs o0), (gxs o), (gxs t), (existsb gsat os); reflexivity. }
    destruct theirs as [|t0 ts]; [contradiction|]. clear Nt. revert t0. induction ts as [|t ts IH]; intros t0; cbn [existsb] in *.
    - rewrite In_, !orb_false_r. reflexivity.
    - rewrite (IH t), !In_. cbn [existsb]. destruct (existsb gsat ours), (gxs t0), (gxs t), (existsb gsat ts); reflexivity.
  Qed.
  Lemma loop_is_fold ours theirs : union_union_loop ours theirs = fold_left (fun acc their => fold_left (step their) ours acc) theirs (Ok (Some ([], [], []))).
  Proof. reflexivity. Qed.

  Theorem union_union_exact l other r : l <> [] -> Forall P l ->
    (match other with GS s => P s | GU l' => Forall P l' /\ l' <> [] end) ->
    union_union l other = Ok r -> cxs r = existsb gsat l || cxs other.
  Proof.
    intros Nl Pl Po H. unfold union_union in H.
    assert (Loop : forall l', l' <> [] -> Forall P l' ->
              (do st <- union_union_loop l l';
               match st with
               | None => Ok (GS SAny)
               | Some (on, tn, mn) => let new := fold_left add_new (tn ++ mn) on in Ok (match new with [s] => GS s | _ => GU new end)
               end) = Ok r -> cxs r = existsb gsat l || existsb gsat l').
    { intros l' Nl' Pl' H'. destruct (union_union_loop l l') as [st|] eqn:Hl; [|discriminate]. cbn [bind] in H'.
      rewrite loop_is_fold in Hl. pose proof (outer_sat l Pl l' _ _ Pl' Hl) as Q. cbn [T existsb orb] in Q.
      rewrite (pairs_sat l l' Nl Nl') in Q. rewrite <- Q.
      destruct st as [[[on tn] mn]|]; cbv zeta in H'; injection H' as <-; [|reflexivity].
      cbv zeta.
      assert (E : forall new, cxs (match new with [s] => GS s | _ => GU new end) = existsb gsat new)
        by (intros [|s [|t r']]; cbn; rewrite ?orb_false_r; reflexivity).
      rewrite E, fold_add_new_sat, existsb_app. cbn [T]. rewrite orb_assoc. reflexivity. }
    destruct other as [s|l'].
    - destruct s as [| |b|mx lb].
      + injection H as <-. cbn. rewrite orb_true_r. reflexivity.
      + injection H as <-. cbn. rewrite orb_false_r. reflexivity.
      + cbn [g_eqb] in H. rewrite (Loop [SAtom b]) ; [cbn; rewrite orb_false_r; reflexivity | discriminate | constructor; [exact Po|constructor] | exact H].
      + cbn [g_eqb] in H.
        destruct (existsb (fun c => match c with SAtom a => atom_in a lb | _ => false end) l) eqn:C.
        * injection H as <-. cbn [cxs gxs]. destruct (forallb axs lb) eqn:B; [|rewrite orb_false_r; reflexivity].
          apply existsb_exists in C. destruct C as [c [Hc Hin]]. destruct c as [| |a|]; try discriminate.
          assert (Q : existsb gsat l = true) by (apply existsb_exists; exists (SAtom a); split; [exact Hc|exact (atom_in_sat a lb Hin B)]).
          rewrite Q. reflexivity.
        * injection H as <-.
          assert (E : cxs (match l ++ [SMulti mx lb] with [s] => GS s | new => GU new end) = existsb gsat (l ++ [SMulti mx lb])).
          { destruct (l ++ [SMulti mx lb]) as [|s [|t r']]; cbn; rewrite ?orb_false_r; reflexivity. }
          rewrite E, existsb_app. cbn. rewrite orb_false_r. reflexivity.
    - destruct Po as [Pl' Nl']. destruct (g_eqb (GU l') (GU l)) eqn:Eq.
      + injection H as <-. cbn [g_eqb] in Eq. cbn [cxs]. rewrite (gss_eqb_sat l' l Eq), orb_diag. reflexivity.
      + exact (Loop l' Nl' Pl' H).
  Qed.
End Union.


End X.
