(* Facts about the version order used by the range theory: release classes, how the PEP 440
   adjustments (first_devrelease, without_local, without_postrelease) sit in the order. *)
From Coq Require Import List Bool NArith ZArith String Ascii Lia.
From PC Require Import Base.Cmp Base.RankEmbed Model.Pep440 Spec.Pep440Spec Proofs.Pep440Order.
Import ListNotations.
Open Scope string_scope.
Open Scope N_scope.

(* ---------- key = class part + suffix part ---------- *)
Definition skeyT := (tagkey * (tagkey * (tagkey * list lkey)))%type.
Definition skey (v : version) : skeyT := (pre_key v, (post_key v, (dev_key v, local_key v))).
Definition cmp_skey : skeyT -> skeyT -> comparison :=
  cmp_pair cmp_tagkey (cmp_pair cmp_tagkey (cmp_pair cmp_tagkey (cmp_list cmp_lkey))).
Lemma vcmp_split v w : vcmp v w = lex (rcmp v w) (cmp_skey (skey v) (skey w)).
Proof.
  unfold vcmp, cmp_vkey, vkey, rcmp, skey, cmp_skey, cmp_pair. cbn [fst snd].
  destruct (epoch v ?= epoch w); reflexivity.
Qed.
Lemma cmp_skey_laws : ord_laws cmp_skey.
Proof.
  unfold cmp_skey.
  repeat first [ apply cmp_tagkey_laws | apply cmp_lkey_laws | apply cmp_pair_laws | apply cmp_list_laws ].
Qed.

Definition clt (v w : version) : bool := is_lt (rcmp v w).
Definition same_class (v w : version) : bool := is_eq (rcmp v w).

Lemma cross_class v w : same_class v w = false -> vcmp v w = rcmp v w.
Proof. unfold same_class. rewrite vcmp_split. destruct (rcmp v w); simpl; congruence. Qed.
Lemma same_class_cmp v w : same_class v w = true -> vcmp v w = cmp_skey (skey v) (skey w).
Proof. unfold same_class. rewrite vcmp_split. destruct (rcmp v w); simpl; congruence. Qed.
Lemma veqb_same_class v w : veqb v w = true -> same_class v w = true.
Proof.
  unfold veqb, same_class. rewrite vcmp_split. destruct (rcmp v w); simpl; congruence.
Qed.
Lemma clt_vltb v w : clt v w = true -> vltb v w = true.
Proof. unfold clt, vltb. rewrite vcmp_split. destruct (rcmp v w); simpl; congruence. Qed.

(* class is preserved when only the suffix changes *)
Lemma rcmp_congr_l v v' w : epoch v = epoch v' -> rel v = rel v' -> rcmp v w = rcmp v' w.
Proof. unfold rcmp. intros -> ->. reflexivity. Qed.
Lemma rcmp_congr_r v w w' : epoch w = epoch w' -> rel w = rel w' -> rcmp v w = rcmp v w'.
Proof. unfold rcmp. intros -> ->. reflexivity. Qed.

(* strict weak order facts in the shape RankEmbed wants *)
Lemma vlt_irrefl' x : vltb x x = false. Proof. apply vlt_irrefl. Qed.
Lemma vlt_trans' x y z : vltb x y = true -> vltb y z = true -> vltb x z = true.
Proof. apply vlt_trans. Qed.
Lemma vlt_neg x y z : vltb x y = false -> vltb y z = false -> vltb x z = false.
Proof.
  unfold vltb. intros H1 H2.
  assert (A : vcmp x y <> Lt) by (destruct (vcmp x y); simpl in H1; congruence).
  assert (B : vcmp y z <> Lt) by (destruct (vcmp y z); simpl in H2; congruence).
  destruct (vcmp x z) eqn:E; try reflexivity. exfalso.
  (* x < z, so either x < y or y < z *)
  destruct (vcmp x y) eqn:E1; try congruence.
  - rewrite (ol_eq_l vcmp_laws _ _ z E1) in E. congruence.
  - apply (ol_gt_lt vcmp_laws) in E1. pose proof (ol_lt_trans vcmp_laws _ _ _ E1 E). congruence.
Qed.
Lemma clt_irrefl x : clt x x = false.
Proof. unfold clt. rewrite (ol_refl rcmp_laws). reflexivity. Qed.
Lemma clt_trans x y z : clt x y = true -> clt y z = true -> clt x z = true.
Proof.
  unfold clt. intros H1 H2.
  destruct (rcmp x y) eqn:E1; simpl in H1; try discriminate.
  destruct (rcmp y z) eqn:E2; simpl in H2; try discriminate.
  rewrite (ol_lt_trans rcmp_laws _ _ _ E1 E2). reflexivity.
Qed.
Lemma clt_neg x y z : clt x y = false -> clt y z = false -> clt x z = false.
Proof.
  unfold clt. intros H1 H2.
  assert (A : rcmp x y <> Lt) by (destruct (rcmp x y); simpl in H1; congruence).
  assert (B : rcmp y z <> Lt) by (destruct (rcmp y z); simpl in H2; congruence).
  destruct (rcmp x z) eqn:E; try reflexivity. exfalso.
  destruct (rcmp x y) eqn:E1; try congruence.
  - rewrite (ol_eq_l rcmp_laws _ _ z E1) in E. congruence.
  - apply (ol_gt_lt rcmp_laws) in E1. pose proof (ol_lt_trans rcmp_laws _ _ _ E1 E). congruence.
Qed.

Definition vembed := embed version vltb clt vlt_irrefl' vlt_trans' vlt_neg clt_irrefl clt_trans clt_neg clt_vltb.

(* the other comparisons through vltb *)
Lemma vgtb_ltb x y : vgtb x y = vltb y x.
Proof. unfold vgtb, vltb. rewrite (ol_antisym vcmp_laws y x). destruct (vcmp x y); reflexivity. Qed.
Lemma veqb_ltb x y : veqb x y = negb (vltb x y) && negb (vltb y x).
Proof. unfold veqb, vltb. rewrite (ol_antisym vcmp_laws y x). destruct (vcmp x y); reflexivity. Qed.
Lemma same_class_clt x y : same_class x y = negb (clt x y) && negb (clt y x).
Proof. unfold same_class, clt. rewrite (ol_antisym rcmp_laws y x). destruct (rcmp x y); reflexivity. Qed.

(* ---------- adjustments keep the class ---------- *)
Lemma fd_class e : same_class (first_devrelease e) e = true.
Proof. unfold same_class. rewrite (rcmp_congr_l _ e) by reflexivity. rewrite (ol_refl rcmp_laws). reflexivity. Qed.
Lemma wl_class v : same_class (without_local v) v = true.
Proof. unfold same_class. rewrite (rcmp_congr_l _ v) by reflexivity. rewrite (ol_refl rcmp_laws). reflexivity. Qed.
Lemma wp_class v : same_class (without_postrelease v) v = true.
Proof.
  unfold same_class, without_postrelease. destruct (is_postrelease v).
  - rewrite (rcmp_congr_l _ v) by reflexivity. rewrite (ol_refl rcmp_laws). reflexivity.
  - rewrite (ol_refl rcmp_laws). reflexivity.
Qed.
Lemma same_class_trans x y z : same_class x y = true -> same_class y z = true -> same_class x z = true.
Proof.
  unfold same_class. intros H1 H2.
  destruct (rcmp x y) eqn:E1; simpl in H1; try discriminate.
  destruct (rcmp y z) eqn:E2; simpl in H2; try discriminate.
  rewrite (ol_eq_trans rcmp_laws _ _ _ E1 E2). reflexivity.
Qed.
Lemma same_class_sym x y : same_class x y = same_class y x.
Proof. unfold same_class. rewrite (ol_antisym rcmp_laws x y). destruct (rcmp y x); reflexivity. Qed.
Lemma same_class_rcmp_l x x' y : same_class x x' = true -> rcmp x y = rcmp x' y.
Proof. unfold same_class. intros H. destruct (rcmp x x') eqn:E; simpl in H; try discriminate. apply (ol_eq_l rcmp_laws); exact E. Qed.
Lemma same_class_rcmp_r x y y' : same_class y y' = true -> rcmp x y = rcmp x y'.
Proof. unfold same_class. intros H. destruct (rcmp y y') eqn:E; simpl in H; try discriminate. apply (ol_eq_r rcmp_laws); exact E. Qed.
(* comparisons across classes ignore adjustments on either side *)
Lemma cross_adjust v v' e e' : same_class v' v = true -> same_class e' e = true -> same_class v e = false ->
  vcmp v' e' = vcmp v e.
Proof.
  intros Hv He Hd.
  assert (Hd' : same_class v' e' = false).
  { unfold same_class in *. rewrite (same_class_rcmp_l v' v e' Hv), (same_class_rcmp_r v e' e He). exact Hd. }
  rewrite (cross_class _ _ Hd'), (cross_class _ _ Hd).
  rewrite (same_class_rcmp_l v' v e' Hv), (same_class_rcmp_r v e' e He). reflexivity.
Qed.

(* ---------- first_devrelease sits at or below its argument ---------- *)
Lemma key_of_tag_dev n : key_of_tag (mkTag PDev n) = ("dev", n). Proof. reflexivity. Qed.
Lemma nolocal_le l : l <> [] -> cmp_list cmp_lkey [(None, "")] (map lseg_key l) <> Gt.
Proof.
  destruct l as [|x l]; [congruence|]. intros _. cbn [map cmp_list].
  destruct x as [n|s]; unfold cmp_lkey at 1, cmp_pair; cbn [lseg_key fst snd cmp_opt_lo lex].
  - discriminate.
  - destruct s as [|c s]; cbn [String.compare lex].
    + destruct (map lseg_key l); discriminate.
    + discriminate.
Qed.
Lemma fd_le e : wf e = true -> vltb e (first_devrelease e) = false.
Proof.
  intros W0. unfold vltb. rewrite (ol_antisym vcmp_laws).
  rewrite (same_class_cmp _ _ (fd_class e)).
  unfold wf in W0. rewrite !andb_true_iff in W0. destruct W0 as [[W Wl] _].
  unfold wf_tags in W. rewrite !andb_true_iff in W. destruct W as [[Wp Wpo] Wd].
  unfold cmp_skey, skey, cmp_pair; cbn [fst snd].
  unfold first_devrelease, mk, pre_key, post_key, dev_key, local_key; cbn [pre post dev local].
  destruct (pre e) as [[pp pn]|], (post e) as [[pop pon]|], (dev e) as [[dp dn]|];
    cbn [t_ph] in *; try (destruct dp; try discriminate);
    rewrite ?(ol_refl cmp_tagkey_laws); cbn [lex CompOpp];
    try reflexivity.
  all: unfold key_of_tag, cmp_tagkey, cmp_pair; cbn [fst snd t_ph t_n phase_name];
       rewrite ?(ol_refl string_compare_laws); cbn [lex];
       destruct (0 ?= dn) eqn:E; cbn [lex CompOpp is_lt]; try reflexivity;
       [ unfold wf_local in Wl; destruct (local e) as [l|];
         [ assert (Hl : l <> []) by (destruct l; [discriminate|discriminate]);
           pose proof (nolocal_le l Hl) as Q; destruct (cmp_list cmp_lkey [(None, "")] (map lseg_key l)) eqn:EQ; try reflexivity; exfalso; apply Q; first [exact EQ | reflexivity]
         | reflexivity ]
       | rewrite N.compare_gt_iff in E; exfalso; lia ].
Qed.

(* ---------- what key equality determines (well-formed versions) ---------- *)
Lemma tagkey_eq_exact a b : cmp_tagkey a b = Eq -> a = b.
Proof. apply exact_pair; [apply exact_string | apply exact_N]. Qed.
Lemma skey_of_veqb v w : veqb v w = true -> skey v = skey w.
Proof.
  intros H. apply veqb_key in H. unfold vkey in H. unfold skey. congruence.
Qed.
Lemma wf_pre_key_some v : wf_tags v = true ->
  (pre v = None -> fst (pre_key v) = "z" \/ fst (pre_key v) = "") /\
  (forall t, pre v = Some t -> fst (pre_key v) = "a" \/ fst (pre_key v) = "b" \/ fst (pre_key v) = "rc").
Proof.
  unfold wf_tags, pre_key. rewrite !andb_true_iff. intros [[Wp _] _]. split.
  - intros ->. destruct (post v), (dev v); simpl; auto.
  - intros t Ht. rewrite Ht in *. destruct t as [p n]. simpl in *. destruct p; try discriminate; simpl; auto.
Qed.
Lemma veqb_flags v w : wf v = true -> wf w = true -> veqb v w = true ->
  is_prerelease v = is_prerelease w /\ is_postrelease v = is_postrelease w /\
  is_devrelease v = is_devrelease w /\ is_local v = is_local w.
Proof.
  intros Wv Ww H. apply skey_of_veqb in H. unfold skey in H.
  injection H as Hp Hpo Hd Hl.
  unfold wf in Wv, Ww. rewrite !andb_true_iff in Wv, Ww.
  destruct Wv as [[Wtv Wlv] _], Ww as [[Wtw Wlw] _].
  repeat split.
  - unfold is_prerelease.
    destruct (wf_pre_key_some v Wtv) as [Nv Sv], (wf_pre_key_some w Wtw) as [Nw Sw].
    destruct (pre v) as [tv|] eqn:Ev, (pre w) as [tw|] eqn:Ew; try reflexivity; exfalso.
    + specialize (Sv tv eq_refl). specialize (Nw eq_refl). rewrite Hp in Sv.
      destruct Sv as [S|[S|S]], Nw as [N|N]; rewrite S in N; discriminate.
    + specialize (Sw tw eq_refl). specialize (Nv eq_refl). rewrite <- Hp in Sw.
      destruct Sw as [S|[S|S]], Nv as [N|N]; rewrite S in N; discriminate.
  - unfold is_postrelease, post_key in *. unfold wf_tags in Wtv, Wtw. rewrite !andb_true_iff in Wtv, Wtw.
    destruct Wtv as [[_ Pv] _], Wtw as [[_ Pw] _].
    destruct (post v) as [[pv nv]|], (post w) as [[pw nw]|]; try reflexivity; exfalso;
      cbn [t_ph] in *; [destruct pv; try discriminate | destruct pw; try discriminate]; discriminate.
  - unfold is_devrelease, dev_key in *. unfold wf_tags in Wtv, Wtw. rewrite !andb_true_iff in Wtv, Wtw.
    destruct Wtv as [_ Dv], Wtw as [_ Dw].
    destruct (dev v) as [[pv nv]|], (dev w) as [[pw nw]|]; try reflexivity; exfalso;
      cbn [t_ph] in *; [destruct pv; try discriminate | destruct pw; try discriminate]; discriminate.
  - unfold is_local, local_key, wf_local in *.
    destruct (local v) as [[|x l]|], (local w) as [[|y l']|]; try reflexivity; try discriminate; exfalso.
    + cbn [map] in Hl. injection Hl as Hx Hrest. destruct x as [n|s]; cbn [lseg_key] in Hx; [discriminate|].
      injection Hx as Hs. apply andb_true_iff in Wlv. destruct Wlv as [Wx _]. rewrite Hs in Wx. discriminate.
    + cbn [map] in Hl. injection Hl as Hy Hrest. destruct y as [n|s]; cbn [lseg_key] in Hy; [discriminate|].
      injection Hy as Hs. apply andb_true_iff in Wlw. destruct Wlw as [Wy _]. rewrite <- Hs in Wy. discriminate.
Qed.

(* first_devrelease is strictly below a version without a dev segment *)
Lemma fd_lt e : wf e = true -> is_devrelease e = false -> vltb (first_devrelease e) e = true.
Proof.
  intros W0 Hd. unfold vltb. rewrite (same_class_cmp _ _ (fd_class e)).
  unfold wf in W0. rewrite !andb_true_iff in W0. destruct W0 as [[W Wl] _].
  unfold wf_tags in W. rewrite !andb_true_iff in W. destruct W as [[Wp Wpo] Wd].
  unfold cmp_skey, skey, cmp_pair; cbn [fst snd].
  unfold first_devrelease, mk, pre_key, post_key, dev_key, local_key, is_devrelease in *; cbn [pre post dev local].
  destruct (dev e); [discriminate|].
  destruct (pre e) as [[pp pn]|], (post e) as [[pop pon]|];
    rewrite ?(ol_refl cmp_tagkey_laws); cbn [lex]; reflexivity.
Qed.
(* its key depends on the key of the argument only *)
Lemma fd_congr v w : wf v = true -> wf w = true -> veqb v w = true ->
  veqb (first_devrelease v) (first_devrelease w) = true.
Proof.
  intros Wv Ww H. destruct (veqb_flags v w Wv Ww H) as (Fp & Fpo & _ & _).
  pose proof (veqb_same_class _ _ H) as Hc. apply skey_of_veqb in H. unfold skey in H.
  injection H as Hp Hpo Hd Hl.
  unfold veqb. rewrite vcmp_split.
  assert (Hr : rcmp (first_devrelease v) (first_devrelease w) = Eq).
  { rewrite (same_class_rcmp_l _ v _ (fd_class v)), (same_class_rcmp_r v _ w (fd_class w)).
    unfold same_class in Hc. destruct (rcmp v w); simpl in Hc; congruence. }
  rewrite Hr. cbn [lex].
  assert (Hs : skey (first_devrelease v) = skey (first_devrelease w)).
  { unfold skey, first_devrelease, mk, pre_key, post_key, dev_key, local_key, is_prerelease, is_postrelease in *;
      cbn [pre post dev local] in *.
    destruct (pre v) as [tv|], (pre w) as [tw|]; try discriminate;
    destruct (post v) as [pv|], (post w) as [pw|]; try discriminate;
    destruct (dev v), (dev w); congruence. }
  rewrite Hs, (ol_refl cmp_skey_laws). reflexivity.
Qed.

(* ---------- without_local / without_postrelease against an equal or foreign bound ---------- *)
Lemma wl_id v : is_local v = false -> skey (without_local v) = skey v.
Proof.
  unfold is_local, without_local, mk, skey, pre_key, post_key, dev_key, local_key; cbn [pre post dev local].
  destruct (local v); [discriminate|]. reflexivity.
Qed.
Lemma wf_mk e r p po d l : wf (mkV e r p po d l "") = true -> wf (mk e r p po d l) = true.
Proof. unfold wf, wf_tags, wf_local, mk. cbn [pre post dev local rel]. auto. Qed.
Lemma wf_text_irrelevant v t : wf v = wf (mkV (epoch v) (rel v) (pre v) (post v) (dev v) (local v) t).
Proof. reflexivity. Qed.
Lemma wf_fd e : wf e = true -> wf (first_devrelease e) = true.
Proof.
  unfold wf, wf_tags, wf_local, first_devrelease, mk. cbn [pre post dev local rel t_ph phase_eqb].
  intros H. rewrite !andb_true_iff in H. destruct H as [[[[Hp Hpo] Hd] Hl] Hr]. rewrite Hp, Hpo, Hr. reflexivity.
Qed.
Lemma wf_wl e : wf e = true -> wf (without_local e) = true.
Proof.
  unfold wf, wf_tags, wf_local, without_local, mk. cbn [pre post dev local rel].
  intros H. rewrite !andb_true_iff in H. destruct H as [[[[Hp Hpo] Hd] Hl] Hr]. rewrite Hp, Hpo, Hd, Hr. reflexivity.
Qed.
Lemma wf_wp e : wf e = true -> wf (without_postrelease e) = true.
Proof.
  unfold without_postrelease. destruct (is_postrelease e); [|auto].
  unfold wf, wf_tags, wf_local, mk. cbn [pre post dev local rel].
  intros H. rewrite !andb_true_iff in H. destruct H as [[[[Hp Hpo] Hd] Hl] Hr]. rewrite Hp, Hl, Hr. reflexivity.
Qed.
