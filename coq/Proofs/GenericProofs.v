(* C16: exactness of the string-constraint algebra on the == / != fragment (single-valued reading) and of
   inversion in both readings. *)
From Coq Require Import List Bool NArith String Ascii.
From PC Require Import Base.Cmp Base.Result Model.Pep440 Model.Generic.
Import ListNotations.
Open Scope string_scope.

Definition eqne (a : atom) : bool := match aop a with GEq | GNe => true | _ => false end.

Lemma gop_inv_invol o : gop_inv (gop_inv o) = o. Proof. destruct o; reflexivity. Qed.
(* inversion of a clause is the complement, in both readings *)
Lemma atom_invert_sat a x : atom_sat (atom_invert a) x = negb (atom_sat a x).
Proof. unfold atom_sat, atom_invert; cbn [aop av]. destruct (aop a); cbn; rewrite ?negb_involutive; reflexivity. Qed.
Lemma atom_invert_xsat a act : eqne a = true -> atom_xsat (atom_invert a) act = negb (atom_xsat a act).
Proof. unfold atom_xsat, atom_invert, eqne; cbn [aop av]. destruct (aop a); intros H; try discriminate; cbn; rewrite ?negb_involutive; reflexivity. Qed.

Lemma existsb_map' {A B} (f : B -> bool) (g : A -> B) l : existsb f (map g l) = existsb (fun x => f (g x)) l.
Proof. induction l as [|a l IH]; simpl; [reflexivity|]. rewrite IH. reflexivity. Qed.
Lemma existsb_ext_in' {A} (f g : A -> bool) l : (forall a, In a l -> f a = g a) -> existsb f l = existsb g l.
Proof. induction l as [|a l IH]; simpl; intros H; [reflexivity|]. rewrite (H a (or_introl eq_refl)), IH; auto. Qed.
(* a conjunction of clauses inverts to the disjunction of the inverted clauses, and back *)
Lemma existsb_negb_forallb {A} (f : A -> bool) l : existsb (fun a => negb (f a)) l = negb (forallb f l).
Proof. induction l as [|a l IH]; simpl; [reflexivity|]. rewrite IH. destruct (f a); reflexivity. Qed.
Theorem multi_invert_exact mx l x :
  forall c, g_invert (GS (SMulti mx l)) = Ok c -> sat c x = negb (sat (GS (SMulti mx l)) x).
Proof.
  intros c H. cbn in H. injection H as <-. cbn [sat].
  rewrite existsb_map'. cbn [gs_sat]. rewrite <- existsb_negb_forallb.
  apply existsb_ext_in'. intros a _. apply atom_invert_sat.
Qed.
Theorem multi_invert_exact_extras mx l act : forallb eqne l = true ->
  forall c, g_invert (GS (SMulti mx l)) = Ok c -> xsat c act = negb (xsat (GS (SMulti mx l)) act).
Proof.
  intros Hl c H. cbn in H. injection H as <-. cbn [xsat].
  rewrite existsb_map'. cbn [gs_xsat]. rewrite <- existsb_negb_forallb.
  apply existsb_ext_in'. intros a Ha. apply atom_invert_xsat.
  rewrite forallb_forall in Hl. auto.
Qed.

(* ---- clause x clause on the == / != fragment ---- *)
Lemma eqb_sym' a b : String.eqb a b = String.eqb b a. Proof. apply String.eqb_sym. Qed.
Lemma atom_eqb_true a b : ax a = false -> atom_eqb a b = true -> av a = av b /\ aop a = aop b.
Proof.
  unfold atom_eqb. intros Hx H. rewrite Hx in H. cbn in H. apply andb_true_iff in H. destruct H as [H1 H2].
  apply String.eqb_eq in H1. split; [exact H1|]. destruct (aop a), (aop b); try discriminate; reflexivity.
Qed.
Theorem atom_intersect_exact a b x : ax a = false -> ax b = false -> eqne a = true -> eqne b = true ->
  forall r, atom_intersect_atom a b = Ok r -> gs_sat r x = atom_sat a x && atom_sat b x.
Proof.
  intros Xa Xb Ea Eb r. unfold atom_intersect_atom. rewrite Xa.
  destruct (atom_eqb b a) eqn:Eq.
  { intros [= <-]. cbn [gs_sat]. destruct (atom_eqb_true b a Xb Eq) as [Hv Ho].
    assert (Hs : atom_sat b x = atom_sat a x) by (unfold atom_sat; rewrite Hv, Ho; reflexivity).
    rewrite Hs, andb_diag. reflexivity. }
  unfold eqne in Ea, Eb.
  assert (Eq' : String.eqb (av b) (av a) && gop_eqb (aop b) (aop a) = false).
  { unfold atom_eqb in Eq. rewrite Xb in Eq. exact Eq. }
  unfold atom_allows_all_atom, atom_allows_any_atom, atom_sat, atom_eqb, mk_multi, multi_ops_ok.
  rewrite ?Xa, ?Xb. cbn [andb].
  destruct (aop a) eqn:Oa, (aop b) eqn:Ob; try discriminate; cbn [gop_eqb andb orb negb forallb] in *;
    rewrite ?andb_false_r, ?andb_true_r in *;
    destruct (String.eqb_spec (av a) (av b)) as [Hab|Hab];
    try (rewrite Hab in *; rewrite ?String.eqb_refl in *); try discriminate;
    try (assert (Hba : String.eqb (av b) (av a) = false) by (apply String.eqb_neq; congruence); rewrite ?Hba in * );
    cbn [andb orb negb]; rewrite ?Oa, ?Ob; cbn [andb]; intros H; injection H as <-; cbn [gs_sat forallb]; unfold atom_sat; rewrite ?Oa, ?Ob; cbn [andb];
    destruct (String.eqb_spec x (av a)) as [Hxa|Hxa]; destruct (String.eqb_spec x (av b)) as [Hxb|Hxb];
    cbn; try reflexivity; try congruence.
Qed.

Theorem atom_union_exact a b x : ax a = false -> ax b = false -> eqne a = true -> eqne b = true ->
  forall r, atom_union_atom a b = Ok r -> sat r x = atom_sat a x || atom_sat b x.
Proof.
  intros Xa Xb Ea Eb r. unfold atom_union_atom. rewrite Xa.
  destruct (atom_eqb b a) eqn:Eq.
  { intros [= <-]. cbn [sat gs_sat]. destruct (atom_eqb_true b a Xb Eq) as [Hv Ho].
    assert (Hs : atom_sat b x = atom_sat a x) by (unfold atom_sat; rewrite Hv, Ho; reflexivity).
    rewrite Hs, orb_diag. reflexivity. }
  unfold eqne in Ea, Eb.
  assert (Eq' : String.eqb (av b) (av a) && gop_eqb (aop b) (aop a) = false).
  { unfold atom_eqb in Eq. rewrite Xb in Eq. exact Eq. }
  unfold atom_allows_all_atom, atom_sat, atom_eqb, atom_invert, ops_are.
  rewrite ?Xa, ?Xb. cbn [andb ax av aop].
  destruct (aop a) eqn:Oa, (aop b) eqn:Ob; try discriminate; cbn [gop_eqb gop_inv andb orb negb] in *;
    rewrite ?andb_false_r, ?andb_true_r, ?orb_false_r in *;
    destruct (String.eqb_spec (av a) (av b)) as [Hab|Hab];
    try (rewrite Hab in *; rewrite ?String.eqb_refl in *); try discriminate;
    try (assert (Hba : String.eqb (av b) (av a) = false) by (apply String.eqb_neq; congruence); rewrite ?Hba in * );
    cbn [andb orb negb]; intros H; injection H as <-; cbn [sat gs_sat existsb]; unfold atom_sat; rewrite ?Oa, ?Ob; cbn [andb orb];
    destruct (String.eqb_spec x (av a)) as [Hxa|Hxa]; destruct (String.eqb_spec x (av b)) as [Hxb|Hxb];
    cbn; try reflexivity; try congruence.
Qed.

(* a conjunction of != clauses meets one more clause *)
Definition all_ne (l : list atom) : bool := forallb (fun a => match aop a with GNe => true | _ => false end && negb (ax a)) l.
Lemma atom_in_spec b l : atom_in b l = true -> ax b = false -> exists c, In c l /\ av b = av c /\ aop b = aop c.
Proof.
  unfold atom_in. intros H Xb. apply existsb_exists in H. destruct H as [c [Hc E]].
  exists c. split; [exact Hc|]. apply atom_eqb_true; assumption.
Qed.
Theorem multi_intersect_atom_exact l b x : all_ne l = true -> ax b = false -> eqne b = true ->
  forall r, multi_intersect_atom false l b = Ok r ->
  gs_sat r x = forallb (fun a => atom_sat a x) l && atom_sat b x.
Proof.
  intros Hl Xb Eb r. unfold multi_intersect_atom. cbn [negb].
  destruct (atom_in b l) eqn:In_.
  { intros [= <-]. cbn [gs_sat]. destruct (atom_in_spec b l In_ Xb) as [c [Hc [Hv Ho]]].
    destruct (forallb (fun a => atom_sat a x) l) eqn:F; [|reflexivity].
    rewrite forallb_forall in F. specialize (F c Hc). unfold atom_sat in *. rewrite Hv, Ho. rewrite F. reflexivity. }
  destruct (gop_eqb (aop b) GEq) eqn:Ob.
  - (* == v: either all clauses admit v, or the meet is empty *)
    assert (Ob' : aop b = GEq) by (destruct (aop b); try discriminate; reflexivity).
    assert (Hb : atom_sat b x = String.eqb x (av b)) by (unfold atom_sat; rewrite Ob'; reflexivity).
    destruct (forallb (fun a => atom_sat a (av b)) l) eqn:F; intros [= <-]; cbn [gs_sat]; rewrite Hb.
    + destruct (String.eqb_spec x (av b)) as [->|Hx]; [rewrite F; reflexivity|rewrite andb_false_r; reflexivity].
    + destruct (String.eqb_spec x (av b)) as [->|Hx]; [rewrite F; reflexivity|rewrite andb_false_r; reflexivity].
  - destruct (atom_in (atom_invert b) l) eqn:Iv.
    + (* cannot happen for != clauses only, but the answer is right anyway *)
      intros [= <-]. cbn [gs_sat]. destruct (atom_in_spec (atom_invert b) l Iv Xb) as [c [Hc [Hv Ho]]].
      destruct (forallb (fun a => atom_sat a x) l) eqn:F; [|reflexivity].
      rewrite forallb_forall in F. specialize (F c Hc).
      assert (Hs : atom_sat c x = atom_sat (atom_invert b) x) by (unfold atom_sat; rewrite <- Hv, <- Ho; reflexivity).
      rewrite Hs, atom_invert_sat in F. destruct (atom_sat b x); [discriminate|reflexivity].
    + unfold mk_multi. destruct (multi_ops_ok false (l ++ [b])); [|discriminate].
      intros [= <-]. cbn [gs_sat]. rewrite forallb_app. cbn [forallb]. rewrite andb_true_r. reflexivity.
Qed.
(* two conjunctions of != clauses: the meet is the merged clause list *)
Theorem multi_intersect_multi_exact l l' x :
  forall r, multi_intersect_multi false l l' = Ok r ->
  gs_sat r x = forallb (fun a => atom_sat a x) l && forallb (fun a => atom_sat a x) l'.
Proof.
  intros r. unfold multi_intersect_multi. cbn [andb]. unfold mk_multi.
  destruct (multi_ops_ok false _); [|discriminate]. intros [= <-]. cbn [gs_sat].
  rewrite forallb_app.
  destruct (forallb (fun a => atom_sat a x) l) eqn:F; [|reflexivity]. cbn [andb].
  (* dropping clauses already present in l does not change the conjunction *)
  induction l' as [|c l' IH]; [reflexivity|]. cbn [filter forallb].
  destruct (atom_in c l) eqn:I; cbn [negb].
  - rewrite IH. unfold atom_in in I. apply existsb_exists in I. destruct I as [d [Hd E]].
    rewrite forallb_forall in F. specialize (F d Hd).
    assert (Hs : atom_sat c x = atom_sat d x).
    { unfold atom_eqb in E. apply andb_true_iff in E. destruct E as [E Eo]. apply andb_true_iff in E. destruct E as [_ Ev].
      apply String.eqb_eq in Ev. unfold atom_sat. rewrite Ev. destruct (aop c), (aop d); try discriminate; reflexivity. }
    rewrite Hs, F. reflexivity.
  - cbn [forallb]. rewrite IH. reflexivity.
Qed.
