(* C04: the ranges the parser builds for the PEP 440 comparison operators admit exactly what the
   specifier semantics of Spec/Specifier.v admits — for every candidate, regular or not. *)
From Coq Require Import List Bool NArith ZArith String Ascii Lia.
From PC Require Import Base.Cmp Base.Result Model.Pep440 Spec.Pep440Spec Spec.Specifier Proofs.Pep440Order
     Proofs.VersionFacts Model.VConstraint Proofs.RangeSpec.
Import ListNotations.
Open Scope string_scope.

Definition is_final (v : version) : bool :=
  negb (is_prerelease v) && negb (is_postrelease v) && negb (is_devrelease v) && negb (is_local v).

Lemma same_release_same_class c l : same_release c l = same_class c l.
Proof. reflexivity. Qed.

(* >= L : VersionRange(min=L, include_min=True) *)
Theorem ge_agrees l c : is_local l = false ->
  r_allows (RR (Some l) None true false) c = sp_ge l c.
Proof.
  intros Hl. unfold r_allows, rr_allows, rr_allows_lo, rr_allows_hi, allowed_max, sp_ge, public.
  cbn [rmin rmax imin imax negb andb]. rewrite Hl. cbn [negb andb]. rewrite andb_true_r.
  destruct (is_local c); destruct (vltb _ l); reflexivity.
Qed.
(* <= L : VersionRange(max=L, include_max=True) *)
Theorem le_agrees l c : is_local l = false ->
  r_allows (RR None (Some l) false true) c = sp_le l c.
Proof.
  intros Hl. unfold r_allows, rr_allows, rr_allows_lo, rr_allows_hi, allowed_max, sp_le, public.
  cbn [rmin rmax imin imax negb andb orb]. rewrite Hl. cbn [negb andb].
  destruct (is_local c); rewrite vgtb_ltb; destruct (vltb l _); reflexivity.
Qed.
(* == L / bare L : Version.allows *)
Theorem eq_agrees l c : r_allows (RV l) c = sp_eq l c.
Proof.
  unfold r_allows, v_allows, sp_eq, public. destruct (is_local l); cbn [negb andb].
  - apply veqb_sym.
  - destruct (is_local c); apply veqb_sym.
Qed.

(* within the class of a final release L: nothing without a post segment and without a local label
   is above L, and nothing is below L.dev0 *)
Lemma final_skey l : is_final l = true -> skey l = (INF_TAG, (NEG_INF_TAG, (INF_TAG, [(None, "")]))).
Proof.
  unfold is_final, is_prerelease, is_postrelease, is_devrelease, is_local, skey, pre_key, post_key, dev_key, local_key.
  destruct (pre l), (post l), (dev l), (local l); cbn; intros H; try discriminate. reflexivity.
Qed.
Lemma tag_le_inf t : match t_ph t with PA | PB | PRC | PDev | PPost => True end ->
  cmp_tagkey (key_of_tag t) INF_TAG = Lt.
Proof. destruct t as [p n]. destruct p; intros _; reflexivity. Qed.
Lemma not_above_final l x : wf x = true -> is_final l = true -> same_class x l = true ->
  is_postrelease x = false -> is_local x = false -> vltb l x = false.
Proof.
  intros Wx Fl Sc Hpo Hlo. unfold vltb. rewrite same_class_sym in Sc. rewrite (same_class_cmp _ _ Sc).
  rewrite (final_skey l Fl). unfold skey, cmp_skey, cmp_pair; cbn [fst snd].
  unfold is_postrelease, is_local, pre_key, post_key, dev_key, local_key in *.
  destruct (post x); [discriminate|]. destruct (local x); [discriminate|].
  destruct (pre x) as [tp|], (dev x) as [td|]; cbn [lex].
  - rewrite (ol_antisym cmp_tagkey_laws), tag_le_inf by (destruct (t_ph tp); exact I). reflexivity.
  - rewrite (ol_antisym cmp_tagkey_laws), tag_le_inf by (destruct (t_ph tp); exact I). reflexivity.
  - reflexivity.
  - reflexivity.
Qed.
Lemma not_below_first_dev l x : wf x = true -> is_final l = true -> same_class x l = true ->
  vltb x (first_devrelease l) = false.
Proof.
  intros Wx Fl Sc. unfold vltb.
  assert (Sc' : same_class x (first_devrelease l) = true).
  { rewrite same_class_sym. eapply same_class_trans; [apply fd_class|]. rewrite same_class_sym. exact Sc. }
  rewrite (same_class_cmp _ _ Sc').
  unfold is_final, is_prerelease, is_postrelease, is_devrelease, is_local in Fl.
  unfold wf in Wx. rewrite !andb_true_iff in Wx. destruct Wx as [[Wt Wl] _].
  unfold wf_tags in Wt. rewrite !andb_true_iff in Wt. destruct Wt as [[Wp Wpo] Wd].
  unfold skey, cmp_skey, cmp_pair, first_devrelease, mk, pre_key, post_key, dev_key, local_key; cbn [fst snd pre post dev local].
  destruct (pre l), (post l), (dev l), (local l); try discriminate. clear Fl.
  destruct (pre x) as [[pp pn]|]; cbn [t_ph] in *.
  - destruct pp; try discriminate; reflexivity.
  - destruct (post x) as [[pop pon]|]; cbn [t_ph] in *.
    + reflexivity.
    + destruct (dev x) as [[dp dn]|]; cbn [t_ph] in *; [|reflexivity].
      destruct dp; try discriminate. rewrite ?(ol_refl cmp_tagkey_laws). cbn [lex].
      unfold key_of_tag, cmp_tagkey, cmp_pair; cbn [fst snd t_ph t_n phase_name].
      rewrite (ol_refl string_compare_laws). cbn [lex].
      destruct (dn ?= 0)%N eqn:E; cbn [lex is_lt]; try reflexivity.
      * unfold wf_local in Wl. destruct (local x) as [lx|]; [|reflexivity].
        assert (Hne : lx <> []) by (destruct lx; discriminate).
        pose proof (nolocal_le lx Hne) as Q.
        rewrite (ol_antisym (cmp_list_laws cmp_lkey_laws)).
        destruct (cmp_list cmp_lkey [(None, "")] (map lseg_key lx)) eqn:EQ; try reflexivity. congruence.
      * rewrite N.compare_lt_iff in E. exfalso. lia.
Qed.

(* > L for a final release L: post-releases and local builds of L are rejected *)
Theorem gt_final_agrees l c : wf l = true -> wf c = true -> is_final l = true ->
  r_allows (RR (Some l) None false false) c = sp_gt l c.
Proof.
  intros Wl Wc Fl.
  assert (Fl' := Fl). unfold is_final in Fl'. rewrite !andb_true_iff, !negb_true_iff in Fl'.
  destruct Fl' as [[[Hpre Hpost] Hdev] Hloc].
  unfold r_allows, rr_allows, rr_allows_lo, rr_allows_hi, allowed_max, sp_gt.
  cbn [rmin rmax imin imax negb andb]. rewrite Hpost, Hloc. cbn [negb andb]. rewrite andb_true_r.
  set (o1 := if is_postrelease c then without_postrelease c else c).
  set (o2 := if is_local o1 then without_local o1 else o1).
  assert (C1 : same_class o1 c = true) by (unfold o1; destruct (is_postrelease c); [apply wp_class | apply same_class_refl]).
  assert (C2 : same_class o2 c = true).
  { unfold o2. destruct (is_local o1); [|exact C1]. eapply same_class_trans; [apply wl_class | exact C1]. }
  rewrite same_release_same_class.
  destruct (same_class c l) eqn:Sc.
  - (* same release: both sides reject *)
    assert (R : (if vltb o2 l then false else if veqb o2 l then false else true) = false).
    { assert (W1 : wf o1 = true) by (unfold o1; destruct (is_postrelease c); [apply wf_wp|]; assumption).
      assert (W2 : wf o2 = true) by (unfold o2; destruct (is_local o1); [apply wf_wl|]; assumption).
      assert (Np1 : is_postrelease o1 = false).
      { unfold o1. destruct (is_postrelease c) eqn:Pc; [|exact Pc].
        unfold without_postrelease. rewrite Pc. reflexivity. }
      assert (Np : is_postrelease o2 = false).
      { unfold o2. destruct (is_local o1); [|exact Np1]. exact Np1. }
      assert (Nl : is_local o2 = false).
      { unfold o2. destruct (is_local o1) eqn:L1; [reflexivity|exact L1]. }
      pose proof (not_above_final l o2 W2 Fl (same_class_trans _ _ _ C2 Sc) Np Nl) as NA.
      destruct (vltb o2 l) eqn:A; [reflexivity|].
      rewrite veqb_ltb, A, NA. reflexivity. }
    rewrite R. rewrite !andb_true_r.
    destruct (vltb l c) eqn:G; [|reflexivity]. cbn [andb].
    (* c > l in the same class: c is a post-release or carries a local label *)
    destruct (is_postrelease c) eqn:Pc; [reflexivity|].
    destruct (is_local c) eqn:Lc; [reflexivity|].
    rewrite (not_above_final l c Wc Fl Sc Pc Lc) in G. discriminate.
  - (* another release: the adjustments are invisible *)
    destruct (cross_lt c o2 l l C2 (same_class_refl _) Sc) as (A & B & C).
    rewrite A, C. rewrite !andb_false_r. cbn [negb]. rewrite !andb_true_r.
    unfold vltb. rewrite (ol_antisym vcmp_laws l c).
    pose proof (other_class_not_eq _ _ Sc) as NE. unfold veqb in NE.
    destruct (vcmp c l); cbn in *; try discriminate; reflexivity.
Qed.

(* < L for a final release L: pre-releases and dev releases of L are rejected *)
Theorem lt_final_agrees l c : wf l = true -> wf c = true -> is_final l = true ->
  r_allows (RR None (Some l) false false) c = sp_lt l c.
Proof.
  intros Wl Wc Fl.
  assert (Fl' := Fl). unfold is_final in Fl'. rewrite !andb_true_iff, !negb_true_iff in Fl'.
  destruct Fl' as [[[Hpre Hpost] Hdev] Hloc].
  unfold r_allows, rr_allows, rr_allows_lo, rr_allows_hi, allowed_max, sp_lt, sp_is_prerelease, is_unstable.
  cbn [rmin rmax imin imax negb andb orb oveq]. rewrite Hpre, Hdev. cbn [negb andb orb].
  set (fd := first_devrelease l). assert (Lfd : is_local fd = false) by reflexivity. rewrite Lfd. cbn [negb andb].
  set (o := if is_local c then without_local c else c).
  assert (Co : same_class o c = true) by (unfold o; destruct (is_local c); [apply wl_class | apply same_class_refl]).
  assert (Wo : wf o = true) by (unfold o; destruct (is_local c); [apply wf_wl|]; assumption).
  rewrite same_release_same_class.
  destruct (same_class c l) eqn:Sc.
  - (* same release *)
    assert (NB : vltb o fd = false) by (apply not_below_first_dev; auto; eapply same_class_trans; eauto).
    assert (R : (if vgtb o fd then false else if veqb o l || veqb o fd then false else true) = false).
    { rewrite vgtb_ltb. destruct (vltb fd o) eqn:A; [reflexivity|].
      rewrite (veqb_ltb o fd), NB, A. cbn. rewrite orb_true_r. reflexivity. }
    rewrite R. rewrite andb_true_r.
    destruct (vltb c l) eqn:L; [|reflexivity]. cbn [andb].
    (* c < l in the same class: c has a pre or a dev segment *)
    destruct (is_prerelease c || is_devrelease c) eqn:U; [reflexivity|].
    exfalso. apply orb_false_iff in U. destruct U as [U1 U2].
    (* c has neither: its key is at least that of l *)
    unfold vltb in L. rewrite (same_class_cmp _ _ Sc), (final_skey l Fl) in L.
    unfold skey, cmp_skey, cmp_pair, pre_key, post_key, dev_key, local_key, is_prerelease, is_devrelease in *; cbn [fst snd] in L.
    destruct (pre c); [discriminate|]. destruct (dev c); [discriminate|].
    unfold wf in Wc. rewrite !andb_true_iff in Wc. destruct Wc as [[Wt Wlc] _].
    unfold wf_tags in Wt. rewrite !andb_true_iff in Wt. destruct Wt as [[_ Wpo] _].
    destruct (post c) as [[pop pon]|]; cbn [t_ph] in *.
    + destruct pop; try discriminate; cbn in L; discriminate.
    + cbn [lex] in L. rewrite !(ol_refl cmp_tagkey_laws) in L. cbn [lex] in L.
      unfold wf_local in Wlc. destruct (local c) as [lx|]; [|cbn in L; discriminate].
      assert (Hne : lx <> []) by (destruct lx; discriminate).
      pose proof (nolocal_le lx Hne) as Q.
      rewrite (ol_antisym (cmp_list_laws cmp_lkey_laws)) in L.
      destruct (cmp_list cmp_lkey [(None, "")] (map lseg_key lx)) eqn:EQ; cbn in L; try discriminate. congruence.
  - destruct (cross_lt c o l fd Co (fd_class l) Sc) as (A & B & C).
    destruct (cross_lt c o l l Co (same_class_refl _) Sc) as (A' & B' & C').
    rewrite vgtb_ltb, B, C, C'. cbn [orb]. rewrite andb_false_r. cbn [negb]. rewrite andb_true_r.
    unfold vltb. rewrite (ol_antisym vcmp_laws l c).
    pose proof (other_class_not_eq _ _ Sc) as NE. unfold veqb in NE.
    destruct (vcmp c l); cbn in *; try discriminate; reflexivity.
Qed.
