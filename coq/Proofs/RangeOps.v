(* Range level, tier A: intersection / union / difference of two range-likes are exact on regular
   probes; composed from the bound-comparison specifications of RangeAlg.v. *)
From Coq Require Import List Bool NArith ZArith String Ascii Lia.
From PC Require Import Base.Cmp Base.Result Model.Pep440 Spec.Pep440Spec Proofs.Pep440Order
     Proofs.VersionFacts Model.VConstraint Proofs.RangeSpec Proofs.RangeAlg.
Import ListNotations.

Definition vmem (c : vc) (v : version) : bool :=
  match c with VEmpty => false | VOne r => mem r v | VUnion l => existsb (fun r => mem r v) l end.
Definition proper (r : rng) : bool :=
  match r with RR (Some lo) (Some hi) _ _ => vltb lo hi | _ => true end.
Definition cbounds (c : vc) : list version := flat_map rbounds (flatten c).

Section RRxRR.
  Variables a b : rng.
  Hypothesis Wa : wf_rng a = true.
  Hypothesis Wb : wf_rng b = true.

  (* the chosen lower / upper bounds are exact for every regular probe *)
  Lemma chosen_lower v : regular_r v a = true -> regular_r v b = true ->
    above (if allows_lower a b then b else a) v = above a v && above b v.
  Proof.
    intros Ra Rb. destruct (allows_lower_spec a b v Ra Rb) as [T F].
    destruct (allows_lower a b) eqn:E.
    - destruct (above b v) eqn:Ab; [rewrite (T eq_refl eq_refl); reflexivity | rewrite andb_false_r; reflexivity].
    - destruct (above a v) eqn:Aa; [rewrite (F eq_refl eq_refl); reflexivity | reflexivity].
  Qed.
  Lemma chosen_upper v : regular_r v a = true -> regular_r v b = true ->
    below (if allows_higher a b then b else a) v = below a v && below b v.
  Proof.
    intros Ra Rb. destruct (allows_higher_spec a b v Wa Wb Ra Rb) as [T F].
    destruct (allows_higher a b) eqn:E.
    - destruct (below b v) eqn:Bb; [rewrite (T eq_refl eq_refl); reflexivity | rewrite andb_false_r; reflexivity].
    - destruct (below a v) eqn:Ba; [rewrite (F eq_refl eq_refl); reflexivity | reflexivity].
  Qed.
  Lemma weaker_lower v : regular_r v a = true -> regular_r v b = true ->
    above (if allows_lower a b then a else b) v = above a v || above b v.
  Proof.
    intros Ra Rb. destruct (allows_lower_spec a b v Ra Rb) as [T F].
    destruct (allows_lower a b) eqn:E.
    - destruct (above b v) eqn:Ab; [rewrite (T eq_refl eq_refl); reflexivity | rewrite orb_false_r; reflexivity].
    - destruct (above a v) eqn:Aa; [rewrite (F eq_refl eq_refl); reflexivity | reflexivity].
  Qed.
  Lemma weaker_upper v : regular_r v a = true -> regular_r v b = true ->
    below (if allows_higher a b then a else b) v = below a v || below b v.
  Proof.
    intros Ra Rb. destruct (allows_higher_spec a b v Wa Wb Ra Rb) as [T F].
    destruct (allows_higher a b) eqn:E.
    - destruct (below b v) eqn:Bb; [rewrite (T eq_refl eq_refl); reflexivity | rewrite orb_false_r; reflexivity].
    - destruct (below a v) eqn:Ba; [rewrite (F eq_refl eq_refl); reflexivity | reflexivity].
  Qed.
End RRxRR.

(* above/below only look at one side of a range *)
Lemma above_RR lo hi i j v : above (RR lo hi i j) v = match lo with None => true | Some m => vltb m v || (veqb v m && i) end.
Proof. reflexivity. Qed.
Lemma below_RR lo hi i j v : below (RR lo hi i j) v = match hi with None => true | Some m => vltb v m || (veqb v m && j) end.
Proof. reflexivity. Qed.
Lemma above_eq r r' v : rmin r = rmin r' -> imin r = imin r' -> above r v = above r' v.
Proof. unfold above. intros -> ->. reflexivity. Qed.
Lemma below_eq r r' v : rmax r = rmax r' -> imax r = imax r' -> below r v = below r' v.
Proof. unfold below. intros -> ->. reflexivity. Qed.

Lemma mem_single m v : mem (RV m) v = veqb v m.
Proof.
  unfold mem, above, below; cbn [rmin rmax imin imax]. rewrite !andb_true_r.
  rewrite (veqb_ltb v m). destruct (vltb m v) eqn:A, (vltb v m) eqn:B; cbn; try reflexivity.
  (* both strict: impossible *)
  pose proof (vlt_trans _ _ _ A B) as Q. rewrite vlt_irrefl in Q. discriminate.
Qed.
Lemma mem_closed_point m m' v : veqb m m' = true -> mem (RR (Some m) (Some m') true true) v = veqb v m.
Proof.
  intros E. unfold mem, above, below; cbn [rmin rmax imin imax]. rewrite !andb_true_r.
  rewrite <- (veqb_lt_r _ _ v E). rewrite (veqb_sym v m'), <- (veqb_eq_l _ _ v E), (veqb_sym m v).
  rewrite (veqb_ltb v m). destruct (vltb m v) eqn:A, (vltb v m) eqn:B; cbn; try reflexivity.
  pose proof (vlt_trans _ _ _ A B) as Q. rewrite vlt_irrefl in Q. discriminate.
Qed.

Theorem rr_intersect_exact lo hi i j lo' hi' i' j' :
  let a := RR lo hi i j in let b := RR lo' hi' i' j' in
  wf_rng a = true -> wf_rng b = true -> proper a = true -> proper b = true ->
  exists c, r_intersect a b = Ok c /\
    (forall v, regular_r v a = true -> regular_r v b = true -> vmem c v = mem a v && mem b v) /\
    incl (cbounds c) (rbounds a ++ rbounds b).
Proof.
  intros a b Wa Wb Pa Pb.
  unfold r_intersect. fold a b.
  (* emptiness test *)
  destruct (if allows_lower a b then is_strictly_lower a b else is_strictly_lower b a) eqn:SL.
  { exists VEmpty. split; [reflexivity|]. split; [|intros x []].
    intros v Ra Rb. cbn [vmem]. symmetry. apply not_true_iff_false. intros H.
    unfold mem in H. rewrite !andb_true_iff in H. destruct H as [[Aa Ba] [Ab Bb]].
    destruct (allows_lower a b).
    - destruct (strictly_lower_spec a b v Wa Ra Rb) as [T _]. exact (T SL Ba Ab).
    - destruct (strictly_lower_spec b a v Wb Rb Ra) as [T _]. exact (T SL Bb Aa). }
  set (L := if allows_lower a b then b else a).
  set (U := if allows_higher a b then b else a).
  assert (EL : (if allows_lower a b then (rmin b, imin b) else (rmin a, imin a)) = (rmin L, imin L))
    by (unfold L; destruct (allows_lower a b); reflexivity).
  assert (EU : (if allows_higher a b then (rmax b, imax b) else (rmax a, imax a)) = (rmax U, imax U))
    by (unfold U; destruct (allows_higher a b); reflexivity).
  rewrite EL, EU.
  set (res := RR (rmin L) (rmax U) (imin L) (imax U)).
  assert (Hres : forall v, regular_r v a = true -> regular_r v b = true -> mem res v = mem a v && mem b v).
  { intros v Ra Rb. unfold mem.
    rewrite (above_eq res L v eq_refl eq_refl), (below_eq res U v eq_refl eq_refl).
    unfold L, U. rewrite (chosen_lower a b v Ra Rb), (chosen_upper a b Wa Wb v Ra Rb).
    destruct (above a v), (above b v), (below a v), (below b v); reflexivity. }
  assert (Hincl : incl (rbounds res) (rbounds a ++ rbounds b)).
  { unfold res, rbounds; cbn [rmin rmax]. unfold L, U.
    destruct (allows_lower a b), (allows_higher a b); intros x Hx; rewrite !in_app_iff in *; tauto. }
  destruct (rmin L) as [mn|] eqn:HmL, (rmax U) as [mx|] eqn:HmU.
  - (* both bounds present *)
    cbn [oveq]. destruct (veqb mn mx) eqn:EQ.
    + (* a single version: the assertion holds *)
      assert (Hflags : imin L && imax U = true).
      { unfold L, U in *. destruct (allows_lower a b) eqn:AL, (allows_higher a b) eqn:AH.
        - (* L = b, U = b *) unfold b in HmL, HmU. cbn [rmin rmax] in HmL, HmU.
          unfold proper, b in Pb. rewrite HmL, HmU in Pb.
          destruct (veqb_not_lt _ _ EQ) as [Q _]. rewrite Q in Pb. discriminate.
        - (* L = b, U = a: a not strictly lower than b *)
          rewrite andb_comm. apply (not_sl_touch a b mx mn Wa HmU HmL SL EQ).
        - (* L = a, U = b *)
          rewrite andb_comm. apply (not_sl_touch b a mx mn Wb HmU HmL SL EQ).
        - unfold a in HmL, HmU. cbn [rmin rmax] in HmL, HmU.
          unfold proper, a in Pa. rewrite HmL, HmU in Pa.
          destruct (veqb_not_lt _ _ EQ) as [Q _]. rewrite Q in Pa. discriminate. }
      rewrite Hflags. cbn [assert bind]. exists (VOne (RV mn)). split; [reflexivity|]. split.
      * intros v Ra Rb. cbn [vmem]. rewrite mem_single, <- (Hres v Ra Rb).
        apply andb_true_iff in Hflags. destruct Hflags as [F1 F2]. unfold res. rewrite F1, F2.
        symmetry. apply mem_closed_point. exact EQ.
      * intros x Hx. apply Hincl. unfold cbounds in Hx. cbn in Hx. unfold rbounds, res; cbn. tauto.
    + exists (VOne res). split; [reflexivity|]. split; [exact Hres|].
      unfold cbounds; cbn [flatten flat_map]. rewrite app_nil_r. exact Hincl.
  - cbn [oveq]. exists (VOne res). split; [reflexivity|]. split; [exact Hres|].
    unfold cbounds; cbn [flatten flat_map]. rewrite app_nil_r. exact Hincl.
  - cbn [oveq]. exists (VOne res). split; [reflexivity|]. split; [exact Hres|].
    unfold cbounds; cbn [flatten flat_map]. rewrite app_nil_r. exact Hincl.
  - exists (VOne ANY). split; [reflexivity|]. split.
    + intros v Ra Rb. rewrite <- (Hres v Ra Rb). reflexivity.
    + intros x []. 
Qed.
