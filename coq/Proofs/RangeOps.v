(* Range level, tier A: intersection / union / difference of two range-likes are exact on regular
   probes; composed from the bound-comparison specifications of RangeAlg.v. *)
From Coq Require Import List Bool NArith ZArith String Ascii Lia.
From PC Require Import Base.Cmp Base.Result Model.Pep440 Spec.Pep440Spec Proofs.Pep440Order
     Proofs.VersionFacts Model.VConstraint Proofs.RangeSpec Proofs.RangeAlg.
Import ListNotations.

Definition vmem (c : vc) (v : version) : bool :=
  match c with VEmpty => false | VOne r => mem r v | VUnion l => existsb (fun r => mem r v) l end.
Definition proper (r : rng) : bool :=
  match r with RR (Some lo) (Some hi) _ _ => vltb lo hi | _ => true end.
Definition cbounds (c : vc) : list version := flat_map rbounds (flatten c).

Section RRxRR.
  Variables a b : rng.
  Hypothesis Wa : wf_rng a = true.
  Hypothesis Wb : wf_rng b = true.

  (* the chosen lower / upper bounds are exact for every regular probe *)
  Lemma chosen_lower v : regular_r v a = true -> regular_r v b = true ->
    above (if allows_lower a b then b else a) v = above a v && above b v.
  Proof.
    intros Ra Rb. destruct (allows_lower_spec a b v Ra Rb) as [T F].
    destruct (allows_lower a b) eqn:E.
    - destruct (above b v) eqn:Ab; [rewrite (T eq_refl eq_refl); reflexivity | rewrite andb_false_r; reflexivity].
    - destruct (above a v) eqn:Aa; [rewrite (F eq_refl eq_refl); reflexivity | reflexivity].
  Qed.
  Lemma chosen_upper v : regular_r v a = true -> regular_r v b = true ->
    below (if allows_higher a b then b else a) v = below a v && below b v.
  Proof.
    intros Ra Rb. destruct (allows_higher_spec a b v Wa Wb Ra Rb) as [T F].
    destruct (allows_higher a b) eqn:E.
    - destruct (below b v) eqn:Bb; [rewrite (T eq_refl eq_refl); reflexivity | rewrite andb_false_r; reflexivity].
    - destruct (below a v) eqn:Ba; [rewrite (F eq_refl eq_refl); reflexivity | reflexivity].
  Qed.
  Lemma weaker_lower v : regular_r v a = true -> regular_r v b = true ->
    above (if allows_lower a b then a else b) v = above a v || above b v.
  Proof.
    intros Ra Rb. destruct (allows_lower_spec a b v Ra Rb) as [T F].
    destruct (allows_lower a b) eqn:E.
    - destruct (above b v) eqn:Ab; [rewrite (T eq_refl eq_refl); reflexivity | rewrite orb_false_r; reflexivity].
    - destruct (above a v) eqn:Aa; [rewrite (F eq_refl eq_refl); reflexivity | reflexivity].
  Qed.
  Lemma weaker_upper v : regular_r v a = true -> regular_r v b = true ->
    below (if allows_higher a b then a else b) v = below a v || below b v.
  Proof.
    intros Ra Rb. destruct (allows_higher_spec a b v Wa Wb Ra Rb) as [T F].
    destruct (allows_higher a b) eqn:E.
    - destruct (below b v) eqn:Bb; [rewrite (T eq_refl eq_refl); reflexivity | rewrite orb_false_r; reflexivity].
    - destruct (below a v) eqn:Ba; [rewrite (F eq_refl eq_refl); reflexivity | reflexivity].
  Qed.
End RRxRR.

(* above/below only look at one side of a range *)
Lemma above_RR lo hi i j v : above (RR lo hi i j) v = match lo with None => true | Some m => vltb m v || (veqb v m && i) end.
Proof. reflexivity. Qed.
Lemma below_RR lo hi i j v : below (RR lo hi i j) v = match hi with None => true | Some m => vltb v m || (veqb v m && j) end.
Proof. reflexivity. Qed.
Lemma above_eq r r' v : rmin r = rmin r' -> imin r = imin r' -> above r v = above r' v.
Proof. unfold above. intros -> ->. reflexivity. Qed.
Lemma below_eq r r' v : rmax r = rmax r' -> imax r = imax r' -> below r v = below r' v.
Proof. unfold below. intros -> ->. reflexivity. Qed.

Lemma mem_single m v : mem (RV m) v = veqb v m.
Proof.
  unfold mem, above, below; cbn [rmin rmax imin imax]. rewrite !andb_true_r.
  rewrite (veqb_ltb v m). destruct (vltb m v) eqn:A, (vltb v m) eqn:B; cbn; try reflexivity.
  (* both strict: impossible *)
  pose proof (vlt_trans _ _ _ A B) as Q. rewrite vlt_irrefl in Q. discriminate.
Qed.
Lemma mem_closed_point m m' v : veqb m m' = true -> mem (RR (Some m) (Some m') true true) v = veqb v m.
Proof.
  intros E. unfold mem, above, below; cbn [rmin rmax imin imax]. rewrite !andb_true_r.
  rewrite <- (veqb_lt_r _ _ v E). rewrite (veqb_sym v m'), <- (veqb_eq_l _ _ v E), (veqb_sym m v).
  rewrite (veqb_ltb v m). destruct (vltb m v) eqn:A, (vltb v m) eqn:B; cbn; try reflexivity.
  pose proof (vlt_trans _ _ _ A B) as Q. rewrite vlt_irrefl in Q. discriminate.
Qed.

Theorem rr_intersect_exact lo hi i j lo' hi' i' j' :
  let a := RR lo hi i j in let b := RR lo' hi' i' j' in
  wf_rng a = true -> wf_rng b = true -> proper a = true -> proper b = true ->
  exists c, r_intersect a b = Ok c /\
    (forall v, regular_r v a = true -> regular_r v b = true -> vmem c v = mem a v && mem b v) /\
    incl (cbounds c) (rbounds a ++ rbounds b).
Proof.
  intros a b Wa Wb Pa Pb.
  unfold r_intersect. fold a b.
  (* emptiness test *)
  destruct (if allows_lower a b then is_strictly_lower a b else is_strictly_lower b a) eqn:SL.
  { exists VEmpty. split; [reflexivity|]. split; [|intros x []].
    intros v Ra Rb. cbn [vmem]. symmetry. apply not_true_iff_false. intros H.
    unfold mem in H. rewrite !andb_true_iff in H. destruct H as [[Aa Ba] [Ab Bb]].
    destruct (allows_lower a b).
    - destruct (strictly_lower_spec a b v Wa Ra Rb) as [T _]. exact (T SL Ba Ab).
    - destruct (strictly_lower_spec b a v Wb Rb Ra) as [T _]. exact (T SL Bb Aa). }
  set (L := if allows_lower a b then b else a).
  set (U := if allows_higher a b then b else a).
  assert (EL : (if allows_lower a b then (rmin b, imin b) else (rmin a, imin a)) = (rmin L, imin L))
    by (unfold L; destruct (allows_lower a b); reflexivity).
  assert (EU : (if allows_higher a b then (rmax b, imax b) else (rmax a, imax a)) = (rmax U, imax U))
    by (unfold U; destruct (allows_higher a b); reflexivity).
  rewrite EL, EU.
  set (res := RR (rmin L) (rmax U) (imin L) (imax U)).
  assert (Hres : forall v, regular_r v a = true -> regular_r v b = true -> mem res v = mem a v && mem b v).
  { intros v Ra Rb. unfold mem.
    rewrite (above_eq res L v eq_refl eq_refl), (below_eq res U v eq_refl eq_refl).
    unfold L, U. rewrite (chosen_lower a b v Ra Rb), (chosen_upper a b Wa Wb v Ra Rb).
    destruct (above a v), (above b v), (below a v), (below b v); reflexivity. }
  assert (Hincl : incl (rbounds res) (rbounds a ++ rbounds b)).
  { unfold res, rbounds; cbn [rmin rmax]. unfold L, U.
    destruct (allows_lower a b), (allows_higher a b); intros x Hx; rewrite !in_app_iff in *; tauto. }
  destruct (rmin L) as [mn|] eqn:HmL, (rmax U) as [mx|] eqn:HmU.
  - (* both bounds present *)
    cbn [oveq]. destruct (veqb mn mx) eqn:EQ.
    + (* a single version: the assertion holds *)
      assert (Hflags : imin L && imax U = true).
      { unfold L, U in *. destruct (allows_lower a b) eqn:AL, (allows_higher a b) eqn:AH.
        - (* L = b, U = b *) unfold b in HmL, HmU. cbn [rmin rmax] in HmL, HmU.
          unfold proper, b in Pb. rewrite HmL, HmU in Pb.
          destruct (veqb_not_lt _ _ EQ) as [Q _]. rewrite Q in Pb. discriminate.
        - (* L = b, U = a: a not strictly lower than b *)
          rewrite andb_comm. apply (not_sl_touch a b mx mn Wa HmU HmL SL EQ).
        - (* L = a, U = b *)
          rewrite andb_comm. apply (not_sl_touch b a mx mn Wb HmU HmL SL EQ).
        - unfold a in HmL, HmU. cbn [rmin rmax] in HmL, HmU.
          unfold proper, a in Pa. rewrite HmL, HmU in Pa.
          destruct (veqb_not_lt _ _ EQ) as [Q _]. rewrite Q in Pa. discriminate. }
      rewrite Hflags. cbn [assert bind]. exists (VOne (RV mn)). split; [reflexivity|]. split.
      * intros v Ra Rb. cbn [vmem]. rewrite mem_single, <- (Hres v Ra Rb).
        apply andb_true_iff in Hflags. destruct Hflags as [F1 F2]. unfold res. rewrite F1, F2.
        symmetry. apply mem_closed_point. exact EQ.
      * intros x Hx. apply Hincl. unfold cbounds in Hx. cbn in Hx. unfold rbounds, res; cbn. tauto.
    + exists (VOne res). split; [reflexivity|]. split; [exact Hres|].
      unfold cbounds; cbn [flatten flat_map]. rewrite app_nil_r. exact Hincl.
  - cbn [oveq]. exists (VOne res). split; [reflexivity|]. split; [exact Hres|].
    unfold cbounds; cbn [flatten flat_map]. rewrite app_nil_r. exact Hincl.
  - cbn [oveq]. exists (VOne res). split; [reflexivity|]. split; [exact Hres|].
    unfold cbounds; cbn [flatten flat_map]. rewrite app_nil_r. exact Hincl.
  - exists (VOne ANY). split; [reflexivity|]. split.
    + intros v Ra Rb. rewrite <- (Hres v Ra Rb). reflexivity.
    + intros x []. 
Qed.

(* ---- containment and overlap answers at range level (C12) ---- *)
Theorem rr_allows_all_sound lo hi i j lo' hi' i' j' v :
  let a := RR lo hi i j in let b := RR lo' hi' i' j' in
  wf_rng a = true -> wf_rng b = true -> regular_r v a = true -> regular_r v b = true ->
  r_allows_all a b = true -> mem b v = true -> mem a v = true.
Proof.
  intros a b Wa Wb Ra Rb H Hb. unfold r_allows_all in H. fold a b in H.
  apply andb_true_iff in H. destruct H as [H1 H2]. apply negb_true_iff in H1, H2.
  unfold mem in *. apply andb_true_iff in Hb. destruct Hb as [Ab Bb].
  destruct (allows_lower_spec b a v Rb Ra) as [_ F1].
  destruct (allows_higher_spec b a v Wb Wa Rb Ra) as [_ F2].
  rewrite (F1 H1 Ab), (F2 H2 Bb). reflexivity.
Qed.
Theorem rr_allows_any_sound lo hi i j lo' hi' i' j' v :
  let a := RR lo hi i j in let b := RR lo' hi' i' j' in
  wf_rng a = true -> wf_rng b = true -> regular_r v a = true -> regular_r v b = true ->
  r_allows_any a b = false -> mem a v && mem b v = false.
Proof.
  intros a b Wa Wb Ra Rb H. unfold r_allows_any in H. fold a b in H.
  apply negb_false_iff in H. apply not_true_iff_false. intros Hm.
  unfold mem in Hm. rewrite !andb_true_iff in Hm. destruct Hm as [[Aa Ba] [Ab Bb]].
  apply orb_true_iff in H. destruct H as [H|H].
  - destruct (strictly_lower_spec b a v Wb Rb Ra) as [T _]. exact (T H Bb Aa).
  - unfold is_strictly_higher in H. destruct (strictly_lower_spec a b v Wa Ra Rb) as [T _]. exact (T H Ba Ab).
Qed.
(* a range-like allows all of, and any of, itself *)
Lemma allows_lower_irrefl r : allows_lower r r = false.
Proof.
  unfold allows_lower. destruct (rmin r) as [x|]; [|reflexivity].
  rewrite vlt_irrefl, vgtb_ltb, vlt_irrefl. destruct (imin r); reflexivity.
Qed.
Lemma allows_higher_irrefl r : allows_higher r r = false.
Proof.
  unfold allows_higher. destruct (allowed_max r) as [x|]; [|reflexivity].
  rewrite vlt_irrefl, vgtb_ltb, vlt_irrefl. destruct (imax r); reflexivity.
Qed.
Theorem rr_allows_all_self lo hi i j : r_allows_all (RR lo hi i j) (RR lo hi i j) = true.
Proof. unfold r_allows_all. rewrite allows_lower_irrefl, allows_higher_irrefl. reflexivity. Qed.

(* ---- from interval semantics back to the model's [allows] ---- *)
Lemma r_intersect_shape a b c : r_intersect a b = Ok c -> match c with VUnion _ => False | _ => True end.
Proof.
  unfold r_intersect. destruct a as [x|lo hi i j], b as [y|lo' hi' i' j'].
  - intros [= <-]. destruct (v_allows x y); [exact I|]. destruct (v_allows y x); exact I.
  - destruct (rr_allows _ x); [intros [= <-]; exact I|]. destruct (min_local_allowed_by _ x); intros [= <-]; exact I.
  - destruct (rr_allows _ y); [intros [= <-]; exact I|]. destruct (min_local_allowed_by _ y); intros [= <-]; exact I.
  - destruct (if allows_lower _ _ then _ else _); [intros [= <-]; exact I|].
    destruct (if allows_lower _ _ then _ else _) as [imn iimn].
    destruct (if allows_higher _ _ then _ else _) as [imx iimx].
    destruct imn, imx; try (destruct (oveq _ _)); try (destruct (iimn && iimx)); cbn; intros H; try discriminate;
      injection H as <-; exact I.
Qed.
Lemma regular_incl v l l' : incl l l' -> forallb (regular1 v) l' = true -> forallb (regular1 v) l = true.
Proof. intros Hi H. rewrite forallb_forall in *. intros x Hx. apply H, Hi, Hx. Qed.
Lemma wf_incl l l' : incl l l' -> forallb wf l' = true -> forallb wf l = true.
Proof. intros Hi H. rewrite forallb_forall in *. intros x Hx. apply H, Hi, Hx. Qed.
Lemma allows_simple c v : match c with VUnion _ => False | _ => True end ->
  forallb wf (cbounds c) = true -> wf v = true -> forallb (regular1 v) (cbounds c) = true ->
  allows c v = Ok (vmem c v).
Proof.
  destruct c as [|r|l]; intros S W Wv R; [reflexivity| |destruct S].
  cbn [allows vmem]. unfold cbounds in *. cbn [flatten flat_map] in *. rewrite app_nil_r in *.
  rewrite (allows_regular r v W Wv R). reflexivity.
Qed.

Theorem intersect_ranges_exact lo hi i j lo' hi' i' j' :
  let a := RR lo hi i j in let b := RR lo' hi' i' j' in
  wf_rng a = true -> wf_rng b = true -> proper a = true -> proper b = true ->
  exists c, intersect (VOne a) (VOne b) = Ok c /\
    forall v, wf v = true -> regular_r v a = true -> regular_r v b = true ->
      allows c v = Ok (r_allows a v && r_allows b v).
Proof.
  intros a b Wa Wb Pa Pb.
  destruct (rr_intersect_exact lo hi i j lo' hi' i' j' Wa Wb Pa Pb) as (c & Hc & Hm & Hi).
  exists c. split; [exact Hc|]. intros v Wv Ra Rb.
  assert (Rall : forallb (regular1 v) (rbounds a ++ rbounds b) = true).
  { rewrite forallb_app. unfold regular_r in Ra, Rb. fold a b. rewrite Ra, Rb. reflexivity. }
  assert (Wall : forallb wf (rbounds a ++ rbounds b) = true).
  { rewrite forallb_app. unfold wf_rng in Wa, Wb. rewrite Wa, Wb. reflexivity. }
  rewrite (allows_simple c v (r_intersect_shape _ _ _ Hc) (wf_incl _ _ Hi Wall) Wv (regular_incl v _ _ Hi Rall)).
  rewrite (Hm v Ra Rb), (allows_regular a v Wa Wv Ra), (allows_regular b v Wb Wv Rb). reflexivity.
Qed.
