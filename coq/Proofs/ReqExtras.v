(* C10: the registry round trip with extras: inserting [e1,e2,...] after the name only adds the extras to what the parser returns. *)
From Coq Require Import List Bool Arith NArith String Ascii Lia.
From PC Require Import Base.Cmp Base.Result Model.Pep440 Spec.Pep440Spec Proofs.Pep440Order Proofs.Pep440Parse Model.VConstraint Model.Req
     Proofs.VersionFacts Proofs.Pep440RoundTrip Proofs.ClauseText Proofs.AnyIff Proofs.ConstraintText Proofs.ReqRoundTrip.
Import ListNotations.
Open Scope char_scope.
Open Scope N_scope.
Open Scope list_scope.

Definition nows (l : chars) : Prop := match l with c :: _ => is_inline_ws c = false | [] => True end.
Lemma skip_ws_nows l : nows l -> skip_ws l = l.
Proof. destruct l as [|c r]; [reflexivity|]. cbn [nows]. intros H. unfold skip_ws. cbn [span]. rewrite H. reflexivity. Qed.
Lemma alnum_nows c : is_alnum c = true -> is_inline_ws c = false.
Proof.
  unfold is_inline_ws, is_alnum, is_digit, is_lower, is_upper. intros Hc. rewrite orb_false_iff, !N.eqb_neq.
  rewrite !orb_true_iff, !andb_true_iff, !N.leb_le in Hc. lia.
Qed.
Lemma valid_name_head n rest : valid_name n = true -> nows (n ++ rest).
Proof. destruct n as [|c r]; [discriminate|]. cbn [valid_name app nows]. intros H. apply andb_true_iff in H as [Hc _]. apply alnum_nows, Hc. Qed.

(* the characters of a comma-separated list of names *)
Fixpoint comma_join (es : list chars) : chars :=
  match es with [] => [] | [e] => e | e :: r => e ++ "," :: comma_join r end.
Lemma comma_not_name : is_name_char "," = false. Proof. reflexivity. Qed.
Lemma bracket_not_name : is_name_char "]" = false. Proof. reflexivity. Qed.

Lemma lex_extras_tail_printed : forall es acc rest fuel, forallb valid_name es = true -> (List.length es < fuel)%nat ->
  lex_extras_tail fuel acc (flat_map (fun e => "," :: e) es ++ "]" :: rest) = Some (rev acc ++ es, rest).
Proof.
  induction es as [|e es IH]; intros acc rest fuel Hv Hf.
  - destruct fuel; [cbn in Hf; lia|]. cbn [flat_map app lex_extras_tail]. rewrite (skip_ws_nows ("]" :: rest) eq_refl).
    replace (code "]" =? 93) with true by reflexivity. rewrite app_nil_r. reflexivity.
  - destruct fuel; [cbn in Hf; lia|]. cbn [forallb] in Hv. apply andb_true_iff in Hv as [He Hes].
    cbn [flat_map]. rewrite <- !app_assoc. cbn [app lex_extras_tail]. rewrite (skip_ws_nows ("," :: _) eq_refl).
    replace (code "," =? 93) with false by reflexivity. replace (code "," =? 44) with true by reflexivity.
    rewrite (skip_ws_nows _ (valid_name_head e _ He)).
    assert (NX : match flat_map (fun e0 => "," :: e0) es ++ "]" :: rest with [] => True | c :: _ => is_name_char c = false end).
    { destruct es; reflexivity. }
    rewrite (lex_name_ok e _ He NX). rewrite (IH (e :: acc) rest fuel Hes) by (cbn in Hf; lia).
    cbn [rev]. rewrite <- app_assoc. reflexivity.
Qed.
Lemma comma_join_cons e es : comma_join (e :: es) = e ++ flat_map (fun x => "," :: x) es.
Proof.
  revert e. induction es as [|y es IH]; intros e; [cbn; rewrite app_nil_r; reflexivity|].
  change (comma_join (e :: y :: es)) with (e ++ "," :: comma_join (y :: es)). rewrite IH. reflexivity.
Qed.
Lemma lex_extras_printed e es rest : forallb valid_name (e :: es) = true ->
  lex_extras ("[" :: comma_join (e :: es) ++ "]" :: rest) = Some (e :: es, rest).
Proof.
  intros Hv. pose proof Hv as Hv'. cbn [forallb] in Hv'. apply andb_true_iff in Hv' as [He Hes].
  unfold lex_extras. replace (code "[" =? 91) with true by reflexivity.
  rewrite comma_join_cons, <- app_assoc.
  rewrite (skip_ws_nows _ (valid_name_head e _ He)).
  destruct e as [|c r] eqn:Ee; [discriminate|]. cbn [app]. rewrite <- Ee in *.
  assert (C93 : (code c =? 93) = false).
  { rewrite Ee in He. cbn [valid_name] in He. apply andb_true_iff in He as [Hc _]. unfold is_alnum, is_digit, is_lower, is_upper in Hc.
    rewrite !orb_true_iff, !andb_true_iff, !N.leb_le in Hc. apply N.eqb_neq. lia. }
  rewrite C93.
  assert (NX : match flat_map (fun e0 => "," :: e0) es ++ "]" :: rest with [] => True | c0 :: _ => is_name_char c0 = false end).
  { destruct es; reflexivity. }
  change (c :: r ++ flat_map (fun x => "," :: x) es ++ "]" :: rest) with ((c :: r) ++ flat_map (fun x => "," :: x) es ++ "]" :: rest).
  rewrite <- Ee. rewrite (lex_name_ok e _ He NX).
  rewrite (lex_extras_tail_printed es [e] rest _ Hes).
  - reflexivity.
  - rewrite app_length. cbn [List.length]. clear. induction es as [|y es IH]; cbn [flat_map List.length app]; [lia|]. rewrite app_length. lia.
Qed.

(* what req_parse does after the name and the extras *)
Definition req_finish (name : chars) (extras : list chars) (specs : list chars) (rest : chars) : req_out :=
  match rest with
  | [] =>
    match parse_constraint_text false true (req_constraint specs) with
    | Ok c => ReqOk (string_of_list_ascii name) (map string_of_list_ascii extras) c
    | Err EParseConstraint => ReqInvalid
    | Err e => ReqErr e
    end
  | c :: _ => if (code c =? 59) then ReqOutside else ReqInvalid
  end.
Definition req_tail (name : chars) (extras : list chars) (r1 : chars) : req_out :=
  match r1 with
  | [] => req_finish name extras [] []
  | c :: r2 =>
    if code c =? 40 then
      match lex_specs (skip_ws r2) with
      | Some (specs, r3) =>
        match r3 with
        | d :: r4 => if code d =? 41 then req_finish name extras specs (skip_ws r4) else ReqInvalid
        | [] => ReqInvalid
        end
      | None => ReqInvalid
      end
    else if (code c =? 64) || (code c =? 59) then ReqOutside
    else match lex_specs r1 with
         | Some (specs, r3) => req_finish name extras specs r3
         | None => ReqInvalid
         end
  end.
Lemma req_parse_tail s : req_parse s =
  match lex_name (skip_ws (lchars s)) with
  | None => ReqInvalid
  | Some (name, r) => match lex_extras (skip_ws r) with
                      | None => ReqInvalid
                      | Some (extras, r1) => req_tail name extras (skip_ws r1) end
  end.
Proof. reflexivity. Qed.
Definition set_extras (es : list string) (o : req_out) : req_out :=
  match o with ReqOk n _ c => ReqOk n es c | x => x end.
Lemma req_finish_extras name es specs rest : req_finish name es specs rest = set_extras (map string_of_list_ascii es) (req_finish name [] specs rest).
Proof.
  unfold req_finish. destruct rest as [|c r]; [|destruct (code c =? 59); reflexivity].
  destruct (parse_constraint_text false true (req_constraint specs)) as [c|e]; [reflexivity|destruct e; reflexivity].
Qed.
Lemma req_tail_extras name es r1 : req_tail name es r1 = set_extras (map string_of_list_ascii es) (req_tail name [] r1).
Proof.
  unfold req_tail. destruct r1 as [|c r2]; [apply req_finish_extras|].
  destruct (code c =? 40).
  - destruct (lex_specs (skip_ws r2)) as [[specs r3]|]; [|reflexivity]. destruct r3 as [|d r4]; [reflexivity|].
    destruct (code d =? 41); [apply req_finish_extras|reflexivity].
  - destruct ((code c =? 64) || (code c =? 59)); [reflexivity|].
    destruct (lex_specs (c :: r2)) as [[specs r3]|]; [apply req_finish_extras|reflexivity].
Qed.

(* inserting '[e1,e2,...]' after the name of a requirement that continues with ' (' only adds the extras *)
Lemma req_parse_with_extras (name : chars) e es (tail : chars) : valid_name name = true -> forallb valid_name (e :: es) = true ->
  req_parse (string_of_list_ascii (name ++ "[" :: comma_join (e :: es) ++ "]" :: " " :: "(" :: tail)) =
  set_extras (map string_of_list_ascii (e :: es)) (req_parse (string_of_list_ascii (name ++ " " :: "(" :: tail))).
Proof.
  intros Vn Ve. rewrite !req_parse_tail. unfold lchars. rewrite !list_ascii_of_string_of_list_ascii.
  rewrite !(skip_ws_nows _ (valid_name_head name _ Vn)).
  rewrite (lex_name_ok name ("[" :: _) Vn eq_refl), (lex_name_ok name (" " :: "(" :: tail) Vn eq_refl).
  rewrite (skip_ws_nows ("[" :: _) eq_refl), (lex_extras_printed e es _ Ve).
  assert (W : skip_ws (" " :: "(" :: tail) = "(" :: tail) by reflexivity.
  rewrite W. cbn [lex_extras]. replace (code "(" =? 91) with false by reflexivity.
  rewrite (skip_ws_nows ("(" :: tail) eq_refl). apply req_tail_extras.
Qed.

Lemma lchars_sjoin_comma es : lchars (sjoin "," es) = comma_join (map lchars es).
Proof.
  unfold sjoin. induction es as [|e es IH]; [reflexivity|]. destruct es as [|e2 es2]; [reflexivity|].
  change (String.concat "," (e :: e2 :: es2)) with (e ++ "," ++ String.concat "," (e2 :: es2))%string.
  rewrite !lchars_app, IH. reflexivity.
Qed.
Lemma dep_text_shape (name : string) r : r_is_any r = false ->
  exists B : string, forall extras, dep_text name extras (VOne r) = Some (name ++ extras_text extras ++ " (" ++ B ++ ")")%string.
Proof.
  intros H. destruct r as [v|lo hi i j].
  - exists ("==" ++ text v)%string. intros extras. reflexivity.
  - exists (no_blanks (r_str (RR lo hi i j))). intros extras. unfold dep_text. rewrite H. reflexivity.
Qed.
Lemma map_soa_lchars es : map string_of_list_ascii (map lchars es) = es.
Proof. induction es as [|e es IH]; [reflexivity|]. cbn [map]. rewrite soa_lchars, IH. reflexivity. Qed.

(* C10, with extras: the printed text of a registry dependency with a non-empty list of extras is read back as the same name, the
   same extras and the same constraint *)
Theorem registry_roundtrip_extras (name : string) (extras : list string) r :
  valid_name (lchars name) = true -> extras <> [] -> forallb valid_name (map lchars extras) = true ->
  match r with
  | RV v => normal v = true
  | RR (Some a) None _ false => normal a = true
  | RR None (Some b) false _ => normal b = true
  | RR (Some a) (Some b) _ _ => normal a = true /\ normal b = true /\ vltb a b = true /\ nondeg r = true /\ is_single_wildcard_range r = false
  | _ => False
  end ->
  exists s, dep_text name extras (VOne r) = Some s /\ req_parse s = ReqOk name extras (VOne r).
Proof.
  intros Vn Hne Ve H.
  assert (NA : r_is_any r = false) by (destruct r as [v|[a|] [b|] i j]; try reflexivity; contradiction).
  destruct (registry_roundtrip name r Vn H) as (s0 & D0 & P0).
  destruct (dep_text_shape name r NA) as (B & HB).
  rewrite (HB []) in D0. injection D0 as <-. eexists. split; [apply HB|].
  destruct extras as [|e es]; [congruence|]. cbn [map] in Ve.
  assert (E1 : (name ++ extras_text (e :: es) ++ " (" ++ B ++ ")")%string =
               string_of_list_ascii (lchars name ++ "[" :: comma_join (lchars e :: map lchars es) ++ "]" :: " " :: "(" :: lchars (B ++ ")"))).
  { unfold extras_text. rewrite soa_app, soa_lchars. f_equal. cbn [string_of_list_ascii]. change ("[" ++ sjoin "," (e :: es) ++ "]")%string with (String "[" (sjoin "," (e :: es) ++ "]"))%string.
    cbn [append]. f_equal. rewrite soa_app. change (lchars e :: map lchars es) with (map lchars (e :: es)). rewrite <- lchars_sjoin_comma, soa_lchars.
    rewrite sapp_assoc. f_equal. cbn [string_of_list_ascii]. rewrite soa_lchars. reflexivity. }
  assert (E0 : (name ++ " (" ++ B ++ ")")%string = string_of_list_ascii (lchars name ++ " " :: "(" :: lchars (B ++ ")"))).
  { rewrite soa_app, soa_lchars. cbn [append string_of_list_ascii]. rewrite soa_lchars. reflexivity. }
  rewrite E1, (req_parse_with_extras (lchars name) (lchars e) (map lchars es) _ Vn Ve). rewrite <- E0.
  replace (req_parse (name ++ " (" ++ B ++ ")")) with (ReqOk name [] (VOne r)) by (symmetry; exact P0).
  cbn [set_extras]. change (lchars e :: map lchars es) with (map lchars (e :: es)). rewrite map_soa_lchars. reflexivity.
Qed.
Print Assumptions registry_roundtrip_extras.
