(* C11: the variable/operator choice of create_nested_marker is exact for every interpreter X.Y.Z. *)
From Coq Require Import List Bool Arith NArith String Ascii Lia.
From PC Require Import Base.Cmp Model.Pep440 Spec.Pep440Spec Proofs.Pep440Order Model.PyRange.
Import ListNotations.
Open Scope N_scope.

Lemma cmp_pad_l_zeros k : cmp_pad_l (repeat 0 k) = Eq.
Proof. induction k; simpl; auto. Qed.
Lemma cmp_rel_pad_nil_r a : cmp_rel_pad a [] = cmp_pad_r a.
Proof. destruct a; reflexivity. Qed.
Lemma cmp_rel_pad_zeros_r a : forall v k, cmp_rel_pad a (v ++ repeat 0 k) = cmp_rel_pad a v.
Proof.
  induction a as [|x a IH]; intros v k.
  - cbn [cmp_rel_pad]. induction v as [|y v IHv]; cbn [app cmp_pad_l]; [apply cmp_pad_l_zeros|]. rewrite IHv. reflexivity.
  - destruct v as [|y v]; cbn [app].
    + rewrite cmp_rel_pad_nil_r. destruct k as [|k]; [reflexivity|]. cbn [repeat cmp_rel_pad cmp_pad_r].
      f_equal. specialize (IH [] k). cbn [app] in IH. rewrite IH, cmp_rel_pad_nil_r. reflexivity.
    + cbn [cmp_rel_pad]. rewrite IH. reflexivity.
Qed.
Lemma n_ge_0 c : (c ?= 0) <> Lt.
Proof. intros H. rewrite N.compare_lt_iff in H. lia. Qed.

(* python_version (two components) against a bound of precision 1 or 2: >= and < do not depend on the patch level *)
Lemma trunc_ge a b c v : (List.length v <= 2)%nat ->
  is_ge (cmp_rel_pad [a; b] v) = is_ge (cmp_rel_pad [a; b; c] v).
Proof.
  intros Hv. destruct v as [|x [|y [|z v]]]; try (cbn in Hv; lia); cbn [cmp_rel_pad cmp_pad_r cmp_pad_l lex].
  - destruct (a ?= 0) eqn:A; try reflexivity; destruct (b ?= 0) eqn:B; try reflexivity; cbn.
    destruct (c ?= 0) eqn:C; try reflexivity. exfalso; exact (n_ge_0 c C).
  - destruct (a ?= x) eqn:A; try reflexivity; destruct (b ?= 0) eqn:B; try reflexivity; cbn.
    destruct (c ?= 0) eqn:C; try reflexivity. exfalso; exact (n_ge_0 c C).
  - destruct (a ?= x) eqn:A; try reflexivity; destruct (b ?= y) eqn:B; try reflexivity; cbn.
    destruct (c ?= 0) eqn:C; try reflexivity. exfalso; exact (n_ge_0 c C).
Qed.
Lemma is_lt_not_ge r : is_lt r = negb (is_ge r). Proof. destruct r; reflexivity. Qed.
Lemma trunc_lt a b c v : (List.length v <= 2)%nat ->
  is_lt (cmp_rel_pad [a; b] v) = is_lt (cmp_rel_pad [a; b; c] v).
Proof. intros Hv. rewrite !is_lt_not_ge, (trunc_ge a b c v Hv). reflexivity. Qed.

Theorem min_leaf_exact imin v a b c :
  eval_pleaf (min_leaf imin v) [a; b; c] =
  (let r := cmp_rel_pad [a; b; c] v in if imin then is_ge r else is_gt r).
Proof.
  unfold min_leaf, eval_pleaf, leaf_value.
  destruct (Nat.leb 3 (List.length v)) eqn:L; cbn [pl_var pl_op pl_lit].
  - destruct imin; reflexivity.
  - apply Nat.leb_gt in L. destruct imin; cbn [negb pl_var pl_op pl_lit].
    + cbn [firstn]. apply trunc_ge. lia.
    + unfold pad3. rewrite cmp_rel_pad_zeros_r. reflexivity.
Qed.
Theorem max_leaf_exact imax v a b c :
  eval_pleaf (max_leaf imax v) [a; b; c] =
  (let r := cmp_rel_pad [a; b; c] v in if imax then is_le r else is_lt r).
Proof.
  unfold max_leaf, eval_pleaf, leaf_value.
  destruct (Nat.leb 3 (List.length v)) eqn:L; cbn [pl_var pl_op pl_lit].
  - destruct imax; reflexivity.
  - apply Nat.leb_gt in L. destruct imax; cbn [negb pl_var pl_op pl_lit].
    + unfold pad3. rewrite cmp_rel_pad_zeros_r. reflexivity.
    + cbn [firstn]. apply trunc_lt. lia.
Qed.
Theorem nested_range_exact lo hi imin imax a b c :
  forallb (fun l => eval_pleaf l [a; b; c]) (nested_range lo hi imin imax) = in_range lo hi imin imax [a; b; c].
Proof.
  unfold nested_range, in_range. rewrite forallb_app.
  destruct lo as [v|], hi as [w|]; cbn [forallb]; rewrite ?andb_true_r;
    rewrite ?min_leaf_exact, ?max_leaf_exact; reflexivity.
Qed.
(* the single-version branch is NOT exact for precision < 3 (finding D14): python_version == "3.9" holds on 3.9.1 *)
Theorem single_version_refuted :
  exists v a b c, eval_pleaf (single_leaf v) [a; b; c] <> is_eq (cmp_rel_pad [a; b; c] v).
Proof. exists [3; 9], 3, 9, 1. vm_compute. discriminate. Qed.
Theorem single_version_exact_precision3 v a b c : (3 <= List.length v)%nat ->
  eval_pleaf (single_leaf v) [a; b; c] = is_eq (cmp_rel_pad [a; b; c] v).
Proof.
  intros H. unfold single_leaf, eval_pleaf, leaf_value. apply Nat.leb_le in H. rewrite H. reflexivity.
Qed.
