(* C05: the class of constraints over a set B of mutually regular bounds - members good, in order, strictly apart - is closed under
   union, intersection and difference, and each operation is exact on it; hence every expression built from the three operations
   over such constraints evaluates to a constraint of the class that admits exactly what the expression means ([expr_exact]). *)
From Coq Require Import List Bool NArith ZArith String Ascii Lia ZifyBool.
From PC Require Import Base.Cmp Base.Result Base.RankEmbed Model.Pep440 Spec.Pep440Spec Proofs.Pep440Order
     Proofs.VersionFacts Model.VConstraint Proofs.RangeSpec Proofs.RangeAlg Proofs.RangeOps Proofs.UnionHull Proofs.UnionExact Proofs.Contain Proofs.InterExact Proofs.UnionTotal Proofs.UnionTotalGood Proofs.DiffExact Proofs.DiffUnion Proofs.EqCompound Proofs.ParseCompose Proofs.SortedOrder Proofs.UnionSorted.
Import ListNotations.
Open Scope list_scope.
Lemma mutual_mreg2' B a b : mutual B -> incl (rbounds a) B -> incl (rbounds b) B -> mreg2 a b.
Proof. intros MU Ia Ib x y Hx Hy. split; apply MU; auto. Qed.
Lemma two_sorted B x y : mutual B -> good x = true -> good y = true -> incl (rbounds x) B -> incl (rbounds y) B ->
  r_allows_any x y = false -> r_lt y x = false -> sepb [x; y] = true.
Proof.
  intros MU Gx Gy Ix Iy C1 C3. cbn [sepb forallb]. rewrite (no_touch_above x y Gx Gy (mutual_mreg2' B x y MU Ix Iy) (r_lt_lo y x C3) C1). reflexivity.
Qed.

Section Closure.
  Variable B : list version.
  Hypothesis MU : mutual B.

  Lemma union_of_sorted cs c : forallb goodc cs = true -> incl (flat_map cbounds cs) B -> union_of cs = Ok c -> sorted_c c = true.
  Proof. intros G I H. exact (vunion_of_sorted B MU OF_FUEL cs c G I H). Qed.
  Lemma two_bounds a b : incl (rbounds a) B -> incl (rbounds b) B -> incl (flat_map cbounds [VOne a; VOne b]) B.
  Proof.
    intros Ia Ib e He. cbn [flat_map] in He. unfold cbounds in He. cbn [flatten flat_map] in He. rewrite !app_nil_r in He.
    apply in_app_or in He as [He|He]; auto.
  Qed.

  Lemma r_union_sorted a b c : good a = true -> good b = true -> incl (rbounds a) B -> incl (rbounds b) B ->
    r_union union_of a b = Ok c -> sorted_c c = true.
  Proof.
    intros Ga Gb Ia Ib H.
    assert (U : union_of [VOne a; VOne b] = Ok c -> sorted_c c = true).
    { apply union_of_sorted; [apply good_two; assumption|apply two_bounds; assumption]. }
    unfold r_union in H. destruct a as [x|lo hi i j], b as [y|lo' hi' i' j'];
    repeat match type of H with
           | (if ?c then _ else _) = _ => destruct c
           | (let '(_, _) := if ?c then _ else _ in _) = _ => destruct c
           | Ok (VOne _) = Ok _ => injection H as <-; reflexivity
           end; auto.
  Qed.

  Theorem union_sorted a b c : goodc a = true -> goodc b = true -> sorted_c b = true ->
    incl (cbounds a) B -> incl (cbounds b) B -> union a b = Ok c -> sorted_c c = true.
  Proof.
    intros Ga Gb Sb Ia Ib H.
    assert (U : union_of [a; b] = Ok c -> sorted_c c = true).
    { apply union_of_sorted; [cbn; rewrite Ga, Gb; reflexivity|]. cbn [flat_map]. rewrite app_nil_r. intros e He. apply in_app_or in He as [He|He]; auto. }
    destruct a as [|ra|la]; cbn [union] in H.
    - injection H as <-. exact Sb.
    - assert (Gra : good ra = true) by (unfold goodc in Ga; cbn in Ga; rewrite andb_true_r in Ga; exact Ga).
      assert (Ira : incl (rbounds ra) B) by (unfold cbounds in Ia; cbn [flatten flat_map] in Ia; rewrite app_nil_r in Ia; exact Ia).
      assert (R : forall rb, b = VOne rb -> r_union union_of ra rb = Ok c -> sorted_c c = true).
      { intros rb -> Hu. unfold goodc in Gb. cbn in Gb. rewrite andb_true_r in Gb.
        unfold cbounds in Ib. cbn [flatten flat_map] in Ib. rewrite app_nil_r in Ib. exact (r_union_sorted ra rb c Gra Gb Ira Ib Hu). }
      destruct ra as [x|lo hi i j].
      + destruct (allows b x) as [al|]; [|discriminate]. cbn [bind] in H. destruct al; [injection H as <-; exact Sb|].
        destruct b as [|rb|lb]; [apply U, H|exact (R rb eq_refl H)|apply U, H].
      + destruct b as [|rb|lb]; [apply U, H|exact (R rb eq_refl H)|apply U, H].
    - apply U, H.
  Qed.

  Theorem intersect_sorted a b c : goodc a = true -> goodc b = true -> sorted_c a = true -> sorted_c b = true ->
    incl (cbounds a) B -> incl (cbounds b) B -> intersect a b = Ok c -> sorted_c c = true.
  Proof.
    intros Ga Gb Sa Sb Ia Ib H.
    assert (UI : forall l x, forallb good l = true -> goodc x = true -> sepb l = true -> sorted_c x = true -> incl (lbounds l) B -> incl (cbounds x) B ->
                 union_intersect l x = Ok c -> sorted_c c = true).
    { intros l x Gl Gx Sl Sx Il Ix Hu. unfold union_intersect in Hu.
      destruct (walk_intersect l (flatten x)) as [rs|] eqn:Hw; [|discriminate]. cbn [bind] in Hu.
      destruct (walk_intersect_exact l (flatten x) rs Gl Gx Sl Sx Hw) as (_ & Wb & Wg).
      apply (union_of_sorted rs c Wg); [|exact Hu]. intros e He. apply Wb in He. apply in_app_or in He as [He|He]; auto. }
    destruct a as [|ra|la]; cbn [intersect] in H.
    - injection H as <-. reflexivity.
    - destruct b as [|rb|lb].
      + injection H as <-. reflexivity.
      + unfold goodc in Ga, Gb. cbn in Ga, Gb. rewrite andb_true_r in Ga, Gb.
        pose proof (r_intersect_shape ra rb c) as Sh.
        destruct c as [|r|l]; try reflexivity. exfalso. specialize (Sh H). cbn in Sh. exact Sh.
      + exact (UI lb (VOne ra) Gb Ga Sb Sa Ib Ia H).
    - exact (UI la b Ga Gb Sa Sb Ia Ib H).
  Qed.
End Closure.

Lemma r_difference_sorted a b c : good a = true -> good b = true -> mutual (rbounds a ++ rbounds b) ->
  r_difference a b = Ok c -> sorted_c c = true.
Proof.
  intros Ga Gb MU H.
  destruct c as [|r|l]; try reflexivity.
  destruct (r_difference_split a b l Ga Gb MU H) as (x & y & -> & Gx & Gy & Ixy & _).
  assert (Ix : incl (rbounds x) (rbounds a ++ rbounds b)) by (intros e He; apply Ixy, in_or_app; left; exact He).
  assert (Iy : incl (rbounds y) (rbounds a ++ rbounds b)) by (intros e He; apply Ixy, in_or_app; right; exact He).
  (* the result is what VersionUnion.of made of two good pieces *)
  assert (U : exists p q, good p = true /\ good q = true /\ incl (rbounds p) (rbounds a ++ rbounds b) /\ incl (rbounds q) (rbounds a ++ rbounds b) /\
                          union_of [VOne p; VOne q] = Ok (VUnion [x; y])).
  { destruct a as [xa|lo hi i j] eqn:Ea.
    { cbn [r_difference] in H. destruct (r_allows b xa); discriminate. }
    destruct b as [yb|blo bhi bi bj] eqn:Eb.
    - destruct (good_rv yb Gb) as [Wy Ly].
      assert (Ry : regular_r yb (RR lo hi i j) = true).
      { apply (mutual_regular_r _ yb _ MU); [apply in_or_app; right; left; reflexivity|intros e He; apply in_or_app; left; exact He]. }
      assert (Ar : rr_allows (RR lo hi i j) yb = mem (RR lo hi i j) yb).
      { rewrite <- (allows_regular (RR lo hi i j) yb (good_wf _ Ga) Wy Ry). reflexivity. }
      pose proof H as H0. cbn [r_difference] in H0. rewrite Ar in H0.
      destruct (mem (RR lo hi i j) yb) eqn:My; cbn [negb] in H0; [|discriminate].
      cbn [rmin rmax imin imax] in H0.
      destruct (oveq (Some yb) lo) eqn:E1; [destruct (negb i); discriminate|].
      destruct (oveq (Some yb) hi) eqn:E2; [destruct (negb j); discriminate|].
      destruct (split_point_eq lo hi i j yb Ga Gb Ry My E1 E2) as (_ & G1 & G2).
      exists (RR lo (Some yb) i false), (RR (Some yb) hi false j). split; [exact G1|]. split; [exact G2|]. split; [|split; [|exact H0]].
      + unfold rbounds. cbn [rmin rmax obounds app]. intros e He. rewrite !in_app_iff in *. cbn [In obounds] in *. tauto.
      + unfold rbounds. cbn [rmin rmax obounds app]. intros e He. rewrite !in_app_iff in *. cbn [In obounds] in *. tauto.
    - rewrite <- Ea, <- Eb in *.
      assert (Ia : is_rr a = true) by (rewrite Ea; reflexivity). assert (Ib : is_rr b = true) by (rewrite Eb; reflexivity).
      pose proof H as H0. rewrite (r_difference_rr a b Ia Ib) in H0.
      destruct (r_allows_any a b) eqn:Ov; cbn [negb] in H0; [|discriminate].
      destruct (allows_lower a b) eqn:AL, (allows_higher a b) eqn:AH; cbn [negb] in H0.
      2:{ destruct (before_piece a b); discriminate. }
      2:{ destruct (after_piece a b); discriminate. }
      2:{ discriminate. }
      destruct (split_range_eq a b Ga Gb Ia Ib MU Ov AL AH) as (rb & ra & Eb' & Ea' & _ & Gb' & Ga' & Ib' & Ia' & _).
      rewrite Eb', Ea' in H0. exists rb, ra. auto 10. }
  destruct U as (p & q & Gp & Gq & Ip & Iq & Hu).
  apply (union_of_sorted (rbounds a ++ rbounds b) MU [VOne p; VOne q] (VUnion [x; y])); [apply good_two; assumption| |exact Hu].
  apply two_bounds; assumption.
Qed.

Section Closure.
  Variable B : list version.
  Hypothesis MU : mutual B.

  Theorem difference_sorted a b c : goodc a = true -> goodc b = true -> sorted_c a = true -> sorted_c b = true ->
    incl (cbounds a) B -> incl (cbounds b) B -> difference a b = Ok c -> sorted_c c = true.
  Proof.
    intros Ga Gb Sa Sb Ia Ib H.
    destruct a as [|ra|la].
    - injection H as <-. reflexivity.
    - assert (Gra : good ra = true) by (unfold goodc in Ga; cbn in Ga; rewrite andb_true_r in Ga; exact Ga).
      assert (Ira : incl (rbounds ra) B) by (unfold cbounds in Ia; cbn [flatten flat_map] in Ia; rewrite app_nil_r in Ia; exact Ia).
      destruct ra as [x|lo hi i j]; cbn [difference] in H.
      + destruct (allows b x) as [al|]; [|discriminate]. cbn [bind] in H. destruct al; injection H as <-; reflexivity.
      + destruct b as [|rb|lb].
        * injection H as <-. reflexivity.
        * unfold goodc in Gb. cbn in Gb. rewrite andb_true_r in Gb.
          unfold cbounds in Ib. cbn [flatten flat_map] in Ib. rewrite app_nil_r in Ib.
          apply (r_difference_sorted (RR lo hi i j) rb c Gra Gb); [|exact H].
          apply (mutual_incl B); [|exact MU]. intros e He. apply in_app_or in He as [He|He]; auto.
        * unfold rng_minus_union in H. destruct (rr_minus_union (RR lo hi i j) [] lb) as [rs|e] eqn:E; cbn [bind] in H; [|discriminate].
          unfold goodc in Gb. cbn [flatten] in Gb. unfold sorted_c in Sb. cbn [flatten] in Sb. unfold cbounds in Ib. cbn [flatten] in Ib. fold (lbounds lb) in Ib.
          destruct (sweep B MU lb (RR lo hi i j) [] rs Gra eq_refl Gb Sb Ira (fun e H => match H with end) Ib E) as (G1 & I1 & _).
          apply (union_of_sorted B MU (map VOne rs) c (good_map_vone _ G1)); [|exact H]. rewrite bounds_map_vone. exact I1.
    - destruct b as [|rb|lb] eqn:Eb; [injection H as <-; exact Sa| |].
      all: assert (NE : b <> VEmpty) by (rewrite Eb; discriminate); rewrite <- Eb in *; clear Eb.
      all: rewrite (difference_union_unfold la b NE) in H.
      all: revert H; generalize (Datatypes.S (List.length la + List.length (flatten b))); intros fuel Hd.
      all: destruct la as [|cur ours]; [discriminate|]; destruct (flatten b) as [|t ts] eqn:Fb; [discriminate|].
      all: destruct (udiff fuel cur ours t ts []) as [rs|e] eqn:U; cbn [bind] in Hd; [|discriminate].
      all: unfold goodc in Ga, Gb; cbn [flatten] in Ga; rewrite Fb in Gb; cbn [forallb] in Ga, Gb.
      all: apply andb_true_iff in Ga as [Gc Go]; apply andb_true_iff in Gb as [Gt Gts].
      all: unfold sorted_c in Sa, Sb; cbn [flatten] in Sa; rewrite Fb in Sb; pose proof Sa as Sa'; cbn [sepb] in Sa'; apply andb_true_iff in Sa' as [Sa1 Sa2].
      all: unfold cbounds in Ia, Ib; cbn [flatten] in Ia; rewrite Fb in Ib; fold (lbounds (cur :: ours)) in Ia; fold (lbounds (t :: ts)) in Ib.
      all: destruct (lb_cons B cur ours Ia) as [Ic Io]; destruct (lb_cons B t ts Ib) as [It Its].
      all: assert (I : DiffUnion.Inv B cur ours t ts []) by (unfold DiffUnion.Inv; repeat split; try assumption; try reflexivity; [apply sepb_under; assumption|intros e []]).
      all: destruct (udiff_all B MU fuel cur ours t ts [] rs I U) as (G1 & I1 & _).
      all: destruct rs as [|r [|r' rs']]; [injection Hd as <-; reflexivity|injection Hd as <-; reflexivity|].
      all: apply (union_of_sorted B MU _ c (good_map_vone _ G1)); [|exact Hd]; rewrite bounds_map_vone; exact I1.
  Qed.
End Closure.

(* the class of constraints over a set B of mutually regular bounds: members good, in order and strictly apart *)
Definition inK (B : list version) (c : vc) : Prop := goodc c = true /\ sorted_c c = true /\ incl (cbounds c) B.

Section Class.
  Variable B : list version.
  Hypothesis MU : mutual B.

  Lemma good_any : good ANY = true. Proof. reflexivity. Qed.
  Lemma K_hole c : inK B c -> no_local_hole c.
  Proof.
    intros (G & S & I). destruct c as [|r|l]; cbn [no_local_hole]; try exact Logic.I.
    intros e He. unfold excluded_single_version, inverted in He.
    destruct (rng_minus_union ANY l) as [i|] eqn:Hi; cbn [bind] in He; [|discriminate].
    unfold goodc in G. cbn [flatten] in G. unfold sorted_c in S. cbn [flatten] in S. unfold cbounds in I. cbn [flatten] in I. fold (lbounds l) in I.
    destruct (rng_minus_union_exact B ANY l i MU good_any G S (fun e H => match H with end) I Hi) as (Gi & _ & _).
    destruct i as [|[x|? ? ? ?]|]; try discriminate. injection He as <-.
    unfold goodc in Gi. cbn [flatten forallb] in Gi. rewrite andb_true_r in Gi. exact (proj2 (good_rv x Gi)).
  Qed.
  Lemma hole_for a b : inK B b -> match a with VOne (RV _) => no_local_hole b | _ => True end.
  Proof. intros Kb. destruct a as [|[x|? ? ? ?]|]; try exact Logic.I. apply K_hole, Kb. Qed.
  Lemma regB_c v c : regB B v = true -> incl (cbounds c) B -> regular_c v c = true.
  Proof. intros R I. exact (regular_incl v _ _ I R). Qed.

  Theorem K_union a b c : inK B a -> inK B b -> union a b = Ok c ->
    inK B c /\ forall v, wf v = true -> regB B v = true -> sem c v = sem a v || sem b v.
  Proof.
    intros (Ga & Sa & Ia) Kb H. pose proof Kb as (Gb & Sb & Ib).
    pose proof (union_exact a b c Ga Gb (hole_for a b Kb) H) as Ex.
    assert (G2 : forallb goodc [a; b] = true) by (cbn; rewrite Ga, Gb; reflexivity).
    destruct (exact_sem [a; b] c G2 Ex) as (Gc & Ic & Hs).
    assert (I2 : incl (flat_map cbounds [a; b]) B).
    { cbn [flat_map]. rewrite app_nil_r. intros e He. apply in_app_or in He as [He|He]; auto. }
    split; [split; [exact Gc|split]|].
    - exact (union_sorted B MU a b c Ga Gb Sb Ia Ib H).
    - intros e He. apply I2, Ic, He.
    - intros v Wv R. rewrite (Hs v Wv (regular_incl v _ _ I2 R)). cbn. rewrite orb_false_r. reflexivity.
  Qed.
  Theorem K_intersect a b c : inK B a -> inK B b -> intersect a b = Ok c ->
    inK B c /\ forall v, wf v = true -> regB B v = true -> sem c v = sem a v && sem b v.
  Proof.
    intros (Ga & Sa & Ia) (Gb & Sb & Ib) H.
    destruct (intersect_exact a b c Ga Gb Sa Sb H) as (_ & Ic & Gc).
    destruct (intersect_admits_exactly a b c Ga Gb Sa Sb H) as (_ & Hs).
    split; [split; [exact Gc|split]|].
    - exact (intersect_sorted B MU a b c Ga Gb Sa Sb Ia Ib H).
    - intros e He. apply Ic in He. apply in_app_or in He as [He|He]; auto.
    - intros v Wv R. exact (Hs v Wv (regB_c v a R Ia) (regB_c v b R Ib)).
  Qed.
  Theorem K_difference a b c : inK B a -> inK B b -> difference a b = Ok c ->
    inK B c /\ forall v, wf v = true -> regB B v = true -> sem c v = sem a v && negb (sem b v).
  Proof.
    intros (Ga & Sa & Ia) Kb H. pose proof Kb as (Gb & Sb & Ib).
    destruct (difference_exact B a b c MU Ga Gb Sa Sb Ia Ib (hole_for a b Kb) H) as (Gc & Ic & Mc).
    split; [split; [exact Gc|split]|].
    - exact (difference_sorted B MU a b c Ga Gb Sa Sb Ia Ib H).
    - exact Ic.
    - intros v Wv R.
      rewrite (sem_regular c v Gc Wv (regB_c v c R Ic)), (sem_regular a v Ga Wv (regB_c v a R Ia)), (sem_regular b v Gb Wv (regB_c v b R Ib)).
      exact (Mc v Wv R).
  Qed.

  (* every expression built from union / intersect / difference over constraints of the class *)
  Inductive cexpr := CLeaf (c : vc) | CUnion (a b : cexpr) | CInter (a b : cexpr) | CDiff (a b : cexpr).
  Fixpoint ceval (e : cexpr) : res vc :=
    match e with
    | CLeaf c => Ok c
    | CUnion a b => do x <- ceval a; do y <- ceval b; union x y
    | CInter a b => do x <- ceval a; do y <- ceval b; intersect x y
    | CDiff a b => do x <- ceval a; do y <- ceval b; difference x y
    end.
  Fixpoint cmeans (e : cexpr) (v : version) : bool :=
    match e with
    | CLeaf c => sem c v
    | CUnion a b => cmeans a v || cmeans b v
    | CInter a b => cmeans a v && cmeans b v
    | CDiff a b => cmeans a v && negb (cmeans b v)
    end.
  Fixpoint leaves_in (e : cexpr) : Prop :=
    match e with CLeaf c => inK B c | CUnion a b | CInter a b | CDiff a b => leaves_in a /\ leaves_in b end.

  Theorem expr_exact : forall e c, leaves_in e -> ceval e = Ok c ->
    inK B c /\ forall v, wf v = true -> regB B v = true -> sem c v = cmeans e v.
  Proof.
    induction e as [c0|a IHa b IHb|a IHa b IHb|a IHa b IHb]; intros c L H; cbn [ceval leaves_in cmeans] in *.
    - injection H as <-. split; [exact L|reflexivity].
    - destruct L as [La Lb]. destruct (ceval a) as [x|] eqn:Ea; cbn [bind] in H; [|discriminate]. destruct (ceval b) as [y|] eqn:Eb; cbn [bind] in H; [|discriminate].
      destruct (IHa x La eq_refl) as [Kx Mx]. destruct (IHb y Lb eq_refl) as [Ky My]. destruct (K_union x y c Kx Ky H) as [Kc Mc].
      split; [exact Kc|]. intros v Wv R. rewrite (Mc v Wv R), (Mx v Wv R), (My v Wv R). reflexivity.
    - destruct L as [La Lb]. destruct (ceval a) as [x|] eqn:Ea; cbn [bind] in H; [|discriminate]. destruct (ceval b) as [y|] eqn:Eb; cbn [bind] in H; [|discriminate].
      destruct (IHa x La eq_refl) as [Kx Mx]. destruct (IHb y Lb eq_refl) as [Ky My]. destruct (K_intersect x y c Kx Ky H) as [Kc Mc].
      split; [exact Kc|]. intros v Wv R. rewrite (Mc v Wv R), (Mx v Wv R), (My v Wv R). reflexivity.
    - destruct L as [La Lb]. destruct (ceval a) as [x|] eqn:Ea; cbn [bind] in H; [|discriminate]. destruct (ceval b) as [y|] eqn:Eb; cbn [bind] in H; [|discriminate].
      destruct (IHa x La eq_refl) as [Kx Mx]. destruct (IHb y Lb eq_refl) as [Ky My]. destruct (K_difference x y c Kx Ky H) as [Kc Mc].
      split; [exact Kc|]. intros v Wv R. rewrite (Mc v Wv R), (Mx v Wv R), (My v Wv R). reflexivity.
  Qed.
End Class.

Section Parsed.
  Variable B : list version.
  Hypothesis MU : mutual B.

  (* comma sets of any clauses of the class - '!=' and negated wildcards included *)
  Theorem comma_set_general : forall rest first c, inK B first -> Forall (inK B) rest -> meet_all first rest = Ok c ->
    inK B c /\ forall v, wf v = true -> regB B v = true -> sem c v = forallb (fun x => sem x v) (first :: rest).
  Proof.
    induction rest as [|b rest IH]; intros first c Kf Kr H; unfold meet_all in H; cbn [fold_left] in H.
    - injection H as <-. split; [exact Kf|]. intros v _ _. cbn. rewrite andb_true_r. reflexivity.
    - inversion Kr as [|? ? Kb Kr']; subst. cbn [bind] in H.
      destruct (intersect first b) as [ab|e] eqn:Hi; [|rewrite meet_all_err in H; discriminate].
      destruct (K_intersect B MU first b ab Kf Kb Hi) as [Kab Mab].
      destruct (IH ab c Kab Kr' H) as [Kc Mc]. split; [exact Kc|].
      intros v Wv R. rewrite (Mc v Wv R). cbn [forallb]. rewrite (Mab v Wv R), andb_assoc. reflexivity.
  Qed.
  Theorem parse_group_general m clauses g : parse_group m clauses = Ok g ->
    exists cs, mapR (parse_single_pep m) clauses = Ok cs /\
      (Forall (inK B) cs -> inK B g /\ forall v, wf v = true -> regB B v = true -> sem g v = forallb (fun x => sem x v) cs).
  Proof.
    destruct clauses as [|c rest]; [discriminate|]. cbn [parse_group]. intros H.
    destruct (parse_single_pep m c) as [first|e] eqn:Hc; [|discriminate]. cbn [bind] in H.
    destruct (parse_fold m rest (Ok first) g H) as (f' & bs & Hf & Hbs & Hm). injection Hf as <-.
    exists (first :: bs). split; [cbn [mapR]; rewrite Hc, Hbs; reflexivity|].
    intros K. inversion K as [|? ? K1 K2]; subst. exact (comma_set_general bs first g K1 K2 Hm).
  Qed.
  (* '||' between groups of the class *)
  Theorem or_groups_general m groups c : parse_constraint_groups m groups = Ok c ->
    exists gs, mapR (parse_group m) groups = Ok gs /\
      (Forall (inK B) gs -> inK B c /\ forall v, wf v = true -> regB B v = true -> sem c v = existsb (fun x => sem x v) gs).
  Proof.
    unfold parse_constraint_groups. intros H. destruct (mapR (parse_group m) groups) as [gs|e]; [|discriminate]. cbn [bind] in H.
    exists gs. split; [reflexivity|]. intros K.
    assert (G : forallb goodc gs = true) by (rewrite forallb_forall; rewrite Forall_forall in K; intros x Hx; exact (proj1 (K x Hx))).
    assert (Ib : incl (flat_map cbounds gs) B).
    { intros e He. apply in_flat_map in He as (x & Hx & He). rewrite Forall_forall in K. exact (proj2 (proj2 (K x Hx)) e He). }
    destruct (or_groups_exact gs c G H) as [Gc Mc].
    assert (U : forall c', union_of gs = Ok c' -> sorted_c c' = true /\ incl (cbounds c') B).
    { intros c' H'. split; [exact (union_of_sorted B MU gs c' G Ib H')|].
      destruct (vunion_of_sound OF_FUEL gs c' G H') as (_ & Ic & _). intros e He. apply Ib, Ic, He. }
    assert (SI : sorted_c c = true /\ incl (cbounds c) B).
    { destruct gs as [|g [|g' gs']]; try (apply U; exact H). injection H as <-. inversion K as [|? ? K1 _]; subst. destruct K1 as (_ & S & I). auto. }
    split; [split; [exact Gc|exact SI]|]. intros v Wv R. apply Mc; [exact Wv|]. exact (regular_incl v _ _ Ib R).
  Qed.

  (* the parsed '!=V' is a constraint of the class *)
  Lemma ne_in_K v : wf v = true -> is_local v = false -> In v B ->
    inK B (VUnion [RR None (Some v) false false; RR (Some v) None false false]).
  Proof.
    intros W L I. unfold inK, goodc, sorted_c, cbounds. cbn [flatten forallb sepb flat_map].
    assert (G1 : good (RR None (Some v) false false) = true).
    { unfold good, wf_rng, proper, nolocal_r, flags_ok, rbounds. cbn. rewrite W, L. reflexivity. }
    assert (G2 : good (RR (Some v) None false false) = true).
    { unfold good, wf_rng, proper, nolocal_r, flags_ok, rbounds. cbn. rewrite W, L. reflexivity. }
    rewrite G1, G2. split; [reflexivity|]. split.
    - rewrite !andb_true_r. unfold is_strictly_lower. rewrite (allowed_max_proper None v false false eq_refl). cbn [rmin imax imin orb andb negb].
      destruct (is_unstable v) eqn:U.
      + replace (vltb v v) with false by (symmetry; clear; ol [v]). replace (vgtb v v) with false by (symmetry; clear; ol [v]). reflexivity.
      + rewrite (fd_lt v W); [reflexivity|]. unfold is_unstable in U. apply orb_false_iff in U. tauto.
    - unfold rbounds. cbn. intros e [<-|[<-|[]]]; exact I.
  Qed.
End Parsed.

Lemma mutual_of_bool B : forallb (fun e => forallb (regular1 e) B) B = true -> mutual B.
Proof. intros H e e' He He'. rewrite forallb_forall in H. specialize (H e He). rewrite forallb_forall in H. exact (H e' He'). Qed.

Theorem class_closed_and_exact : forall B, mutual B -> forall a b, inK B a -> inK B b ->
  (forall c, union a b = Ok c -> inK B c /\ forall v, wf v = true -> regB B v = true -> sem c v = sem a v || sem b v) /\
  (forall c, intersect a b = Ok c -> inK B c /\ forall v, wf v = true -> regB B v = true -> sem c v = sem a v && sem b v) /\
  (forall c, difference a b = Ok c -> inK B c /\ forall v, wf v = true -> regB B v = true -> sem c v = sem a v && negb (sem b v)).
Proof.
  intros B MU a b Ka Kb. split; [|split]; intros c H.
  - exact (K_union B MU a b c Ka Kb H).
  - exact (K_intersect B MU a b c Ka Kb H).
  - exact (K_difference B MU a b c Ka Kb H).
Qed.

Lemma three_leaves a b d : goodc a = true -> sorted_c a = true -> goodc b = true -> sorted_c b = true -> goodc d = true -> sorted_c d = true ->
  let B := cbounds a ++ cbounds b ++ cbounds d in inK B a /\ inK B b /\ inK B d.
Proof.
  intros Ga Sa Gb Sb Gd Sd B. unfold inK. repeat split; try assumption.
  - apply incl_appl, incl_refl.
  - apply incl_appr, incl_appl, incl_refl.
  - apply incl_appr, incl_appr, incl_refl.
Qed.
Open Scope string_scope.
Definition ex_c (s : string) : vc := match parse_constraint_text false false s with Ok c => c | Err _ => VEmpty end.
Definition ex_a := ex_c ">=1.0,<2.0 || >3.0,<=4.0 || 5.0".
Definition ex_b := ex_c "!=1.5".
Definition ex_d := ex_c ">=1.5,<=3.5 || >=5.0".
Definition ex_B := (cbounds ex_a ++ cbounds ex_b ++ cbounds ex_d)%list.
Definition ex_e := CDiff (CUnion (CInter (CLeaf ex_a) (CLeaf ex_b)) (CLeaf ex_d)) (CInter (CLeaf ex_d) (CLeaf ex_a)).
Lemma ex_mutual : mutual ex_B.
Proof. refine (mutual_of_bool ex_B _). vm_compute. reflexivity. Qed.
Lemma ex_Ga : goodc ex_a = true. Proof. vm_compute. reflexivity. Qed.
Lemma ex_Sa : sorted_c ex_a = true. Proof. vm_compute. reflexivity. Qed.
Lemma ex_Gb : goodc ex_b = true. Proof. vm_compute. reflexivity. Qed.
Lemma ex_Sb : sorted_c ex_b = true. Proof. vm_compute. reflexivity. Qed.
Lemma ex_Gd : goodc ex_d = true. Proof. vm_compute. reflexivity. Qed.
Lemma ex_Sd : sorted_c ex_d = true. Proof. vm_compute. reflexivity. Qed.
Lemma ex_leaves : leaves_in ex_B ex_e.
Proof.
  destruct (three_leaves ex_a ex_b ex_d ex_Ga ex_Sa ex_Gb ex_Sb ex_Gd ex_Sd) as (Ka & Kb & Kd).
  exact (conj (conj (conj Ka Kb) Kd) (conj Kd Ka)).
Qed.
Lemma ex_eval : match ceval ex_e with Ok c => vc_str c | Err e => Err e end = Ok ">=1.0,<1.5 || >=2.0,<=3.0 || >3.5,<=4.0 || >5.0".
Proof. vm_compute. reflexivity. Qed.

(* C12 on results of the algebra: the answers about two expressions over the closed class are answers about what the expressions mean *)
Theorem answers_on_expressions B : mutual B -> forall e1 e2 x y, leaves_in B e1 -> leaves_in B e2 -> ceval e1 = Ok x -> ceval e2 = Ok y ->
  (allows_all x y = true -> forall v, wf v = true -> regB B v = true -> cmeans e2 v = true -> cmeans e1 v = true) /\
  (allows_any x y = Ok false -> forall v, wf v = true -> regB B v = true -> cmeans e1 v && cmeans e2 v = false).
Proof.
  intros MU e1 e2 x y L1 L2 H1 H2.
  destruct (expr_exact B MU e1 x L1 H1) as [(Gx & Sx & Ix) Mx]. destruct (expr_exact B MU e2 y L2 H2) as [(Gy & Sy & Iy) My].
  split.
  - intros A v Wv R. rewrite <- (Mx v Wv R), <- (My v Wv R).
    exact (allows_all_yes_is_right x y v Gx Gy Wv (regular_incl v _ _ Ix R) (regular_incl v _ _ Iy R) A).
  - intros A v Wv R. rewrite <- (Mx v Wv R), <- (My v Wv R).
    exact (allows_any_no_is_right x y Gx Gy Sx Sy A v Wv (regular_incl v _ _ Ix R) (regular_incl v _ _ Iy R)).
Qed.
