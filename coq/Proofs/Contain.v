(* C12, every constraint shape: a "yes" from allows_all is never wrong. *)
From Coq Require Import List Bool NArith ZArith String Ascii Lia ZifyBool.
From PC Require Import Base.Cmp Base.Result Base.RankEmbed Model.Pep440 Spec.Pep440Spec Proofs.Pep440Order
     Proofs.VersionFacts Model.VConstraint Proofs.RangeSpec Proofs.RangeAlg Proofs.RangeOps Proofs.UnionHull Proofs.UnionExact.
Import ListNotations.
Open Scope list_scope.

Lemma veqb_trans x y z : veqb x y = true -> veqb y z = true -> veqb x z = true.
Proof. intros A B. rewrite (veqb_eq_l _ _ z A). exact B. Qed.

(* range-like level, all four shape combinations *)
Lemma r_allows_all_sound a b v : good a = true -> good b = true -> wf v = true ->
  regular_r v a = true -> regular_r v b = true -> r_allows_all a b = true -> mem b v = true -> mem a v = true.
Proof.
  intros Ga Gb Wv Ra Rb H Mb.
  destruct (good_parts _ Ga) as (Wa & Pa & La & Fa). destruct (good_parts _ Gb) as (Wb & Pb & Lb & Fb).
  destruct a as [x|lo hi i j], b as [y|lo' hi' i' j'].
  - destruct (good_rv y Gb) as [_ Ly]. cbn [r_allows_all] in H. rewrite (v_allows_nolocal x y Ly) in H.
    rewrite mem_single in *. rewrite veqb_sym in H. exact (veqb_trans _ _ _ Mb H).
  - cbn [r_allows_all] in H. unfold rr_eq_version in H. cbn [rmin rmax imin imax] in H.
    rewrite !andb_true_iff in H. destruct H as [[[H1 H2] _] _].
    destruct lo' as [m|], hi' as [n|]; cbn [oveq] in *; try discriminate.
    unfold proper in Pb. exfalso. clear - Pb H1 H2. order_lia [m; n; x].
  - cbn [r_allows_all] in H. destruct (good_rv y Gb) as [Wy _]. rewrite mem_single in Mb.
    exact (absorbs_point (RR lo hi i j) y Wa Wy H v Wv Ra Mb).
  - exact (rr_allows_all_sound lo hi i j lo' hi' i' j' v Wa Wb Ra Rb H Mb).
Qed.

Definition regular_l (v : version) (l : list rng) : bool := forallb (regular1 v) (lbounds l).
Lemma regular_l_in v l r : regular_l v l = true -> In r l -> regular_r v r = true.
Proof.
  unfold regular_l, regular_r, lbounds. intros H Hr. rewrite forallb_forall in *. intros e He. apply H. apply in_flat_map. exists r. auto.
Qed.
Lemma good_in l r : forallb good l = true -> In r l -> good r = true.
Proof. intros H Hr. rewrite forallb_forall in H. apply H, Hr. Qed.

(* the containment walk of VersionUnion.allows_all: a yes means every member of theirs is inside a member of ours *)
Lemma walk_all_sound : forall ours theirs, walk_all ours theirs = true ->
  forall t, In t theirs -> exists o, In o ours /\ r_allows_all o t = true.
Proof.
  induction ours as [|o os IHo]; intros theirs; induction theirs as [|t ts IHt]; intros H x Hx; try (destruct Hx; fail).
  - cbn in H. discriminate.
  - cbn [walk_all] in H. destruct (r_allows_all o t) eqn:E.
    + destruct Hx as [<-|Hx]; [exists o; split; [left; reflexivity|exact E]|].
      apply (IHt H x Hx).
    + destruct (IHo (t :: ts) H x Hx) as [o' [Ho' E']]. exists o'. split; [right; exact Ho'|exact E'].
Qed.
Lemma lmem_in l v : lmem l v = true -> exists r, In r l /\ mem r v = true.
Proof. intros H. apply existsb_exists in H. exact H. Qed.
Lemma in_lmem l r v : In r l -> mem r v = true -> lmem l v = true.
Proof. intros Hr Hm. apply existsb_exists. exists r. auto. Qed.

Theorem allows_all_sound a b v : goodc a = true -> goodc b = true -> wf v = true ->
  regular_c v a = true -> regular_c v b = true ->
  allows_all a b = true -> vmem b v = true -> vmem a v = true.
Proof.
  intros Ga Gb Wv Ra Rb H Mb. rewrite vmem_flatten in *. unfold goodc, regular_c in *. rewrite cbounds_flatten in *.
  fold (regular_l v (flatten a)) in Ra. fold (regular_l v (flatten b)) in Rb.
  assert (Key : (forall t, In t (flatten b) -> exists o, In o (flatten a) /\ r_allows_all o t = true) -> lmem (flatten a) v = true).
  { intros K. destruct (lmem_in _ _ Mb) as [t [Ht Mt]]. destruct (K t Ht) as [o [Ho E]].
    apply (in_lmem _ o v Ho).
    exact (r_allows_all_sound o t v (good_in _ _ Ga Ho) (good_in _ _ Gb Ht) Wv (regular_l_in v _ o Ra Ho) (regular_l_in v _ t Rb Ht) E Mt). }
  destruct a as [|ra|la].
  - destruct b; cbn in *; try discriminate. 
  - destruct ra as [x|lo hi i j].
    + destruct b as [|rb|lb]; cbn [allows_all flatten] in *; [discriminate Mb| |discriminate].
      apply Key. intros t [<-|[]]. exists (RV x). split; [left; reflexivity|exact H].
    + destruct b as [|rb|lb]; cbn [allows_all flatten] in *; [discriminate Mb| |].
      * apply Key. intros t [<-|[]]. exists (RR lo hi i j). split; [left; reflexivity|exact H].
      * apply Key. intros t Ht. exists (RR lo hi i j). split; [left; reflexivity|]. rewrite forallb_forall in H. apply H, Ht.
  - cbn [allows_all] in H. apply Key. exact (walk_all_sound la (flatten b) H).
Qed.

(* in the implementation's own membership *)
Theorem allows_all_yes_is_right a b v : goodc a = true -> goodc b = true -> wf v = true ->
  regular_c v a = true -> regular_c v b = true ->
  allows_all a b = true -> sem b v = true -> sem a v = true.
Proof.
  intros Ga Gb Wv Ra Rb H. rewrite (sem_regular a v Ga Wv Ra), (sem_regular b v Gb Wv Rb).
  exact (allows_all_sound a b v Ga Gb Wv Ra Rb H).
Qed.

(* ---- each constraint allows all of itself ---- *)
Lemma r_allows_all_self r : r_allows_all r r = true.
Proof.
  destruct r as [x|lo hi i j]; [|apply rr_allows_all_self].
  cbn [r_allows_all]. unfold v_allows. destruct (is_local x); cbn [negb andb]; apply veqb_refl.
Qed.
Inductive suffix {A} : list A -> list A -> Prop :=
  | suffix_refl l : suffix l l
  | suffix_cons x l l' : suffix l l' -> suffix l (x :: l').
Lemma suffix_tail {A} (t : A) ts l : suffix (t :: ts) l -> suffix ts l.
Proof.
  intros H. remember (t :: ts) as s eqn:Es. induction H as [l|x l l' H IH]; subst.
  - apply suffix_cons, suffix_refl.
  - apply suffix_cons, IH. reflexivity.
Qed.
Lemma walk_all_suffix : forall ours theirs, suffix theirs ours -> walk_all ours theirs = true.
Proof.
  induction ours as [|o os IHo]; intros theirs; induction theirs as [|t ts IHt]; intros S.
  - reflexivity.
  - inversion S.
  - reflexivity.
  - cbn [walk_all]. destruct (r_allows_all o t) eqn:E.
    + apply IHt. exact (suffix_tail t ts _ S).
    + apply IHo. inversion S as [l Hl|x l l' S' Hx]; subst; [rewrite r_allows_all_self in E; discriminate|exact S'].
Qed.
Theorem allows_all_self c : match c with VOne (RV _) => True | _ => allows_all c c = true end.
Proof.
  destruct c as [|[x|lo hi i j]|l]; try exact I; try reflexivity.
  - cbn [allows_all]. apply rr_allows_all_self.
  - cbn [allows_all flatten]. apply walk_all_suffix, suffix_refl.
Qed.
Theorem allows_all_self_version x : allows_all (VOne (RV x)) (VOne (RV x)) = true.
Proof. cbn [allows_all]. exact (r_allows_all_self (RV x)). Qed.
