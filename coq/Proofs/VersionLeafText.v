(* C06: a comparison leaf on python_version / python_full_version, from its text to its constraint.
   The leaf text 'op V' is matched by _CONSTRAINT_RE_PATTERN_1 (the operator alternatives in their order, modelled by p1_try),
   then given to parse_marker_version_constraint, i.e. _parse_constraint on the raw text (ConstraintText.v) and
   parse_single_constraint (ClauseText.v).  With the membership theorems of C04/C06 the text of such a leaf means what
   PEP 508 says, for every literal in normal form. *)
From Coq Require Import List Bool Arith NArith String Ascii Lia.
From PC Require Import Base.Cmp Base.Result Model.Pep440 Spec.Pep440Spec Proofs.Pep440Order Proofs.Pep440Parse Model.VConstraint Model.Generic Model.Marker
     Proofs.Pep440RoundTrip Proofs.ClauseText Proofs.AnyIff Proofs.ConstraintText.
Import ListNotations.
Open Scope char_scope.
Open Scope N_scope.
Open Scope list_scope.

Lemma no_newline_printed v : printable v = true -> Forall (fun c => (code c =? 10) = false) (printed v).
Proof.
  intros P. apply printed_P; try reflexivity; [|exact P]. intros c Hc. pose proof (low_alnum_code c Hc). apply N.eqb_neq. lia.
Qed.
Lemma p1_value_printed v : printable v = true -> p1_value (printed v) = Some (printed v).
Proof.
  intros P. pose proof (no_newline_printed v P) as NN. pose proof (printed_ne v P) as NE.
  unfold p1_value.
  assert (B : match rev (printed v) with c :: r => if code c =? 10 then rev r else printed v | [] => printed v end = printed v).
  { destruct (rev (printed v)) as [|c r] eqn:E; [reflexivity|].
    assert (In c (printed v)) by (apply in_rev; rewrite E; left; reflexivity).
    rewrite Forall_forall in NN. rewrite (NN c H). reflexivity. }
  rewrite B.
  assert (X : existsb (fun c => code c =? 10) (printed v) = false).
  { apply not_true_iff_false. intros X. apply existsb_exists in X as (c & Hc & Hx). rewrite Forall_forall in NN. rewrite (NN c Hc) in Hx. discriminate. }
  rewrite X. destruct (printed v); [congruence|reflexivity].
Qed.
Lemma drop_spaces_printed v : printable v = true -> drop_spaces (printed v) = printed v.
Proof.
  intros P. destruct (printed_starts_digit v P) as (d & r & E & Hd). rewrite E. unfold drop_spaces. cbn [span]. rewrite (digit_not_space d Hd). reflexivity.
Qed.

Local Arguments Ascii.eqb : simpl never.
Local Arguments lower : simpl never.
Lemma p1_step_skip o rest l : strip_prefix (lchars o) (map lower (firstn (String.length o) l)) = None ->
  p1_try (o :: rest) l = p1_try rest l.
Proof. intros H. cbn [p1_try]. rewrite H. reflexivity. Qed.
Lemma p1_step_hit o rest l v : strip_prefix (lchars o) (map lower (firstn (String.length o) l)) = Some [] ->
  p1_value (drop_spaces (skipn (String.length o) l)) = Some v ->
  p1_try (o :: rest) l = Some (Some (firstn (String.length o) l), v).
Proof. intros H1 H2. cbn [p1_try]. rewrite H1, H2. reflexivity. Qed.
Ltac lower_closed :=
  repeat match goal with |- context[lower ?c] =>
    tryif is_var c then fail else (let v := eval vm_compute in (lower c) in change (lower c) with v) end.
Ltac eqb_cl :=
  repeat match goal with |- context[Ascii.eqb ?x ?y] =>
    let v := eval vm_compute in (Ascii.eqb x y) in
    match v with true => change (Ascii.eqb x y) with true | false => change (Ascii.eqb x y) with false end end.

(* the operator prefix of a version leaf: the alternatives of _CONSTRAINT_RE_PATTERN_1 in their order *)
Lemma p1_try_op (op : string) v : printable v = true ->
  In op ["~="; "!="; ">="; ">"; "<="; "<"; "=="]%string ->
  p1_try p1_ops (lchars op ++ printed v) = Some (Some (lchars op), printed v).
Proof.
  intros P Hop. destruct (printed_starts_digit v P) as (d & r & E & Hd).
  assert (Ld : lower d = d) by (apply low_alnum_lower; unfold low_alnum; rewrite Hd; reflexivity).
  assert (Ne : Ascii.eqb "=" d = false) by (apply digit_not; [exact Hd|reflexivity]).
  pose proof (p1_value_printed v P) as PV. pose proof (drop_spaces_printed v P) as DS.
  unfold p1_ops.
  Ltac side Ld Ne E := cbn [String.length firstn skipn map lchars list_ascii_of_string app]; rewrite ?E; cbn [firstn skipn map app]; rewrite ?Ld; lower_closed;
                       repeat (cbn [strip_prefix]; eqb_cl; rewrite ?Ne); reflexivity.
  cbn [In] in Hop. destruct Hop as [<-|[<-|[<-|[<-|[<-|[<-|[<-|[]]]]]]]].
  all: repeat (rewrite p1_step_skip by side Ld Ne E).
  all: erewrite p1_step_hit; [reflexivity|side Ld Ne E|cbn [String.length skipn lchars list_ascii_of_string app]; rewrite DS; exact PV].
Qed.

Definition op_result (op : string) (v : version) : vc :=
  if String.eqb op ">=" then VOne (RR (Some v) None true false)
  else if String.eqb op "<=" then VOne (RR None (Some v) false true)
  else if String.eqb op ">" then VOne (RR (Some v) None false false)
  else if String.eqb op "<" then VOne (RR None (Some v) false false)
  else if String.eqb op "!=" then VUnion [RR None (Some v) false false; RR (Some v) None false false]
  else VOne (RV v).
Lemma clause_of_op m (op : string) v : printable v = true -> In op [">="; "<="; ">"; "<"; "=="; "!="]%string ->
  parse_single m (op ++ to_string v) = Ok (op_result op (reparsed v)).
Proof.
  intros P H. cbn [In] in H. destruct H as [<-|[<-|[<-|[<-|[<-|[<-|[]]]]]]]; unfold op_result; cbn [String.eqb Ascii.eqb];
  [apply clause_ge|apply clause_le|apply clause_gt|apply clause_lt|apply clause_eq2|apply clause_ne]; exact P.
Qed.

(* C06: a comparison leaf on python_version / python_full_version, from its text to its constraint, for every literal in normal form *)
Theorem version_leaf_text (name op : string) v : printable v = true ->
  (name = "python_version" \/ name = "python_full_version")%string ->
  In op [">="; "<="; ">"; "<"; "=="; "!="]%string ->
  (Nat.ltb (S (count_dots (to_string v))) 3 && digits_and_dots (to_string v) = false \/ name = "python_version"%string) ->
  mk_leaf name (op ++ to_string v) false = Ok (mkLeaf name op (to_string v) false (CV (op_result op (reparsed v)))).
Proof.
  intros P Hn Hop Hpad. unfold mk_leaf. cbn [andb].
  assert (P1 : p1_try p1_ops (lchars (op ++ to_string v)) = Some (Some (lchars op), printed v)).
  { rewrite (lchars_clause op v P). apply p1_try_op; [exact P|]. cbn [In] in *. tauto. }
  rewrite P1. rewrite soa_lchars, (printed_to_string v P).
  assert (Hio : String.eqb op "in" = false /\ String.eqb op "not in" = false).
  { cbn [In] in Hop. destruct Hop as [<-|[<-|[<-|[<-|[<-|[<-|[]]]]]]]; split; reflexivity. }
  destruct Hio as [-> ->]. cbn [orb].
  assert (VL : is_version_like name = true) by (destruct Hn as [-> | ->]; reflexivity).
  assert (AL : alias name = name) by (destruct Hn as [-> | ->]; reflexivity).
  assert (PR : negb (String.eqb name "platform_release") = true) by (destruct Hn as [-> | ->]; reflexivity).
  rewrite VL, AL, PR.
  assert (PD : (String.eqb name "python_full_version" && negb false && Nat.ltb (S (count_dots (to_string v))) 3 && digits_and_dots (to_string v)) = false).
  { destruct Hpad as [H| ->]; [|reflexivity]. rewrite <- !andb_assoc. rewrite H. rewrite !andb_false_r. reflexivity. }
  rewrite PD.
  assert (PL : forallb plain (lchars op) = true).
  { cbn [In] in Hop. destruct Hop as [<-|[<-|[<-|[<-|[<-|[<-|[]]]]]]]; reflexivity. }
  rewrite (one_clause_text true op v _ P PL (clause_of_op true op v P Hop)). reflexivity.
Qed.
Print Assumptions version_leaf_text.
