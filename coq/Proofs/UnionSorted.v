(* C05/C12: VersionUnion.of returns its members in order and pairwise strictly apart ([sorted_c]) whenever the members it is given are
   good and their bounds mutually regular: the invariant of the look-back merge loop over the sorted input. *)
From Coq Require Import List Bool NArith ZArith String Ascii Lia ZifyBool.
From PC Require Import Base.Cmp Base.Result Base.RankEmbed Model.Pep440 Spec.Pep440Spec Proofs.Pep440Order
     Proofs.VersionFacts Model.VConstraint Proofs.RangeSpec Proofs.RangeAlg Proofs.RangeOps Proofs.UnionHull Proofs.UnionExact Proofs.Contain Proofs.InterExact Proofs.UnionTotal Proofs.UnionTotalGood Proofs.DiffExact Proofs.DiffUnion Proofs.EqCompound Proofs.SortedOrder.
Import ListNotations.
Open Scope list_scope.
(* rev_merged: the head is the last (highest) member *)
Fixpoint chain (rm : list rng) : Prop :=
  match rm with [] => True | m :: rest => Forall (fun x => is_strictly_lower x m = true) rest /\ chain rest end.
Lemma sepb_app_one m : forall l, sepb l = true -> Forall (fun x => is_strictly_lower x m = true) l -> sepb (l ++ [m]) = true.
Proof.
  induction l as [|x l IH]; intros S F; [reflexivity|]. cbn [sepb app] in *. apply andb_true_iff in S as [S1 S2].
  inversion F as [|? ? Fx Fl]; subst. rewrite forallb_app, S1, (IH S2 Fl). cbn [forallb]. rewrite Fx. reflexivity.
Qed.
Lemma chain_sepb : forall rm, chain rm -> sepb (rev rm) = true.
Proof.
  induction rm as [|m rest IH]; intros C; [reflexivity|]. cbn [chain rev] in *. destruct C as [F C].
  apply sepb_app_one; [apply IH, C|]. rewrite Forall_forall in *. intros x Hx. apply F, in_rev, Hx.
Qed.

Section Merge.
  Variable ofn : list vc -> res vc.
  Hypothesis Hof : OfnSound ofn.
  Variable B : list version.
  Hypothesis MU : mutual B.

  Lemma mutual_mreg2 a b : incl (rbounds a) B -> incl (rbounds b) B -> mreg2 a b.
  Proof. intros Ia Ib x y Hx Hy. split; apply MU; auto. Qed.

  Lemma merge_back_none c : forall rest, Forall (fun x => touch x c = false) rest -> merge_back ofn rest c = Ok None.
  Proof.
    induction rest as [|m rest IH]; intros F; [reflexivity|]. inversion F as [|? ? Fm Fr]; subst. cbn [merge_back].
    unfold touch in Fm. rewrite Fm, (IH Fr). reflexivity.
  Qed.
  Lemma r_union_one m c r : good m = true -> good c = true -> r_union ofn m c = Ok (VOne r) ->
    good r = true /\ incl (rbounds r) (rbounds m ++ rbounds c).
  Proof.
    intros Gm Gc H. destruct (r_union_exact ofn m c (VOne r) Hof Gm Gc H) as (_ & Ib & Gr).
    unfold goodc in Gr. cbn [flatten forallb] in Gr. rewrite andb_true_r in Gr. split; [exact Gr|].
    unfold cbounds in Ib. cbn [flatten flat_map] in Ib. rewrite !app_nil_r in Ib. exact Ib.
  Qed.

  Definition head_le (rm l : list rng) : Prop :=
    match rm with m :: _ => Forall (fun e => lo_le m e = true) l | [] => True end.
  Definition Inv (rm l : list rng) : Prop :=
    forallb good rm = true /\ forallb good l = true /\ chain rm /\ incl (lbounds rm) B /\ incl (lbounds l) B /\
    lo_sorted l /\ head_le rm l.

  Lemma lb_cons_in x l : incl (lbounds (x :: l)) B <-> incl (rbounds x) B /\ incl (lbounds l) B.
  Proof.
    unfold lbounds. cbn [flat_map]. split.
    - intros H. split; intros e He; apply H, in_or_app; auto.
    - intros [H1 H2] e He. apply in_app_or in He as [He|He]; auto.
  Qed.

  Lemma step rm c l : Inv rm (c :: l) -> exists rm', (exists o, merge_back ofn rm c = Ok o /\ rm' = match o with Some m' => m' | None => c :: rm end) /\ Inv rm' l.
  Proof.
    intros (Grm & Gl & Ch & Brm & Bl & Srt & Hd). cbn [forallb] in Gl. apply andb_true_iff in Gl as [Gc Gl].
    apply lb_cons_in in Bl as [Bc Bl]. cbn [lo_sorted] in Srt. destruct Srt as [Fc Srt].
    destruct rm as [|m rest].
    - exists [c]. split; [exists None; split; reflexivity|].
      repeat split; auto.
      + cbn [forallb]. rewrite Gc. reflexivity.
      + apply lb_cons_in. split; [exact Bc|intros e []].
    - cbn [forallb] in Grm. apply andb_true_iff in Grm as [Gm Grest]. apply lb_cons_in in Brm as [Bm Brest].
      cbn [chain] in Ch. destruct Ch as [Fm Ch]. cbn [head_le] in Hd. inversion Hd as [|? ? Lmc Lml]; subst.
      pose proof (mutual_mreg2 m c Bm Bc) as Mmc.
      destruct (touch m c) eqn:T.
      + destruct (r_union_touch ofn m c Gm Gc T) as [r Hr].
        exists (r :: rest). split.
        * exists (Some (r :: rest)). cbn [merge_back]. unfold touch in T. rewrite T, Hr. cbn [bind]. split; reflexivity.
        * destruct (r_union_one m c r Gm Gc Hr) as [Gr Ir].
          pose proof (touch_lower ofn m c r Gm Gc Mmc Lmc T Hr) as LE.
          repeat split; auto.
          -- cbn [forallb]. rewrite Gr, Grest. reflexivity.
          -- rewrite Forall_forall in *. intros x Hx. exact (sl_lo_eq x m r LE (Fm x Hx)).
          -- apply lb_cons_in. split; [|exact Brest]. intros e He. apply Ir in He. apply in_app_or in He as [He|He]; auto.
          -- cbn [head_le]. rewrite Forall_forall in *. intros e He. exact (lo_eq_le r m e LE (Lml e He)).
      + assert (NA : r_allows_any m c = false) by (unfold touch in T; apply orb_false_iff in T; tauto).
        pose proof (no_touch_above m c Gm Gc Mmc Lmc NA) as SL.
        assert (Frest : Forall (fun x => is_strictly_lower x c = true /\ touch x c = false) rest).
        { rewrite Forall_forall in *. intros x Hx. rewrite forallb_forall in Grest.
          assert (Bx : incl (rbounds x) B).
          { intros e He. apply Brest. unfold lbounds. apply in_flat_map. exists x. auto. }
          apply (chain_trans x m c (Grest x Hx) Gm Gc (mutual_mreg2 x m Bx Bm) Mmc (mutual_mreg2 x c Bx Bc) (Fm x Hx) SL). }
        exists (c :: m :: rest). split.
        * exists None. cbn [merge_back]. unfold touch in T. rewrite T. rewrite (merge_back_none c rest); [split; reflexivity|].
          rewrite Forall_forall in *. intros x Hx. exact (proj2 (Frest x Hx)).
        * repeat split; auto.
          -- cbn [forallb]. rewrite Gc, Gm, Grest. reflexivity.
          -- constructor; [exact SL|]. rewrite Forall_forall in *. intros x Hx. exact (proj1 (Frest x Hx)).
          -- apply lb_cons_in. split; [exact Bc|]. apply lb_cons_in. split; assumption.
  Qed.

  Theorem merge_all_sorted : forall l rm res, Inv rm l -> merge_all ofn rm l = Ok res ->
    sepb res = true /\ forallb good res = true /\ incl (lbounds res) B.
  Proof.
    induction l as [|c l IH]; intros rm res I H.
    - cbn [merge_all] in H. injection H as <-. destruct I as (Grm & _ & Ch & Brm & _).
      split; [apply chain_sepb, Ch|]. split.
      + rewrite forallb_forall in *. intros x Hx. apply Grm, in_rev, Hx.
      + intros e He. apply Brm. unfold lbounds in *. apply in_flat_map in He as (x & Hx & He). apply in_flat_map. exists x. split; [apply in_rev, Hx|exact He].
    - cbn [merge_all] in H. destruct (step rm c l I) as (rm' & (o & Ho & ->) & I'). rewrite Ho in H. cbn [bind] in H.
      exact (IH _ res I' H).
  Qed.
End Merge.

Lemma sepb_one r : sepb [r] = true. Proof. reflexivity. Qed.

(* VersionUnion.of returns members in order and pairwise strictly apart, whenever the bounds it is given are mutually regular *)
Theorem vunion_of_sorted B (MU : mutual B) : forall fuel cs c, forallb goodc cs = true -> incl (flat_map cbounds cs) B ->
  vunion_of fuel cs = Ok c -> sorted_c c = true.
Proof.
  intros fuel cs c G Bc H. destruct fuel as [|f]; [discriminate|]. cbn [vunion_of] in H.
  pose proof (flat_goodc cs G) as Gf. pose proof (lbounds_flat cs) as Bfl.
  remember (flat_map flatten cs) as fl eqn:Hfl. clear Hfl.
  destruct fl as [|r0 fl0]; [injection H as <-; reflexivity|].
  remember (r0 :: fl0) as fl eqn:Hfl. clear Hfl.
  destruct (existsb r_is_any fl); [injection H as <-; reflexivity|].
  destruct (merge_all (vunion_of f) [] (sort_ranges fl)) as [merged|e] eqn:Hm; [|discriminate]. cbn [bind] in H.
  assert (I : Inv B [] (sort_ranges fl)).
  { unfold Inv. repeat split.
    - rewrite forallb_forall in *. intros x Hx. apply Gf, in_sort, Hx.
    - intros e []. 
    - intros e He. apply Bc. rewrite <- Bfl. unfold lbounds in *. apply in_flat_map in He as (x & Hx & He). apply in_flat_map. exists x. split; [apply in_sort, Hx|exact He].
    - apply sort_lo_sorted. }
  destruct (merge_all_sorted (vunion_of f) (vunion_of_sound f) B MU _ _ merged I Hm) as (S & _ & _).
  destruct merged as [|r [|r' rest]]; injection H as <-; [exact S|reflexivity|exact S].
Qed.
