(* C05, difference of two range-likes (every shape: single version / range on either side): exact on regular probes, for
   operands whose bounds are mutually regular ([mreg_r]: every bound of b is equal to, or of another release class than,
   every bound of a — decidable).  The pieces below and above the subtrahend are characterised separately; the
   comparison of allowed maxima (first dev release of an exclusive stable bound) is related to the plain maxima. *)
From Coq Require Import List Bool NArith ZArith String Ascii Lia ZifyBool.
From PC Require Import Base.Cmp Base.Result Base.RankEmbed Model.Pep440 Spec.Pep440Spec Proofs.Pep440Order
     Proofs.VersionFacts Model.VConstraint Proofs.RangeSpec Proofs.RangeAlg Proofs.RangeOps Proofs.UnionHull Proofs.UnionExact Proofs.Contain Proofs.InterExact.
Import ListNotations.
Open Scope list_scope.

Definition ExactD (a b : rng) (c : vc) : Prop :=
  (forall v, wf v = true -> regular_r v a = true -> regular_r v b = true -> vmem c v = mem a v && negb (mem b v)) /\
  incl (cbounds c) (rbounds a ++ rbounds b) /\ goodc c = true.

Lemma exactd_one a b r :
  (forall v, wf v = true -> regular_r v a = true -> regular_r v b = true -> mem r v = mem a v && negb (mem b v)) ->
  incl (rbounds r) (rbounds a ++ rbounds b) -> good r = true -> ExactD a b (VOne r).
Proof.
  intros Hm Hi Hg. split; [|split].
  - intros v Wv Ra Rb. cbn [vmem]. apply Hm; assumption.
  - unfold cbounds. cbn [flat_map flatten]. rewrite app_nil_r. exact Hi.
  - unfold goodc. cbn [flatten forallb]. rewrite Hg. reflexivity.
Qed.
Lemma exactd_empty a b : (forall v, wf v = true -> regular_r v a = true -> regular_r v b = true -> mem a v && negb (mem b v) = false) -> ExactD a b VEmpty.
Proof. intros H. split; [|split]; [intros v Wv Ra Rb; rewrite (H v Wv Ra Rb); reflexivity | intros e [] | reflexivity]. Qed.
Lemma exactd_same a b : good a = true ->
  (forall v, wf v = true -> regular_r v a = true -> regular_r v b = true -> mem a v = true -> mem b v = false) -> ExactD a b (VOne a).
Proof.
  intros G H. apply exactd_one; [|intros e He; apply in_or_app; left; exact He|exact G].
  intros v Wv Ra Rb. destruct (mem a v) eqn:M; [|reflexivity]. rewrite (H v Wv Ra Rb M). reflexivity.
Qed.

(* the part of a below b's lower end, and the part above b's upper end *)
Section Pieces.
  Variables a b : rng.
  Hypothesis Ga : good a = true.
  Hypothesis Gb : good b = true.
  Hypothesis Ia : is_rr a = true.
  Hypothesis Ib : is_rr b = true.
  Hypothesis Ov : r_allows_any a b = true.

  Let Wa := good_wf a Ga. Let Wb := good_wf b Gb.
  Lemma overlap_facts v : regular_r v a = true -> regular_r v b = true ->
    (below a v = true \/ above b v = true) /\ (below b v = true \/ above a v = true).
  Proof.
    intros Ra Rb. destruct a as [x|lo hi i j] eqn:Ea; [discriminate|]. destruct b as [y|lo' hi' i' j'] eqn:Eb; [discriminate|].
    rewrite <- Ea, <- Eb in *. assert (H : is_strictly_lower b a = false /\ is_strictly_lower a b = false).
    { rewrite Ea, Eb in Ov. cbn [r_allows_any] in Ov. rewrite <- Ea, <- Eb in Ov. unfold is_strictly_higher in Ov.
      apply negb_true_iff, orb_false_iff in Ov. exact Ov. }
    destruct H as [H1 H2]. split.
    - destruct (strictly_lower_spec a b v Wa Ra Rb) as [_ S]. exact (S H2).
    - destruct (strictly_lower_spec b a v Wb Rb Ra) as [_ S]. exact (S H1).
  Qed.
End Pieces.

Ltac bounds_incl := let e := fresh "e" in let He := fresh "He" in
  intros e He; unfold rbounds in *; cbn [rmin rmax obounds app In] in *; rewrite ?in_app_iff in *; cbn [In obounds] in *; tauto.

Definition before_piece (a b : rng) : option rng :=
  if oveq (rmin a) (rmin b) then match rmin a with Some m => Some (RV m) | None => None end
  else Some (RR (rmin a) (rmin b) (imin a) (negb (imin b))).
Definition after_piece (a b : rng) : option rng :=
  if oveq (rmax a) (rmax b) then match rmax a with Some m => Some (RV m) | None => None end
  else Some (RR (rmax b) (rmax a) (negb (imax b)) (imax a)).

Lemma good_rv_of m : wf m = true -> is_local m = false -> good (RV m) = true.
Proof. intros W L. unfold good, wf_rng, nolocal_r, proper, flags_ok, rbounds. cbn. rewrite W, L. reflexivity. Qed.

(* the piece below b: exactly the members of a that are not above b's lower end *)
Lemma before_exact a b : good a = true -> good b = true -> is_rr a = true -> is_rr b = true -> allows_lower a b = true ->
  exists r, before_piece a b = Some r /\ good r = true /\ incl (rbounds r) (rbounds a ++ rbounds b) /\
    forall v, mem r v = above a v && negb (above b v).
Proof.
  intros Ga Gb Ia Ib AL.
  destruct (good_parts _ Ga) as (Wa & Pa & La & Fa). destruct (good_parts _ Gb) as (Wb & Pb & Lb & Fb).
  destruct a as [x|alo ahi ai aj]; [discriminate|]. destruct b as [y|blo bhi bi bj]; [discriminate|].
  unfold before_piece, allows_lower, above, mem, below in *. cbn [rmin rmax imin imax] in *.
  destruct blo as [y|]; [|destruct alo; discriminate].
  assert (Wy : wf y = true /\ is_local y = false) by (apply (good_bound_min (RR (Some y) bhi bi bj) y Gb eq_refl)).
  destruct Wy as [Wy Ly].
  destruct alo as [x|]; cbn [oveq is_some] in *.
  - assert (Wx : wf x = true /\ is_local x = false) by (apply (good_bound_min (RR (Some x) ahi ai aj) x Ga eq_refl)).
    destruct Wx as [Wx Lx]. destruct (veqb x y) eqn:E.
    + exists (RV x). split; [reflexivity|]. split; [apply good_rv_of; assumption|]. split.
      * bounds_incl.
      * intros v. unfold mem, above, below. cbn [rmin rmax imin imax]. clear - AL E. destruct ai, bi; cbn [andb negb] in *; order_lia [v; x; y].
    + exists (RR (Some x) (Some y) ai (negb bi)). split; [reflexivity|]. split; [|split].
      * apply good_of_parts.
        -- unfold wf_rng, rbounds. cbn. rewrite Wx, Wy. reflexivity.
        -- unfold proper. clear - AL E. order_lia [x; y].
        -- unfold nolocal_r, rbounds. cbn. rewrite Lx, Ly. reflexivity.
        -- reflexivity.
      * bounds_incl.
      * intros v. unfold mem, above, below. cbn [rmin rmax imin imax]. clear. destruct ai, bi; cbn [andb negb]; order_lia [v; x; y].
  - exists (RR None (Some y) ai (negb bi)). split; [reflexivity|]. split; [|split].
    + apply good_of_parts; try reflexivity.
      * unfold wf_rng, rbounds. cbn. rewrite Wy. reflexivity.
      * unfold nolocal_r, rbounds. cbn. rewrite Ly. reflexivity.
      * unfold flags_ok in *. cbn [rmin rmax imin imax is_some orb andb] in *. apply andb_true_iff in Fa. destruct Fa as [F1 _]. rewrite F1. reflexivity.
    + bounds_incl.
    + intros v. unfold mem, above, below. cbn [rmin rmax imin imax]. clear. destruct bi; cbn [andb negb]; order_lia [v; y].
Qed.

(* the allowed maximum of a proper range, explicitly *)
Lemma allowed_max_proper lo hi i j : proper (RR lo (Some hi) i j) = true ->
  allowed_max (RR lo (Some hi) i j) = if j || is_unstable hi then Some hi else Some (first_devrelease hi).
Proof.
  intros P. unfold allowed_max. cbn [rmax rmin imin imax]. destruct (j || is_unstable hi); [reflexivity|].
  destruct lo as [m|]; cbn [oveq]; [|reflexivity]. unfold proper in P.
  destruct (veqb m hi) eqn:E; [|reflexivity]. destruct (veqb_not_lt _ _ E) as [Q _]. rewrite Q in P. discriminate.
Qed.
Lemma unstable_congr x y : wf x = true -> wf y = true -> veqb x y = true -> is_unstable x = is_unstable y.
Proof. intros Wx Wy E. destruct (veqb_flags x y Wx Wy E) as (A & _ & B & _). unfold is_unstable. rewrite A, B. reflexivity. Qed.

(* equal plain maxima: a reaches higher only when a includes the bound and b does not *)
Lemma tie_flags alo x ai aj blo y bi bj : proper (RR alo (Some x) ai aj) = true -> proper (RR blo (Some y) bi bj) = true ->
  wf x = true -> wf y = true -> veqb x y = true ->
  allows_higher (RR alo (Some x) ai aj) (RR blo (Some y) bi bj) = true -> aj = true /\ bj = false.
Proof.
  intros Pa Pb Wx Wy E AH. unfold allows_higher in AH.
  rewrite (allowed_max_proper _ _ _ _ Pa), (allowed_max_proper _ _ _ _ Pb) in AH. cbn [imax] in AH.
  rewrite <- (unstable_congr x y Wx Wy E) in AH.
  pose proof (fd_congr x y Wx Wy E) as Efd.
  destruct aj, bj; cbn [orb] in AH; try (split; reflexivity); exfalso.
  - clear - E AH. order_lia [x; y].
  - destruct (is_unstable x) eqn:U.
    + clear - E AH. order_lia [x; y].
    + assert (Lx : vltb (first_devrelease x) x = true) by (apply fd_lt; [exact Wx|unfold is_unstable in U; apply orb_false_iff in U; tauto]).
      clear - E AH Lx. order_lia [x; y; first_devrelease x].
  - destruct (is_unstable x) eqn:U.
    + clear - E AH. order_lia [x; y].
    + clear - Efd AH. order_lia [first_devrelease x; first_devrelease y].
Qed.
(* maxima of different release classes: a reaches higher exactly when its plain maximum is higher *)
Lemma cross_higher a b x y : wf_rng a = true -> wf_rng b = true -> rmax a = Some x -> rmax b = Some y ->
  same_class x y = false -> allows_higher a b = true -> vltb y x = true.
Proof.
  intros Wa Wb Hx Hy R AH.
  pose proof (allowed_max_shape a Wa) as Sa. pose proof (allowed_max_shape b Wb) as Sb.
  unfold allows_higher in AH.
  destruct Sa as [Ha | ma Ha | ma Ha Ia Ca La La']; rewrite Hx in Ha; try discriminate; injection Ha as <-;
  destruct Sb as [Hb | mb Hb | mb Hb Ib Cb Lb Lb']; rewrite Hy in Hb; try discriminate; injection Hb as <-.
  - clear - R AH. destruct (imax a && negb (imax b)); order_lia [x; y].
  - clear - R AH Cb. destruct (imax a && negb (imax b)); order_lia [x; y; first_devrelease y].
  - clear - R AH Ca. destruct (imax a && negb (imax b)); order_lia [x; y; first_devrelease x].
  - clear - R AH Ca Cb. destruct (imax a && negb (imax b)); order_lia [x; y; first_devrelease x; first_devrelease y].
Qed.

(* the piece above b: exactly the members of a that are not below b's upper end *)
Lemma after_exact a b : good a = true -> good b = true -> is_rr a = true -> is_rr b = true ->
  (forall x y, rmax a = Some x -> rmax b = Some y -> regular1 x y = true) ->
  allows_higher a b = true ->
  exists r, after_piece a b = Some r /\ good r = true /\ incl (rbounds r) (rbounds a ++ rbounds b) /\
    forall v, mem r v = below a v && negb (below b v).
Proof.
  intros Ga Gb Ia Ib MR AH.
  destruct (good_parts _ Ga) as (Wa & Pa & La & Fa). destruct (good_parts _ Gb) as (Wb & Pb & Lb & Fb).
  destruct a as [x|alo ahi ai aj]; [discriminate|]. destruct b as [y|blo bhi bi bj]; [discriminate|].
  unfold after_piece. cbn [rmin rmax imin imax] in *.
  destruct bhi as [y|].
  2:{ exfalso. unfold allows_higher in AH. unfold allowed_max at 2 in AH. cbn [rmax] in AH.
      destruct (allowed_max (RR alo ahi ai aj)); discriminate. }
  assert (Wy : wf y = true /\ is_local y = false) by (apply (good_bound_max (RR blo (Some y) bi bj) y Gb eq_refl)).
  destruct Wy as [Wy Ly].
  destruct ahi as [x|]; cbn [oveq is_some] in *.
  - assert (Wx : wf x = true /\ is_local x = false) by (apply (good_bound_max (RR alo (Some x) ai aj) x Ga eq_refl)).
    destruct Wx as [Wx Lx]. specialize (MR x y eq_refl eq_refl).
    destruct (veqb x y) eqn:E.
    + exists (RV x). split; [reflexivity|]. split; [apply good_rv_of; assumption|]. split; [bounds_incl|].
      destruct (tie_flags alo x ai aj blo y bi bj Pa Pb Wx Wy E AH) as [-> ->].
      intros v. unfold mem, above, below. cbn [rmin rmax imin imax]. clear - E. order_lia [v; x; y].
    + assert (Lt : vltb y x = true).
      { unfold regular1 in MR. rewrite E in MR. cbn [orb] in MR. apply negb_true_iff in MR.
        exact (cross_higher _ _ x y Wa Wb eq_refl eq_refl MR AH). }
      exists (RR (Some y) (Some x) (negb bj) aj). split; [reflexivity|]. split; [|split; [bounds_incl|]].
      * apply good_of_parts; [| exact Lt | | reflexivity].
        -- unfold wf_rng, rbounds. cbn. rewrite Wx, Wy. reflexivity.
        -- unfold nolocal_r, rbounds. cbn. rewrite Lx, Ly. reflexivity.
      * intros v. unfold mem, above, below. cbn [rmin rmax imin imax]. clear - Lt. destruct aj, bj; cbn [andb negb]; order_lia [v; x; y].
  - exists (RR (Some y) None (negb bj) aj). split; [reflexivity|]. split; [|split; [bounds_incl|]].
    + apply good_of_parts; try reflexivity.
      * unfold wf_rng, rbounds. cbn. rewrite Wy. reflexivity.
      * unfold nolocal_r, rbounds. cbn. rewrite Ly. reflexivity.
      * unfold flags_ok in *. cbn [rmin rmax imin imax is_some orb andb] in *. apply andb_true_iff in Fa. destruct Fa as [_ F2]. exact F2.
    + intros v. unfold mem, above, below. cbn [rmin rmax imin imax]. clear. destruct bj; cbn [andb negb]; order_lia [v; y].
Qed.

Lemma r_difference_rr a b : is_rr a = true -> is_rr b = true ->
  r_difference a b =
  if negb (r_allows_any a b) then Ok (VOne a)
  else match (if negb (allows_lower a b) then None else before_piece a b),
             (if negb (allows_higher a b) then None else after_piece a b) with
       | None, None => Ok VEmpty
       | None, Some x => Ok (VOne x)
       | Some x, None => Ok (VOne x)
       | Some x, Some y => union_of [VOne x; VOne y]
       end.
Proof. destruct a, b; try discriminate. reflexivity. Qed.

Definition max_regular (a b : rng) : Prop := forall x y, rmax a = Some x -> rmax b = Some y -> regular1 x y = true.

Theorem rr_difference_exact a b c : good a = true -> good b = true -> is_rr a = true -> is_rr b = true -> max_regular a b ->
  r_difference a b = Ok c -> ExactD a b c.
Proof.
  intros Ga Gb Ia Ib MR H. rewrite (r_difference_rr a b Ia Ib) in H.
  pose proof (good_wf a Ga) as Wa. pose proof (good_wf b Gb) as Wb.
  destruct (r_allows_any a b) eqn:Ov; cbn [negb] in H.
  2:{ injection H as <-. apply exactd_same; [exact Ga|]. intros v Wv Ra Rb M.
      pose proof (r_allows_any_sound a b v Ga Gb Wv Ra Rb Ov) as Q. rewrite M in Q. exact Q. }
  (* what the answers of the bound comparisons mean *)
  assert (F : forall v, regular_r v a = true -> regular_r v b = true ->
              ((below a v = true \/ above b v = true) /\ (below b v = true \/ above a v = true)) /\
              (allows_lower a b = false -> above a v = true -> above b v = true) /\
              (allows_higher a b = false -> below a v = true -> below b v = true)).
  { intros v Ra Rb. split; [exact (overlap_facts a b Ga Gb Ia Ib Ov v Ra Rb)|]. split.
    - destruct (allows_lower_spec a b v Ra Rb) as [_ X]. exact X.
    - destruct (allows_higher_spec a b v Wa Wb Ra Rb) as [_ X]. exact X. }
  destruct (allows_lower a b) eqn:AL, (allows_higher a b) eqn:AH; cbn [negb] in H.
  - destruct (before_exact a b Ga Gb Ia Ib AL) as (rb & Eb & Gb' & Ib' & Mb).
    destruct (after_exact a b Ga Gb Ia Ib MR AH) as (ra & Ea & Ga' & Ia' & Ma).
    rewrite Eb, Ea in H.
    destruct (vunion_of_sound OF_FUEL [VOne rb; VOne ra] c (good_two rb ra Gb' Ga') H) as (Um & Ub & Ug).
    split; [|split; [|exact Ug]].
    + intros v Wv Ra Rb. rewrite Um; [|exact Wv|].
      * cbn [existsb vmem]. rewrite orb_false_r, Mb, Ma. unfold mem.
        destruct (F v Ra Rb) as ([F1 F2] & _ & _).
        destruct (above a v), (below a v), (above b v), (below b v); cbn; try reflexivity; exfalso; destruct F1, F2; discriminate.
      * unfold cbounds. cbn [flat_map flatten]. rewrite !app_nil_r.
        apply (regular_incl v (rbounds rb ++ rbounds ra) (rbounds a ++ rbounds b)).
        -- intros e He. apply in_app_or in He. destruct He as [He|He]; [apply Ib', He|apply Ia', He].
        -- rewrite forallb_app. unfold regular_r in Ra, Rb. rewrite Ra, Rb. reflexivity.
    + intros e He. apply Ub in He. unfold cbounds in He. cbn [flat_map flatten] in He. rewrite !app_nil_r in He.
      apply in_app_or in He. destruct He as [He|He]; [apply Ib', He|apply Ia', He].
  - destruct (before_exact a b Ga Gb Ia Ib AL) as (rb & Eb & Gb' & Ib' & Mb). rewrite Eb in H. injection H as <-.
    apply exactd_one; [|exact Ib'|exact Gb']. intros v Wv Ra Rb. rewrite Mb. unfold mem.
    destruct (F v Ra Rb) as ([F1 F2] & _ & F3). specialize (F3 eq_refl).
    destruct (above a v), (below a v), (above b v), (below b v); cbn; try reflexivity; exfalso;
      try (destruct F1; discriminate); try (specialize (F3 eq_refl); discriminate).
  - destruct (after_exact a b Ga Gb Ia Ib MR AH) as (ra & Ea & Ga' & Ia' & Ma). rewrite Ea in H. injection H as <-.
    apply exactd_one; [|exact Ia'|exact Ga']. intros v Wv Ra Rb. rewrite Ma. unfold mem.
    destruct (F v Ra Rb) as ([F1 F2] & F3 & _). specialize (F3 eq_refl).
    destruct (above a v), (below a v), (above b v), (below b v); cbn; try reflexivity; exfalso;
      try (destruct F2; discriminate); try (specialize (F3 eq_refl); discriminate).
  - injection H as <-. apply exactd_empty. intros v Wv Ra Rb. unfold mem.
    destruct (F v Ra Rb) as (_ & F2 & F3). specialize (F2 eq_refl). specialize (F3 eq_refl).
    destruct (above a v), (below a v), (above b v), (below b v); cbn; try reflexivity; exfalso;
      try (specialize (F2 eq_refl); discriminate); try (specialize (F3 eq_refl); discriminate).
Qed.

(* ---- every shape ---- *)
Definition mreg_r (a b : rng) : bool := forallb (fun e => regular_r e a) (rbounds b).
Lemma regular1_sym x y : regular1 x y = regular1 y x.
Proof. unfold regular1. rewrite veqb_sym, same_class_sym. reflexivity. Qed.
Lemma mreg_max a b : mreg_r a b = true -> max_regular a b.
Proof.
  intros H x y Hx Hy. unfold mreg_r in H. rewrite forallb_forall in H.
  specialize (H y (in_bounds_max b y Hy)). unfold regular_r in H. rewrite forallb_forall in H.
  rewrite regular1_sym. apply H. exact (in_bounds_max a x Hx).
Qed.

Lemma split_at_point lo hi i j y : good (RR lo hi i j) = true -> wf y = true -> is_local y = false ->
  mem (RR lo hi i j) y = true -> oveq (Some y) lo = false -> oveq (Some y) hi = false ->
  good (RR lo (Some y) i false) = true /\ good (RR (Some y) hi false j) = true /\
  forall v, mem (RR lo (Some y) i false) v || mem (RR (Some y) hi false j) v = mem (RR lo hi i j) v && negb (veqb v y).
Proof.
  intros G Wy Ly M E1 E2. destruct (good_parts _ G) as (W & P & L & F).
  unfold wf_rng, nolocal_r, proper, flags_ok, rbounds, mem, above, below in *. cbn [rmin rmax imin imax obounds is_some] in *.
  assert (Hlo : match lo with Some m => vltb m y = true | None => True end).
  { destruct lo as [m|]; [|exact I]. cbn [oveq] in E1. clear - M E1. destruct hi; destruct i; order_lia [m; y]. }
  assert (Hhi : match hi with Some n => vltb y n = true | None => True end).
  { destruct hi as [n|]; [|exact I]. cbn [oveq] in E2. clear - M E2. destruct lo; destruct j; order_lia [n; y]. }
  rewrite forallb_app in W, L. apply andb_true_iff in W, L. destruct W as [W1 W2], L as [L1 L2].
  split; [|split].
  - apply good_of_parts; unfold wf_rng, nolocal_r, proper, flags_ok, rbounds; cbn [rmin rmax imin imax obounds is_some].
    + rewrite forallb_app, W1. cbn. rewrite Wy. reflexivity.
    + destruct lo; [exact Hlo|reflexivity].
    + rewrite forallb_app, L1. cbn. rewrite Ly. reflexivity.
    + apply andb_true_iff in F. destruct F as [F1 _]. rewrite F1. reflexivity.
  - apply good_of_parts; unfold wf_rng, nolocal_r, proper, flags_ok, rbounds; cbn [rmin rmax imin imax obounds is_some app forallb].
    + rewrite Wy, W2. reflexivity.
    + destruct hi; [exact Hhi|reflexivity].
    + rewrite Ly, L2. reflexivity.
    + apply andb_true_iff in F. destruct F as [_ F2]. rewrite F2. reflexivity.
  - intros v. destruct lo as [m|], hi as [n|]; cbn [andb orb negb].
    + clear - Hlo Hhi. destruct i, j; order_lia [v; m; n; y].
    + clear - Hlo. destruct i; order_lia [v; m; y].
    + clear - Hhi. destruct j; order_lia [v; n; y].
    + clear. order_lia [v; y].
Qed.

Lemma regular_rv v x : regular_r v (RV x) = true -> regular1 v x = true.
Proof. unfold regular_r, rbounds. cbn. rewrite !andb_true_iff. tauto. Qed.
Lemma mreg_point a y : mreg_r a (RV y) = true -> regular_r y a = true.
Proof. unfold mreg_r, rbounds. cbn. rewrite !andb_true_iff. tauto. Qed.

Theorem r_difference_exact a b c : good a = true -> good b = true -> mreg_r a b = true ->
  r_difference a b = Ok c -> ExactD a b c.
Proof.
  intros Ga Gb MR H.
  destruct (good_parts _ Ga) as (Wa & Pa & La & Fa). destruct (good_parts _ Gb) as (Wb & Pb & Lb & Fb).
  destruct a as [x|lo hi i j] eqn:Ea.
  - (* a single version minus anything *)
    destruct (good_rv x Ga) as [Wx Lx]. cbn [r_difference] in H. injection H as <-.
    destruct (r_allows b x) eqn:Al.
    + apply exactd_empty. intros v Wv _ Rb. rewrite mem_single. destruct (veqb v x) eqn:E; [|reflexivity].
      rewrite (absorbs_point b x Wb Wx Al v Wv Rb E). reflexivity.
    + apply exactd_same; [exact Ga|]. intros v Wv _ Rb M. rewrite mem_single in M.
      rewrite (mem_congr b v x M), <- (allows_regular b x Wb Wx (regular_of_eq v x b M Rb)). exact Al.
  - destruct b as [y|lo' hi' i' j'] eqn:Eb.
    + (* a range minus a single version *)
      destruct (good_rv y Gb) as [Wy Ly]. pose proof (mreg_point _ y MR) as Ry.
      cbn [r_difference] in H. rewrite <- Ea in *.
      assert (Ar : rr_allows a y = mem a y).
      { rewrite <- (allows_regular a y Wa Wy Ry). rewrite Ea. reflexivity. }
      rewrite Ar in H. destruct (mem a y) eqn:My; cbn [negb] in H.
      2:{ injection H as <-. apply exactd_same; [exact Ga|]. intros v Wv Ra _ M. rewrite mem_single.
          destruct (veqb v y) eqn:E; [|reflexivity]. rewrite (mem_congr a v y E), My in M. discriminate. }
      subst a. cbn [r_difference rmin rmax imin imax] in H.
      destruct (oveq (Some y) lo) eqn:E1.
      { (* the lower end point *)
        destruct lo as [m|]; [|discriminate]. cbn [oveq] in E1. injection H as <-.
        assert (Ii : i = true).
        { unfold mem, above in My. cbn [rmin imin] in My. clear - My E1. destruct i; [reflexivity|]. exfalso. destruct (below _ _); order_lia [y; m]. }
        subst i. cbn [negb]. apply exactd_one.
        - intros v _ _ _. rewrite mem_single. unfold mem, above, below. cbn [rmin rmax imin imax]. clear - E1.
          destruct hi as [n|]; [destruct j|]; first [order_lia [v; y; m; n] | order_lia [v; y; m]].
        - bounds_incl.
        - unfold good, wf_rng, nolocal_r, proper, flags_ok, rbounds in *. cbn [rmin rmax imin imax is_some orb andb] in *. exact Ga. }
      destruct (oveq (Some y) hi) eqn:E2.
      { destruct hi as [n|]; [|discriminate]. cbn [oveq] in E2. injection H as <-.
        assert (Ij : j = true).
        { unfold mem, below in My. cbn [rmax imax] in My. clear - My E2. destruct j; [reflexivity|]. exfalso. destruct (above _ _); order_lia [y; n]. }
        subst j. cbn [negb]. apply exactd_one.
        - intros v _ _ _. rewrite mem_single. unfold mem, above, below. cbn [rmin rmax imin imax]. clear - E2.
          destruct lo as [m|]; [destruct i|]; first [order_lia [v; y; m; n] | order_lia [v; y; n]].
        - bounds_incl.
        - unfold good, wf_rng, nolocal_r, proper, flags_ok, rbounds in *. cbn [rmin rmax imin imax is_some orb andb] in *.
          rewrite !andb_true_iff in *. tauto. }
      (* an interior point: two pieces *)
      destruct (split_at_point lo hi i j y Ga Wy Ly My E1 E2) as (G1 & G2 & Hm).
      destruct (vunion_of_sound OF_FUEL _ c (good_two _ _ G1 G2) H) as (Um & Ub & Ug).
      split; [|split; [|exact Ug]].
      * intros v Wv Ra Rb. rewrite Um; [|exact Wv|].
        -- cbn [existsb vmem]. rewrite orb_false_r, Hm, mem_single. reflexivity.
        -- unfold cbounds. cbn [flat_map flatten]. rewrite !app_nil_r.
           apply (regular_incl v _ (rbounds (RR lo hi i j) ++ rbounds (RV y))); [bounds_incl|].
           rewrite forallb_app. unfold regular_r in Ra, Rb. rewrite Ra, Rb. reflexivity.
      * intros e He. apply Ub in He. unfold cbounds in He. cbn [flat_map flatten] in He. rewrite !app_nil_r in He. revert e He. bounds_incl.
    + rewrite <- Ea, <- Eb in *.
      apply (rr_difference_exact a b c Ga Gb); [rewrite Ea; reflexivity | rewrite Eb; reflexivity | apply mreg_max, MR | exact H].
Qed.
