(* A clause rebuilt from '==' / '!=' and a plain value parses back to exactly that clause (SingleMarker.__init__ on the
   text "==value" / "!=value" for a string variable): the hand recognisers of the two regexes and of the generic
   constraint parser, followed symbolically over an arbitrary plain value. *)
From Coq Require Import List Bool Arith NArith String Ascii Lia.
From PC Require Import Base.Cmp Base.Result Model.Pep440 Model.VConstraint Model.Generic Model.Marker.
Import ListNotations.
Open Scope list_scope.

(* a plain value character: a letter, a digit, or one of _ . - *)
Definition plain (c : ascii) : bool := is_alnum c || is_sep c.
Definition plain_value (l : chars) : bool := match l with [] => false | _ => forallb plain l end.

Lemma plain_code c : plain c = true ->
  (48 <= code c <= 57 \/ 65 <= code c <= 90 \/ 97 <= code c <= 122 \/ code c = 45 \/ code c = 95 \/ code c = 46)%N.
Proof.
  unfold plain, is_alnum, is_digit, is_lower, is_upper, is_sep. rewrite !orb_true_iff, !andb_true_iff, !N.leb_le, !N.eqb_eq. tauto.
Qed.
Lemma plain_not_space c : plain c = true -> is_space c = false.
Proof.
  intros H. apply plain_code in H. unfold is_space. apply orb_false_iff. split; apply andb_false_iff;
    rewrite !N.leb_gt; lia.
Qed.
Lemma plain_not c k : plain c = true -> (k = 10 \/ k = 34 \/ k = 39 \/ k = 44 \/ k = 124 \/ k = 61 \/ k = 33 \/ k = 42 \/ k = 126 \/ k = 60 \/ k = 62)%N -> (code c =? k)%N = false.
Proof. intros H K. apply plain_code in H. apply N.eqb_neq. lia. Qed.
Lemma eqb_code c d : Ascii.eqb c d = (code c =? code d)%N.
Proof.
  destruct (Ascii.eqb_spec c d) as [->|N]; [symmetry; apply N.eqb_refl|]. symmetry. apply N.eqb_neq. intros E. apply N.
  unfold code in E. rewrite <- (ascii_N_embedding c), <- (ascii_N_embedding d), E. reflexivity.
Qed.

Lemma span_space_plain c r : plain c = true -> span is_space (c :: r) = ([], c :: r).
Proof. intros H. cbn [span]. rewrite (plain_not_space c H). reflexivity. Qed.
Lemma drop_spaces_plain c r : plain c = true -> drop_spaces (c :: r) = c :: r.
Proof. intros H. unfold drop_spaces. rewrite (span_space_plain c r H). reflexivity. Qed.
Lemma span_nonspace_plain l : forallb plain l = true -> span (fun c => negb (is_space c)) l = (l, []).
Proof.
  induction l as [|c l IH]; [reflexivity|]. cbn [forallb span]. intros H. apply andb_true_iff in H. destruct H as [Hc Hl].
  rewrite (plain_not_space c Hc). cbn [negb]. rewrite (IH Hl). reflexivity.
Qed.
Lemma basic_value_plain l : plain_value l = true -> basic_value l = Some l.
Proof.
  destruct l as [|c l]; [discriminate|]. unfold plain_value. intros H. unfold basic_value.
  assert (Hc : plain c = true) by (cbn in H; apply andb_true_iff in H; tauto).
  rewrite (drop_spaces_plain c l Hc), (span_nonspace_plain _ H). reflexivity.
Qed.

(* no separator, no blank: the split keeps the text whole *)
Lemma split_sep_whole sep dbl : forall l fuel cur, (List.length l < fuel)%nat ->
  forallb (fun c => negb (is_space c) && negb (Ascii.eqb c sep)) l = true ->
  split_sep fuel sep dbl cur l = [rev cur ++ l].
Proof.
  induction l as [|c l IH]; intros fuel cur Hf H; destruct fuel as [|f]; try (cbn in Hf; lia).
  - cbn. rewrite app_nil_r. reflexivity.
  - cbn [forallb] in H. apply andb_true_iff in H. destruct H as [Hc Hl]. apply andb_true_iff in Hc. destruct Hc as [Hs Hn].
    apply negb_true_iff in Hs, Hn. cbn [split_sep span]. rewrite Hs, Hn.
    rewrite (IH f (c :: cur)); [|cbn in Hf; lia|exact Hl]. cbn [rev]. rewrite <- app_assoc. reflexivity.
Qed.
Lemma split_re_whole sep dbl l : forallb (fun c => negb (is_space c) && negb (Ascii.eqb c sep)) l = true -> split_re sep dbl l = [l].
Proof. intros H. unfold split_re. rewrite (split_sep_whole sep dbl l _ [] (Nat.lt_succ_diag_r _) H). reflexivity. Qed.

Definition op_text (o : gop) : string := match o with GNe => "!=" | _ => "==" end.
Definition eqne_op (o : gop) : bool := match o with GEq | GNe => true | _ => false end.

Lemma plain_sep_ok sep l : (sep = "|"%char \/ sep = ","%char) -> forallb plain l = true ->
  forallb (fun c => negb (is_space c) && negb (Ascii.eqb c sep)) l = true.
Proof.
  intros Hs H. apply forallb_forall. intros c Hc. rewrite forallb_forall in H. specialize (H c Hc).
  rewrite (plain_not_space c H), eqb_code. cbn [negb andb]. apply negb_true_iff.
  destruct Hs as [-> | ->]; [apply (plain_not c 124 H) | apply (plain_not c 44 H)]; lia.
Qed.
Lemma rstrip_plain l c : plain c = true -> rstrip_spaces (l ++ [c]) = l ++ [c].
Proof. intros H. unfold rstrip_spaces. rewrite rev_app_distr. cbn [rev app]. rewrite (drop_spaces_plain c _ H). cbn [rev]. rewrite rev_involutive. reflexivity. Qed.
Lemma last_split {A} (l : list A) : l <> [] -> exists l' c, l = l' ++ [c].
Proof. intros H. destruct (exists_last H) as [l' [c E]]. exists l', c. exact E. Qed.

Lemma parse_single_g_eqne x o v : eqne_op o = true -> plain_value v = true ->
  parse_single_g x (string_of_list_ascii (lchars (op_text o) ++ v)) = Ok (mkA (string_of_list_ascii v) o x).
Proof.
  intros Ho Hv. unfold parse_single_g, lchars. rewrite list_ascii_of_string_of_list_ascii.
  rewrite (basic_value_plain v Hv) || idtac.
  destruct o; try discriminate; cbn [op_text list_ascii_of_string app].
  - cbn [match_str_cmp]. change ((code "="%char =? 39)%N || (code "="%char =? 34)%N) with false. cbv iota.
    unfold match_basic. cbn [lchars list_ascii_of_string strip_prefix]. change (Ascii.eqb "!"%char "="%char) with false. cbv iota.
    change (Ascii.eqb "="%char "="%char) with true. cbv iota. rewrite (basic_value_plain v Hv). destruct x; reflexivity.
  - cbn [match_str_cmp]. change ((code "!"%char =? 39)%N || (code "!"%char =? 34)%N) with false. cbv iota.
    unfold match_basic. cbn [lchars list_ascii_of_string strip_prefix]. change (Ascii.eqb "!"%char "!"%char) with true.
    change (Ascii.eqb "="%char "="%char) with true. cbv iota. rewrite (basic_value_plain v Hv). destruct x; reflexivity.
Qed.

Lemma string_app_chars a l : string_of_list_ascii (list_ascii_of_string a ++ l) = (a ++ string_of_list_ascii l)%string.
Proof. induction a as [|c a IH]; cbn; [reflexivity|]. rewrite IH. reflexivity. Qed.

Theorem parse_g_eqne x o v : eqne_op o = true -> plain_value v = true ->
  parse_g x (op_text o ++ string_of_list_ascii v)%string = Ok (GS (SAtom (mkA (string_of_list_ascii v) o x))).
Proof.
  intros Ho Hv. unfold parse_g.
  assert (Hne : v <> []) by (destruct v; [discriminate|discriminate]).
  assert (Hp : forallb plain v = true) by (destruct v; [discriminate|exact Hv]).
  set (l := lchars (op_text o) ++ v).
  assert (El : lchars (op_text o ++ string_of_list_ascii v)%string = l).
  { unfold l, lchars. rewrite <- string_app_chars, list_ascii_of_string_of_list_ascii. reflexivity. }
  assert (Star : String.eqb (op_text o ++ string_of_list_ascii v)%string "*" = false).
  { destruct o; try discriminate; reflexivity. }
  rewrite Star, El.
  (* the whole text has no blank, '|' or ',' *)
  assert (Hl : forall sep, (sep = "|"%char \/ sep = ","%char) -> forallb (fun c => negb (is_space c) && negb (Ascii.eqb c sep)) l = true).
  { intros sep Hs. unfold l. rewrite forallb_app, (plain_sep_ok sep v Hs Hp), andb_true_r.
    destruct o; try discriminate; destruct Hs as [-> | ->]; reflexivity. }
  assert (Strip : strip_chars l = l).
  { unfold strip_chars. destruct (last_split v Hne) as [v' [c Ev]].
    assert (Pc : plain c = true) by (rewrite Ev, forallb_app in Hp; cbn in Hp; apply andb_true_iff in Hp; destruct Hp as [_ Hp]; rewrite andb_true_r in Hp; exact Hp).
    assert (D : drop_spaces l = l) by (unfold l; destruct o; try discriminate; reflexivity).
    rewrite D. unfold l. rewrite Ev, app_assoc. apply rstrip_plain. exact Pc. }
  rewrite Strip, (split_re_whole "|"%char true l (Hl _ (or_introl eq_refl))). cbn [mapR].
  rewrite (split_re_whole ","%char false l (Hl _ (or_intror eq_refl))). unfold l.
  rewrite (parse_single_g_eqne x o v Ho Hv). reflexivity.
Qed.

Lemma code_lower c : code (lower c) = if is_upper c then (code c + 32)%N else code c.
Proof.
  unfold lower. destruct (is_upper c) eqn:U; [|reflexivity]. unfold code. apply N_ascii_embedding.
  unfold is_upper in U. apply andb_true_iff in U. destruct U as [_ U]. apply N.leb_le in U. unfold code in U. lia.
Qed.
Lemma lower_plain_ne c k : plain c = true -> (k = 61 \/ k = 33 \/ k = 126 \/ k = 60 \/ k = 62)%N -> Ascii.eqb (ascii_of_N k) (lower c) = false.
Proof.
  intros H K. rewrite eqb_code. apply N.eqb_neq. rewrite code_lower. apply plain_code in H.
  assert (Ek : code (ascii_of_N k) = k) by (unfold code; apply N_ascii_embedding; lia). rewrite Ek.
  destruct (is_upper c) eqn:U.
  - unfold is_upper in U. apply andb_true_iff in U. destruct U as [U1 U2]. apply N.leb_le in U1, U2. lia.
  - lia.
Qed.
Lemma p1_value_plain v : plain_value v = true -> p1_value v = Some v.
Proof.
  intros Hv. assert (Hne : v <> []) by (destruct v; discriminate).
  assert (Hp : forallb plain v = true) by (destruct v; [discriminate|exact Hv]).
  unfold p1_value. destruct (last_split v Hne) as [v' [c Ev]].
  assert (Pc : plain c = true) by (rewrite Ev, forallb_app in Hp; cbn in Hp; apply andb_true_iff in Hp; destruct Hp as [_ Hp]; rewrite andb_true_r in Hp; exact Hp).
  assert (B : match rev v with c0 :: r => if (code c0 =? 10)%N then rev r else v | [] => v end = v).
  { rewrite Ev, rev_app_distr. cbn [rev app]. rewrite (plain_not c 10 Pc) by lia. reflexivity. }
  rewrite B. destruct v as [|c0 v0]; [contradiction|].
  assert (N : existsb (fun c => (code c =? 10)%N) (c0 :: v0) = false).
  { apply not_true_iff_false. intros E. apply existsb_exists in E. destruct E as [d [Hd Ed]]. rewrite forallb_forall in Hp.
    rewrite (plain_not d 10 (Hp d Hd)) in Ed by lia. discriminate. }
  rewrite N. reflexivity.
Qed.

Lemma p1_skip o rest l : strip_prefix (lchars o) (map lower (firstn (String.length o) l)) = None -> p1_try (o :: rest) l = p1_try rest l.
Proof. intros H. cbn [p1_try]. rewrite H. reflexivity. Qed.
Lemma p1_hit o rest l v : strip_prefix (lchars o) (map lower (firstn (String.length o) l)) = Some [] ->
  p1_value (drop_spaces (skipn (String.length o) l)) = Some v -> p1_try (o :: rest) l = Some (Some (firstn (String.length o) l), v).
Proof. intros H1 H2. cbn [p1_try]. rewrite H1, H2. reflexivity. Qed.

Theorem p1_try_eqne o v : eqne_op o = true -> plain_value v = true ->
  p1_try p1_ops (lchars (op_text o) ++ v) = Some (Some (lchars (op_text o)), v).
Proof.
  intros Ho Hv. destruct v as [|c v]; [discriminate|].
  assert (Pc : plain c = true) by (cbn in Hv; apply andb_true_iff in Hv; tauto).
  assert (D : drop_spaces (c :: v) = c :: v) by (apply drop_spaces_plain; exact Pc).
  destruct o; try discriminate; unfold p1_ops.
  - (* "==" *)
    change (lchars (op_text GEq) ++ c :: v) with ("="%char :: "="%char :: c :: v).
    rewrite p1_skip by reflexivity. rewrite p1_skip by reflexivity. rewrite p1_skip by reflexivity.
    rewrite p1_skip by reflexivity. rewrite p1_skip by reflexivity. rewrite p1_skip by reflexivity.
    rewrite p1_skip.
    2:{ cbn [String.length firstn map lchars list_ascii_of_string strip_prefix]. change (lower "="%char) with "="%char.
        change (Ascii.eqb "="%char "="%char) with true. cbv iota. change "="%char with (ascii_of_N 61).
        rewrite (lower_plain_ne c 61 Pc) by lia. reflexivity. }
    rewrite (p1_hit "==" _ _ (c :: v)); [reflexivity | reflexivity |].
    cbn [String.length skipn]. rewrite D. exact (p1_value_plain (c :: v) Hv).
  - (* "!=" *)
    change (lchars (op_text GNe) ++ c :: v) with ("!"%char :: "="%char :: c :: v).
    rewrite p1_skip by reflexivity.
    rewrite (p1_hit "!=" _ _ (c :: v)); [reflexivity | reflexivity |].
    cbn [String.length skipn]. rewrite D. exact (p1_value_plain (c :: v) Hv).
Qed.

Theorem mk_leaf_eqne_any n o v : is_version_like n = false ->
  eqne_op o = true -> plain_value v = true ->
  mk_leaf n (op_text o ++ string_of_list_ascii v)%string false =
  Ok (mkLeaf (alias n) (op_text o) (string_of_list_ascii v) false (CG (GS (SAtom (mkA (string_of_list_ascii v) o (String.eqb n "extra")))))).
Proof.
  intros Hn Ho Hv. unfold mk_leaf. cbn [andb].
  assert (El : lchars (op_text o ++ string_of_list_ascii v)%string = lchars (op_text o) ++ v).
  { unfold lchars. rewrite <- string_app_chars, list_ascii_of_string_of_list_ascii. reflexivity. }
  rewrite El, (p1_try_eqne o v Ho Hv).
  assert (Eo : string_of_list_ascii (lchars (op_text o)) = op_text o) by (unfold lchars; apply string_of_list_ascii_of_string).
  rewrite Eo, Hn.
  assert (In1 : String.eqb (op_text o) "in" = false) by (destruct o; reflexivity).
  assert (In2 : String.eqb (op_text o) "not in" = false) by (destruct o; reflexivity).
  rewrite In1, In2. cbn [orb]. rewrite (parse_g_eqne (String.eqb n "extra") o v Ho Hv). reflexivity.
Qed.
Theorem mk_leaf_eqne n o v : is_version_like n = false -> String.eqb n "extra" = false ->
  eqne_op o = true -> plain_value v = true ->
  mk_leaf n (op_text o ++ string_of_list_ascii v)%string false =
  Ok (mkLeaf (alias n) (op_text o) (string_of_list_ascii v) false (CG (GS (SAtom (mkA (string_of_list_ascii v) o false))))).
Proof. intros Hn He Ho Hv. rewrite (mk_leaf_eqne_any n o v Hn Ho Hv), He. reflexivity. Qed.
