(* C04: comma-joined clauses and '||' groups mean conjunction and disjunction of the clause memberships, for every regular
   candidate; by composition of the intersection and union theorems over what _parse_constraint builds. *)
From Coq Require Import List Bool NArith ZArith String Ascii Lia.
From PC Require Import Base.Cmp Base.Result Model.Pep440 Spec.Pep440Spec Proofs.Pep440Order
     Proofs.VersionFacts Model.VConstraint Proofs.RangeSpec Proofs.RangeAlg Proofs.RangeOps Proofs.UnionHull Proofs.UnionExact Proofs.Contain Proofs.InterExact.
Import ListNotations.
Open Scope list_scope.

Definition simple (c : vc) : bool := match c with VUnion _ => false | _ => true end.
Lemma simple_sorted c : simple c = true -> sorted_c c = true.
Proof. destruct c as [|r|l]; try discriminate; reflexivity. Qed.
Lemma intersect_simple a b c : simple a = true -> simple b = true -> intersect a b = Ok c -> simple c = true.
Proof.
  destruct a as [|ra|la], b as [|rb|lb]; try discriminate; cbn [intersect]; intros _ _ H; try (injection H as <-; reflexivity).
  pose proof (r_intersect_shape ra rb c H) as S. destruct c; [reflexivity|reflexivity|destruct S].
Qed.

(* the for loop of _parse_constraint over the clauses of one group, on the parsed clauses *)
Definition meet_all (first : vc) (rest : list vc) : res vc :=
  fold_left (fun acc b => do a <- acc; intersect a b) rest (Ok first).
Lemma meet_all_err e rest : fold_left (fun acc b => do a <- acc; intersect a b) rest (Err e) = Err e.
Proof. induction rest as [|b rest IH]; [reflexivity|]. cbn [fold_left bind]. exact IH. Qed.

Theorem comma_set_exact : forall rest first c,
  goodc first = true -> simple first = true -> forallb goodc rest = true -> forallb simple rest = true ->
  meet_all first rest = Ok c ->
  goodc c = true /\ simple c = true /\
  forall v, wf v = true -> regular_for v (first :: rest) = true -> sem c v = forallb (fun x => sem x v) (first :: rest).
Proof.
  induction rest as [|b rest IH]; intros first c Gf Sf Gr Sr H; unfold meet_all in H; cbn [fold_left] in H.
  - injection H as <-. split; [exact Gf|]. split; [exact Sf|]. intros v _ _. cbn. rewrite andb_true_r. reflexivity.
  - cbn [forallb] in Gr, Sr. apply andb_true_iff in Gr, Sr. destruct Gr as [Gb Gr], Sr as [Sb Sr]. cbn [bind] in H.
    destruct (intersect first b) as [ab|e] eqn:Hi; [|rewrite meet_all_err in H; discriminate].
    destruct (intersect_admits_exactly first b ab Gf Gb (simple_sorted _ Sf) (simple_sorted _ Sb) Hi) as [Gab Mab].
    pose proof (intersect_simple first b ab Sf Sb Hi) as Sab.
    destruct (intersect_exact first b ab Gf Gb (simple_sorted _ Sf) (simple_sorted _ Sb) Hi) as (_ & Bab & _).
    destruct (IH ab c Gab Sab Gr Sr H) as (Gc & Sc & Mc). split; [exact Gc|]. split; [exact Sc|].
    intros v Wv R. unfold regular_for in R. cbn [flat_map] in R.
    destruct (regular_app _ _ _ R) as [R1 R2]. destruct (regular_app _ _ _ R2) as [R3 R4].
    rewrite Mc; [|exact Wv|].
    + cbn [forallb]. rewrite (Mab v Wv R1 R3), andb_assoc. reflexivity.
    + unfold regular_for. cbn [flat_map]. rewrite forallb_app, R4, andb_true_r.
      apply (regular_incl v _ _ Bab). rewrite forallb_app. unfold regular_c in *. rewrite R1, R3. reflexivity.
Qed.

(* '||' between groups: VersionUnion.of over the groups *)
Theorem or_groups_exact : forall gs c, forallb goodc gs = true ->
  (match gs with [g] => Ok g | _ => union_of gs end) = Ok c ->
  goodc c = true /\ forall v, wf v = true -> regular_for v gs = true -> sem c v = existsb (fun x => sem x v) gs.
Proof.
  intros gs c G H.
  assert (K : forall c', union_of gs = Ok c' -> goodc c' = true /\ forall v, wf v = true -> regular_for v gs = true -> sem c' v = existsb (fun x => sem x v) gs).
  { intros c' H'. destruct (exact_sem gs c' G (vunion_of_sound OF_FUEL gs c' G H')) as (A & _ & B). auto. }
  destruct gs as [|g [|g' gs']]; try (apply K; exact H).
  injection H as <-. cbn [forallb] in G. rewrite andb_true_r in G. split; [exact G|]. intros v _ _. cbn. rewrite orb_false_r. reflexivity.
Qed.

(* what parse_group computes is the meet of its parsed clauses *)
Lemma parse_fold m : forall rest acc g,
  fold_left (fun acc cl => do a <- acc; do b <- parse_single_pep m cl; intersect a b) rest acc = Ok g ->
  exists first bs, acc = Ok first /\ mapR (parse_single_pep m) rest = Ok bs /\ meet_all first bs = Ok g.
Proof.
  induction rest as [|cl rest IH]; intros acc g H; cbn [fold_left] in H.
  - exists g, []. auto.
  - destruct (IH _ _ H) as (ab & bs & Hab & Hbs & Hm). destruct acc as [first|e]; [|discriminate]. cbn [bind] in Hab.
    destruct (parse_single_pep m cl) as [b|e] eqn:Hb; [|discriminate]. cbn [bind] in Hab.
    exists first, (b :: bs). split; [reflexivity|]. split; [cbn [mapR]; rewrite Hb, Hbs; reflexivity|].
    unfold meet_all in *. cbn [fold_left bind]. rewrite Hab. exact Hm.
Qed.
Theorem parse_group_meaning m clauses g : parse_group m clauses = Ok g ->
  exists cs, mapR (parse_single_pep m) clauses = Ok cs /\
    (forallb goodc cs = true -> forallb simple cs = true ->
     goodc g = true /\ simple g = true /\ forall v, wf v = true -> regular_for v cs = true -> sem g v = forallb (fun x => sem x v) cs).
Proof.
  destruct clauses as [|c rest]; [discriminate|]. cbn [parse_group]. intros H.
  destruct (parse_single_pep m c) as [first|e] eqn:Hc; [|discriminate]. cbn [bind] in H.
  destruct (parse_fold m rest (Ok first) g H) as (f' & bs & Hf & Hbs & Hm). injection Hf as <-.
  exists (first :: bs). split; [cbn [mapR]; rewrite Hc, Hbs; reflexivity|].
  intros G S. cbn [forallb] in G, S. apply andb_true_iff in G, S. destruct G as [G1 G2], S as [S1 S2].
  exact (comma_set_exact bs first g G1 S1 G2 S2 Hm).
Qed.
Theorem parse_groups_meaning m groups c : parse_constraint_groups m groups = Ok c ->
  exists gs, mapR (parse_group m) groups = Ok gs /\
    (forallb goodc gs = true ->
     goodc c = true /\ forall v, wf v = true -> regular_for v gs = true -> sem c v = existsb (fun x => sem x v) gs).
Proof.
  unfold parse_constraint_groups. intros H. destruct (mapR (parse_group m) groups) as [gs|e]; [|discriminate]. cbn [bind] in H.
  exists gs. split; [reflexivity|]. intros G. exact (or_groups_exact gs c G H).
Qed.
