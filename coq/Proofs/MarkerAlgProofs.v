(* C07/C13/C17: the marker simplifier (Model/MarkerAlg.v: intersection, union, cnf, dnf, MultiMarker.of, MarkerUnion.of,
   intersect_simplify, union_simplify, only, with the recursion guard) keeps truth on every environment, for every fuel
   and every state of the recursion-guard stacks, relative to three premises that are stated, not proved, here:
   the merge of two clauses on one variable is exact (it goes through the constraint algebras of C05/C16 and the
   python_version special cases), equal keys mean equal values, and key equality is symmetric.
   By induction on fuel: no termination, confluence or normal-form argument is needed — whatever the search returns,
   and whenever the recursion guard cuts it short, the result has the truth table of the operands. *)
From Coq Require Import List Bool Arith NArith String Ascii Lia.
From PC Require Import Base.Cmp Base.Result Model.Pep440 Model.VConstraint Model.Generic Model.Marker Model.MarkerAlg
     Proofs.MarkerProofs.
Import ListNotations.

Section Sound.
  Variable E : env.
  Notation bv := (beval E).
  (* equal keys mean equal values, and the key equality is symmetric: true of markers whose leaves were built by
     SingleMarker.__init__ (the constraint is a function of name, operator, value and operand order; the extra / non-extra
     class of a clause is a function of the variable name) *)
  Hypothesis Hkey : forall a b, marker_eqb a b = true -> bv a = bv b.
  Hypothesis Hsym : forall a b, marker_eqb a b = marker_eqb b a.
  (* the premise: merging two clauses on one variable (through the constraint algebras) is exact *)
  Hypothesis Hmerge : forall fuel st m1 m2 is_multi r,
    merge_single fuel st m1 m2 is_multi = Ok (Some r) ->
    bv r = if is_multi then bv m1 && bv m2 else bv m1 || bv m2.

  (* ---- list facts ---- *)
  Lemma in_eq_bv x l : marker_in x l = true -> exists y, In y l /\ bv x = bv y.
  Proof. unfold marker_in. intros H. apply existsb_exists in H. destruct H as [y [Hy E']]. exists y. split; auto. Qed.
  Lemma all_member x l : marker_in x l = true -> forallb bv l = true -> bv x = true.
  Proof. intros H F. destruct (in_eq_bv x l H) as [y [Hy ->]]. rewrite forallb_forall in F. auto. Qed.
  Lemma any_member x l : marker_in x l = true -> bv x = true -> existsb bv l = true.
  Proof. intros H B. destruct (in_eq_bv x l H) as [y [Hy Ey]]. apply existsb_exists. exists y. split; congruence. Qed.
  Lemma forallb_filter_split (p : marker -> bool) l :
    forallb bv l = forallb bv (filter p l) && forallb bv (filter (fun m => negb (p m)) l).
  Proof. induction l as [|x l IH]; [reflexivity|]. cbn [filter forallb]. destruct (p x); cbn [negb forallb]; rewrite IH; destruct (bv x), (forallb bv (filter p l)); reflexivity. Qed.
  Lemma existsb_filter_split (p : marker -> bool) l :
    existsb bv l = existsb bv (filter p l) || existsb bv (filter (fun m => negb (p m)) l).
  Proof. induction l as [|x l IH]; [reflexivity|]. cbn [filter existsb]. destruct (p x); cbn [negb existsb]; rewrite IH; destruct (bv x), (existsb bv (filter p l)); reflexivity. Qed.
  Lemma replace_nth_split {A} i (x mark : A) acc : nth_error acc i = Some mark ->
    exists l1 l2, acc = (l1 ++ mark :: l2)%list /\ replace_nth i x acc = (l1 ++ x :: l2)%list.
  Proof.
    intros H. destruct (nth_error_split acc i H) as [l1 [l2 [-> L]]]. exists l1, l2. split; [reflexivity|].
    unfold replace_nth. subst i. rewrite firstn_app, firstn_all, Nat.sub_diag. cbn [firstn]. rewrite app_nil_r.
    replace (S (List.length l1)) with (List.length l1 + 1)%nat by lia. rewrite skipn_app, skipn_all2 by lia.
    replace (List.length l1 + 1 - List.length l1)%nat with 1%nat by lia. reflexivity.
  Qed.
  Lemma replace_nth_all i x acc mk mark : nth_error acc i = Some mark -> bv x = bv mark && bv mk ->
    forallb bv (replace_nth i x acc) = forallb bv acc && bv mk.
  Proof.
    intros H Hx. destruct (replace_nth_split i x mark acc H) as [l1 [l2 [-> ->]]]. rewrite !forallb_app. cbn [forallb]. rewrite Hx.
    destruct (forallb bv l1), (bv mark), (bv mk), (forallb bv l2); reflexivity.
  Qed.
  Lemma replace_nth_any i x acc mk mark : nth_error acc i = Some mark -> bv x = bv mark || bv mk ->
    existsb bv (replace_nth i x acc) = existsb bv acc || bv mk.
  Proof.
    intros H Hx. destruct (replace_nth_split i x mark acc H) as [l1 [l2 [-> ->]]]. rewrite !existsb_app. cbn [existsb]. rewrite Hx.
    destruct (existsb bv l1), (bv mark), (bv mk), (existsb bv l2); reflexivity.
  Qed.
  Lemma nth_in acc i (mark : marker) : nth_error acc i = Some mark -> In mark acc.
  Proof. apply nth_error_In. Qed.

  (* constructors *)
  Lemma mk_multi_bv l : bv (mk_multi_marker l) = forallb bv l. Proof. exact (flatten_multi_sound E Hkey l). Qed.
  Lemma mk_union_bv l : bv (mk_union_marker l) = existsb bv l. Proof. exact (flatten_union_sound E Hkey l). Qed.
  Lemma flatten_multi_bv l : forallb bv (flatten_multi l) = forallb bv l. Proof. exact (mk_multi_bv l). Qed.
  Lemma flatten_union_bv l : existsb bv (flatten_union l) = existsb bv l. Proof. exact (mk_union_bv l). Qed.
  Lemma unwrap_go_bv n m : bv (unwrap_go n m) = bv m.
  Proof.
    revert m. induction n as [|n IH]; intros m; [reflexivity|].
    destruct m as [| |l|na a|na a|[|x [|y r]]|[|x [|y r]]]; cbn [unwrap_go]; try reflexivity; rewrite IH; cbn [beval forallb existsb];
      rewrite ?andb_true_r, ?orb_false_r; reflexivity.
  Qed.
  Lemma unwrap1_bv m : bv (unwrap1 m) = bv m.
  Proof. apply unwrap_go_bv. Qed.
  Lemma min_by_complexity_bv best l : (forall x, In x l -> bv x = bv best) -> bv (min_by_complexity best l) = bv best.
  Proof.
    revert best; induction l as [|x l IH]; intros best H; [reflexivity|]. cbn [min_by_complexity].
    destruct (cx_lt _ _).
    - rewrite IH; [apply H; left; reflexivity|]. intros y Hy. rewrite (H y (or_intror Hy)), (H x (or_introl eq_refl)). reflexivity.
    - apply IH. intros y Hy. apply H. right. exact Hy.
  Qed.
  Lemma existsb_map' {A B} (f : B -> bool) (g : A -> B) l : existsb f (map g l) = existsb (fun x => f (g x)) l.
  Proof. induction l as [|a l IH]; cbn; [reflexivity|]. rewrite IH. reflexivity. Qed.
  Lemma forallb_map' {A B} (f : B -> bool) (g : A -> B) l : forallb f (map g l) = forallb (fun x => f (g x)) l.
  Proof. induction l as [|a l IH]; cbn; [reflexivity|]. rewrite IH. reflexivity. Qed.
  (* distribution: a disjunction of conjunctions over the cartesian product is the conjunction of the disjunctions *)
  Lemma product_any_all ls : existsb (forallb bv) (product ls) = forallb (existsb bv) ls.
  Proof.
    induction ls as [|l ls IH]; [reflexivity|]. cbn [product forallb]. rewrite <- IH. clear IH.
    induction l as [|x l IHl]; [reflexivity|]. cbn [flat_map existsb]. rewrite existsb_app, IHl.
    rewrite existsb_map'. cbn [forallb].
    assert (Q : existsb (fun c => bv x && forallb bv c) (product ls) = bv x && existsb (forallb bv) (product ls)).
    { clear IHl. induction (product ls) as [|c cs IHc]; cbn; [rewrite andb_false_r; reflexivity|]. rewrite IHc. destruct (bv x); reflexivity. }
    rewrite Q. destruct (bv x), (existsb (forallb bv) (product ls)), (existsb bv l); reflexivity.
  Qed.
  Lemma product_all_any ls : forallb (existsb bv) (product ls) = existsb (forallb bv) ls.
  Proof.
    induction ls as [|l ls IH]; [reflexivity|]. cbn [product existsb]. rewrite <- IH. clear IH.
    induction l as [|x l IHl]; [cbn; reflexivity|]. cbn [flat_map forallb]. rewrite forallb_app, IHl.
    rewrite forallb_map'. cbn [existsb].
    assert (Q : forallb (fun c => bv x || existsb bv c) (product ls) = bv x || forallb (existsb bv) (product ls)).
    { clear IHl. induction (product ls) as [|c cs IHc]; cbn; [rewrite orb_true_r; reflexivity|]. rewrite IHc. destruct (bv x); reflexivity. }
    rewrite Q. destruct (bv x), (forallb (existsb bv) (product ls)), (forallb bv l); reflexivity.
  Qed.

  Local Opaque min_by_complexity unwrap1 mk_multi_marker mk_union_marker flatten_multi flatten_union.
  (* ---- monadic plumbing ---- *)
  Lemma mapR_forall2 {A B} (g : A -> res B) l l' : mapR g l = Ok l' -> Forall2 (fun x y => g x = Ok y) l l'.
  Proof.
    revert l'; induction l as [|x l IH]; intros l' H; cbn [mapR] in H.
    - injection H as <-. constructor.
    - destruct (g x) as [y|] eqn:Hx; [|discriminate]. cbn [bind] in H. destruct (mapR g l) as [ys|]; [|discriminate].
      cbn [bind] in H. injection H as <-. constructor; auto.
  Qed.
  Lemma forall2_bools {A B} (R : A -> B -> Prop) (k : A -> bool) (h : B -> bool) l l' :
    Forall2 R l l' -> (forall x y, R x y -> h y = k x) -> forallb h l' = forallb k l /\ existsb h l' = existsb k l.
  Proof.
    intros F HR. induction F as [|x y l l' Hxy F IH]; [split; reflexivity|]. destruct IH as [I1 I2].
    cbn [forallb existsb]. rewrite I1, I2, (HR x y Hxy). split; reflexivity.
  Qed.
  Lemma empty_member_all l : existsb m_is_empty l = true -> forallb bv l = false.
  Proof.
    intros H. apply existsb_exists in H. destruct H as [x [Hx Ex]]. destruct x; try discriminate.
    destruct (forallb bv l) eqn:F; [|reflexivity]. rewrite forallb_forall in F. symmetry. exact (F _ Hx).
  Qed.
  Lemma any_member_any l : existsb m_is_any l = true -> existsb bv l = true.
  Proof.
    intros H. apply existsb_exists in H. destruct H as [x [Hx Ex]]. destruct x; try discriminate.
    apply existsb_exists. exists MAny. split; [exact Hx|reflexivity].
  Qed.
  Lemma drop_any_all l : forallb bv (filter (fun m => negb (m_is_any m)) l) = forallb bv l.
  Proof. induction l as [|x l IH]; [reflexivity|]. cbn [filter forallb]. destruct x; cbn [m_is_any negb forallb]; rewrite IH; reflexivity. Qed.
  Lemma drop_empty_any l : existsb bv (filter (fun m => negb (m_is_empty m)) l) = existsb bv l.
  Proof. induction l as [|x l IH]; [reflexivity|]. cbn [filter existsb]. destruct x; cbn [m_is_empty negb existsb]; rewrite IH; reflexivity. Qed.

  (* ---- what each function of the simplifier must satisfy ---- *)
  Definition S_int f := forall st a b r, m_intersect f st a b = Ok r -> bv r = bv a && bv b.
  Definition S_uni f := forall st a b r, m_union f st a b = Ok r -> bv r = bv a || bv b.
  Definition S_ifn f := forall st args r, intersection_fn f st args = Ok r -> bv r = forallb bv args.
  Definition S_ufn f := forall st args r, union_fn f st args = Ok r -> bv r = existsb bv args.
  Definition S_cnf f := forall st m r, cnf f st m = Ok r -> bv r = bv m.
  Definition S_dnf f := forall st m r, dnf f st m = Ok r -> bv r = bv m.
  Definition S_mof f := forall st ms r, multi_of f st ms = Ok r -> bv r = forallb bv ms.
  Definition S_mloop f := forall st old new r, multi_of_loop f st old new = Ok r -> bv r = forallb bv new.
  Definition S_mpass f := forall st todo acc o, multi_pass f st todo acc = Ok o ->
    match o with Some l => forallb bv l | None => false end = forallb bv acc && forallb bv todo.
  Definition S_mtry f := forall st mk acc i o, multi_try f st mk acc i = Ok o ->
    match o with
    | None => forallb bv acc && bv mk = false
    | Some None => True
    | Some (Some l) => forallb bv l = forallb bv acc && bv mk
    end.
  Definition S_uof f := forall st ms r, union_of_m f st ms = Ok r -> bv r = existsb bv ms.
  Definition S_uloop f := forall st old new r, union_of_loop f st old new = Ok r -> bv r = existsb bv new.
  Definition S_upass f := forall st todo acc o, union_pass f st todo acc = Ok o ->
    match o with Some l => existsb bv l | None => true end = existsb bv acc || existsb bv todo.
  Definition S_utry f := forall st mk acc i o, union_try f st mk acc i = Ok o ->
    match o with
    | None => existsb bv acc || bv mk = true
    | Some None => True
    | Some (Some l) => existsb bv l = existsb bv acc || bv mk
    end.
  Definition S_isimp f := forall st ms other o, intersect_simplify f st ms other = Ok o ->
    match o with Some r => bv r = existsb bv ms && bv other | None => True end.
  Definition S_usimp f := forall st ms other o, union_simplify f st ms other = Ok o ->
    match o with Some r => bv r = forallb bv ms || bv other | None => True end.
  Definition S_only f := forall st names m r, only f st names m = Ok r -> bv m = true -> bv r = true.

  Record ALL (f : nat) : Prop := mkALL {
    a_int : S_int f; a_uni : S_uni f; a_ifn : S_ifn f; a_ufn : S_ufn f; a_cnf : S_cnf f; a_dnf : S_dnf f;
    a_mof : S_mof f; a_mloop : S_mloop f; a_mpass : S_mpass f; a_mtry : S_mtry f;
    a_uof : S_uof f; a_uloop : S_uloop f; a_upass : S_upass f; a_utry : S_utry f;
    a_isimp : S_isimp f; a_usimp : S_usimp f; a_only : S_only f }.

  Ltac bind_inv H :=
    match type of H with
    | bind ?x _ = Ok _ => let a := fresh "v" in let Ha := fresh "Hv" in destruct x as [a|] eqn:Ha; [cbn [bind] in H | discriminate H]
    end.
  Ltac ok_inv H := injection H as H; try subst.

  Lemma all_0 : ALL 0.
  Proof. split; intros st; intros; discriminate. Qed.

  Lemma step_int f : ALL f -> S_int (S f).
  Proof.
    intros A st a b r H. cbn [m_intersect] in H.
    assert (L : is_leaf_like a = true ->
                (if is_leaf_like b then do mg <- merge_single f st a b true; match mg with Some r => Ok r | None => Ok (mk_multi_marker [a; b]) end
                 else m_intersect f st b a) = Ok r -> bv r = bv a && bv b).
    { intros _ H'. destruct (is_leaf_like b).
      - bind_inv H'. destruct v as [r'|]; ok_inv H'.
        + exact (Hmerge _ _ _ _ _ _ Hv).
        + rewrite mk_multi_bv. cbn [forallb]. rewrite andb_true_r. reflexivity.
      - rewrite (a_int f A _ _ _ _ H'). apply andb_comm. }
    destruct a; try (apply L; [reflexivity|exact H]).
    - ok_inv H. reflexivity.
    - ok_inv H. reflexivity.
    - rewrite (a_ifn f A _ _ _ H). cbn [forallb]. rewrite andb_true_r. reflexivity.
    - rewrite (a_ifn f A _ _ _ H). cbn [forallb]. rewrite andb_true_r. reflexivity.
  Qed.

  Lemma step_uni f : ALL f -> S_uni (S f).
  Proof.
    intros A st a b r H. cbn [m_union] in H.
    assert (L : is_leaf_like a = true ->
                (if is_leaf_like b then do mg <- merge_single f st a b false; match mg with Some r => Ok r | None => Ok (mk_union_marker [a; b]) end
                 else m_union f st b a) = Ok r -> bv r = bv a || bv b).
    { intros _ H'. destruct (is_leaf_like b).
      - bind_inv H'. destruct v as [r'|]; ok_inv H'.
        + exact (Hmerge _ _ _ _ _ _ Hv).
        + rewrite mk_union_bv. cbn [existsb]. rewrite orb_false_r. reflexivity.
      - rewrite (a_uni f A _ _ _ _ H'). apply orb_comm. }
    destruct a; try (apply L; [reflexivity|exact H]).
    - ok_inv H. reflexivity.
    - ok_inv H. reflexivity.
    - rewrite (a_ufn f A _ _ _ H). cbn [existsb]. rewrite orb_false_r. reflexivity.
    - rewrite (a_ufn f A _ _ _ H). cbn [existsb]. rewrite orb_false_r. reflexivity.
  Qed.

  Lemma step_ifn f : ALL f -> S_ifn (S f).
  Proof.
    intros A st args r H. cbn [intersection_fn] in H.
    destruct (in_stack args (s_int st)); [discriminate|].
    destruct (existsb m_is_empty args) eqn:He; [ok_inv H; rewrite (empty_member_all _ He); reflexivity|].
    rewrite <- (drop_any_all args).
    destruct (filter (fun m => negb (m_is_any m)) args) as [|m0 ms0] eqn:Hf; [ok_inv H; reflexivity|].
    remember (m0 :: ms0) as ms eqn:Hms. clear Hms Hf.
    remember (unwrap1 (mk_multi_marker ms)) as un eqn:Hun0.
    assert (Hun : bv un = forallb bv ms) by (subst un; rewrite unwrap1_bv, mk_multi_bv; reflexivity). clear Hun0.
    bind_inv H. rename v into dj. assert (Hd : bv dj = bv un) by exact (a_dnf f A _ _ _ Hv).
    rewrite <- Hun, <- Hd.
    destruct dj; try (ok_inv H; reflexivity).
    match type of H with context [cnf f ?s ?m] => destruct (cnf f s m) as [cj|e] eqn:Hc end.
    - assert (Hcj : bv cj = bv (MUnion l)) by exact (a_cnf f A _ _ _ Hc).
      destruct cj; ok_inv H; try exact Hcj.
      apply min_by_complexity_bv. intros x [<-|[<-|[]]]; [exact Hcj | symmetry; exact Hd].
    - destruct e; try discriminate. ok_inv H. apply min_by_complexity_bv. intros x [<-|[]]. symmetry; exact Hd.
  Qed.
  Lemma step_ufn f : ALL f -> S_ufn (S f).
  Proof.
    intros A st args r H. cbn [union_fn] in H.
    destruct (in_stack args (s_uni st)); [discriminate|].
    destruct (existsb m_is_any args) eqn:He; [ok_inv H; rewrite (any_member_any _ He); reflexivity|].
    rewrite <- (drop_empty_any args).
    destruct (filter (fun m => negb (m_is_empty m)) args) as [|m0 ms0] eqn:Hf; [ok_inv H; reflexivity|].
    remember (m0 :: ms0) as ms eqn:Hms. clear Hms Hf.
    remember (unwrap1 (mk_union_marker ms)) as un eqn:Hun0.
    assert (Hun : bv un = existsb bv ms) by (subst un; rewrite unwrap1_bv, mk_union_bv; reflexivity). clear Hun0.
    bind_inv H. rename v into cj. assert (Hd : bv cj = bv un) by exact (a_cnf f A _ _ _ Hv).
    rewrite <- Hun, <- Hd.
    destruct cj; try (ok_inv H; reflexivity).
    match type of H with context [dnf f ?s ?m] => destruct (dnf f s m) as [dj|e] eqn:Hc end.
    - assert (Hdj : bv dj = bv (MMulti l)) by exact (a_dnf f A _ _ _ Hc).
      destruct dj; ok_inv H; try exact Hdj.
      rewrite <- Hdj. apply min_by_complexity_bv. intros x [<-|[<-|[]]]; [symmetry; exact Hdj | rewrite <- Hd; symmetry; exact Hdj].
    - destruct e; try discriminate. ok_inv H. apply min_by_complexity_bv. intros x [<-|[]]. symmetry; exact Hd.
  Qed.

  Lemma conj_list_bv c : forallb bv (match c with MMulti l => l | _ => [c] end) = bv c.
  Proof. destruct c; cbn [forallb beval]; rewrite ?andb_true_r; reflexivity. Qed.
  Lemma disj_list_bv c : existsb bv (match c with MUnion l => l | _ => [c] end) = bv c.
  Proof. destruct c; cbn [existsb beval]; rewrite ?orb_false_r; reflexivity. Qed.

  Lemma step_cnf f : ALL f -> S_cnf (S f).
  Proof.
    intros A st m r H. cbn [cnf] in H. destruct m; try (ok_inv H; reflexivity).
    - bind_inv H. rename v into cs. rewrite (a_mof f A _ _ _ H). cbn [beval].
      apply (forall2_bools _ bv bv _ _ (mapR_forall2 _ _ _ Hv)). intros x y Hxy. exact (a_cnf f A _ _ _ Hxy).
    - bind_inv H. rename v into cs. bind_inv H. rename v into clauses. rewrite (a_mof f A _ _ _ H). cbn [beval].
      destruct (forall2_bools _ (existsb bv) bv _ _ (mapR_forall2 _ _ _ Hv0)) as [C1 _].
      { intros x y Hxy. exact (a_uof f A _ _ _ Hxy). }
      rewrite C1, product_all_any, existsb_map'.
      apply (forall2_bools _ bv (fun c => forallb bv match c with MMulti l0 => l0 | _ => [c] end) _ _ (mapR_forall2 _ _ _ Hv)).
      intros x y Hxy. rewrite conj_list_bv. exact (a_cnf f A _ _ _ Hxy).
  Qed.
  Lemma step_dnf f : ALL f -> S_dnf (S f).
  Proof.
    intros A st m r H. cbn [dnf] in H. destruct m; try (ok_inv H; reflexivity).
    - bind_inv H. rename v into ds. bind_inv H. rename v into clauses. rewrite (a_uof f A _ _ _ H). cbn [beval].
      destruct (forall2_bools _ (forallb bv) bv _ _ (mapR_forall2 _ _ _ Hv0)) as [_ C1].
      { intros x y Hxy. exact (a_mof f A _ _ _ Hxy). }
      rewrite C1, product_any_all, forallb_map'.
      apply (forall2_bools _ bv (fun c => existsb bv match c with MUnion l0 => l0 | _ => [c] end) _ _ (mapR_forall2 _ _ _ Hv)).
      intros x y Hxy. rewrite disj_list_bv. exact (a_dnf f A _ _ _ Hxy).
    - bind_inv H. rename v into ds. rewrite (a_uof f A _ _ _ H). cbn [beval].
      apply (forall2_bools _ bv bv _ _ (mapR_forall2 _ _ _ Hv)). intros x y Hxy. exact (a_dnf f A _ _ _ Hxy).
  Qed.

  Lemma step_mof f : ALL f -> S_mof (S f).
  Proof. intros A st ms r H. cbn [multi_of] in H. rewrite (a_mloop f A _ _ _ _ H). apply flatten_multi_bv. Qed.
  Lemma step_uof f : ALL f -> S_uof (S f).
  Proof. intros A st ms r H. cbn [union_of_m] in H. rewrite (a_uloop f A _ _ _ _ H). apply flatten_union_bv. Qed.

  Lemma step_mloop f : ALL f -> S_mloop (S f).
  Proof.
    intros A st old new r H. cbn [multi_of_loop] in H. destruct (markers_eqb old new).
    - destruct (existsb m_is_empty new) eqn:He; [ok_inv H; rewrite (empty_member_all _ He); reflexivity|].
      destruct new as [|x [|y l]]; ok_inv H; [reflexivity| cbn [forallb]; rewrite andb_true_r; reflexivity | apply mk_multi_bv].
    - bind_inv H. pose proof (a_mpass f A _ _ _ _ Hv) as P. cbn [forallb andb] in P. destruct v as [new'|].
      + rewrite (a_mloop f A _ _ _ _ H). exact P.
      + ok_inv H. exact P.
  Qed.
  Lemma step_uloop f : ALL f -> S_uloop (S f).
  Proof.
    intros A st old new r H. cbn [union_of_loop] in H. destruct (markers_eqb old new).
    - destruct (existsb m_is_any new) eqn:He; [ok_inv H; rewrite (any_member_any _ He); reflexivity|].
      destruct new as [|x [|y l]]; ok_inv H; [reflexivity| cbn [existsb]; rewrite orb_false_r; reflexivity | apply mk_union_bv].
    - bind_inv H. pose proof (a_upass f A _ _ _ _ Hv) as P. cbn [existsb orb] in P. destruct v as [new'|].
      + rewrite (a_uloop f A _ _ _ _ H). exact P.
      + ok_inv H. exact P.
  Qed.

  Lemma step_mpass f : ALL f -> S_mpass (S f).
  Proof.
    intros A st todo acc o H. cbn [multi_pass] in H. destruct todo as [|mk0 rest].
    - ok_inv H. cbn [forallb]. rewrite andb_true_r. reflexivity.
    - cbn [forallb]. destruct (marker_in mk0 acc || m_is_any mk0) eqn:C.
      + rewrite (a_mpass f A _ _ _ _ H). apply orb_true_iff in C. destruct C as [C|C].
        * destruct (forallb bv acc) eqn:Fa; [|reflexivity]. rewrite (all_member _ _ C Fa). reflexivity.
        * destruct mk0; try discriminate. reflexivity.
      + bind_inv H. pose proof (a_mtry f A _ _ _ _ _ Hv) as T. destruct v as [[acc'|]|].
        * rewrite (a_mpass f A _ _ _ _ H), flatten_multi_bv, T, andb_assoc. reflexivity.
        * rewrite (a_mpass f A _ _ _ _ H), forallb_app. cbn [forallb]. rewrite andb_true_r, andb_assoc. reflexivity.
        * ok_inv H. rewrite andb_assoc, T. reflexivity.
  Qed.
  Lemma step_upass f : ALL f -> S_upass (S f).
  Proof.
    intros A st todo acc o H. cbn [union_pass] in H. destruct todo as [|mk0 rest].
    - ok_inv H. cbn [existsb]. rewrite orb_false_r. reflexivity.
    - cbn [existsb]. destruct (marker_in mk0 acc || m_is_empty mk0) eqn:C.
      + rewrite (a_upass f A _ _ _ _ H). apply orb_true_iff in C. destruct C as [C|C].
        * destruct (bv mk0) eqn:Bm; [|reflexivity]. rewrite (any_member _ _ C Bm). reflexivity.
        * destruct mk0; try discriminate. reflexivity.
      + bind_inv H. pose proof (a_utry f A _ _ _ _ _ Hv) as T. destruct v as [[acc'|]|].
        * rewrite (a_upass f A _ _ _ _ H), flatten_union_bv, T, orb_assoc. reflexivity.
        * rewrite (a_upass f A _ _ _ _ H), existsb_app. cbn [existsb]. rewrite orb_false_r, orb_assoc. reflexivity.
        * ok_inv H. rewrite orb_assoc, T. reflexivity.
  Qed.

  Lemma step_mtry f : ALL f -> S_mtry (S f).
  Proof.
    intros A st mk0 acc i o H. cbn [multi_try] in H.
    destruct (nth_error acc i) as [mark|] eqn:Hn; [|ok_inv H; exact I].
    bind_inv H. destruct v as [one_union inter].
    assert (Hs : match inter with Some x => bv x = bv mark && bv mk0 | None => True end).
    { destruct mark; destruct mk0;
        try (ok_inv Hv; exact I);
        try (bind_inv Hv; ok_inv Hv;
             match goal with Hq : intersect_simplify f _ _ _ = Ok _ |- _ => pose proof (a_isimp f A _ _ _ _ Hq) as Q end;
             destruct inter; [rewrite Q; cbn [beval]; try reflexivity; apply andb_comm | exact I]). }
    destruct inter as [x|].
    - ok_inv H. exact (replace_nth_all _ _ _ _ _ Hn Hs).
    - destruct (negb one_union && is_leaf_like mark).
      + bind_inv H. rename v into nm. pose proof (a_int f A _ _ _ _ Hv0) as Hnm.
        destruct (m_is_empty nm) eqn:Em.
        * ok_inv H. destruct nm; try discriminate. cbn [beval] in Hnm.
          destruct (bv mk0); [|apply andb_false_r]. rewrite andb_true_r in *.
          destruct (forallb bv acc) eqn:Fa; [|reflexivity]. rewrite forallb_forall in Fa. rewrite (Fa _ (nth_in _ _ _ Hn)) in Hnm. discriminate.
        * destruct (is_leaf_like nm).
          -- ok_inv H. exact (replace_nth_all _ _ _ _ _ Hn Hnm).
          -- exact (a_mtry f A _ _ _ _ _ H).
      + exact (a_mtry f A _ _ _ _ _ H).
  Qed.
  Lemma step_utry f : ALL f -> S_utry (S f).
  Proof.
    intros A st mk0 acc i o H. cbn [union_try] in H.
    destruct (nth_error acc i) as [mark|] eqn:Hn; [|ok_inv H; exact I].
    bind_inv H. destruct v as [one_multi un].
    assert (Hs : match un with Some x => bv x = bv mark || bv mk0 | None => True end).
    { destruct mark; destruct mk0;
        try (ok_inv Hv; exact I);
        try (bind_inv Hv; ok_inv Hv;
             match goal with Hq : union_simplify f _ _ _ = Ok _ |- _ => pose proof (a_usimp f A _ _ _ _ Hq) as Q end;
             destruct un; [rewrite Q; cbn [beval]; try reflexivity; apply orb_comm | exact I]). }
    destruct un as [x|].
    - ok_inv H. exact (replace_nth_any _ _ _ _ _ Hn Hs).
    - destruct (negb one_multi && is_leaf_like mark).
      + bind_inv H. rename v into nm. pose proof (a_uni f A _ _ _ _ Hv0) as Hnm.
        destruct (m_is_any nm) eqn:Em.
        * ok_inv H. destruct nm; try discriminate. cbn [beval] in Hnm.
          destruct (bv mk0); [apply orb_true_r|]. rewrite orb_false_r in *.
          apply existsb_exists. exists mark. split; [exact (nth_in _ _ _ Hn)|symmetry; exact Hnm].
        * destruct (is_leaf_like nm).
          -- ok_inv H. exact (replace_nth_any _ _ _ _ _ Hn Hnm).
          -- exact (a_utry f A _ _ _ _ _ H).
      + exact (a_utry f A _ _ _ _ _ H).
  Qed.

  (* subsets and the shared part of two member lists *)
  Lemma subset_any a b : subset_m a b = true -> existsb bv a = true -> existsb bv b = true.
  Proof.
    unfold subset_m. intros S Ha. rewrite forallb_forall in S. apply existsb_exists in Ha. destruct Ha as [x [Hx Bx]].
    exact (any_member _ _ (S x Hx) Bx).
  Qed.
  Lemma subset_all a b : subset_m a b = true -> forallb bv b = true -> forallb bv a = true.
  Proof.
    unfold subset_m. intros S Hb. rewrite forallb_forall in S. apply forallb_forall. intros x Hx. exact (all_member _ _ (S x Hx) Hb).
  Qed.
  Lemma in_sym x y l : In y l -> marker_eqb x y = true -> marker_in x l = true.
  Proof. intros Hy Exy. unfold marker_in. apply existsb_exists. exists y. split; assumption. Qed.
  Lemma shared_any ms os :
    existsb bv (filter (fun m => marker_in m ms) os) = existsb bv (filter (fun m => marker_in m os) ms).
  Proof.
    assert (G : forall a b, existsb bv (filter (fun m => marker_in m a) b) = true -> existsb bv (filter (fun m => marker_in m b) a) = true).
    { intros a b H. apply existsb_exists in H. destruct H as [x [Hx Bx]]. apply filter_In in Hx. destruct Hx as [Hxb Hxa].
      unfold marker_in in Hxa. apply existsb_exists in Hxa. destruct Hxa as [y [Hya Exy]].
      apply existsb_exists. exists y. split.
      - apply filter_In. split; [exact Hya|]. apply (in_sym y x b Hxb). rewrite Hsym. exact Exy.
      - rewrite <- (Hkey _ _ Exy). exact Bx. }
    destruct (existsb bv (filter (fun m => marker_in m ms) os)) eqn:X.
    - symmetry. apply G. exact X.
    - destruct (existsb bv (filter (fun m => marker_in m os) ms)) eqn:Y; [|reflexivity]. rewrite (G _ _ Y) in X. discriminate.
  Qed.
  Lemma shared_all ms os :
    forallb bv (filter (fun m => marker_in m ms) os) = forallb bv (filter (fun m => marker_in m os) ms).
  Proof.
    assert (G : forall a b, forallb bv (filter (fun m => marker_in m a) b) = true -> forallb bv (filter (fun m => marker_in m b) a) = true).
    { intros a b H. rewrite forallb_forall in H. apply forallb_forall. intros y Hy. apply filter_In in Hy. destruct Hy as [Hya Hyb].
      unfold marker_in in Hyb. apply existsb_exists in Hyb. destruct Hyb as [x [Hxb Eyx]].
      rewrite (Hkey _ _ Eyx). apply H. apply filter_In. split; [exact Hxb|]. apply (in_sym x y a Hya). rewrite Hsym. exact Eyx. }
    destruct (forallb bv (filter (fun m => marker_in m ms) os)) eqn:X.
    - symmetry. apply G. exact X.
    - destruct (forallb bv (filter (fun m => marker_in m os) ms)) eqn:Y; [|reflexivity]. rewrite (G _ _ Y) in X. discriminate.
  Qed.

  Lemma step_isimp f : ALL f -> S_isimp (S f).
  Proof.
    intros A st ms other o H. cbn [intersect_simplify] in H.
    destruct (marker_in other ms) eqn:Hin.
    - ok_inv H. destruct (bv other) eqn:Bo; [|rewrite andb_false_r; reflexivity]. rewrite (any_member _ _ Hin Bo). reflexivity.
    - destruct other; try (ok_inv H; exact I). rename l into os.
      destruct (subset_m ms os) eqn:S1.
      { ok_inv H. cbn [beval]. destruct (existsb bv ms) eqn:Bm; [|reflexivity]. rewrite (subset_any _ _ S1 Bm). reflexivity. }
      destruct (subset_m os ms) eqn:S2.
      { ok_inv H. cbn [beval]. destruct (existsb bv os) eqn:Bm; [|rewrite andb_false_r; reflexivity]. rewrite (subset_any _ _ S2 Bm). reflexivity. }
      destruct (filter (fun m => marker_in m os) ms) as [|s0 sh] eqn:Hsh; [ok_inv H; exact I|].
      rewrite <- Hsh in H.
      bind_inv H. rename v into ui. pose proof (a_ifn f A _ _ _ Hv) as Hui. cbn [forallb] in Hui. rewrite !mk_union_bv, andb_true_r in Hui.
      destruct (is_leaf_like ui || m_is_empty ui); [|ok_inv H; exact I].
      bind_inv H. ok_inv H. rewrite (a_uni f A _ _ _ _ Hv0), Hui, mk_union_bv. cbn [beval].
      rewrite (existsb_filter_split (fun m => marker_in m os) ms), (existsb_filter_split (fun m => marker_in m ms) os), (shared_any ms os).
      destruct (existsb bv (filter (fun m => marker_in m os) ms)), (existsb bv (filter (fun m => negb (marker_in m os)) ms)),
               (existsb bv (filter (fun m => negb (marker_in m ms)) os)); reflexivity.
  Qed.
  Lemma step_usimp f : ALL f -> S_usimp (S f).
  Proof.
    intros A st ms other o H. cbn [union_simplify] in H.
    destruct (marker_in other ms) eqn:Hin.
    - ok_inv H. destruct (forallb bv ms) eqn:Bm; [|reflexivity]. rewrite (all_member _ _ Hin Bm). reflexivity.
    - destruct other; try (ok_inv H; exact I). rename l into os.
      destruct (subset_m ms os) eqn:S1.
      { ok_inv H. cbn [beval]. destruct (forallb bv os) eqn:Bm; [|rewrite orb_false_r; reflexivity]. rewrite (subset_all _ _ S1 Bm). reflexivity. }
      destruct (subset_m os ms) eqn:S2.
      { ok_inv H. cbn [beval]. destruct (forallb bv ms) eqn:Bm; [|reflexivity]. rewrite (subset_all _ _ S2 Bm). reflexivity. }
      destruct (filter (fun m => marker_in m os) ms) as [|s0 sh] eqn:Hsh; [ok_inv H; exact I|].
      rewrite <- Hsh in H.
      bind_inv H. rename v into uu. pose proof (a_ufn f A _ _ _ Hv) as Huu. cbn [existsb] in Huu. rewrite !mk_multi_bv, orb_false_r in Huu.
      destruct (is_leaf_like uu || m_is_any uu); [|ok_inv H; exact I].
      bind_inv H. ok_inv H. rewrite (a_int f A _ _ _ _ Hv0), Huu, mk_multi_bv. cbn [beval].
      rewrite (forallb_filter_split (fun m => marker_in m os) ms), (forallb_filter_split (fun m => marker_in m ms) os), (shared_all ms os).
      destruct (forallb bv (filter (fun m => marker_in m os) ms)), (forallb bv (filter (fun m => negb (marker_in m os)) ms)),
               (forallb bv (filter (fun m => negb (marker_in m ms)) os)); reflexivity.
  Qed.

  Lemma forall2_weaken {A B} (R : A -> B -> Prop) (k : A -> bool) (h : B -> bool) l l' :
    Forall2 R l l' -> (forall x y, R x y -> k x = true -> h y = true) ->
    (forallb k l = true -> forallb h l' = true) /\ (existsb k l = true -> existsb h l' = true).
  Proof.
    intros F HR. induction F as [|x y l l' Hxy F IH]; [split; auto|]. destruct IH as [I1 I2]. cbn [forallb existsb]. split; intros H.
    - apply andb_true_iff in H. destruct H as [H1 H2]. rewrite (HR _ _ Hxy H1), (I1 H2). reflexivity.
    - apply orb_true_iff in H. destruct H as [H1|H2]; [rewrite (HR _ _ Hxy H1); reflexivity|rewrite (I2 H2); apply orb_true_r].
  Qed.
  Lemma step_only f : ALL f -> S_only (S f).
  Proof.
    intros A st names m r H Hm. cbn [only] in H.
    assert (L : match leaf_like m with Some (n, _) => Ok (if mem_str n names then m else MAny) | None => Ok m end = Ok r -> bv r = true).
    { intros H'. destruct (leaf_like m) as [[n c]|]; ok_inv H'; [destruct (mem_str n names); [exact Hm|reflexivity]|exact Hm]. }
    destruct m; try (apply L; exact H).
    - bind_inv H. rewrite (a_mof f A _ _ _ H).
      apply (forall2_weaken _ bv bv _ _ (mapR_forall2 _ _ _ Hv)); [|exact Hm]. intros x y Hxy Bx. exact (a_only f A _ _ _ _ Hxy Bx).
    - bind_inv H. rewrite (a_uof f A _ _ _ H).
      apply (forall2_weaken _ bv bv _ _ (mapR_forall2 _ _ _ Hv)); [|exact Hm]. intros x y Hxy Bx. exact (a_only f A _ _ _ _ Hxy Bx).
  Qed.

  Theorem all_sound : forall f, ALL f.
  Proof.
    induction f as [|f IH]; [exact all_0|].
    split; [apply step_int | apply step_uni | apply step_ifn | apply step_ufn | apply step_cnf | apply step_dnf
            | apply step_mof | apply step_mloop | apply step_mpass | apply step_mtry
            | apply step_uof | apply step_uloop | apply step_upass | apply step_utry
            | apply step_isimp | apply step_usimp | apply step_only]; exact IH.
  Qed.
End Sound.

(* ---- the statements used by the property files ---- *)
Definition key_sound (E : env) : Prop := forall a b, marker_eqb a b = true -> beval E a = beval E b.
Definition key_symmetric : Prop := forall a b, marker_eqb a b = marker_eqb b a.
Definition merge_sound (E : env) : Prop := forall fuel st m1 m2 is_multi r,
  merge_single fuel st m1 m2 is_multi = Ok (Some r) ->
  beval E r = if is_multi then beval E m1 && beval E m2 else beval E m1 || beval E m2.

Section Corollaries.
  Variable E : env.
  Hypothesis (HK : key_sound E) (HS : key_symmetric) (HM : merge_sound E).
  Let A := all_sound E HK HS HM.
  Theorem intersect_union_sound fuel st a b :
    (forall r, m_intersect fuel st a b = Ok r -> beval E r = beval E a && beval E b) /\
    (forall r, m_union fuel st a b = Ok r -> beval E r = beval E a || beval E b).
  Proof. split; intros r H; [exact (a_int E fuel (A fuel) _ _ _ _ H) | exact (a_uni E fuel (A fuel) _ _ _ _ H)]. Qed.
  Theorem nary_sound fuel st args :
    (forall r, intersection_fn fuel st args = Ok r -> beval E r = forallb (beval E) args) /\
    (forall r, union_fn fuel st args = Ok r -> beval E r = existsb (beval E) args).
  Proof. split; intros r H; [exact (a_ifn E fuel (A fuel) _ _ _ H) | exact (a_ufn E fuel (A fuel) _ _ _ H)]. Qed.
  Theorem normal_forms_sound fuel st m :
    (forall r, cnf fuel st m = Ok r -> beval E r = beval E m) /\ (forall r, dnf fuel st m = Ok r -> beval E r = beval E m).
  Proof. split; intros r H; [exact (a_cnf E fuel (A fuel) _ _ _ H) | exact (a_dnf E fuel (A fuel) _ _ _ H)]. Qed.
  Theorem of_sound fuel st ms :
    (forall r, multi_of fuel st ms = Ok r -> beval E r = forallb (beval E) ms) /\
    (forall r, union_of_m fuel st ms = Ok r -> beval E r = existsb (beval E) ms).
  Proof. split; intros r H; [exact (a_mof E fuel (A fuel) _ _ _ H) | exact (a_uof E fuel (A fuel) _ _ _ H)]. Qed.
  Theorem only_weakens fuel st names m r : only fuel st names m = Ok r -> beval E m = true -> beval E r = true.
  Proof. exact (a_only E fuel (A fuel) st names m r). Qed.
End Corollaries.

(* the premises are satisfiable together with non-trivial markers: on markers without leaves they hold outright *)
Example premises_meet : forall E, beval E (MMulti [MAny; MUnion [MEmpty; MAny]]) = true.
Proof. reflexivity. Qed.
