(* C07/C13/C17: the marker simplifier (Model/MarkerAlg.v: intersection, union, cnf, dnf, MultiMarker.of, MarkerUnion.of,
   intersect_simplify, union_simplify, only, with the recursion guard) keeps truth on every environment, for every fuel
   and every state of the recursion-guard stacks, on any class R of clauses on which (1) equal keys mean equal values,
   (2) key equality is symmetric and (3) merging two clauses on one variable is exact and stays in the class.
   The class is threaded through all seventeen invariants (results are again built from clauses of the class), so the
   three premises are only ever used on clauses the computation can actually meet.
   By induction on fuel: no termination, confluence or normal-form argument is needed — whatever the search returns,
   and whenever the recursion guard cuts it short, the result has the truth table of the operands. *)
From Coq Require Import List Bool Arith NArith String Ascii Lia.
From PC Require Import Base.Cmp Base.Result Model.Pep440 Model.VConstraint Model.Generic Model.Marker Model.MarkerAlg
     Proofs.MarkerProofs.
Import ListNotations.

Section Sound.
  Variable E : env.
  Notation bv := (beval E).
  (* the class of clauses (leaf-like markers) *)
  Variable R : marker -> Prop.
  Inductive G : marker -> Prop :=
    | G_any : G MAny
    | G_empty : G MEmpty
    | G_single l : R (MSingle l) -> G (MSingle l)
    | G_amulti n a : R (MAtomicMulti n a) -> G (MAtomicMulti n a)
    | G_aunion n a : R (MAtomicUnion n a) -> G (MAtomicUnion n a)
    | G_multi l : Forall G l -> G (MMulti l)
    | G_union l : Forall G l -> G (MUnion l).
  Hypothesis Hkey : forall a b, G a -> G b -> marker_eqb a b = true -> bv a = bv b.
  Hypothesis Hsym : forall a b, G a -> G b -> marker_eqb a b = marker_eqb b a.
  Hypothesis Hmerge : forall fuel st m1 m2 is_multi r, G m1 -> G m2 ->
    merge_single fuel st m1 m2 is_multi = Ok (Some r) ->
    bv r = (if is_multi then bv m1 && bv m2 else bv m1 || bv m2) /\ G r.

  Lemma G_multi_inv l : G (MMulti l) -> Forall G l. Proof. inversion 1; assumption. Qed.
  Lemma G_union_inv l : G (MUnion l) -> Forall G l. Proof. inversion 1; assumption. Qed.
  Lemma Forall_in {A} (P : A -> Prop) l x : Forall P l -> In x l -> P x.
  Proof. intros H. rewrite Forall_forall in H. apply H. Qed.

  (* ---- list facts ---- *)
  Lemma in_eq_bv x l : G x -> Forall G l -> marker_in x l = true -> exists y, In y l /\ bv x = bv y.
  Proof.
    unfold marker_in. intros Gx Gl H. apply existsb_exists in H. destruct H as [y [Hy E']]. exists y. split; [exact Hy|].
    exact (Hkey x y Gx (Forall_in _ _ _ Gl Hy) E').
  Qed.
  Lemma all_member x l : G x -> Forall G l -> marker_in x l = true -> forallb bv l = true -> bv x = true.
  Proof. intros Gx Gl H F. destruct (in_eq_bv x l Gx Gl H) as [y [Hy ->]]. rewrite forallb_forall in F. auto. Qed.
  Lemma any_member x l : G x -> Forall G l -> marker_in x l = true -> bv x = true -> existsb bv l = true.
  Proof. intros Gx Gl H B. destruct (in_eq_bv x l Gx Gl H) as [y [Hy Ey]]. apply existsb_exists. exists y. split; congruence. Qed.
  Lemma forallb_filter_split (p : marker -> bool) l :
    forallb bv l = forallb bv (filter p l) && forallb bv (filter (fun m => negb (p m)) l).
  Proof. induction l as [|x l IH]; [reflexivity|]. cbn [filter forallb]. destruct (p x); cbn [negb forallb]; rewrite IH; destruct (bv x), (forallb bv (filter p l)); reflexivity. Qed.
  Lemma existsb_filter_split (p : marker -> bool) l :
    existsb bv l = existsb bv (filter p l) || existsb bv (filter (fun m => negb (p m)) l).
  Proof. induction l as [|x l IH]; [reflexivity|]. cbn [filter existsb]. destruct (p x); cbn [negb existsb]; rewrite IH; destruct (bv x), (existsb bv (filter p l)); reflexivity. Qed.
  Lemma Forall_filter {A} (P : A -> Prop) p l : Forall P l -> Forall P (filter p l).
  Proof. intros H. apply Forall_forall. intros x Hx. apply filter_In in Hx. exact (Forall_in _ _ _ H (proj1 Hx)). Qed.
  Lemma replace_nth_split {A} i (x mark : A) acc : nth_error acc i = Some mark ->
    exists l1 l2, acc = (l1 ++ mark :: l2)%list /\ replace_nth i x acc = (l1 ++ x :: l2)%list.
  Proof.
    intros H. destruct (nth_error_split acc i H) as [l1 [l2 [-> L]]]. exists l1, l2. split; [reflexivity|].
    unfold replace_nth. subst i. rewrite firstn_app, firstn_all, Nat.sub_diag. cbn [firstn]. rewrite app_nil_r.
    replace (S (List.length l1)) with (List.length l1 + 1)%nat by lia. rewrite skipn_app, skipn_all2 by lia.
    replace (List.length l1 + 1 - List.length l1)%nat with 1%nat by lia. reflexivity.
  Qed.
  Lemma replace_nth_all i x acc mk mark : nth_error acc i = Some mark -> bv x = bv mark && bv mk ->
    forallb bv (replace_nth i x acc) = forallb bv acc && bv mk.
  Proof.
    intros H Hx. destruct (replace_nth_split i x mark acc H) as [l1 [l2 [-> ->]]]. rewrite !forallb_app. cbn [forallb]. rewrite Hx.
    destruct (forallb bv l1), (bv mark), (bv mk), (forallb bv l2); reflexivity.
  Qed.
  Lemma replace_nth_any i x acc mk mark : nth_error acc i = Some mark -> bv x = bv mark || bv mk ->
    existsb bv (replace_nth i x acc) = existsb bv acc || bv mk.
  Proof.
    intros H Hx. destruct (replace_nth_split i x mark acc H) as [l1 [l2 [-> ->]]]. rewrite !existsb_app. cbn [existsb]. rewrite Hx.
    destruct (existsb bv l1), (bv mark), (bv mk), (existsb bv l2); reflexivity.
  Qed.
  Lemma replace_nth_G i x acc mark : nth_error acc i = Some mark -> G x -> Forall G acc -> Forall G (replace_nth i x acc).
  Proof.
    intros H Gx Ga. destruct (replace_nth_split i x mark acc H) as [l1 [l2 [-> ->]]].
    apply Forall_app in Ga. destruct Ga as [G1 G2]. apply Forall_app. split; [exact G1|]. inversion G2; subst. constructor; assumption.
  Qed.
  Lemma nth_in acc i (mark : marker) : nth_error acc i = Some mark -> In mark acc.
  Proof. apply nth_error_In. Qed.

  (* ---- the constructors: splicing nested members and dropping duplicates ---- *)
  Lemma add_unique_G acc m : Forall G acc -> G m -> Forall G (add_unique acc m).
  Proof. intros Ga Gm. unfold add_unique. destruct (marker_in m acc); [exact Ga|]. apply Forall_app. split; [exact Ga|]. constructor; [exact Gm|constructor]. Qed.
  Lemma add_unique_or acc m : Forall G acc -> G m -> existsb bv (add_unique acc m) = existsb bv acc || bv m.
  Proof.
    intros Ga Gm. unfold add_unique. destruct (marker_in m acc) eqn:I.
    - destruct (bv m) eqn:Bm; [|rewrite orb_false_r; reflexivity]. rewrite (any_member m acc Gm Ga I Bm). reflexivity.
    - rewrite existsb_app. cbn. rewrite orb_false_r. reflexivity.
  Qed.
  Lemma add_unique_and acc m : Forall G acc -> G m -> forallb bv (add_unique acc m) = forallb bv acc && bv m.
  Proof.
    intros Ga Gm. unfold add_unique. destruct (marker_in m acc) eqn:I.
    - destruct (forallb bv acc) eqn:F; [|reflexivity]. rewrite (all_member m acc Gm Ga I F). reflexivity.
    - rewrite forallb_app. cbn. rewrite andb_true_r. reflexivity.
  Qed.
  Lemma fold_add_unique sub : Forall G sub -> forall acc, Forall G acc ->
    Forall G (fold_left add_unique sub acc) /\
    existsb bv (fold_left add_unique sub acc) = existsb bv acc || existsb bv sub /\
    forallb bv (fold_left add_unique sub acc) = forallb bv acc && forallb bv sub.
  Proof.
    induction 1 as [|x sub Gx Gs IH]; intros acc Ga; cbn [fold_left existsb forallb].
    - rewrite orb_false_r, andb_true_r. auto.
    - destruct (IH (add_unique acc x) (add_unique_G acc x Ga Gx)) as (A & B & C). split; [exact A|].
      rewrite B, C, (add_unique_or acc x Ga Gx), (add_unique_and acc x Ga Gx), orb_assoc, andb_assoc. auto.
  Qed.
  Lemma flatten_multi_spec l : Forall G l ->
    Forall G (flatten_multi l) /\ forallb bv (flatten_multi l) = forallb bv l.
  Proof.
    intros Gl. unfold flatten_multi.
    assert (K : forall acc, Forall G acc ->
      Forall G (fold_left (fun acc m => match m with MMulti sub => fold_left add_unique sub acc | _ => add_unique acc m end) l acc) /\
      forallb bv (fold_left (fun acc m => match m with MMulti sub => fold_left add_unique sub acc | _ => add_unique acc m end) l acc) = forallb bv acc && forallb bv l).
    { induction Gl as [|m l Gm Gl IH]; intros acc Ga; cbn [fold_left forallb]; [rewrite andb_true_r; auto|].
      assert (S1 : Forall G (match m with MMulti sub => fold_left add_unique sub acc | _ => add_unique acc m end) /\
                   forallb bv (match m with MMulti sub => fold_left add_unique sub acc | _ => add_unique acc m end) = forallb bv acc && bv m).
      { destruct m; try (split; [apply add_unique_G | apply add_unique_and]; assumption).
        destruct (fold_add_unique l0 (G_multi_inv _ Gm) acc Ga) as (A & _ & C). split; [exact A|exact C]. }
      destruct S1 as [A B]. destruct (IH _ A) as [A' B']. split; [exact A'|]. rewrite B', B, andb_assoc. reflexivity. }
    destruct (K [] (Forall_nil G)) as [A B]. split; [exact A|exact B].
  Qed.
  Lemma flatten_union_spec l : Forall G l ->
    Forall G (flatten_union l) /\ existsb bv (flatten_union l) = existsb bv l.
  Proof.
    intros Gl. unfold flatten_union.
    assert (K : forall acc, Forall G acc ->
      Forall G (fold_left (fun acc m => match m with MUnion sub => fold_left add_unique sub acc | _ => add_unique acc m end) l acc) /\
      existsb bv (fold_left (fun acc m => match m with MUnion sub => fold_left add_unique sub acc | _ => add_unique acc m end) l acc) = existsb bv acc || existsb bv l).
    { induction Gl as [|m l Gm Gl IH]; intros acc Ga; cbn [fold_left existsb]; [rewrite orb_false_r; auto|].
      assert (S1 : Forall G (match m with MUnion sub => fold_left add_unique sub acc | _ => add_unique acc m end) /\
                   existsb bv (match m with MUnion sub => fold_left add_unique sub acc | _ => add_unique acc m end) = existsb bv acc || bv m).
      { destruct m; try (split; [apply add_unique_G | apply add_unique_or]; assumption).
        destruct (fold_add_unique l0 (G_union_inv _ Gm) acc Ga) as (A & B & _). split; [exact A|exact B]. }
      destruct S1 as [A B]. destruct (IH _ A) as [A' B']. split; [exact A'|]. rewrite B', B, orb_assoc. reflexivity. }
    destruct (K [] (Forall_nil G)) as [A B]. split; [exact A|exact B].
  Qed.
  Lemma mk_multi_bv l : Forall G l -> bv (mk_multi_marker l) = forallb bv l /\ G (mk_multi_marker l).
  Proof. intros Gl. destruct (flatten_multi_spec l Gl) as [A B]. unfold mk_multi_marker. split; [exact B|constructor; exact A]. Qed.
  Lemma mk_union_bv l : Forall G l -> bv (mk_union_marker l) = existsb bv l /\ G (mk_union_marker l).
  Proof. intros Gl. destruct (flatten_union_spec l Gl) as [A B]. unfold mk_union_marker. split; [exact B|constructor; exact A]. Qed.

  Lemma unwrap_go_bv n m : G m -> bv (unwrap_go n m) = bv m /\ G (unwrap_go n m).
  Proof.
    revert m. induction n as [|n IH]; intros m Gm; [auto|].
    destruct m as [| |l|na a|na a|[|x [|y r]]|[|x [|y r]]]; cbn [unwrap_go]; auto.
    - assert (Gx : G x) by (apply G_multi_inv in Gm; inversion Gm; assumption).
      destruct (IH x Gx) as [A B]. split; [|exact B]. rewrite A. cbn [beval forallb]. rewrite andb_true_r. reflexivity.
    - assert (Gx : G x) by (apply G_union_inv in Gm; inversion Gm; assumption).
      destruct (IH x Gx) as [A B]. split; [|exact B]. rewrite A. cbn [beval existsb]. rewrite orb_false_r. reflexivity.
  Qed.
  Lemma unwrap1_bv m : G m -> bv (unwrap1 m) = bv m /\ G (unwrap1 m).
  Proof. apply unwrap_go_bv. Qed.
  Lemma min_by_complexity_bv best l : G best -> Forall G l -> (forall x, In x l -> bv x = bv best) ->
    bv (min_by_complexity best l) = bv best /\ G (min_by_complexity best l).
  Proof.
    revert best; induction l as [|x l IH]; intros best Gb Gl H; [auto|]. cbn [min_by_complexity]. inversion Gl; subst.
    destruct (cx_lt _ _).
    - destruct (IH x) as [A B]; auto.
      + intros y Hy. rewrite (H y (or_intror Hy)), (H x (or_introl eq_refl)). reflexivity.
      + split; [rewrite A; apply H; left; reflexivity|exact B].
    - apply IH; auto. intros y Hy. apply H. right. exact Hy.
  Qed.
  Lemma existsb_map' {A B} (f : B -> bool) (g : A -> B) l : existsb f (map g l) = existsb (fun x => f (g x)) l.
  Proof. induction l as [|a l IH]; cbn; [reflexivity|]. rewrite IH. reflexivity. Qed.
  Lemma forallb_map' {A B} (f : B -> bool) (g : A -> B) l : forallb f (map g l) = forallb (fun x => f (g x)) l.
  Proof. induction l as [|a l IH]; cbn; [reflexivity|]. rewrite IH. reflexivity. Qed.
  (* distribution: a disjunction of conjunctions over the cartesian product is the conjunction of the disjunctions *)
  Lemma product_any_all ls : existsb (forallb bv) (product ls) = forallb (existsb bv) ls.
  Proof.
    induction ls as [|l ls IH]; [reflexivity|]. cbn [product forallb]. rewrite <- IH. clear IH.
    induction l as [|x l IHl]; [reflexivity|]. cbn [flat_map existsb]. rewrite existsb_app, IHl.
    rewrite existsb_map'. cbn [forallb].
    assert (Q : existsb (fun c => bv x && forallb bv c) (product ls) = bv x && existsb (forallb bv) (product ls)).
    { clear IHl. induction (product ls) as [|c cs IHc]; cbn; [rewrite andb_false_r; reflexivity|]. rewrite IHc. destruct (bv x); reflexivity. }
    rewrite Q. destruct (bv x), (existsb (forallb bv) (product ls)), (existsb bv l); reflexivity.
  Qed.
  Lemma product_all_any ls : forallb (existsb bv) (product ls) = existsb (forallb bv) ls.
  Proof.
    induction ls as [|l ls IH]; [reflexivity|]. cbn [product existsb]. rewrite <- IH. clear IH.
    induction l as [|x l IHl]; [cbn; reflexivity|]. cbn [flat_map forallb]. rewrite forallb_app, IHl.
    rewrite forallb_map'. cbn [existsb].
    assert (Q : forallb (fun c => bv x || existsb bv c) (product ls) = bv x || forallb (existsb bv) (product ls)).
    { clear IHl. induction (product ls) as [|c cs IHc]; cbn; [rewrite orb_true_r; reflexivity|]. rewrite IHc. destruct (bv x); reflexivity. }
    rewrite Q. destruct (bv x), (forallb (existsb bv) (product ls)), (forallb bv l); reflexivity.
  Qed.
  Lemma product_G ls : Forall (Forall G) ls -> Forall (Forall G) (product ls).
  Proof.
    induction 1 as [|l ls Gl Gls IH]; cbn [product]; [constructor; constructor|].
    apply Forall_forall. intros c Hc. apply in_flat_map in Hc. destruct Hc as [x [Hx Hc]]. apply in_map_iff in Hc.
    destruct Hc as [c' [<- Hc']]. constructor; [exact (Forall_in _ _ _ Gl Hx)|exact (Forall_in _ _ _ IH Hc')].
  Qed.

  Local Opaque min_by_complexity unwrap1 mk_multi_marker mk_union_marker flatten_multi flatten_union.
  (* ---- monadic plumbing ---- *)
  Lemma mapR_forall2 {A B} (g : A -> res B) l l' : mapR g l = Ok l' -> Forall2 (fun x y => g x = Ok y) l l'.
  Proof.
    revert l'; induction l as [|x l IH]; intros l' H; cbn [mapR] in H.
    - injection H as <-. constructor.
    - destruct (g x) as [y|] eqn:Hx; [|discriminate]. cbn [bind] in H. destruct (mapR g l) as [ys|]; [|discriminate].
      cbn [bind] in H. injection H as <-. constructor; auto.
  Qed.
  (* results of a mapped step: each keeps (or, for [weak], only weakens) the value and stays in the class *)
  Lemma forall2_bools {A} (Rel : A -> marker -> Prop) (P : A -> Prop) (k : A -> bool) l l' :
    Forall2 Rel l l' -> Forall P l -> (forall x y, P x -> Rel x y -> bv y = k x /\ G y) ->
    forallb bv l' = forallb k l /\ existsb bv l' = existsb k l /\ Forall G l'.
  Proof.
    intros F. induction F as [|x y l l' Hxy F IH]; intros HP HR; [repeat split; constructor|]. inversion HP; subst.
    destruct (IH H2 HR) as (I1 & I2 & I3). destruct (HR x y H1 Hxy) as [V Gy].
    cbn [forallb existsb]. rewrite I1, I2, V. repeat split. constructor; assumption.
  Qed.
  Lemma forall2_weaken (Rel : marker -> marker -> Prop) l l' :
    Forall2 Rel l l' -> Forall G l -> (forall x y, G x -> Rel x y -> (bv x = true -> bv y = true) /\ G y) ->
    (forallb bv l = true -> forallb bv l' = true) /\ (existsb bv l = true -> existsb bv l' = true) /\ Forall G l'.
  Proof.
    intros F. induction F as [|x y l l' Hxy F IH]; intros HP HR; [repeat split; auto|]. inversion HP; subst.
    destruct (IH H2 HR) as (I1 & I2 & I3). destruct (HR x y H1 Hxy) as [V Gy]. cbn [forallb existsb]. repeat split.
    - intros H. apply andb_true_iff in H. destruct H as [Ha Hb]. rewrite (V Ha), (I1 Hb). reflexivity.
    - intros H. apply orb_true_iff in H. destruct H as [Ha|Hb]; [rewrite (V Ha); reflexivity|rewrite (I2 Hb); apply orb_true_r].
    - constructor; assumption.
  Qed.
  Lemma empty_member_all l : existsb m_is_empty l = true -> forallb bv l = false.
  Proof.
    intros H. apply existsb_exists in H. destruct H as [x [Hx Ex]]. destruct x; try discriminate.
    destruct (forallb bv l) eqn:F; [|reflexivity]. rewrite forallb_forall in F. symmetry. exact (F _ Hx).
  Qed.
  Lemma any_member_any l : existsb m_is_any l = true -> existsb bv l = true.
  Proof.
    intros H. apply existsb_exists in H. destruct H as [x [Hx Ex]]. destruct x; try discriminate.
    apply existsb_exists. exists MAny. split; [exact Hx|reflexivity].
  Qed.
  Lemma drop_any_all l : forallb bv (filter (fun m => negb (m_is_any m)) l) = forallb bv l.
  Proof. induction l as [|x l IH]; [reflexivity|]. cbn [filter forallb]. destruct x; cbn [m_is_any negb forallb]; rewrite IH; reflexivity. Qed.
  Lemma drop_empty_any l : existsb bv (filter (fun m => negb (m_is_empty m)) l) = existsb bv l.
  Proof. induction l as [|x l IH]; [reflexivity|]. cbn [filter existsb]. destruct x; cbn [m_is_empty negb existsb]; rewrite IH; reflexivity. Qed.
  Lemma G_leaf_like m : G m -> is_leaf_like m = true -> G m. Proof. auto. Qed.

  (* ---- what each function of the simplifier must satisfy ---- *)
  Definition S_int f := forall st a b r, G a -> G b -> m_intersect f st a b = Ok r -> bv r = bv a && bv b /\ G r.
  Definition S_uni f := forall st a b r, G a -> G b -> m_union f st a b = Ok r -> bv r = bv a || bv b /\ G r.
  Definition S_ifn f := forall st args r, Forall G args -> intersection_fn f st args = Ok r -> bv r = forallb bv args /\ G r.
  Definition S_ufn f := forall st args r, Forall G args -> union_fn f st args = Ok r -> bv r = existsb bv args /\ G r.
  Definition S_cnf f := forall st m r, G m -> cnf f st m = Ok r -> bv r = bv m /\ G r.
  Definition S_dnf f := forall st m r, G m -> dnf f st m = Ok r -> bv r = bv m /\ G r.
  Definition S_mof f := forall st ms r, Forall G ms -> multi_of f st ms = Ok r -> bv r = forallb bv ms /\ G r.
  Definition S_mloop f := forall st old new r, Forall G new -> multi_of_loop f st old new = Ok r -> bv r = forallb bv new /\ G r.
  Definition S_mpass f := forall st todo acc o, Forall G todo -> Forall G acc -> multi_pass f st todo acc = Ok o ->
    match o with Some l => forallb bv l = forallb bv acc && forallb bv todo /\ Forall G l | None => forallb bv acc && forallb bv todo = false end.
  Definition S_mtry f := forall st mk acc i o, G mk -> Forall G acc -> multi_try f st mk acc i = Ok o ->
    match o with
    | None => forallb bv acc && bv mk = false
    | Some None => True
    | Some (Some l) => forallb bv l = forallb bv acc && bv mk /\ Forall G l
    end.
  Definition S_uof f := forall st ms r, Forall G ms -> union_of_m f st ms = Ok r -> bv r = existsb bv ms /\ G r.
  Definition S_uloop f := forall st old new r, Forall G new -> union_of_loop f st old new = Ok r -> bv r = existsb bv new /\ G r.
  Definition S_upass f := forall st todo acc o, Forall G todo -> Forall G acc -> union_pass f st todo acc = Ok o ->
    match o with Some l => existsb bv l = existsb bv acc || existsb bv todo /\ Forall G l | None => existsb bv acc || existsb bv todo = true end.
  Definition S_utry f := forall st mk acc i o, G mk -> Forall G acc -> union_try f st mk acc i = Ok o ->
    match o with
    | None => existsb bv acc || bv mk = true
    | Some None => True
    | Some (Some l) => existsb bv l = existsb bv acc || bv mk /\ Forall G l
    end.
  Definition S_isimp f := forall st ms other o, Forall G ms -> G other -> intersect_simplify f st ms other = Ok o ->
    match o with Some r => bv r = existsb bv ms && bv other /\ G r | None => True end.
  Definition S_usimp f := forall st ms other o, Forall G ms -> G other -> union_simplify f st ms other = Ok o ->
    match o with Some r => bv r = forallb bv ms || bv other /\ G r | None => True end.
  Definition S_only f := forall st names m r, G m -> only f st names m = Ok r -> (bv m = true -> bv r = true) /\ G r.

  Record ALL (f : nat) : Prop := mkALL {
    a_int : S_int f; a_uni : S_uni f; a_ifn : S_ifn f; a_ufn : S_ufn f; a_cnf : S_cnf f; a_dnf : S_dnf f;
    a_mof : S_mof f; a_mloop : S_mloop f; a_mpass : S_mpass f; a_mtry : S_mtry f;
    a_uof : S_uof f; a_uloop : S_uloop f; a_upass : S_upass f; a_utry : S_utry f;
    a_isimp : S_isimp f; a_usimp : S_usimp f; a_only : S_only f }.

  Ltac bind_inv H :=
    match type of H with
    | bind ?x _ = Ok _ => let a := fresh "v" in let Ha := fresh "Hv" in destruct x as [a|] eqn:Ha; [cbn [bind] in H | discriminate H]
    end.
  Ltac ok_inv H := injection H as H; try subst.
  Ltac two l := (constructor; [|constructor; [|constructor]]).

  Lemma all_0 : ALL 0.
  Proof. split; intros st; intros; discriminate. Qed.

  Lemma step_int f : ALL f -> S_int (S f).
  Proof.
    intros A st a b r Ga Gb H. cbn [m_intersect] in H.
    assert (Gab : Forall G [a; b]) by (constructor; [exact Ga|constructor; [exact Gb|constructor]]).
    assert (L : is_leaf_like a = true ->
                (if is_leaf_like b then do mg <- merge_single f st a b true; match mg with Some r => Ok r | None => Ok (mk_multi_marker [a; b]) end
                 else m_intersect f st b a) = Ok r -> bv r = bv a && bv b /\ G r).
    { intros _ H'. destruct (is_leaf_like b).
      - bind_inv H'. destruct v as [r'|]; ok_inv H'.
        + exact (Hmerge _ _ _ _ _ _ Ga Gb Hv).
        + destruct (mk_multi_bv [a; b] Gab) as [V Gr]. split; [|exact Gr]. rewrite V. cbn [forallb]. rewrite andb_true_r. reflexivity.
      - destruct (a_int f A _ _ _ _ Gb Ga H') as [V Gr]. split; [|exact Gr]. rewrite V. apply andb_comm. }
    destruct a; try (apply L; [reflexivity|exact H]).
    - ok_inv H. split; [reflexivity|exact Gb].
    - ok_inv H. split; [reflexivity|constructor].
    - destruct (a_ifn f A _ _ _ Gab H) as [V Gr]. split; [|exact Gr]. rewrite V. cbn [forallb]. rewrite andb_true_r. reflexivity.
    - destruct (a_ifn f A _ _ _ Gab H) as [V Gr]. split; [|exact Gr]. rewrite V. cbn [forallb]. rewrite andb_true_r. reflexivity.
  Qed.
  Lemma step_uni f : ALL f -> S_uni (S f).
  Proof.
    intros A st a b r Ga Gb H. cbn [m_union] in H.
    assert (Gab : Forall G [a; b]) by (constructor; [exact Ga|constructor; [exact Gb|constructor]]).
    assert (L : is_leaf_like a = true ->
                (if is_leaf_like b then do mg <- merge_single f st a b false; match mg with Some r => Ok r | None => Ok (mk_union_marker [a; b]) end
                 else m_union f st b a) = Ok r -> bv r = bv a || bv b /\ G r).
    { intros _ H'. destruct (is_leaf_like b).
      - bind_inv H'. destruct v as [r'|]; ok_inv H'.
        + exact (Hmerge _ _ _ _ _ _ Ga Gb Hv).
        + destruct (mk_union_bv [a; b] Gab) as [V Gr]. split; [|exact Gr]. rewrite V. cbn [existsb]. rewrite orb_false_r. reflexivity.
      - destruct (a_uni f A _ _ _ _ Gb Ga H') as [V Gr]. split; [|exact Gr]. rewrite V. apply orb_comm. }
    destruct a; try (apply L; [reflexivity|exact H]).
    - ok_inv H. split; [reflexivity|constructor].
    - ok_inv H. split; [reflexivity|exact Gb].
    - destruct (a_ufn f A _ _ _ Gab H) as [V Gr]. split; [|exact Gr]. rewrite V. cbn [existsb]. rewrite orb_false_r. reflexivity.
    - destruct (a_ufn f A _ _ _ Gab H) as [V Gr]. split; [|exact Gr]. rewrite V. cbn [existsb]. rewrite orb_false_r. reflexivity.
  Qed.

  Lemma step_ifn f : ALL f -> S_ifn (S f).
  Proof.
    intros A st args r Ga H. cbn [intersection_fn] in H.
    destruct (in_stack args (s_int st)); [discriminate|].
    destruct (existsb m_is_empty args) eqn:He; [ok_inv H; rewrite (empty_member_all _ He); split; [reflexivity|constructor]|].
    rewrite <- (drop_any_all args). pose proof (Forall_filter G (fun m => negb (m_is_any m)) args Ga) as Gf.
    destruct (filter (fun m => negb (m_is_any m)) args) as [|m0 ms0] eqn:Hf; [ok_inv H; split; [reflexivity|constructor]|].
    remember (m0 :: ms0) as ms eqn:Hms. clear Hms Hf.
    destruct (mk_multi_bv ms Gf) as [Vm Gm]. destruct (unwrap1_bv _ Gm) as [Vu Gu].
    remember (unwrap1 (mk_multi_marker ms)) as un eqn:Hun0.
    assert (Hun : bv un = forallb bv ms) by (rewrite Vu, Vm; reflexivity). clear Hun0 Vu Vm.
    bind_inv H. rename v into dj. destruct (a_dnf f A _ _ _ Gu Hv) as [Hd Gd].
    rewrite <- Hun, <- Hd.
    destruct dj; try (ok_inv H; split; [reflexivity|exact Gd]).
    match type of H with context [cnf f ?s ?m] => destruct (cnf f s m) as [cj|e] eqn:Hc end.
    - destruct (a_cnf f A _ _ _ Gd Hc) as [Hcj Gc].
      destruct cj; ok_inv H; try (split; [exact Hcj|exact Gc]).
      apply min_by_complexity_bv; [exact Gd|constructor; [exact Gc|constructor; [exact Gu|constructor]]|].
      intros x [<-|[<-|[]]]; [exact Hcj | symmetry; exact Hd].
    - destruct e; try discriminate. ok_inv H. apply min_by_complexity_bv; [exact Gd|constructor; [exact Gu|constructor]|].
      intros x [<-|[]]. symmetry; exact Hd.
  Qed.
  Lemma step_ufn f : ALL f -> S_ufn (S f).
  Proof.
    intros A st args r Ga H. cbn [union_fn] in H.
    destruct (in_stack args (s_uni st)); [discriminate|].
    destruct (existsb m_is_any args) eqn:He; [ok_inv H; rewrite (any_member_any _ He); split; [reflexivity|constructor]|].
    rewrite <- (drop_empty_any args). pose proof (Forall_filter G (fun m => negb (m_is_empty m)) args Ga) as Gf.
    destruct (filter (fun m => negb (m_is_empty m)) args) as [|m0 ms0] eqn:Hf; [ok_inv H; split; [reflexivity|constructor]|].
    remember (m0 :: ms0) as ms eqn:Hms. clear Hms Hf.
    destruct (mk_union_bv ms Gf) as [Vm Gm]. destruct (unwrap1_bv _ Gm) as [Vu Gu].
    remember (unwrap1 (mk_union_marker ms)) as un eqn:Hun0.
    assert (Hun : bv un = existsb bv ms) by (rewrite Vu, Vm; reflexivity). clear Hun0 Vu Vm.
    bind_inv H. rename v into cj. destruct (a_cnf f A _ _ _ Gu Hv) as [Hd Gd].
    rewrite <- Hun, <- Hd.
    destruct cj; try (ok_inv H; split; [reflexivity|exact Gd]).
    match type of H with context [dnf f ?s ?m] => destruct (dnf f s m) as [dj|e] eqn:Hc end.
    - destruct (a_dnf f A _ _ _ Gd Hc) as [Hdj Gj].
      destruct dj; ok_inv H; try (split; [exact Hdj|exact Gj]).
      rewrite <- Hdj. apply min_by_complexity_bv; [exact Gj|constructor; [exact Gd|constructor; [exact Gu|constructor]]|].
      intros x [<-|[<-|[]]]; [symmetry; exact Hdj | rewrite <- Hd; symmetry; exact Hdj].
    - destruct e; try discriminate. ok_inv H. apply min_by_complexity_bv; [exact Gd|constructor; [exact Gu|constructor]|].
      intros x [<-|[]]. symmetry; exact Hd.
  Qed.

  Lemma conj_list_bv c : G c -> forallb bv (match c with MMulti l => l | _ => [c] end) = bv c /\ Forall G (match c with MMulti l => l | _ => [c] end).
  Proof. intros Gc. destruct c; cbn [forallb beval]; rewrite ?andb_true_r; split; try reflexivity; try (constructor; [assumption|constructor]). exact (G_multi_inv _ Gc). Qed.
  Lemma disj_list_bv c : G c -> existsb bv (match c with MUnion l => l | _ => [c] end) = bv c /\ Forall G (match c with MUnion l => l | _ => [c] end).
  Proof. intros Gc. destruct c; cbn [existsb beval]; rewrite ?orb_false_r; split; try reflexivity; try (constructor; [assumption|constructor]). exact (G_union_inv _ Gc). Qed.
  Lemma Forall_map_lists (h : marker -> list marker) cs : Forall G cs -> (forall c, G c -> Forall G (h c)) -> Forall (Forall G) (map h cs).
  Proof. intros Gc Hh. induction Gc; cbn; constructor; auto. Qed.

  Lemma step_cnf f : ALL f -> S_cnf (S f).
  Proof.
    intros A st m r Gm H. cbn [cnf] in H. destruct m; try (ok_inv H; split; [reflexivity|exact Gm]).
    - bind_inv H. rename v into cs.
      destruct (forall2_bools _ G bv _ _ (mapR_forall2 _ _ _ Hv) (G_multi_inv _ Gm)) as (C1 & _ & Gcs).
      { intros x y Gx Hxy. exact (a_cnf f A _ _ _ Gx Hxy). }
      destruct (a_mof f A _ _ _ Gcs H) as [V Gr]. split; [|exact Gr]. rewrite V. cbn [beval]. exact C1.
    - bind_inv H. rename v into cs. bind_inv H. rename v into clauses.
      destruct (forall2_bools _ G bv _ _ (mapR_forall2 _ _ _ Hv) (G_union_inv _ Gm)) as (_ & C2 & Gcs).
      { intros x y Gx Hxy. exact (a_cnf f A _ _ _ Gx Hxy). }
      set (h := fun c => match c with MMulti l0 => l0 | _ => [c] end) in *.
      assert (Glists : Forall (Forall G) (map h cs)) by (apply Forall_map_lists; [exact Gcs|intros c Gc; exact (proj2 (conj_list_bv c Gc))]).
      destruct (forall2_bools _ (Forall G) (existsb bv) _ _ (mapR_forall2 _ _ _ Hv0) (product_G _ Glists)) as (C1 & _ & Gcl).
      { intros x y Gx Hxy. exact (a_uof f A _ _ _ Gx Hxy). }
      destruct (a_mof f A _ _ _ Gcl H) as [V Gr]. split; [|exact Gr]. rewrite V, C1, product_all_any, existsb_map'. cbn [beval]. rewrite <- C2.
      clear - Gcs. induction Gcs as [|c cs Gc Gcs IH]; [reflexivity|]. cbn [existsb]. rewrite IH. unfold h. rewrite (proj1 (conj_list_bv c Gc)). reflexivity.
  Qed.
  Lemma step_dnf f : ALL f -> S_dnf (S f).
  Proof.
    intros A st m r Gm H. cbn [dnf] in H. destruct m; try (ok_inv H; split; [reflexivity|exact Gm]).
    - bind_inv H. rename v into ds. bind_inv H. rename v into clauses.
      destruct (forall2_bools _ G bv _ _ (mapR_forall2 _ _ _ Hv) (G_multi_inv _ Gm)) as (C2 & _ & Gds).
      { intros x y Gx Hxy. exact (a_dnf f A _ _ _ Gx Hxy). }
      set (h := fun c => match c with MUnion l0 => l0 | _ => [c] end) in *.
      assert (Glists : Forall (Forall G) (map h ds)) by (apply Forall_map_lists; [exact Gds|intros c Gc; exact (proj2 (disj_list_bv c Gc))]).
      destruct (forall2_bools _ (Forall G) (forallb bv) _ _ (mapR_forall2 _ _ _ Hv0) (product_G _ Glists)) as (_ & C1 & Gcl).
      { intros x y Gx Hxy. exact (a_mof f A _ _ _ Gx Hxy). }
      destruct (a_uof f A _ _ _ Gcl H) as [V Gr]. split; [|exact Gr]. rewrite V, C1, product_any_all, forallb_map'. cbn [beval]. rewrite <- C2.
      clear - Gds. induction Gds as [|c cs Gc Gcs IH]; [reflexivity|]. cbn [forallb]. rewrite IH. unfold h. rewrite (proj1 (disj_list_bv c Gc)). reflexivity.
    - bind_inv H. rename v into ds.
      destruct (forall2_bools _ G bv _ _ (mapR_forall2 _ _ _ Hv) (G_union_inv _ Gm)) as (_ & C1 & Gds).
      { intros x y Gx Hxy. exact (a_dnf f A _ _ _ Gx Hxy). }
      destruct (a_uof f A _ _ _ Gds H) as [V Gr]. split; [|exact Gr]. rewrite V. cbn [beval]. exact C1.
  Qed.

  Lemma step_mof f : ALL f -> S_mof (S f).
  Proof.
    intros A st ms r Gms H. cbn [multi_of] in H. destruct (flatten_multi_spec ms Gms) as [Gf Vf].
    destruct (a_mloop f A _ _ _ _ Gf H) as [V Gr]. split; [|exact Gr]. rewrite V. exact Vf.
  Qed.
  Lemma step_uof f : ALL f -> S_uof (S f).
  Proof.
    intros A st ms r Gms H. cbn [union_of_m] in H. destruct (flatten_union_spec ms Gms) as [Gf Vf].
    destruct (a_uloop f A _ _ _ _ Gf H) as [V Gr]. split; [|exact Gr]. rewrite V. exact Vf.
  Qed.

  Lemma step_mloop f : ALL f -> S_mloop (S f).
  Proof.
    intros A st old new r Gn H. cbn [multi_of_loop] in H. destruct (markers_eqb old new).
    - destruct (existsb m_is_empty new) eqn:He; [ok_inv H; rewrite (empty_member_all _ He); split; [reflexivity|constructor]|].
      destruct new as [|x [|y l]]; ok_inv H.
      + split; [reflexivity|constructor].
      + cbn [forallb]. rewrite andb_true_r. split; [reflexivity|inversion Gn; assumption].
      + exact (mk_multi_bv _ Gn).
    - bind_inv H. pose proof (a_mpass f A _ _ _ _ Gn (Forall_nil G) Hv) as P. cbn [forallb andb] in P. destruct v as [new'|].
      + destruct P as [P Gn']. destruct (a_mloop f A _ _ _ _ Gn' H) as [V Gr]. split; [|exact Gr]. rewrite V. exact P.
      + ok_inv H. split; [symmetry; exact P|constructor].
  Qed.
  Lemma step_uloop f : ALL f -> S_uloop (S f).
  Proof.
    intros A st old new r Gn H. cbn [union_of_loop] in H. destruct (markers_eqb old new).
    - destruct (existsb m_is_any new) eqn:He; [ok_inv H; rewrite (any_member_any _ He); split; [reflexivity|constructor]|].
      destruct new as [|x [|y l]]; ok_inv H.
      + split; [reflexivity|constructor].
      + cbn [existsb]. rewrite orb_false_r. split; [reflexivity|inversion Gn; assumption].
      + exact (mk_union_bv _ Gn).
    - bind_inv H. pose proof (a_upass f A _ _ _ _ Gn (Forall_nil G) Hv) as P. cbn [existsb orb] in P. destruct v as [new'|].
      + destruct P as [P Gn']. destruct (a_uloop f A _ _ _ _ Gn' H) as [V Gr]. split; [|exact Gr]. rewrite V. exact P.
      + ok_inv H. split; [symmetry; exact P|constructor].
  Qed.

  Lemma step_mpass f : ALL f -> S_mpass (S f).
  Proof.
    intros A st todo acc o Gt Ga H. cbn [multi_pass] in H. destruct todo as [|mk0 rest].
    - ok_inv H. cbn [forallb]. rewrite andb_true_r. split; [reflexivity|exact Ga].
    - inversion Gt as [|? ? Gmk Grest]; subst. cbn [forallb]. destruct (marker_in mk0 acc || m_is_any mk0) eqn:C.
      + pose proof (a_mpass f A _ _ _ _ Grest Ga H) as P.
        assert (Q : forallb bv acc && (bv mk0 && forallb bv rest) = forallb bv acc && forallb bv rest).
        { apply orb_true_iff in C. destruct C as [C|C].
          - destruct (forallb bv acc) eqn:Fa; [|reflexivity]. rewrite (all_member _ _ Gmk Ga C Fa). reflexivity.
          - destruct mk0; try discriminate. reflexivity. }
        destruct o as [l|]; rewrite Q; exact P.
      + bind_inv H. pose proof (a_mtry f A _ _ _ _ _ Gmk Ga Hv) as T. destruct v as [[acc'|]|].
        * destruct T as [T Ga']. destruct (flatten_multi_spec acc' Ga') as [Gf Vf].
          pose proof (a_mpass f A _ _ _ _ Grest Gf H) as P. rewrite Vf, T in P. rewrite andb_assoc. exact P.
        * assert (Gacc : Forall G (acc ++ [mk0])) by (apply Forall_app; split; [exact Ga|constructor; [exact Gmk|constructor]]).
          pose proof (a_mpass f A _ _ _ _ Grest Gacc H) as P. rewrite forallb_app in P. cbn [forallb] in P. rewrite andb_true_r in P.
          rewrite andb_assoc. exact P.
        * ok_inv H. rewrite andb_assoc, T. reflexivity.
  Qed.
  Lemma step_upass f : ALL f -> S_upass (S f).
  Proof.
    intros A st todo acc o Gt Ga H. cbn [union_pass] in H. destruct todo as [|mk0 rest].
    - ok_inv H. cbn [existsb]. rewrite orb_false_r. split; [reflexivity|exact Ga].
    - inversion Gt as [|? ? Gmk Grest]; subst. cbn [existsb]. destruct (marker_in mk0 acc || m_is_empty mk0) eqn:C.
      + pose proof (a_upass f A _ _ _ _ Grest Ga H) as P.
        assert (Q : existsb bv acc || (bv mk0 || existsb bv rest) = existsb bv acc || existsb bv rest).
        { apply orb_true_iff in C. destruct C as [C|C].
          - destruct (bv mk0) eqn:Bm; [|reflexivity]. rewrite (any_member _ _ Gmk Ga C Bm). reflexivity.
          - destruct mk0; try discriminate. reflexivity. }
        destruct o as [l|]; rewrite Q; exact P.
      + bind_inv H. pose proof (a_utry f A _ _ _ _ _ Gmk Ga Hv) as T. destruct v as [[acc'|]|].
        * destruct T as [T Ga']. destruct (flatten_union_spec acc' Ga') as [Gf Vf].
          pose proof (a_upass f A _ _ _ _ Grest Gf H) as P. rewrite Vf, T in P. rewrite orb_assoc. exact P.
        * assert (Gacc : Forall G (acc ++ [mk0])) by (apply Forall_app; split; [exact Ga|constructor; [exact Gmk|constructor]]).
          pose proof (a_upass f A _ _ _ _ Grest Gacc H) as P. rewrite existsb_app in P. cbn [existsb] in P. rewrite orb_false_r in P.
          rewrite orb_assoc. exact P.
        * ok_inv H. rewrite orb_assoc, T. reflexivity.
  Qed.

  Lemma step_mtry f : ALL f -> S_mtry (S f).
  Proof.
    intros A st mk0 acc i o Gmk Ga H. cbn [multi_try] in H.
    destruct (nth_error acc i) as [mark|] eqn:Hn; [|ok_inv H; exact I].
    pose proof (Forall_in _ _ _ Ga (nth_in _ _ _ Hn)) as Gmark.
    bind_inv H. destruct v as [one_union inter].
    assert (Hs : match inter with Some x => bv x = bv mark && bv mk0 /\ G x | None => True end).
    { destruct mark; destruct mk0;
        try (ok_inv Hv; exact I);
        try (bind_inv Hv; ok_inv Hv;
             match goal with
             | Hq : intersect_simplify f _ ?us ?o = Ok _ |- _ =>
               let Gus := fresh in let Go := fresh in
               assert (Gus : Forall G us) by (first [exact (G_union_inv _ Gmark) | exact (G_union_inv _ Gmk)]);
               assert (Go : G o) by (first [exact Gmk | exact Gmark]);
               pose proof (a_isimp f A _ _ _ _ Gus Go Hq) as Q
             end;
             destruct inter; [destruct Q as [Q Gx]; split; [rewrite Q; cbn [beval]; try reflexivity; apply andb_comm | exact Gx] | exact I]). }
    destruct inter as [x|].
    - destruct Hs as [Hs Gx]. ok_inv H. split; [exact (replace_nth_all _ _ _ _ _ Hn Hs)|exact (replace_nth_G _ _ _ _ Hn Gx Ga)].
    - destruct (negb one_union && is_leaf_like mark).
      + bind_inv H. rename v into nm. destruct (a_int f A _ _ _ _ Gmark Gmk Hv0) as [Hnm Gnm].
        destruct (m_is_empty nm) eqn:Em.
        * ok_inv H. destruct nm; try discriminate. cbn [beval] in Hnm.
          destruct (bv mk0); [|apply andb_false_r]. rewrite andb_true_r in *.
          destruct (forallb bv acc) eqn:Fa; [|reflexivity]. rewrite forallb_forall in Fa. rewrite (Fa _ (nth_in _ _ _ Hn)) in Hnm. discriminate.
        * destruct (is_leaf_like nm).
          -- ok_inv H. split; [exact (replace_nth_all _ _ _ _ _ Hn Hnm)|exact (replace_nth_G _ _ _ _ Hn Gnm Ga)].
          -- exact (a_mtry f A _ _ _ _ _ Gmk Ga H).
      + exact (a_mtry f A _ _ _ _ _ Gmk Ga H).
  Qed.
  Lemma step_utry f : ALL f -> S_utry (S f).
  Proof.
    intros A st mk0 acc i o Gmk Ga H. cbn [union_try] in H.
    destruct (nth_error acc i) as [mark|] eqn:Hn; [|ok_inv H; exact I].
    pose proof (Forall_in _ _ _ Ga (nth_in _ _ _ Hn)) as Gmark.
    bind_inv H. destruct v as [one_multi un].
    assert (Hs : match un with Some x => bv x = bv mark || bv mk0 /\ G x | None => True end).
    { destruct mark; destruct mk0;
        try (ok_inv Hv; exact I);
        try (bind_inv Hv; ok_inv Hv;
             match goal with
             | Hq : union_simplify f _ ?us ?o = Ok _ |- _ =>
               let Gus := fresh in let Go := fresh in
               assert (Gus : Forall G us) by (first [exact (G_multi_inv _ Gmark) | exact (G_multi_inv _ Gmk)]);
               assert (Go : G o) by (first [exact Gmk | exact Gmark]);
               pose proof (a_usimp f A _ _ _ _ Gus Go Hq) as Q
             end;
             destruct un; [destruct Q as [Q Gx]; split; [rewrite Q; cbn [beval]; try reflexivity; apply orb_comm | exact Gx] | exact I]). }
    destruct un as [x|].
    - destruct Hs as [Hs Gx]. ok_inv H. split; [exact (replace_nth_any _ _ _ _ _ Hn Hs)|exact (replace_nth_G _ _ _ _ Hn Gx Ga)].
    - destruct (negb one_multi && is_leaf_like mark).
      + bind_inv H. rename v into nm. destruct (a_uni f A _ _ _ _ Gmark Gmk Hv0) as [Hnm Gnm].
        destruct (m_is_any nm) eqn:Em.
        * ok_inv H. destruct nm; try discriminate. cbn [beval] in Hnm.
          destruct (bv mk0); [apply orb_true_r|]. rewrite orb_false_r in *.
          apply existsb_exists. exists mark. split; [exact (nth_in _ _ _ Hn)|symmetry; exact Hnm].
        * destruct (is_leaf_like nm).
          -- ok_inv H. split; [exact (replace_nth_any _ _ _ _ _ Hn Hnm)|exact (replace_nth_G _ _ _ _ Hn Gnm Ga)].
          -- exact (a_utry f A _ _ _ _ _ Gmk Ga H).
      + exact (a_utry f A _ _ _ _ _ Gmk Ga H).
  Qed.

  (* subsets and the shared part of two member lists *)
  Lemma subset_any a b : Forall G a -> Forall G b -> subset_m a b = true -> existsb bv a = true -> existsb bv b = true.
  Proof.
    unfold subset_m. intros Ga Gb S Ha. rewrite forallb_forall in S. apply existsb_exists in Ha. destruct Ha as [x [Hx Bx]].
    exact (any_member _ _ (Forall_in _ _ _ Ga Hx) Gb (S x Hx) Bx).
  Qed.
  Lemma subset_all a b : Forall G a -> Forall G b -> subset_m a b = true -> forallb bv b = true -> forallb bv a = true.
  Proof.
    unfold subset_m. intros Ga Gb S Hb. rewrite forallb_forall in S. apply forallb_forall. intros x Hx.
    exact (all_member _ _ (Forall_in _ _ _ Ga Hx) Gb (S x Hx) Hb).
  Qed.
  Lemma in_sym x y l : In y l -> marker_eqb x y = true -> marker_in x l = true.
  Proof. intros Hy Exy. unfold marker_in. apply existsb_exists. exists y. split; assumption. Qed.
  Lemma shared_any ms os : Forall G ms -> Forall G os ->
    existsb bv (filter (fun m => marker_in m ms) os) = existsb bv (filter (fun m => marker_in m os) ms).
  Proof.
    assert (K : forall a b, Forall G a -> Forall G b -> existsb bv (filter (fun m => marker_in m a) b) = true -> existsb bv (filter (fun m => marker_in m b) a) = true).
    { intros a b Ga Gb H. apply existsb_exists in H. destruct H as [x [Hx Bx]]. apply filter_In in Hx. destruct Hx as [Hxb Hxa].
      unfold marker_in in Hxa. apply existsb_exists in Hxa. destruct Hxa as [y [Hya Exy]].
      pose proof (Forall_in _ _ _ Gb Hxb) as Gx. pose proof (Forall_in _ _ _ Ga Hya) as Gy.
      apply existsb_exists. exists y. split.
      - apply filter_In. split; [exact Hya|]. apply (in_sym y x b Hxb). rewrite (Hsym y x Gy Gx). exact Exy.
      - rewrite <- (Hkey _ _ Gx Gy Exy). exact Bx. }
    intros Gm Go.
    destruct (existsb bv (filter (fun m => marker_in m ms) os)) eqn:X.
    - symmetry. apply K; assumption.
    - destruct (existsb bv (filter (fun m => marker_in m os) ms)) eqn:Y; [|reflexivity]. rewrite (K _ _ Go Gm Y) in X. discriminate.
  Qed.
  Lemma shared_all ms os : Forall G ms -> Forall G os ->
    forallb bv (filter (fun m => marker_in m ms) os) = forallb bv (filter (fun m => marker_in m os) ms).
  Proof.
    assert (K : forall a b, Forall G a -> Forall G b -> forallb bv (filter (fun m => marker_in m a) b) = true -> forallb bv (filter (fun m => marker_in m b) a) = true).
    { intros a b Ga Gb H. rewrite forallb_forall in H. apply forallb_forall. intros y Hy. apply filter_In in Hy. destruct Hy as [Hya Hyb].
      unfold marker_in in Hyb. apply existsb_exists in Hyb. destruct Hyb as [x [Hxb Eyx]].
      pose proof (Forall_in _ _ _ Gb Hxb) as Gx. pose proof (Forall_in _ _ _ Ga Hya) as Gy.
      rewrite (Hkey _ _ Gy Gx Eyx). apply H. apply filter_In. split; [exact Hxb|]. apply (in_sym x y a Hya). rewrite (Hsym x y Gx Gy). exact Eyx. }
    intros Gm Go.
    destruct (forallb bv (filter (fun m => marker_in m ms) os)) eqn:X.
    - symmetry. apply K; assumption.
    - destruct (forallb bv (filter (fun m => marker_in m os) ms)) eqn:Y; [|reflexivity]. rewrite (K _ _ Go Gm Y) in X. discriminate.
  Qed.

  Lemma step_isimp f : ALL f -> S_isimp (S f).
  Proof.
    intros A st ms other o Gms Go H. cbn [intersect_simplify] in H.
    destruct (marker_in other ms) eqn:Hin.
    - ok_inv H. split; [|exact Go]. destruct (bv other) eqn:Bo; [|rewrite andb_false_r; reflexivity]. rewrite (any_member _ _ Go Gms Hin Bo). reflexivity.
    - destruct other; try (ok_inv H; exact I). rename l into os. pose proof (G_union_inv _ Go) as Gos.
      destruct (subset_m ms os) eqn:S1.
      { ok_inv H. cbn [beval]. split; [|constructor; exact Gms]. destruct (existsb bv ms) eqn:Bm; [|reflexivity]. rewrite (subset_any _ _ Gms Gos S1 Bm). reflexivity. }
      destruct (subset_m os ms) eqn:S2.
      { ok_inv H. cbn [beval]. split; [|exact Go]. destruct (existsb bv os) eqn:Bm; [|rewrite andb_false_r; reflexivity]. rewrite (subset_any _ _ Gos Gms S2 Bm). reflexivity. }
      destruct (filter (fun m => marker_in m os) ms) as [|s0 sh] eqn:Hsh; [ok_inv H; exact I|].
      rewrite <- Hsh in H.
      pose proof (Forall_filter G (fun m => negb (marker_in m os)) ms Gms) as Gu.
      pose proof (Forall_filter G (fun m => negb (marker_in m ms)) os Gos) as Gou.
      pose proof (Forall_filter G (fun m => marker_in m os) ms Gms) as Gsh.
      destruct (mk_union_bv _ Gu) as [Vu Gmu]. destruct (mk_union_bv _ Gou) as [Vou Gmou]. destruct (mk_union_bv _ Gsh) as [Vsh Gmsh].
      bind_inv H. rename v into ui.
      destruct (a_ifn f A _ _ _ (Forall_cons _ Gmu (Forall_cons _ Gmou (Forall_nil G))) Hv) as [Hui Gui]. cbn [forallb] in Hui. rewrite Vu, Vou, andb_true_r in Hui.
      destruct (is_leaf_like ui || m_is_empty ui); [|ok_inv H; exact I].
      bind_inv H. ok_inv H. destruct (a_uni f A _ _ _ _ Gui Gmsh Hv0) as [Vr Gr]. split; [|exact Gr].
      rewrite Vr, Hui, Vsh. cbn [beval].
      rewrite (existsb_filter_split (fun m => marker_in m os) ms), (existsb_filter_split (fun m => marker_in m ms) os), (shared_any ms os Gms Gos).
      destruct (existsb bv (filter (fun m => marker_in m os) ms)), (existsb bv (filter (fun m => negb (marker_in m os)) ms)),
               (existsb bv (filter (fun m => negb (marker_in m ms)) os)); reflexivity.
  Qed.
  Lemma step_usimp f : ALL f -> S_usimp (S f).
  Proof.
    intros A st ms other o Gms Go H. cbn [union_simplify] in H.
    destruct (marker_in other ms) eqn:Hin.
    - ok_inv H. split; [|exact Go]. destruct (forallb bv ms) eqn:Bm; [|reflexivity]. rewrite (all_member _ _ Go Gms Hin Bm). reflexivity.
    - destruct other; try (ok_inv H; exact I). rename l into os. pose proof (G_multi_inv _ Go) as Gos.
      destruct (subset_m ms os) eqn:S1.
      { ok_inv H. cbn [beval]. split; [|constructor; exact Gms]. destruct (forallb bv os) eqn:Bm; [|rewrite orb_false_r; reflexivity]. rewrite (subset_all _ _ Gms Gos S1 Bm). reflexivity. }
      destruct (subset_m os ms) eqn:S2.
      { ok_inv H. cbn [beval]. split; [|exact Go]. destruct (forallb bv ms) eqn:Bm; [|reflexivity]. rewrite (subset_all _ _ Gos Gms S2 Bm). reflexivity. }
      destruct (filter (fun m => marker_in m os) ms) as [|s0 sh] eqn:Hsh; [ok_inv H; exact I|].
      rewrite <- Hsh in H.
      pose proof (Forall_filter G (fun m => negb (marker_in m os)) ms Gms) as Gu.
      pose proof (Forall_filter G (fun m => negb (marker_in m ms)) os Gos) as Gou.
      pose proof (Forall_filter G (fun m => marker_in m os) ms Gms) as Gsh.
      destruct (mk_multi_bv _ Gu) as [Vu Gmu]. destruct (mk_multi_bv _ Gou) as [Vou Gmou]. destruct (mk_multi_bv _ Gsh) as [Vsh Gmsh].
      bind_inv H. rename v into uu.
      destruct (a_ufn f A _ _ _ (Forall_cons _ Gmu (Forall_cons _ Gmou (Forall_nil G))) Hv) as [Huu Guu]. cbn [existsb] in Huu. rewrite Vu, Vou, orb_false_r in Huu.
      destruct (is_leaf_like uu || m_is_any uu); [|ok_inv H; exact I].
      bind_inv H. ok_inv H. destruct (a_int f A _ _ _ _ Guu Gmsh Hv0) as [Vr Gr]. split; [|exact Gr].
      rewrite Vr, Huu, Vsh. cbn [beval].
      rewrite (forallb_filter_split (fun m => marker_in m os) ms), (forallb_filter_split (fun m => marker_in m ms) os), (shared_all ms os Gms Gos).
      destruct (forallb bv (filter (fun m => marker_in m os) ms)), (forallb bv (filter (fun m => negb (marker_in m os)) ms)),
               (forallb bv (filter (fun m => negb (marker_in m ms)) os)); reflexivity.
  Qed.

  Lemma step_only f : ALL f -> S_only (S f).
  Proof.
    intros A st names m r Gm H. cbn [only] in H.
    assert (L : match leaf_like m with Some (n, _) => Ok (if mem_str n names then m else MAny) | None => Ok m end = Ok r -> (bv m = true -> bv r = true) /\ G r).
    { intros H'. destruct (leaf_like m) as [[n c]|]; ok_inv H'; [destruct (mem_str n names); [split; [auto|exact Gm]|split; [reflexivity|constructor]]|split; [auto|exact Gm]]. }
    destruct m; try (apply L; exact H).
    - bind_inv H. destruct (forall2_weaken _ _ _ (mapR_forall2 _ _ _ Hv) (G_multi_inv _ Gm)) as (W1 & _ & Gv).
      { intros x y Gx Hxy. exact (a_only f A _ _ _ _ Gx Hxy). }
      destruct (a_mof f A _ _ _ Gv H) as [V Gr]. split; [|exact Gr]. intros Bm. rewrite V. apply W1. exact Bm.
    - bind_inv H. destruct (forall2_weaken _ _ _ (mapR_forall2 _ _ _ Hv) (G_union_inv _ Gm)) as (_ & W2 & Gv).
      { intros x y Gx Hxy. exact (a_only f A _ _ _ _ Gx Hxy). }
      destruct (a_uof f A _ _ _ Gv H) as [V Gr]. split; [|exact Gr]. intros Bm. rewrite V. apply W2. exact Bm.
  Qed.

  Theorem all_sound : forall f, ALL f.
  Proof.
    induction f as [|f IH]; [exact all_0|].
    split; [apply step_int | apply step_uni | apply step_ifn | apply step_ufn | apply step_cnf | apply step_dnf
            | apply step_mof | apply step_mloop | apply step_mpass | apply step_mtry
            | apply step_uof | apply step_uloop | apply step_upass | apply step_utry
            | apply step_isimp | apply step_usimp | apply step_only]; exact IH.
  Qed.
End Sound.

(* ---------- from clauses to markers: the two key premises lift through the structure ---------- *)
Section Lift.
  Variable E : env.
  Variable R : marker -> Prop.
  Hypothesis Kc : forall x y, is_leaf_like x = true -> is_leaf_like y = true -> R x -> R y -> marker_eqb x y = true -> beval E x = beval E y.
  Hypothesis Sc : forall x y, is_leaf_like x = true -> is_leaf_like y = true -> R x -> R y -> marker_eqb x y = marker_eqb y x.

  Let eqs := fix go (l l' : list marker) : bool :=
       match l, l' with [], [] => true | x :: r, y :: r' => marker_eqb x y && go r r' | _, _ => false end.
  Lemma eqb_multi l l' : marker_eqb (MMulti l) (MMulti l') = eqs l l'. Proof. reflexivity. Qed.
  Lemma eqb_union l l' : marker_eqb (MUnion l) (MUnion l') = eqs l l'. Proof. reflexivity. Qed.

  Lemma lift_key : forall a, G R a -> forall b, G R b -> marker_eqb a b = true -> beval E a = beval E b.
  Proof.
    induction a as [| |la|na aa|na aa|l IHl|l IHl] using marker_ind'; intros Ga b Gb H; destruct b as [| |lb|nb ab|nb ab|l0|l0]; try discriminate; try reflexivity.
    - inversion Ga; inversion Gb; subst. apply Kc; auto.
    - inversion Ga; inversion Gb; subst. apply Kc; auto.
    - inversion Ga; inversion Gb; subst. apply Kc; auto.
    - rewrite eqb_multi in H. cbn [beval]. apply G_multi_inv in Ga, Gb. revert l0 Gb H.
      induction IHl as [|x l Hx Hl IH]; intros [|y l'] Gb H; try discriminate; [reflexivity|].
      cbn in H. apply andb_true_iff in H. destruct H as [E1 E2].
      inversion Ga as [|? ? Gx Gl]; inversion Gb as [|? ? Gy Gl']; subst. cbn [forallb].
      rewrite (Hx Gx y Gy E1), (IH Gl l' Gl' E2). reflexivity.
    - rewrite eqb_union in H. cbn [beval]. apply G_union_inv in Ga, Gb. revert l0 Gb H.
      induction IHl as [|x l Hx Hl IH]; intros [|y l'] Gb H; try discriminate; [reflexivity|].
      cbn in H. apply andb_true_iff in H. destruct H as [E1 E2].
      inversion Ga as [|? ? Gx Gl]; inversion Gb as [|? ? Gy Gl']; subst. cbn [existsb].
      rewrite (Hx Gx y Gy E1), (IH Gl l' Gl' E2). reflexivity.
  Qed.
  Lemma lift_sym : forall a, G R a -> forall b, G R b -> marker_eqb a b = marker_eqb b a.
  Proof.
    induction a as [| |la|na aa|na aa|l IHl|l IHl] using marker_ind'; intros Ga b Gb; destruct b as [| |lb|nb ab|nb ab|l0|l0]; try reflexivity.
    - inversion Ga; inversion Gb; subst. apply Sc; auto.
    - inversion Ga; inversion Gb; subst. apply Sc; auto.
    - inversion Ga; inversion Gb; subst. apply Sc; auto.
    - rewrite !eqb_multi. apply G_multi_inv in Ga, Gb. revert l0 Gb.
      induction IHl as [|x l Hx Hl IH]; intros [|y l'] Gb; try reflexivity.
      inversion Ga as [|? ? Gx Gl]; inversion Gb as [|? ? Gy Gl']; subst. cbn. rewrite (Hx Gx y Gy), (IH Gl l' Gl'). reflexivity.
    - rewrite !eqb_union. apply G_union_inv in Ga, Gb. revert l0 Gb.
      induction IHl as [|x l Hx Hl IH]; intros [|y l'] Gb; try reflexivity.
      inversion Ga as [|? ? Gx Gl]; inversion Gb as [|? ? Gy Gl']; subst. cbn. rewrite (Hx Gx y Gy), (IH Gl l' Gl'). reflexivity.
  Qed.
End Lift.

(* ---------- the statements used by the property files ---------- *)
Record clause_class (E : env) (R : marker -> Prop) : Prop := {
  cc_key : forall x y, is_leaf_like x = true -> is_leaf_like y = true -> R x -> R y -> marker_eqb x y = true -> beval E x = beval E y;
  cc_sym : forall x y, is_leaf_like x = true -> is_leaf_like y = true -> R x -> R y -> marker_eqb x y = marker_eqb y x;
  cc_merge : forall fuel st m1 m2 is_multi r, G R m1 -> G R m2 -> merge_single fuel st m1 m2 is_multi = Ok (Some r) ->
             beval E r = (if is_multi then beval E m1 && beval E m2 else beval E m1 || beval E m2) /\ G R r }.

Section Corollaries.
  Variable E : env.
  Variable R : marker -> Prop.
  Hypothesis CC : clause_class E R.
  Let A := all_sound E R (fun a b Ga Gb => lift_key E R (cc_key E R CC) a Ga b Gb) (fun a b Ga Gb => lift_sym R (cc_sym E R CC) a Ga b Gb) (cc_merge E R CC).
  Theorem intersect_union_sound fuel st a b : G R a -> G R b ->
    (forall r, m_intersect fuel st a b = Ok r -> beval E r = beval E a && beval E b /\ G R r) /\
    (forall r, m_union fuel st a b = Ok r -> beval E r = beval E a || beval E b /\ G R r).
  Proof. intros Ga Gb. split; intros r H; [exact (a_int E R fuel (A fuel) _ _ _ _ Ga Gb H) | exact (a_uni E R fuel (A fuel) _ _ _ _ Ga Gb H)]. Qed.
  Theorem nary_sound fuel st args : Forall (G R) args ->
    (forall r, intersection_fn fuel st args = Ok r -> beval E r = forallb (beval E) args /\ G R r) /\
    (forall r, union_fn fuel st args = Ok r -> beval E r = existsb (beval E) args /\ G R r).
  Proof. intros Ga. split; intros r H; [exact (a_ifn E R fuel (A fuel) _ _ _ Ga H) | exact (a_ufn E R fuel (A fuel) _ _ _ Ga H)]. Qed.
  Theorem normal_forms_sound fuel st m : G R m ->
    (forall r, cnf fuel st m = Ok r -> beval E r = beval E m /\ G R r) /\ (forall r, dnf fuel st m = Ok r -> beval E r = beval E m /\ G R r).
  Proof. intros Gm. split; intros r H; [exact (a_cnf E R fuel (A fuel) _ _ _ Gm H) | exact (a_dnf E R fuel (A fuel) _ _ _ Gm H)]. Qed.
  Theorem of_sound fuel st ms : Forall (G R) ms ->
    (forall r, multi_of fuel st ms = Ok r -> beval E r = forallb (beval E) ms /\ G R r) /\
    (forall r, union_of_m fuel st ms = Ok r -> beval E r = existsb (beval E) ms /\ G R r).
  Proof. intros Gm. split; intros r H; [exact (a_mof E R fuel (A fuel) _ _ _ Gm H) | exact (a_uof E R fuel (A fuel) _ _ _ Gm H)]. Qed.
  Theorem only_weakens fuel st names m r : G R m -> only fuel st names m = Ok r -> (beval E m = true -> beval E r = true) /\ G R r.
  Proof. intros Gm. exact (a_only E R fuel (A fuel) st names m r Gm). Qed.
End Corollaries.

(* ---------- the premises can be met: a class of three concrete clauses on three variables ---------- *)
Definition clause_of (name cstr : string) : marker := match mk_leaf name cstr false with Ok l => MSingle l | Err _ => MAny end.
Definition demo_clauses : list marker :=
  [clause_of "sys_platform" "==linux"; clause_of "os_name" "!=nt"; clause_of "platform_machine" "==x86_64"].
Definition demo_R (x : marker) : Prop := In x demo_clauses.
Lemma demo_cases x : demo_R x ->
  x = clause_of "sys_platform" "==linux" \/ x = clause_of "os_name" "!=nt" \/ x = clause_of "platform_machine" "==x86_64".
Proof. intros [H|[H|[H|[]]]]; auto. Qed.
Theorem demo_class E : clause_class E demo_R.
Proof.
  split.
  - intros x y _ _ Rx Ry H. destruct (demo_cases x Rx) as [-> | [-> | ->]], (demo_cases y Ry) as [-> | [-> | ->]]; try reflexivity; vm_compute in H; discriminate.
  - intros x y _ _ Rx Ry. destruct (demo_cases x Rx) as [-> | [-> | ->]], (demo_cases y Ry) as [-> | [-> | ->]]; reflexivity.
  - intros fuel st m1 m2 is_multi r G1 G2 H. destruct fuel as [|f]; [discriminate|].
    assert (L1 : is_leaf_like m1 = true) by (destruct m1; try reflexivity; cbn in H; discriminate).
    assert (L2 : is_leaf_like m2 = true).
    { destruct m2; try reflexivity; destruct m1; try discriminate; cbn in H; discriminate. }
    assert (R1 : demo_R m1) by (inversion G1; subst; try discriminate; assumption).
    assert (R2 : demo_R m2) by (inversion G2; subst; try discriminate; assumption).
    destruct (demo_cases m1 R1) as [-> | [-> | ->]], (demo_cases m2 R2) as [-> | [-> | ->]]; destruct is_multi;
      vm_compute in H; try discriminate; injection H as <-;
      (split; [destruct (beval E _); reflexivity | first [exact G1 | exact G2]]).
Qed.
