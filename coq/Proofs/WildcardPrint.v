(* C15: a wildcard range [R.dev0, R'.dev0) prints as "==R.*" (is_single_wildcard_range / _single_wildcard_range_string) and that text parses back to it. *)
From Coq Require Import List Bool Arith NArith String Ascii Lia.
From PC Require Import Base.Cmp Base.Result Model.Pep440 Spec.Pep440Spec Proofs.Pep440Order Proofs.Pep440Parse Model.VConstraint
     Proofs.VersionFacts Proofs.RangeSpec Proofs.Pep440RoundTrip Proofs.ClauseText Proofs.WildcardText Proofs.PrefixOrder Proofs.WildcardMembership.
Import ListNotations.
Open Scope string_scope.
Open Scope N_scope.

Lemma strip_incr_last R : R <> [] -> strip_zeros (incr_last R) = incr_last R.
Proof.
  induction R as [|x R IH]; [congruence|]. intros _. destruct R as [|y R'].
  - cbn. destruct (x + 1 =? 0) eqn:E; [apply N.eqb_eq in E; lia|reflexivity].
  - change (incr_last (x :: y :: R')) with (x :: incr_last (y :: R')). cbn [strip_zeros]. rewrite IH by discriminate.
    destruct (incr_last (y :: R')) eqn:E; [|reflexivity]. exfalso. destruct R'; discriminate.
Qed.
Lemma removelast_incr_last R : removelast (incr_last R) = removelast R.
Proof.
  induction R as [|x R IH]; [reflexivity|]. destruct R as [|y R']; [reflexivity|].
  change (incr_last (x :: y :: R')) with (x :: incr_last (y :: R')).
  assert (N1 : incr_last (y :: R') <> []) by (destruct R'; discriminate).
  destruct (incr_last (y :: R')) as [|z l] eqn:E; [congruence|].
  change (removelast (x :: z :: l)) with (x :: removelast (z :: l)). change (removelast (x :: y :: R')) with (x :: removelast (y :: R')). rewrite <- IH. reflexivity.
Qed.
Lemma last_incr_last R : R <> [] -> last (incr_last R) 0 = last R 0 + 1.
Proof.
  induction R as [|x R IH]; [congruence|]. intros _. destruct R as [|y R']; [reflexivity|].
  change (incr_last (x :: y :: R')) with (x :: incr_last (y :: R')).
  assert (N1 : incr_last (y :: R') <> []) by (destruct R'; discriminate).
  destruct (incr_last (y :: R')) as [|z l] eqn:E; [congruence|]. change (last (x :: z :: l) 0) with (last (z :: l) 0).
  change (last (x :: y :: R') 0) with (last (y :: R') 0). rewrite <- IH by discriminate. reflexivity.
Qed.
Lemma removelast_last R : R <> [] -> (removelast R ++ [last R 0])%list = R.
Proof. intros H. symmetry. apply app_removelast_last, H. Qed.
Lemma incr_last_ne R : R <> [] -> incr_last R <> [].
Proof. destruct R as [|x [|y R]]; cbn; congruence. Qed.
Lemma length_incr_last R : List.length (incr_last R) = List.length R.
Proof. induction R as [|x R IH]; [reflexivity|]. destruct R as [|y R']; [reflexivity|]. change (incr_last (x :: y :: R')) with (x :: incr_last (y :: R')). cbn [List.length]. rewrite IH. reflexivity. Qed.
Lemma list_N_eqb_refl l : list_N_eqb l l = true.
Proof. induction l as [|x l IH]; [reflexivity|]. cbn. rewrite N.eqb_refl, IH. reflexivity. Qed.

(* C15: a wildcard range prints as '==R.*' and that text parses back to the same range *)
Theorem wildcard_print R : R <> [] -> r_str (wild_range R) = "==" ++ rel_text R ++ ".*".
Proof.
  intros HR. pose proof (incr_last_ne R HR) as HR'.
  set (mn := first_devrelease (bare R)). set (mx := first_devrelease (bare (incr_last R))).
  assert (F1 : veqb (first_devrelease mn) mn = true) by (apply veqb_refl).
  assert (F2 : veqb (first_devrelease mx) mx = true) by (apply veqb_refl).
  assert (W : is_wildcard_candidate mn mx false = true).
  { unfold is_wildcard_candidate. rewrite F1, F2.
    replace (negb (epoch mn =? epoch mx)) with false by reflexivity.
    replace (is_local mn) with false by reflexivity. replace (is_local mx) with false by reflexivity.
    replace (is_prerelease mn) with false by reflexivity. replace (is_prerelease mx) with false by reflexivity.
    replace (is_postrelease mn) with false by reflexivity. replace (is_postrelease mx) with false by reflexivity.
    replace (is_devrelease mx) with true by reflexivity. cbn [orb negb andb Bool.eqb].
    change (rel mx) with (incr_last R). change (rel mn) with R. change (post mn) with (@None tag).
    rewrite (strip_incr_last R HR). destruct (incr_last R) as [|z l] eqn:E; [congruence|]. rewrite <- E.
    rewrite length_incr_last, Nat.sub_diag. cbn [repeat]. rewrite app_nil_r, skipn_all, firstn_all. cbn [forallb negb].
    rewrite removelast_incr_last, list_N_eqb_refl. unfold last_N. rewrite (last_incr_last R HR), N.eqb_refl. reflexivity. }
  unfold r_str, wild_range. fold mn mx. cbn [is_single_wildcard_range]. rewrite W.
  unfold single_wildcard_range_string. change (post mn) with (@None tag). change (rel mx) with (incr_last R). change (epoch mx) with 0.
  rewrite (strip_incr_last R HR), removelast_incr_last. unfold last_N. rewrite (last_incr_last R HR).
  replace (last R 0 + 1 - 1) with (last R 0) by lia. rewrite (removelast_last R HR). reflexivity.
Qed.
Theorem wildcard_text_roundtrip m R : (1 <= List.length R <= 3)%nat ->
  r_str (wild_range R) = "==" ++ rel_text R ++ ".*" /\
  parse_single m ("==" ++ rel_text R ++ ".*") = match make_x_constraint_range (bare R) false m with Ok c => Ok c | Err _ => Err EValue end /\
  make_x_constraint_range (bare R) false false = Ok (VOne (wild_range R)).
Proof.
  intros H. assert (HR : R <> []) by (destruct R; [cbn in H; lia|discriminate]).
  split; [apply wildcard_print, HR|]. split; [apply (clause_wildcard m "==" false R H); auto|apply wild_is_parsed, H].
Qed.
Print Assumptions wildcard_text_roundtrip.
