(* C05/C12, union level (3): intersection is exact and a 'no' from allows_any is never wrong, for every constraint shape,
   when the members of each union are sorted and apart ([sorted_c], a decidable hypothesis evaluated on every generated
   operand by the check); the two-pointer walks are proved against the three bound-comparison specifications. *)
From Coq Require Import List Bool NArith ZArith String Ascii Lia ZifyBool.
From PC Require Import Base.Cmp Base.Result Base.RankEmbed Model.Pep440 Spec.Pep440Spec Proofs.Pep440Order
     Proofs.VersionFacts Model.VConstraint Proofs.RangeSpec Proofs.RangeAlg Proofs.RangeOps Proofs.UnionHull Proofs.UnionExact Proofs.Contain Model.VHyp.
Import ListNotations.
Open Scope list_scope.

(* a range that is not strictly lower than another one's lower bound reaches it *)
Lemma not_sl_reaches x y lo hi : wf_rng x = true -> rmax x = Some hi -> rmin y = Some lo ->
  is_strictly_lower x y = false -> veqb lo hi = false -> vltb lo hi = true.
Proof.
  intros Wx Hhi Hlo. pose proof (allowed_max_shape x Wx) as Sx. unfold is_strictly_lower. rewrite Hlo.
  destruct Sx as [Hx | mx Hx | mx Hx Ix Cx Lx Lx']; rewrite Hx in Hhi; try discriminate; injection Hhi as ->; intros SL NE.
  - order_lia [lo; hi].
  - order_lia [lo; hi; first_devrelease hi].
Qed.

(* the meet of two ranges that are not strictly apart, when it is not a single point, is a proper range *)
Lemma meet_proper a b lo hi : is_rr a = true -> is_rr b = true -> wf_rng a = true -> wf_rng b = true ->
  proper a = true -> proper b = true ->
  (if allows_lower a b then is_strictly_lower a b else is_strictly_lower b a) = false ->
  (if allows_lower a b then rmin b else rmin a) = Some lo ->
  (if allows_higher a b then rmax b else rmax a) = Some hi ->
  veqb lo hi = false -> vltb lo hi = true.
Proof.
  intros Ia Ib Wa Wb Pa Pb SL Hlo Hhi NE.
  destruct (allows_lower a b) eqn:AL, (allows_higher a b) eqn:AH.
  - destruct b as [y|blo bhi bi bj]; try discriminate. cbn [rmin rmax] in *. subst. exact Pb.
  - exact (not_sl_reaches a b lo hi Wa Hhi Hlo SL NE).
  - exact (not_sl_reaches b a lo hi Wb Hhi Hlo SL NE).
  - destruct a as [x|alo ahi ai aj]; try discriminate. cbn [rmin rmax] in *. subst. exact Pa.
Qed.

Definition ExactI (a b : rng) (c : vc) : Prop :=
  (forall v, wf v = true -> regular_r v a = true -> regular_r v b = true -> vmem c v = mem a v && mem b v) /\
  incl (cbounds c) (rbounds a ++ rbounds b) /\ goodc c = true.

Lemma good_of_parts r : wf_rng r = true -> proper r = true -> nolocal_r r = true -> flags_ok r = true -> good r = true.
Proof. intros A B C D. unfold good. rewrite A, B, C, D. reflexivity. Qed.
Lemma good_any : good ANY = true. Proof. reflexivity. Qed.
Lemma in_bounds_min r m : rmin r = Some m -> In m (rbounds r).
Proof. intros H. unfold rbounds. rewrite H. left. reflexivity. Qed.
Lemma in_bounds_max r m : rmax r = Some m -> In m (rbounds r).
Proof. intros H. unfold rbounds. rewrite H. apply in_or_app. right. left. reflexivity. Qed.
Lemma bounds_wf r m : wf_rng r = true -> In m (rbounds r) -> wf m = true.
Proof. unfold wf_rng. rewrite forallb_forall. auto. Qed.
Lemma bounds_nolocal r m : nolocal_r r = true -> In m (rbounds r) -> is_local m = false.
Proof. unfold nolocal_r. rewrite forallb_forall. intros H Hm. apply negb_true_iff. auto. Qed.

Lemma rr_intersect_good a b c : is_rr a = true -> is_rr b = true -> good a = true -> good b = true ->
  r_intersect a b = Ok c -> goodc c = true.
Proof.
  intros Ia Ib Ga Gb H.
  destruct (good_parts _ Ga) as (Wa & Pa & La & Fa). destruct (good_parts _ Gb) as (Wb & Pb & Lb & Fb).
  destruct a as [x|alo ahi ai aj] eqn:Ea; try discriminate. destruct b as [y|blo bhi bi bj] eqn:Eb; try discriminate.
  rewrite <- Ea, <- Eb in *. unfold r_intersect in H. rewrite Ea, Eb in H. rewrite <- Ea, <- Eb in H.
  destruct (if allows_lower a b then is_strictly_lower a b else is_strictly_lower b a) eqn:SL; [injection H as <-; reflexivity|].
  set (L := if allows_lower a b then b else a) in *.
  set (U := if allows_higher a b then b else a) in *.
  assert (EL : (if allows_lower a b then (rmin b, imin b) else (rmin a, imin a)) = (rmin L, imin L))
    by (unfold L; destruct (allows_lower a b); reflexivity).
  assert (EU : (if allows_higher a b then (rmax b, imax b) else (rmax a, imax a)) = (rmax U, imax U))
    by (unfold U; destruct (allows_higher a b); reflexivity).
  rewrite EL, EU in H.
  assert (WL : wf_rng L = true /\ nolocal_r L = true /\ flags_ok L = true) by (unfold L; destruct (allows_lower a b); auto).
  assert (WU : wf_rng U = true /\ nolocal_r U = true /\ flags_ok U = true) by (unfold U; destruct (allows_higher a b); auto).
  destruct WL as (WL & LL & FL). destruct WU as (WU & LU & FU).
  assert (Hlo : (if allows_lower a b then rmin b else rmin a) = rmin L) by (unfold L; destruct (allows_lower a b); reflexivity).
  assert (Hhi : (if allows_higher a b then rmax b else rmax a) = rmax U) by (unfold U; destruct (allows_higher a b); reflexivity).
  assert (Ira : is_rr a = true) by (rewrite Ea; reflexivity). assert (Irb : is_rr b = true) by (rewrite Eb; reflexivity).
  assert (Res : good (RR (rmin L) (rmax U) (imin L) (imax U)) = true \/ (exists m n, rmin L = Some m /\ rmax U = Some n /\ veqb m n = true)).
  { destruct (rmin L) as [m|] eqn:HmL, (rmax U) as [n|] eqn:HmU.
    - destruct (veqb m n) eqn:EQ; [right; exists m, n; auto|]. left. apply good_of_parts.
      + unfold wf_rng, rbounds. cbn [rmin rmax obounds app forallb]. rewrite (bounds_wf L m WL (in_bounds_min _ _ HmL)), (bounds_wf U n WU (in_bounds_max _ _ HmU)). reflexivity.
      + unfold proper. exact (meet_proper a b m n Ira Irb Wa Wb Pa Pb SL Hlo Hhi EQ).
      + unfold nolocal_r, rbounds. cbn [rmin rmax obounds app forallb]. rewrite (bounds_nolocal L m LL (in_bounds_min _ _ HmL)), (bounds_nolocal U n LU (in_bounds_max _ _ HmU)). reflexivity.
      + unfold flags_ok. cbn [rmin rmax imin imax is_some orb andb]. reflexivity.
    - left. apply good_of_parts; [| reflexivity | |].
      + unfold wf_rng, rbounds. cbn [rmin rmax obounds app forallb]. rewrite (bounds_wf L m WL (in_bounds_min _ _ HmL)). reflexivity.
      + unfold nolocal_r, rbounds. cbn [rmin rmax obounds app forallb]. rewrite (bounds_nolocal L m LL (in_bounds_min _ _ HmL)). reflexivity.
      + unfold flags_ok in *. cbn [rmin rmax imin imax is_some orb andb]. rewrite HmU in FU. cbn in FU. apply andb_true_iff in FU. tauto.
    - left. apply good_of_parts; [| reflexivity | |].
      + unfold wf_rng, rbounds. cbn [rmin rmax obounds app forallb]. rewrite (bounds_wf U n WU (in_bounds_max _ _ HmU)). reflexivity.
      + unfold nolocal_r, rbounds. cbn [rmin rmax obounds app forallb]. rewrite (bounds_nolocal U n LU (in_bounds_max _ _ HmU)). reflexivity.
      + unfold flags_ok in *. cbn [rmin rmax imin imax is_some orb andb]. rewrite HmL in FL. cbn in FL. apply andb_true_iff in FL. destruct FL as [FL _]. rewrite FL. reflexivity.
    - left. apply good_of_parts; try reflexivity.
      unfold flags_ok in *. cbn [rmin rmax imin imax is_some orb]. rewrite HmL in FL. rewrite HmU in FU. cbn in FL, FU.
      apply andb_true_iff in FL, FU. destruct FL as [FL _], FU as [_ FU]. rewrite FL, FU. reflexivity. }
  destruct (rmin L) as [m|] eqn:HmL, (rmax U) as [n|] eqn:HmU; cbn [oveq] in H.
  - destruct (veqb m n) eqn:EQ.
    + destruct (assert (imin L && imax U)); [|discriminate]. cbn [bind] in H. injection H as <-.
      unfold goodc. cbn [flatten forallb]. rewrite andb_true_r. apply good_of_parts; try reflexivity.
      * unfold wf_rng, rbounds. cbn. rewrite (bounds_wf L m WL (in_bounds_min _ _ HmL)). reflexivity.
      * unfold nolocal_r, rbounds. cbn. rewrite (bounds_nolocal L m LL (in_bounds_min _ _ HmL)). reflexivity.
    + injection H as <-. destruct Res as [G|(m' & n' & E1 & E2 & E3)].
      * unfold goodc. cbn [flatten forallb]. rewrite G. reflexivity.
      * injection E1 as <-. injection E2 as <-. rewrite EQ in E3. discriminate.
  - injection H as <-. destruct Res as [G|(m' & n' & _ & E2 & _)]; [|discriminate]. unfold goodc. cbn [flatten forallb]. rewrite G. reflexivity.
  - injection H as <-. destruct Res as [G|(m' & n' & E1 & _ & _)]; [|discriminate]. unfold goodc. cbn [flatten forallb]. rewrite G. reflexivity.
  - injection H as <-. reflexivity.
Qed.

Lemma min_local_allowed_nolocal r x : nolocal_r r = true -> min_local_allowed_by r x = false.
Proof.
  intros L. unfold min_local_allowed_by. destruct (rmin r) as [m|] eqn:H; [|reflexivity].
  rewrite (bounds_nolocal r m L (in_bounds_min _ _ H)). reflexivity.
Qed.
Lemma exact_empty a b : (forall v, wf v = true -> regular_r v a = true -> regular_r v b = true -> mem a v && mem b v = false) -> ExactI a b VEmpty.
Proof. intros H. split; [|split]; [intros v Wv Ra Rb; rewrite (H v Wv Ra Rb); reflexivity | intros e [] | reflexivity]. Qed.
Lemma regular_of_eq v x r : veqb v x = true -> regular_r v r = true -> regular_r x r = true.
Proof. intros E R. unfold regular_r in *. rewrite forallb_forall in *. intros e He. rewrite (regular1_congr v x e E). apply R, He. Qed.

(* a single version against a range: the version if the range allows it, else nothing *)
Lemma point_range_exact x r c : good (RV x) = true -> good r = true -> is_rr r = true ->
  (if rr_allows r x then Ok (VOne (RV x))
   else if min_local_allowed_by r x then Ok (VOne (RR (rmin r) (Some (next_patch (stable x))) (imin r) false)) else Ok VEmpty) = Ok c ->
  (forall v, wf v = true -> regular_r v r = true -> vmem c v = veqb v x && mem r v) /\ incl (cbounds c) (rbounds (RV x)) /\ goodc c = true.
Proof.
  intros Gx Gr Ir H. destruct (good_parts _ Gr) as (Wr & Pr & Lr & Fr). destruct (good_rv x Gx) as [Wx Lx].
  assert (Ar : rr_allows r x = r_allows r x) by (destruct r; [discriminate|reflexivity]).
  destruct (rr_allows r x) eqn:Al.
  - injection H as <-. split; [|split].
    + intros v Wv Rr. cbn [vmem]. rewrite mem_single. destruct (veqb v x) eqn:E; [|reflexivity].
      symmetry in Ar. rewrite (absorbs_point r x Wr Wx Ar v Wv Rr E). reflexivity.
    + apply incl_refl.
    + unfold goodc. cbn. rewrite Gx. reflexivity.
  - rewrite (min_local_allowed_nolocal r x Lr) in H. injection H as <-. split; [|split]; [|intros e []|reflexivity].
    intros v Wv Rr. cbn [vmem]. destruct (veqb v x) eqn:E; [|reflexivity]. cbn [andb].
    rewrite (mem_congr r v x E), <- (allows_regular r x Wr Wx (regular_of_eq v x r E Rr)), <- Ar. reflexivity.
Qed.

Theorem r_intersect_exact a b c : good a = true -> good b = true -> r_intersect a b = Ok c -> ExactI a b c.
Proof.
  intros Ga Gb H.
  destruct (good_parts _ Ga) as (Wa & Pa & La & Fa). destruct (good_parts _ Gb) as (Wb & Pb & Lb & Fb).
  destruct a as [x|alo ahi ai aj] eqn:Ea, b as [y|blo bhi bi bj] eqn:Eb.
  - (* two single versions *)
    destruct (good_rv x Ga) as [Wx Lx]. destruct (good_rv y Gb) as [Wy Ly]. cbn [r_intersect] in H.
    rewrite (v_allows_nolocal x y Ly), (v_allows_nolocal y x Lx), (veqb_sym y x) in H.
    destruct (veqb x y) eqn:E; injection H as <-.
    + split; [|split].
      * intros v _ _ _. cbn [vmem]. rewrite !mem_single. rewrite (veqb_sym v x), (veqb_eq_l x y v E), (veqb_sym y v). destruct (veqb v y); reflexivity.
      * intros e He. apply in_or_app. right. exact He.
      * unfold goodc. cbn. rewrite Gb. reflexivity.
    + apply exact_empty. intros v _ _ _. rewrite !mem_single. destruct (veqb v x) eqn:E1, (veqb v y) eqn:E2; try reflexivity.
      rewrite veqb_sym in E1. rewrite (veqb_trans _ _ _ E1 E2) in E. discriminate.
  - cbn [r_intersect] in H. destruct (point_range_exact x (RR blo bhi bi bj) c Ga Gb eq_refl H) as (Hm & Hi & Hg). split; [|split; [|exact Hg]].
    + intros v Wv _ Rb. rewrite mem_single. apply Hm; assumption.
    + intros e He. apply in_or_app. left. apply Hi, He.
  - cbn [r_intersect] in H. destruct (point_range_exact y (RR alo ahi ai aj) c Gb Ga eq_refl H) as (Hm & Hi & Hg). split; [|split; [|exact Hg]].
    + intros v Wv Ra _. rewrite mem_single, andb_comm. apply Hm; assumption.
    + intros e He. apply in_or_app. right. apply Hi, He.
  - rewrite <- Ea, <- Eb in *.
    assert (Ia : is_rr a = true) by (rewrite Ea; reflexivity). assert (Ib : is_rr b = true) by (rewrite Eb; reflexivity).
    pose proof (rr_intersect_good a b c Ia Ib Ga Gb H) as Hg.
    rewrite Ea, Eb in H. destruct (rr_intersect_exact alo ahi ai aj blo bhi bi bj) as (c' & Hc & Hm & Hi); try (rewrite <- ?Ea, <- ?Eb; assumption).
    rewrite Hc in H. injection H as <-. rewrite <- Ea, <- Eb in *. split; [|split; [exact Hi|exact Hg]].
    intros v _ Ra Rb. apply Hm; assumption.
Qed.

(* ---- members of a union are sorted and apart: every earlier member is strictly lower than every later one ---- *)
Fixpoint sepb (l : list rng) : bool :=
  match l with [] => true | x :: r => forallb (is_strictly_lower x) r && sepb r end.
Definition sorted_c (c : vc) : bool := sepb (flatten c).

Lemma apart x y v : wf_rng x = true -> regular_r v x = true -> regular_r v y = true ->
  is_strictly_lower x y = true -> below x v = true -> above y v = true -> False.
Proof. intros Wx Rx Ry H. destruct (strictly_lower_spec x y v Wx Rx Ry) as [T _]. exact (T H). Qed.
Lemma mem_below r v : mem r v = true -> below r v = true.
Proof. unfold mem. rewrite andb_true_iff. tauto. Qed.
Lemma mem_above r v : mem r v = true -> above r v = true.
Proof. unfold mem. rewrite andb_true_iff. tauto. Qed.
(* nothing later than x in a separated list holds a probe that lies below x's upper end *)
Lemma later_disjoint x r v : forallb good (x :: r) = true -> regular_l v (x :: r) = true ->
  forallb (is_strictly_lower x) r = true -> below x v = true -> lmem r v = false.
Proof.
  intros G R S B. apply not_true_iff_false. intros M. destruct (lmem_in _ _ M) as [y [Hy My]].
  rewrite forallb_forall in S.
  assert (Gx : good x = true) by (apply (good_in (x :: r)); [exact G|left; reflexivity]).
  apply (apart x y v (good_wf x Gx)); [apply (regular_l_in v (x :: r)); [exact R|left; reflexivity] | apply (regular_l_in v (x :: r)); [exact R|right; exact Hy] | apply S, Hy | exact B | apply mem_above, My].
Qed.

Definition lvmem (rs : list vc) (v : version) : bool := existsb (fun c => vmem c v) rs.
Lemma regular_l_cons v x r : regular_l v (x :: r) = true -> regular_r v x = true /\ regular_l v r = true.
Proof. unfold regular_l, regular_r. cbn [lbounds flat_map]. rewrite forallb_app, andb_true_iff. auto. Qed.

Lemma walk_intersect_exact : forall ours theirs rs,
  forallb good ours = true -> forallb good theirs = true -> sepb ours = true -> sepb theirs = true ->
  walk_intersect ours theirs = Ok rs ->
  (forall v, wf v = true -> regular_l v ours = true -> regular_l v theirs = true -> lvmem rs v = lmem ours v && lmem theirs v) /\
  incl (flat_map cbounds rs) (lbounds ours ++ lbounds theirs) /\ forallb goodc rs = true.
Proof.
  induction ours as [|o os IHo]; intros theirs; induction theirs as [|t ts IHt]; intros rs Go Gt So St H.
  - injection H as <-. split; [|split]; [intros; reflexivity | intros e [] | reflexivity].
  - injection H as <-. split; [|split]; [intros; reflexivity | intros e [] | reflexivity].
  - injection H as <-. split; [|split]; [intros; cbn; rewrite andb_false_r; reflexivity | intros e [] | reflexivity].
  - cbn [walk_intersect] in H.
    destruct (r_intersect o t) as [i|] eqn:Hi; [|discriminate]. cbn [bind] in H.
    pose proof Go as Go'. pose proof Gt as Gt'. cbn [forallb] in Go', Gt'. apply andb_true_iff in Go', Gt'.
    destruct Go' as [Go1 Gos], Gt' as [Gt1 Gts]. pose proof So as So'. pose proof St as St'. cbn [sepb] in So', St'.
    apply andb_true_iff in So', St'. destruct So' as [So1 Sos], St' as [St1 Sts].
    destruct (r_intersect_exact o t i Go1 Gt1 Hi) as (Im & Ib & Ig).
    destruct (allows_higher t o) eqn:AH.
    + (* drop o *)
      match type of H with bind ?x _ = _ => destruct x as [rest|] eqn:Hr; [|discriminate] end. cbn [bind] in H.
      destruct (IHo (t :: ts) rest Gos Gt Sos St Hr) as (Rm & Rb & Rg).
      assert (Final : (forall v, wf v = true -> regular_l v (o :: os) = true -> regular_l v (t :: ts) = true ->
                                 lvmem (i :: rest) v = lmem (o :: os) v && lmem (t :: ts) v) /\
                      incl (flat_map cbounds (i :: rest)) (lbounds (o :: os) ++ lbounds (t :: ts)) /\ forallb goodc (i :: rest) = true).
      { split; [|split].
        - intros v Wv Ro Rt. destruct (regular_l_cons v o os Ro) as [Ro1 Ros]. destruct (regular_l_cons v t ts Rt) as [Rt1 Rts].
          cbn [lvmem existsb]. fold (lvmem rest v). rewrite (Im v Wv Ro1 Rt1), (Rm v Wv Ros Rt). cbn [lmem existsb]. fold (lmem os v) (lmem ts v).
          destruct (mem o v) eqn:Mo; [|destruct (mem t v), (lmem os v), (lmem ts v); reflexivity].
          (* o holds v: then no later member of theirs does *)
          assert (D : lmem ts v = false).
          { apply (later_disjoint t ts v Gt Rt St1).
            destruct (allows_higher_spec t o v (good_wf t Gt1) (good_wf o Go1) Rt1 Ro1) as [T _]. apply (T AH), mem_below, Mo. }
          rewrite D. destruct (mem t v), (lmem os v); reflexivity.
        - cbn [flat_map lbounds]. fold (lbounds os) (lbounds ts). intros e He. apply in_app_or in He. destruct He as [He|He].
          + apply Ib in He. apply in_app_or in He. destruct He as [He|He]; apply in_or_app; [left|right]; apply in_or_app; left; exact He.
          + apply Rb in He. apply in_app_or in He. destruct He as [He|He]; apply in_or_app; [left; apply in_or_app; right; exact He | right; exact He].
        - cbn [forallb]. rewrite Ig, Rg. reflexivity. }
      destruct (is_empty i) eqn:Ei; injection H as <-; [|exact Final].
      destruct i; try discriminate. destruct Final as (F1 & F2 & F3). split; [|split].
      * intros v Wv Ro Rt. rewrite <- (F1 v Wv Ro Rt). reflexivity.
      * exact F2.
      * exact Rg.
    + (* drop t *)
      match type of H with bind ?x _ = _ => destruct x as [rest|] eqn:Hr; [|discriminate] end. cbn [bind] in H.
      destruct (IHt rest Go Gts So Sts Hr) as (Rm & Rb & Rg).
      assert (Final : (forall v, wf v = true -> regular_l v (o :: os) = true -> regular_l v (t :: ts) = true ->
                                 lvmem (i :: rest) v = lmem (o :: os) v && lmem (t :: ts) v) /\
                      incl (flat_map cbounds (i :: rest)) (lbounds (o :: os) ++ lbounds (t :: ts)) /\ forallb goodc (i :: rest) = true).
      { split; [|split].
        - intros v Wv Ro Rt. destruct (regular_l_cons v o os Ro) as [Ro1 Ros]. destruct (regular_l_cons v t ts Rt) as [Rt1 Rts].
          cbn [lvmem existsb]. fold (lvmem rest v). rewrite (Im v Wv Ro1 Rt1), (Rm v Wv Ro Rts). cbn [lmem existsb]. fold (lmem os v) (lmem ts v).
          destruct (mem t v) eqn:Mt; [|destruct (mem o v), (lmem os v), (lmem ts v); reflexivity].
          assert (D : lmem os v = false).
          { apply (later_disjoint o os v Go Ro So1).
            destruct (allows_higher_spec t o v (good_wf t Gt1) (good_wf o Go1) Rt1 Ro1) as [_ F]. apply (F AH), mem_below, Mt. }
          rewrite D. destruct (mem o v), (lmem ts v); reflexivity.
        - cbn [flat_map lbounds]. fold (lbounds os) (lbounds ts). intros e He. apply in_app_or in He. destruct He as [He|He].
          + apply Ib in He. apply in_app_or in He. destruct He as [He|He]; apply in_or_app; [left|right]; apply in_or_app; left; exact He.
          + apply Rb in He. cbn [lbounds flat_map] in He. fold (lbounds os) in He. apply in_app_or in He. destruct He as [He|He]; apply in_or_app; [left; exact He | right; apply in_or_app; right; exact He].
        - cbn [forallb]. rewrite Ig, Rg. reflexivity. }
      destruct (is_empty i) eqn:Ei; injection H as <-; [|exact Final].
      destruct i; try discriminate. destruct Final as (F1 & F2 & F3). split; [|split].
      * intros v Wv Ro Rt. rewrite <- (F1 v Wv Ro Rt). reflexivity.
      * exact F2.
      * exact Rg.
Qed.

Lemma lvmem_exists rs v : lvmem rs v = existsb (fun x => vmem x v) rs. Proof. reflexivity. Qed.

Definition ExactAnd (a b c : vc) : Prop :=
  (forall v, wf v = true -> regular_c v a = true -> regular_c v b = true -> vmem c v = vmem a v && vmem b v) /\
  incl (cbounds c) (cbounds a ++ cbounds b) /\ goodc c = true.

Lemma union_intersect_exact l b c : forallb good l = true -> goodc b = true -> sepb l = true -> sorted_c b = true ->
  union_intersect l b = Ok c ->
  (forall v, wf v = true -> regular_l v l = true -> regular_c v b = true -> vmem c v = lmem l v && vmem b v) /\
  incl (cbounds c) (lbounds l ++ cbounds b) /\ goodc c = true.
Proof.
  intros Gl Gb Sl Sb H. unfold union_intersect in H.
  destruct (walk_intersect l (flatten b)) as [rs|] eqn:Hw; [|discriminate]. cbn [bind] in H.
  destruct (walk_intersect_exact l (flatten b) rs Gl Gb Sl Sb Hw) as (Wm & Wb & Wg).
  destruct (vunion_of_sound OF_FUEL rs c Wg H) as (Um & Ub & Ug). split; [|split; [|exact Ug]].
  - intros v Wv Rl Rb. rewrite vmem_flatten with (c := b).
    rewrite <- (Wm v Wv Rl Rb). apply Um; [exact Wv|].
    apply (regular_incl v _ _ Wb). rewrite forallb_app. unfold regular_l in Rl. unfold regular_c in Rb. rewrite Rl. rewrite <- cbounds_flatten, Rb. reflexivity.
  - intros e He. apply Wb, Ub, He.
Qed.

Theorem intersect_exact a b c : goodc a = true -> goodc b = true -> sorted_c a = true -> sorted_c b = true ->
  intersect a b = Ok c -> ExactAnd a b c.
Proof.
  intros Ga Gb Sa Sb H. destruct a as [|ra|la].
  - injection H as <-. split; [|split]; [intros; reflexivity|intros e []|reflexivity].
  - assert (Gra : good ra = true) by (unfold goodc in Ga; cbn in Ga; rewrite andb_true_r in Ga; exact Ga).
    destruct b as [|rb|lb]; cbn [intersect] in H.
    + injection H as <-. split; [|split]; [intros; cbn; rewrite andb_false_r; reflexivity|intros e []|reflexivity].
    + assert (Grb : good rb = true) by (unfold goodc in Gb; cbn in Gb; rewrite andb_true_r in Gb; exact Gb).
      destruct (r_intersect_exact ra rb c Gra Grb H) as (Im & Ib & Ig). split; [|split; [|exact Ig]].
      * intros v Wv Ra Rb. unfold regular_c, cbounds in Ra, Rb. cbn [flatten flat_map] in Ra, Rb. rewrite app_nil_r in Ra, Rb. apply Im; assumption.
      * unfold cbounds at 2 3. cbn [flatten flat_map]. rewrite !app_nil_r. exact Ib.
    + destruct (union_intersect_exact lb (VOne ra) c Gb Ga Sb Sa H) as (Um & Ub & Ug). split; [|split; [|exact Ug]].
      * intros v Wv Ra Rb. rewrite (Um v Wv Rb Ra). cbn [vmem]. apply andb_comm.
      * intros e He. apply Ub in He. apply in_app_or in He. apply in_or_app. destruct He; [right|left]; assumption.
  - cbn [intersect] in H. destruct (union_intersect_exact la b c Ga Gb Sa Sb H) as (Um & Ub & Ug). split; [|split; [|exact Ug]].
    + intros v Wv Ra Rb. exact (Um v Wv Ra Rb).
    + exact Ub.
Qed.

(* in the implementation's own membership *)
Theorem intersect_admits_exactly a b c : goodc a = true -> goodc b = true -> sorted_c a = true -> sorted_c b = true ->
  intersect a b = Ok c ->
  goodc c = true /\ forall v, wf v = true -> regular_c v a = true -> regular_c v b = true -> sem c v = sem a v && sem b v.
Proof.
  intros Ga Gb Sa Sb H. destruct (intersect_exact a b c Ga Gb Sa Sb H) as (Hm & Hb & Hg). split; [exact Hg|].
  intros v Wv Ra Rb.
  assert (Rc : forallb (regular1 v) (cbounds c) = true).
  { apply (regular_incl v _ _ Hb). rewrite forallb_app. unfold regular_c in Ra, Rb. rewrite Ra, Rb. reflexivity. }
  rewrite (sem_regular c v Hg Wv Rc), (sem_regular a v Ga Wv Ra), (sem_regular b v Gb Wv Rb). apply Hm; assumption.
Qed.

(* ---- allows_any: a "no" is never wrong ---- *)
Lemma r_allows_any_sound a b v : good a = true -> good b = true -> wf v = true ->
  regular_r v a = true -> regular_r v b = true -> r_allows_any a b = false -> mem a v && mem b v = false.
Proof.
  intros Ga Gb Wv Ra Rb H.
  destruct (good_parts _ Ga) as (Wa & Pa & La & Fa). destruct (good_parts _ Gb) as (Wb & Pb & Lb & Fb).
  destruct a as [x|lo hi i j] eqn:Ea, b as [y|lo' hi' i' j'] eqn:Eb.
  - destruct (good_rv x Ga) as [Wx Lx]. destruct (good_rv y Gb) as [Wy Ly]. cbn [r_allows_any] in H.
    rewrite (v_allows_nolocal x y Ly), (v_allows_nolocal y x Lx) in H. apply orb_false_iff in H. destruct H as [H _].
    rewrite !mem_single. destruct (veqb v x) eqn:E1, (veqb v y) eqn:E2; try reflexivity.
    rewrite veqb_sym in E1. rewrite (veqb_trans _ _ _ E1 E2) in H. discriminate.
  - destruct (good_rv x Ga) as [Wx Lx]. cbn [r_allows_any] in H. apply orb_false_iff in H. destruct H as [H _].
    rewrite mem_single. destruct (veqb v x) eqn:E; [|reflexivity]. cbn [andb].
    rewrite (mem_congr _ v x E), <- (allows_regular _ x Wb Wx (regular_of_eq v x _ E Rb)). exact H.
  - destruct (good_rv y Gb) as [Wy Ly]. cbn [r_allows_any] in H. apply orb_false_iff in H. destruct H as [H _].
    rewrite mem_single, andb_comm. destruct (veqb v y) eqn:E; [|reflexivity]. cbn [andb].
    rewrite (mem_congr _ v y E), <- (allows_regular _ y Wa Wy (regular_of_eq v y _ E Ra)). exact H.
  - exact (rr_allows_any_sound lo hi i j lo' hi' i' j' v Wa Wb Ra Rb H).
Qed.

Lemma walk_any_sound : forall ours theirs,
  forallb good ours = true -> forallb good theirs = true -> sepb ours = true -> sepb theirs = true ->
  walk_any ours theirs = false ->
  forall v, wf v = true -> regular_l v ours = true -> regular_l v theirs = true -> lmem ours v && lmem theirs v = false.
Proof.
  induction ours as [|o os IHo]; intros theirs; induction theirs as [|t ts IHt]; intros Go Gt So St H v Wv Ro Rt;
    try reflexivity; try (cbn; apply andb_false_r).
  cbn [walk_any] in H.
  pose proof Go as Go'. pose proof Gt as Gt'. cbn [forallb] in Go', Gt'. apply andb_true_iff in Go', Gt'.
  destruct Go' as [Go1 Gos], Gt' as [Gt1 Gts]. pose proof So as So'. pose proof St as St'. cbn [sepb] in So', St'.
  apply andb_true_iff in So', St'. destruct So' as [So1 Sos], St' as [St1 Sts].
  destruct (regular_l_cons v o os Ro) as [Ro1 Ros]. destruct (regular_l_cons v t ts Rt) as [Rt1 Rts].
  destruct (r_allows_any o t) eqn:An; [discriminate|].
  pose proof (r_allows_any_sound o t v Go1 Gt1 Wv Ro1 Rt1 An) as Dot.
  cbn [lmem existsb]. fold (lmem os v) (lmem ts v).
  destruct (allows_higher t o) eqn:AH.
  - pose proof (IHo (t :: ts) Gos Gt Sos St H v Wv Ros Rt) as R. cbn [lmem existsb] in R. fold (lmem os v) (lmem ts v) in R.
    assert (D : mem o v = true -> lmem ts v = false).
    { intros Mo. apply (later_disjoint t ts v Gt Rt St1).
      destruct (allows_higher_spec t o v (good_wf t Gt1) (good_wf o Go1) Rt1 Ro1) as [T _]. apply (T AH), mem_below, Mo. }
    destruct (mem o v) eqn:Mo; [rewrite (D eq_refl) in *|]; destruct (mem t v), (lmem os v), (lmem ts v); cbn in *; congruence.
  - pose proof (IHt Go Gts So Sts H v Wv Ro Rts) as R. cbn [lmem existsb] in R. fold (lmem os v) (lmem ts v) in R.
    assert (D : mem t v = true -> lmem os v = false).
    { intros Mt. apply (later_disjoint o os v Go Ro So1).
      destruct (allows_higher_spec t o v (good_wf t Gt1) (good_wf o Go1) Rt1 Ro1) as [_ F]. apply (F AH), mem_below, Mt. }
    destruct (mem t v) eqn:Mt; [rewrite (D eq_refl) in *|]; destruct (mem o v), (lmem os v), (lmem ts v); cbn in *; congruence.
Qed.

Theorem allows_any_sound a b : goodc a = true -> goodc b = true -> sorted_c a = true -> sorted_c b = true ->
  allows_any a b = Ok false ->
  forall v, wf v = true -> regular_c v a = true -> regular_c v b = true -> vmem a v && vmem b v = false.
Proof.
  intros Ga Gb Sa Sb H v Wv Ra Rb. destruct a as [|ra|la]; [reflexivity| |].
  - assert (Gra : good ra = true) by (unfold goodc in Ga; cbn in Ga; rewrite andb_true_r in Ga; exact Ga).
    assert (Rra : regular_r v ra = true) by (unfold regular_c, cbounds in Ra; cbn [flatten flat_map] in Ra; rewrite app_nil_r in Ra; exact Ra).
    destruct ra as [x|lo hi i j].
    + cbn [allows_any] in H. destruct (intersect (VOne (RV x)) b) as [i|] eqn:Hi; [|discriminate]. cbn [bind] in H.
      injection H as H. apply negb_false_iff in H. destruct i; try discriminate.
      destruct (intersect_exact _ _ _ Ga Gb Sa Sb Hi) as (Hm & _ & _). rewrite <- (Hm v Wv Ra Rb). reflexivity.
    + destruct b as [|rb|lb]; cbn [allows_any] in H.
      * cbn. apply andb_false_r.
      * injection H as H. cbn [vmem].
        assert (Grb : good rb = true) by (unfold goodc in Gb; cbn in Gb; rewrite andb_true_r in Gb; exact Gb).
        assert (Rrb : regular_r v rb = true) by (unfold regular_c, cbounds in Rb; cbn [flatten flat_map] in Rb; rewrite app_nil_r in Rb; exact Rb).
        exact (r_allows_any_sound _ rb v Gra Grb Wv Rra Rrb H).
      * injection H as H. cbn [vmem]. destruct (mem (RR lo hi i j) v) eqn:Ma; [|reflexivity]. cbn [andb].
        apply not_true_iff_false. intros M. apply existsb_exists in M. destruct M as [r [Hr Mr]].
        assert (Hn : r_allows_any (RR lo hi i j) r = false).
        { destruct (r_allows_any (RR lo hi i j) r) eqn:E; [|reflexivity]. rewrite <- H. symmetry. apply existsb_exists. exists r. auto. }
        pose proof (r_allows_any_sound _ r v Gra (good_in lb r Gb Hr) Wv Rra (regular_l_in v lb r Rb Hr) Hn) as Q.
        rewrite Ma, Mr in Q. discriminate.
  - cbn [allows_any] in H. injection H as H. rewrite !vmem_flatten.
    exact (walk_any_sound la (flatten b) Ga Gb Sa Sb H v Wv Ra Rb).
Qed.
Theorem allows_any_no_is_right a b : goodc a = true -> goodc b = true -> sorted_c a = true -> sorted_c b = true ->
  allows_any a b = Ok false ->
  forall v, wf v = true -> regular_c v a = true -> regular_c v b = true -> sem a v && sem b v = false.
Proof.
  intros Ga Gb Sa Sb H v Wv Ra Rb. rewrite (sem_regular a v Ga Wv Ra), (sem_regular b v Gb Wv Rb).
  exact (allows_any_sound a b Ga Gb Sa Sb H v Wv Ra Rb).
Qed.

(* the executable copies evaluated by the check at run time are these predicates *)
Lemma h_goodc_eq c : h_goodc c = goodc c. Proof. reflexivity. Qed.
Lemma h_sorted_eq c : h_sorted c = sorted_c c. Proof. reflexivity. Qed.
