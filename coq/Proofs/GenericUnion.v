(* C16, union level: UnionConstraint.intersect and UnionConstraint.union (distribution over the members, de-duplication,
   the early exits) are exact for the single-valued reading, on any class P of simple constraints on which the
   member-level meet and join are exact (and the meet stays in the class). *)
From Coq Require Import List Bool String Arith Lia.
From PC Require Import Base.Result Model.Generic Proofs.GenericProofs.
Import ListNotations.
Open Scope list_scope.

Section Sat.
  Variable x : string.
  Notation gsat := (fun s => gs_sat s x).

  Lemma atom_eqb_sat a b : atom_eqb a b = true -> atom_sat a x = atom_sat b x.
  Proof.
    unfold atom_eqb. rewrite !andb_true_iff. intros [[_ Hv] Ho]. apply String.eqb_eq in Hv.
    unfold atom_sat. rewrite Hv. destruct (aop a), (aop b); try discriminate; reflexivity.
  Qed.
  Lemma atoms_eqb_sat : forall l l', atoms_eqb l l' = true -> forallb (fun a => atom_sat a x) l = forallb (fun a => atom_sat a x) l'.
  Proof.
    induction l as [|a l IH]; intros [|b l'] H; try discriminate; [reflexivity|]. cbn in H. apply andb_true_iff in H. destruct H as [H1 H2].
    cbn [forallb]. rewrite (atom_eqb_sat a b H1), (IH l' H2). reflexivity.
  Qed.
  Lemma gs_eqb_sat a b : gs_eqb a b = true -> gs_sat a x = gs_sat b x.
  Proof.
    destruct a as [| |a|ma la], b as [| |b|mb lb]; try discriminate; try reflexivity; cbn [gs_eqb gs_sat].
    - apply atom_eqb_sat.
    - rewrite andb_true_iff. intros [_ H]. apply atoms_eqb_sat, H.
  Qed.
  Lemma gs_in_sat s l : gs_in s l = true -> gs_sat s x = true -> existsb gsat l = true.
  Proof.
    unfold gs_in. intros H B. apply existsb_exists in H. destruct H as [c [Hc E]]. apply existsb_exists. exists c. split; [exact Hc|].
    rewrite <- (gs_eqb_sat s c E). exact B.
  Qed.
  Lemma subset_gs_sat l l' : subset_gs l l' = true -> existsb gsat l = true -> existsb gsat l' = true.
  Proof.
    unfold subset_gs. intros S H. rewrite forallb_forall in S. apply existsb_exists in H. destruct H as [s [Hs B]].
    exact (gs_in_sat s l' (S s Hs) B).
  Qed.
  Lemma atom_in_sat a l : atom_in a l = true -> forallb (fun a => atom_sat a x) l = true -> atom_sat a x = true.
  Proof.
    unfold atom_in. intros H F. apply existsb_exists in H. destruct H as [c [Hc E]]. rewrite (atom_eqb_sat a c E).
    rewrite forallb_forall in F. exact (F c Hc).
  Qed.
  Lemma same_atom_set_sat l l' : same_atom_set l l' = true ->
    forallb (fun a => atom_sat a x) l = forallb (fun a => atom_sat a x) l'.
  Proof.
    unfold same_atom_set. rewrite andb_true_iff. intros [H1 H2]. rewrite forallb_forall in H1, H2.
    destruct (forallb (fun a => atom_sat a x) l) eqn:A, (forallb (fun a => atom_sat a x) l') eqn:B; try reflexivity.
    - rewrite <- B. symmetry. apply forallb_forall. intros a Ha. exact (atom_in_sat a l (H2 a Ha) A).
    - rewrite <- A. apply forallb_forall. intros a Ha. exact (atom_in_sat a l' (H1 a Ha) B).
  Qed.

  (* ---- add_unseen_constraint: the de-duplication keeps the disjunction ---- *)
  Definition seen_ok (new : list gs) (seen : list (list atom)) : Prop :=
    forall l, In l seen -> exists mx, In (SMulti mx l) new.
  Lemma add_unseen_sat new seen s : seen_ok new seen ->
    seen_ok (fst (add_unseen (new, seen) s)) (snd (add_unseen (new, seen) s)) /\
    existsb gsat (fst (add_unseen (new, seen) s)) = existsb gsat new || gs_sat s x.
  Proof.
    intros Ok_. unfold add_unseen.
    destruct (gs_is_empty s) eqn:E1; cbn [orb].
    { split; [exact Ok_|]. destruct s; try discriminate. cbn. rewrite orb_false_r. reflexivity. }
    destruct (gs_in s new) eqn:E2; cbn [orb].
    { split; [exact Ok_|]. cbn [fst]. destruct (gs_sat s x) eqn:B; [|rewrite orb_false_r; reflexivity]. rewrite (gs_in_sat s new E2 B). reflexivity. }
    destruct (seen_multi s seen) eqn:E3.
    { split; [exact Ok_|]. cbn [fst]. destruct s as [| |a|mx l]; try discriminate. cbn [seen_multi] in E3.
      apply existsb_exists in E3. destruct E3 as [l' [Hl' Same]]. destruct (Ok_ l' Hl') as [mx' Hin].
      cbn [gs_sat]. rewrite (same_atom_set_sat l l' Same).
      destruct (forallb (fun a => atom_sat a x) l') eqn:B; [|rewrite orb_false_r; reflexivity].
      assert (Q : existsb gsat new = true) by (apply existsb_exists; exists (SMulti mx' l'); split; [exact Hin|exact B]).
      rewrite Q. reflexivity. }
    cbn [fst snd]. split.
    - intros l Hl. destruct s as [| |a|mx l0].
      + destruct (Ok_ l Hl) as [m Hm]. exists m. apply in_or_app. left. exact Hm.
      + destruct (Ok_ l Hl) as [m Hm]. exists m. apply in_or_app. left. exact Hm.
      + destruct (Ok_ l Hl) as [m Hm]. exists m. apply in_or_app. left. exact Hm.
      + destruct Hl as [<-|Hl]; [exists mx; apply in_or_app; right; left; reflexivity|].
        destruct (Ok_ l Hl) as [m Hm]. exists m. apply in_or_app. left. exact Hm.
    - rewrite existsb_app. cbn. rewrite orb_false_r. reflexivity.
  Qed.
  Lemma fold_add_unseen_sat items : forall new seen, seen_ok new seen ->
    existsb gsat (fst (fold_left add_unseen items (new, seen))) = existsb gsat new || existsb gsat items.
  Proof.
    induction items as [|s items IH]; intros new seen Ok_; cbn [fold_left existsb]; [rewrite orb_false_r; reflexivity|].
    destruct (add_unseen_sat new seen s Ok_) as [Ok' E]. destruct (add_unseen (new, seen) s) as [new' seen'] eqn:A. cbn [fst snd] in *.
    rewrite (IH new' seen' Ok'), E, orb_assoc. reflexivity.
  Qed.
  Lemma finish_union_sat new : sat (finish_union new) x = existsb gsat new.
  Proof. destruct new as [|s [|t r]]; cbn; rewrite ?orb_false_r; reflexivity. Qed.
End Sat.

Section Intersect.
  Variable x : string.
  Notation gsat := (fun s => gs_sat s x).
  (* the class of simple constraints on which the member-level meet is exact and which it does not leave *)
  Variable P : gs -> Prop.
  Hypothesis Hmeet : forall a b r, P a -> P b -> gs_intersect a b = Ok r -> gs_sat r x = gs_sat a x && gs_sat b x /\ P r.
  Hypothesis Patom : forall mx l a, P (SMulti mx l) -> In a l -> P (SAtom a).

  Lemma row_sat ours l' row : P ours -> Forall P l' -> mapR (fun theirs => gs_intersect ours theirs) l' = Ok row ->
    existsb gsat row = gs_sat ours x && existsb gsat l'.
  Proof.
    intros Po. revert row. induction l' as [|t l' IH]; intros row Pl H; cbn [mapR] in H.
    - injection H as <-. cbn. rewrite andb_false_r. reflexivity.
    - inversion Pl as [|? ? Pt Pl']; subst. destruct (gs_intersect ours t) as [r|] eqn:Hr; [|discriminate]. cbn [bind] in H.
      destruct (mapR _ l') as [rs|] eqn:Hrs; [|discriminate]. cbn [bind] in H. injection H as <-.
      cbn [existsb]. rewrite (IH rs Pl' eq_refl). destruct (Hmeet _ _ _ Po Pt Hr) as [V _]. rewrite V.
      destruct (gs_sat ours x), (gs_sat t x), (existsb gsat l'); reflexivity.
  Qed.
  Lemma rows_sat l l' pieces : Forall P l -> Forall P l' ->
    mapR (fun ours => mapR (fun theirs => gs_intersect ours theirs) l') l = Ok pieces ->
    existsb gsat (List.concat pieces) = existsb gsat l && existsb gsat l'.
  Proof.
    revert pieces. induction l as [|o l IH]; intros pieces Pl Pl' H; cbn [mapR] in H.
    - injection H as <-. reflexivity.
    - inversion Pl as [|? ? Po Pl0]; subst. destruct (mapR (fun theirs => gs_intersect o theirs) l') as [row|] eqn:Hrow; [|discriminate]. cbn [bind] in H.
      destruct (mapR _ l) as [rest|] eqn:Hrest; [|discriminate]. cbn [bind] in H. injection H as <-.
      cbn [List.concat existsb]. rewrite existsb_app, (row_sat o l' row Po Pl' Hrow), (IH rest Pl0 Pl' eq_refl).
      destruct (gs_sat o x), (existsb gsat l), (existsb gsat l'); reflexivity.
  Qed.
  (* one member against a conjunction, clause by clause *)
  Lemma chain_sat mx l' : forall ours r, P ours -> P (SMulti mx l') -> (forall a, In a l' -> P (SAtom a)) ->
    fold_left (fun acc their => do i <- acc; gs_intersect i (SAtom their)) l' (Ok ours) = Ok r ->
    gs_sat r x = gs_sat ours x && forallb (fun a => atom_sat a x) l'.
  Proof.
    intros ours r Po _ Pa. revert ours r Po. induction l' as [|a l' IH]; intros ours r Po H; cbn [fold_left] in H.
    - injection H as <-. cbn. rewrite andb_true_r. reflexivity.
    - cbn [bind] in H. destruct (gs_intersect ours (SAtom a)) as [i|e] eqn:Hi.
      + destruct (Hmeet _ _ _ Po (Pa a (or_introl eq_refl)) Hi) as [V Pi].
        rewrite (IH (fun b Hb => Pa b (or_intror Hb)) i r Pi H), V. cbn [forallb gs_sat]. rewrite andb_assoc. reflexivity.
      + exfalso. clear - H. induction l' as [|b l' IHl]; cbn [fold_left bind] in H; [discriminate|auto].
  Qed.
  Lemma chains_sat mx l' l pieces : Forall P l -> P (SMulti mx l') ->
    mapR (fun ours => fold_left (fun acc their => do i <- acc; gs_intersect i (SAtom their)) l' (Ok ours)) l = Ok pieces ->
    existsb gsat pieces = existsb gsat l && forallb (fun a => atom_sat a x) l'.
  Proof.
    intros Pl Pm. revert pieces. induction Pl as [|o l Po Pl IH]; intros pieces H; cbn [mapR] in H.
    - injection H as <-. reflexivity.
    - destruct (fold_left _ l' (Ok o)) as [r|] eqn:Hr; [|discriminate]. cbn [bind] in H.
      destruct (mapR _ l) as [rest|] eqn:Hrest; [|discriminate]. cbn [bind] in H. injection H as <-.
      cbn [existsb]. rewrite (IH rest eq_refl), (chain_sat mx l' o r Po Pm (fun a Ha => Patom mx l' a Pm Ha) Hr).
      destruct (gs_sat o x), (existsb gsat l), (forallb (fun a => atom_sat a x) l'); reflexivity.
  Qed.
  Lemma seen_ok_nil : seen_ok [] []. Proof. intros l []. Qed.

  Theorem union_intersect_exact l other r : Forall P l -> (match other with GS s => P s | GU l' => Forall P l' end) ->
    union_intersect l other = Ok r -> sat r x = existsb gsat l && sat other x.
  Proof.
    intros Pl Po H. unfold union_intersect in H.
    destruct other as [s|l'].
    - destruct s as [| |b|mx lb].
      + injection H as <-. cbn. rewrite andb_true_r. reflexivity.
      + injection H as <-. cbn. rewrite andb_false_r. reflexivity.
      + (* a single clause *)
        cbn [andb] in H. destruct (ax b && gs_in (SAtom b) l) eqn:C.
        { injection H as <-. apply andb_true_iff in C. destruct C as [_ C]. cbn [sat gs_sat].
          destruct (atom_sat b x) eqn:B; [|rewrite andb_false_r; reflexivity]. rewrite (gs_in_sat x (SAtom b) l C B). reflexivity. }
        assert (Pb : Forall P [SAtom b]) by (constructor; [exact Po|constructor]).
        destruct (subset_gs l [SAtom b]) eqn:S1.
        { injection H as <-. cbn [sat gs_sat]. destruct (existsb gsat l) eqn:B; [|reflexivity].
          pose proof (subset_gs_sat x l [SAtom b] S1 B) as Q. cbn in Q. rewrite orb_false_r in Q. rewrite Q. reflexivity. }
        destruct (subset_gs [SAtom b] l) eqn:S2.
        { injection H as <-. cbn [sat gs_sat]. destruct (atom_sat b x) eqn:B; [|rewrite andb_false_r; reflexivity].
          assert (Q : existsb gsat [SAtom b] = true) by (cbn; rewrite B; reflexivity).
          rewrite (subset_gs_sat x [SAtom b] l S2 Q). reflexivity. }
        destruct (mapR _ l) as [pieces|] eqn:Hp; [|discriminate]. cbn [bind] in H. injection H as <-.
        rewrite finish_union_sat, (fold_add_unseen_sat x _ [] [] seen_ok_nil). cbn [existsb orb].
        rewrite (rows_sat l [SAtom b] pieces Pl Pb Hp). cbn. rewrite orb_false_r. reflexivity.
      + (* a conjunction *)
        cbn [andb] in H. destruct (mapR _ l) as [pieces|] eqn:Hp; [|discriminate]. cbn [bind] in H. injection H as <-.
        rewrite finish_union_sat, (fold_add_unseen_sat x _ [] [] seen_ok_nil). cbn [existsb orb sat gs_sat].
        exact (chains_sat mx lb l pieces Pl Po Hp).
    - (* a union *)
      destruct (subset_gs l l' && subset_gs l' l) eqn:C.
      { injection H as <-. apply andb_true_iff in C. destruct C as [C1 C2]. cbn [sat].
        destruct (existsb gsat l) eqn:B; [|reflexivity]. rewrite (subset_gs_sat x l l' C1 B). reflexivity. }
      cbn [andb] in H.
      destruct (subset_gs l l') eqn:S1.
      { injection H as <-. cbn [sat]. destruct (existsb gsat l) eqn:B; [|reflexivity]. rewrite (subset_gs_sat x l l' S1 B). reflexivity. }
      destruct (subset_gs l' l) eqn:S2.
      { injection H as <-. assert (Q : sat (match l' with [s] => GS s | _ => GU l' end) x = existsb gsat l').
        { destruct l' as [|s [|t r']]; cbn; rewrite ?orb_false_r; reflexivity. }
        rewrite Q. cbn [sat]. destruct (existsb gsat l') eqn:B; [|rewrite andb_false_r; reflexivity]. rewrite (subset_gs_sat x l' l S2 B). reflexivity. }
      destruct (mapR _ l) as [pieces|] eqn:Hp; [|discriminate]. cbn [bind] in H. injection H as <-.
      rewrite finish_union_sat, (fold_add_unseen_sat x _ [] [] seen_ok_nil). cbn [existsb orb sat].
      exact (rows_sat l l' pieces Pl Po Hp).
  Qed.
End Intersect.

Section Union.
  Variable x : string.
  Notation gsat := (fun s => gs_sat s x).
  Variable P : gs -> Prop.
  Hypothesis Hjoin : forall a b u, P a -> P b -> gs_union a b = Ok u -> sat u x = gs_sat a x || gs_sat b x.

  Lemma gss_eqb_sat : forall l l', gss_eqb l l' = true -> existsb gsat l = existsb gsat l'.
  Proof.
    induction l as [|a l IH]; intros [|b l'] H; try discriminate; [reflexivity|]. cbn in H. apply andb_true_iff in H. destruct H as [H1 H2].
    cbn [existsb]. rewrite (gs_eqb_sat x a b H1), (IH l' H2). reflexivity.
  Qed.
  Lemma add_new_sat l s : existsb gsat (add_new l s) = existsb gsat l || gs_sat s x.
  Proof.
    unfold add_new. destruct (gs_in s l) eqn:I.
    - destruct (gs_sat s x) eqn:B; [|rewrite orb_false_r; reflexivity]. rewrite (gs_in_sat x s l I B). reflexivity.
    - rewrite existsb_app. cbn. rewrite orb_false_r. reflexivity.
  Qed.
  Lemma fold_add_new_sat items : forall l, existsb gsat (fold_left add_new items l) = existsb gsat l || existsb gsat items.
  Proof.
    induction items as [|s items IH]; intros l; cbn [fold_left existsb]; [rewrite orb_false_r; reflexivity|].
    rewrite IH, add_new_sat, orb_assoc. reflexivity.
  Qed.

  (* the truth carried by a loop state; None = the universal constraint was reached *)
  Definition T (st : option (list gs * list gs * list gs)) : bool :=
    match st with None => true | Some (on, tn, mn) => existsb gsat on || existsb gsat tn || existsb gsat mn end.
  Definition step (their : gs) (acc : res (option (list gs * list gs * list gs))) (our : gs) :=
    do st <- acc;
    match st with
    | None => Ok None
    | Some (on, tn, mn) =>
      do u <- gs_union our their;
      if g_is_any u then Ok None
      else match u with
           | GS (SAtom ua) =>
             if gs_eqb (SAtom ua) our then Ok (Some (add_new on (SAtom ua), tn, mn))
             else if gs_eqb (SAtom ua) their then Ok (Some (on, add_new tn their, mn))
             else Ok (Some (on, tn, add_new mn (SAtom ua)))
           | _ => Ok (Some (add_new on our, add_new tn their, mn))
           end
    end.
  Lemma step_sat their our st st' : P our -> P their -> step their (Ok st) our = Ok st' ->
    T st' = T st || (gs_sat our x || gs_sat their x).
  Proof.
    intros Po Pt H. unfold step in H. cbn [bind] in H. destruct st as [[[on tn] mn]|]; [|injection H as <-; reflexivity].
    destruct (gs_union our their) as [u|] eqn:Hu; [|discriminate]. cbn [bind] in H.
    pose proof (Hjoin _ _ _ Po Pt Hu) as V.
    destruct (g_is_any u) eqn:An.
    { injection H as <-. destruct u as [[| | |]|]; try discriminate. cbn in V. rewrite <- V. cbn. rewrite orb_true_r. reflexivity. }
    destruct u as [[| |ua|mx lu]|lu].
    - injection H as <-. cbn [T]. rewrite !add_new_sat. cbn in V.
      destruct (existsb gsat on), (existsb gsat tn), (existsb gsat mn), (gs_sat our x), (gs_sat their x); try reflexivity; discriminate.
    - injection H as <-. cbn [T]. rewrite !add_new_sat.
      destruct (existsb gsat on), (existsb gsat tn), (existsb gsat mn), (gs_sat our x), (gs_sat their x); reflexivity.
    - cbn [sat] in V. destruct (gs_eqb (SAtom ua) our) eqn:E1.
      + injection H as <-. cbn [T]. rewrite add_new_sat, V.
        destruct (existsb gsat on), (existsb gsat tn), (existsb gsat mn), (gs_sat our x), (gs_sat their x); reflexivity.
      + destruct (gs_eqb (SAtom ua) their) eqn:E2.
        * injection H as <-. cbn [T]. rewrite add_new_sat. rewrite <- (gs_eqb_sat x _ _ E2), V.
          destruct (existsb gsat on), (existsb gsat tn), (existsb gsat mn), (gs_sat our x), (gs_sat their x); reflexivity.
        * injection H as <-. cbn [T]. rewrite add_new_sat, V.
          destruct (existsb gsat on), (existsb gsat tn), (existsb gsat mn), (gs_sat our x), (gs_sat their x); reflexivity.
    - injection H as <-. cbn [T]. rewrite !add_new_sat.
      destruct (existsb gsat on), (existsb gsat tn), (existsb gsat mn), (gs_sat our x), (gs_sat their x); reflexivity.
    - injection H as <-. cbn [T]. rewrite !add_new_sat.
      destruct (existsb gsat on), (existsb gsat tn), (existsb gsat mn), (gs_sat our x), (gs_sat their x); reflexivity.
  Qed.
  Lemma step_err their e ours : fold_left (step their) ours (Err e) = Err e.
  Proof. induction ours as [|o ours IH]; [reflexivity|]. cbn [fold_left]. exact IH. Qed.
  Lemma inner_sat their : P their -> forall ours st st', Forall P ours -> fold_left (step their) ours (Ok st) = Ok st' ->
    T st' = T st || existsb (fun o => gs_sat o x || gs_sat their x) ours.
  Proof.
    intros Pt. induction ours as [|o ours IH]; intros st st' Po H; cbn [fold_left existsb] in *.
    - injection H as <-. rewrite orb_false_r. reflexivity.
    - inversion Po as [|? ? Po1 Po2]; subst. destruct (step their (Ok st) o) as [st1|e] eqn:Hs; [|rewrite step_err in H; discriminate].
      rewrite (IH st1 st' Po2 H), (step_sat their o st st1 Po1 Pt Hs), !orb_assoc. reflexivity.
  Qed.
  Lemma outer_err ours e theirs : fold_left (fun acc their => fold_left (step their) ours acc) theirs (Err e) = Err e.
  Proof. induction theirs as [|t theirs IH]; [reflexivity|]. cbn [fold_left]. rewrite step_err. exact IH. Qed.
  Lemma outer_sat ours : Forall P ours -> forall theirs st st', Forall P theirs ->
    fold_left (fun acc their => fold_left (step their) ours acc) theirs (Ok st) = Ok st' ->
    T st' = T st || existsb (fun t => existsb (fun o => gs_sat o x || gs_sat t x) ours) theirs.
  Proof.
    intros Po. induction theirs as [|t theirs IH]; intros st st' Pt H; cbn [fold_left existsb] in *.
    - injection H as <-. rewrite orb_false_r. reflexivity.
    - inversion Pt as [|? ? Pt1 Pt2]; subst. destruct (fold_left (step t) ours (Ok st)) as [st1|e] eqn:Hi; [|rewrite outer_err in H; discriminate].
      rewrite (IH st1 st' Pt2 H), (inner_sat t Pt1 ours st st1 Po Hi), !orb_assoc. reflexivity.
  Qed.
  Lemma pairs_sat ours theirs : ours <> [] -> theirs <> [] ->
    existsb (fun t => existsb (fun o => gs_sat o x || gs_sat t x) ours) theirs = existsb gsat ours || existsb gsat theirs.
  Proof.
    intros No Nt.
    assert (In_ : forall t, existsb (fun o => gs_sat o x || gs_sat t x) ours = existsb gsat ours || gs_sat t x).
    { intros t. destruct ours as [|o0 os]; [contradiction|]. clear No. revert o0. induction os as [|o os IH]; intros o0; cbn [existsb] in *.
      - rewrite !orb_false_r. reflexivity.
      - rewrite (IH o). cbn [existsb]. destruct (gs_sat o0 x), (gs_sat o x), (gs_sat t x), (existsb gsat os); reflexivity. }
    destruct theirs as [|t0 ts]; [contradiction|]. clear Nt. revert t0. induction ts as [|t ts IH]; intros t0; cbn [existsb] in *.
    - rewrite In_, !orb_false_r. reflexivity.
    - rewrite (IH t), !In_. cbn [existsb]. destruct (existsb gsat ours), (gs_sat t0 x), (gs_sat t x), (existsb gsat ts); reflexivity.
  Qed.
  Lemma loop_is_fold ours theirs : union_union_loop ours theirs = fold_left (fun acc their => fold_left (step their) ours acc) theirs (Ok (Some ([], [], []))).
  Proof. reflexivity. Qed.

  Theorem union_union_exact l other r : l <> [] -> Forall P l ->
    (match other with GS s => P s | GU l' => Forall P l' /\ l' <> [] end) ->
    union_union l other = Ok r -> sat r x = existsb gsat l || sat other x.
  Proof.
    intros Nl Pl Po H. unfold union_union in H.
    assert (Loop : forall l', l' <> [] -> Forall P l' ->
              (do st <- union_union_loop l l';
               match st with
               | None => Ok (GS SAny)
               | Some (on, tn, mn) => let new := fold_left add_new (tn ++ mn) on in Ok (match new with [s] => GS s | _ => GU new end)
               end) = Ok r -> sat r x = existsb gsat l || existsb gsat l').
    { intros l' Nl' Pl' H'. destruct (union_union_loop l l') as [st|] eqn:Hl; [|discriminate]. cbn [bind] in H'.
      rewrite loop_is_fold in Hl. pose proof (outer_sat l Pl l' _ _ Pl' Hl) as Q. cbn [T existsb orb] in Q.
      rewrite (pairs_sat l l' Nl Nl') in Q. rewrite <- Q.
      destruct st as [[[on tn] mn]|]; cbv zeta in H'; injection H' as <-; [|reflexivity].
      cbv zeta.
      assert (E : forall new, sat (match new with [s] => GS s | _ => GU new end) x = existsb gsat new)
        by (intros [|s [|t r']]; cbn; rewrite ?orb_false_r; reflexivity).
      rewrite E, fold_add_new_sat, existsb_app. cbn [T]. rewrite orb_assoc. reflexivity. }
    destruct other as [s|l'].
    - destruct s as [| |b|mx lb].
      + injection H as <-. cbn. rewrite orb_true_r. reflexivity.
      + injection H as <-. cbn. rewrite orb_false_r. reflexivity.
      + cbn [g_eqb] in H. rewrite (Loop [SAtom b]) ; [cbn; rewrite orb_false_r; reflexivity | discriminate | constructor; [exact Po|constructor] | exact H].
      + cbn [g_eqb] in H.
        destruct (existsb (fun c => match c with SAtom a => atom_in a lb | _ => false end) l) eqn:C.
        * injection H as <-. cbn [sat gs_sat]. destruct (forallb (fun a => atom_sat a x) lb) eqn:B; [|rewrite orb_false_r; reflexivity].
          apply existsb_exists in C. destruct C as [c [Hc Hin]]. destruct c as [| |a|]; try discriminate.
          assert (Q : existsb gsat l = true) by (apply existsb_exists; exists (SAtom a); split; [exact Hc|exact (atom_in_sat x a lb Hin B)]).
          rewrite Q. reflexivity.
        * injection H as <-.
          assert (E : sat (match l ++ [SMulti mx lb] with [s] => GS s | new => GU new end) x = existsb gsat (l ++ [SMulti mx lb])).
          { destruct (l ++ [SMulti mx lb]) as [|s [|t r']]; cbn; rewrite ?orb_false_r; reflexivity. }
          rewrite E, existsb_app. cbn. rewrite orb_false_r. reflexivity.
    - destruct Po as [Pl' Nl']. destruct (g_eqb (GU l') (GU l)) eqn:Eq.
      + injection H as <-. cbn [g_eqb] in Eq. cbn [sat]. rewrite (gss_eqb_sat l' l Eq), orb_diag. reflexivity.
      + exact (Loop l' Nl' Pl' H).
  Qed.
End Union.

(* ---------- the == / != fragment of the single-valued reading ---------- *)
Definition Fa (a : atom) : Prop := ax a = false /\ eqne a = true.
Definition Fs (s : gs) : Prop :=
  match s with SAny | SEmpty => True | SAtom a => Fa a | SMulti mx l => mx = false /\ all_ne l = true end.

Lemma all_ne_in l a : all_ne l = true -> In a l -> aop a = GNe /\ ax a = false.
Proof.
  unfold all_ne. rewrite forallb_forall. intros H Ha. specialize (H a Ha). apply andb_true_iff in H. destruct H as [H1 H2].
  apply negb_true_iff in H2. destruct (aop a); try discriminate. auto.
Qed.
Lemma Fs_atom mx l a : Fs (SMulti mx l) -> In a l -> Fs (SAtom a).
Proof. intros [_ H] Ha. destruct (all_ne_in l a H Ha) as [O X]. split; [exact X|]. unfold eqne. rewrite O. reflexivity. Qed.
(* a conjunction of != clauses holds exactly off its values *)
Lemma ne_sat l x : all_ne l = true -> forallb (fun a => atom_sat a x) l = negb (value_in x l).
Proof.
  intros H. unfold value_in. induction l as [|a l IH]; [reflexivity|]. cbn [forallb existsb].
  destruct (all_ne_in (a :: l) a H (or_introl eq_refl)) as [O _].
  assert (Hl : all_ne l = true) by (unfold all_ne in *; cbn [forallb] in H; apply andb_true_iff in H; tauto).
  rewrite (IH Hl). unfold atom_sat. rewrite O. destruct (String.eqb x (av a)), (existsb _ l); reflexivity.
Qed.
Lemma all_ne_app l l' : all_ne (l ++ l') = all_ne l && all_ne l'. Proof. apply forallb_app. Qed.
Lemma all_ne_filter p l : all_ne l = true -> all_ne (filter p l) = true.
Proof. unfold all_ne. rewrite !forallb_forall. intros H a Ha. apply filter_In in Ha. apply H, Ha. Qed.
Lemma mk_multi_F l s : mk_multi false l = Ok s -> (forall a, In a l -> Fa a) -> Fs s.
Proof.
  unfold mk_multi. destruct (multi_ops_ok false l) eqn:M; [|discriminate]. intros [= <-] HF. split; [reflexivity|].
  unfold all_ne, multi_ops_ok in *. rewrite forallb_forall in *. intros a Ha. destruct (HF a Ha) as [X E]. specialize (M a Ha).
  unfold eqne in E. rewrite X. destruct (aop a); try discriminate; reflexivity.
Qed.

Lemma atom_intersect_F a b r : Fa a -> Fa b -> atom_intersect_atom a b = Ok r -> Fs r.
Proof.
  intros [Xa Ea] [Xb Eb] H. unfold atom_intersect_atom in H. rewrite Xa in H.
  destruct (atom_eqb b a); [injection H as <-; split; assumption|].
  destruct (atom_allows_all_atom a b); [injection H as <-; split; assumption|].
  destruct (atom_allows_all_atom b a); [injection H as <-; split; assumption|].
  destruct (negb (atom_allows_any_atom a b) || negb (atom_allows_any_atom b a)); [injection H as <-; exact I|].
  apply (mk_multi_F _ _ H). intros c [<-|[<-|[]]]; split; assumption.
Qed.
Lemma multi_intersect_atom_F l b r : all_ne l = true -> Fa b -> multi_intersect_atom false l b = Ok r -> Fs r.
Proof.
  intros Hl [Xb Eb] H. unfold multi_intersect_atom in H. cbn [negb] in H.
  destruct (atom_in b l); [injection H as <-; split; [reflexivity|exact Hl]|].
  destruct (gop_eqb (aop b) GEq).
  - destruct (forallb _ l); injection H as <-; [split; assumption|exact I].
  - destruct (atom_in (atom_invert b) l); [injection H as <-; exact I|].
    apply (mk_multi_F _ _ H). intros c Hc. apply in_app_or in Hc. destruct Hc as [Hc|[<-|[]]]; [|split; assumption].
    destruct (all_ne_in l c Hl Hc) as [O X]. split; [exact X|unfold eqne; rewrite O; reflexivity].
Qed.
Lemma multi_intersect_multi_F l l' r : all_ne l = true -> all_ne l' = true -> multi_intersect_multi false l l' = Ok r -> Fs r.
Proof.
  intros Hl Hl' H. unfold multi_intersect_multi in H. cbn [andb] in H. apply (mk_multi_F _ _ H).
  intros c Hc. apply in_app_or in Hc. destruct Hc as [Hc|Hc].
  - destruct (all_ne_in l c Hl Hc) as [O X]. split; [exact X|unfold eqne; rewrite O; reflexivity].
  - apply filter_In in Hc. destruct (all_ne_in l' c Hl' (proj1 Hc)) as [O X]. split; [exact X|unfold eqne; rewrite O; reflexivity].
Qed.

Theorem gs_intersect_F x a b r : Fs a -> Fs b -> gs_intersect a b = Ok r -> gs_sat r x = gs_sat a x && gs_sat b x /\ Fs r.
Proof.
  intros Fa_ Fb_ H. destruct a as [| |a|ma la], b as [| |b|mb lb]; cbn [gs_intersect] in H;
    try (injection H as <-; split; [cbn; rewrite ?andb_true_r, ?andb_false_r; reflexivity | first [exact I | assumption]]).
  - destruct Fa_ as [Xa Ea], Fb_ as [Xb Eb]. split; [exact (atom_intersect_exact a b x Xa Xb Ea Eb r H)|exact (atom_intersect_F a b r (conj Xa Ea) (conj Xb Eb) H)].
  - destruct Fa_ as [Xa Ea], Fb_ as [-> Hl]. split; [|exact (multi_intersect_atom_F lb a r Hl (conj Xa Ea) H)].
    rewrite (multi_intersect_atom_exact lb a x Hl Xa Ea r H). cbn [gs_sat]. apply andb_comm.
  - destruct Fa_ as [-> Hl], Fb_ as [Xb Eb]. split; [exact (multi_intersect_atom_exact la b x Hl Xb Eb r H)|exact (multi_intersect_atom_F la b r Hl (conj Xb Eb) H)].
  - destruct Fa_ as [-> Hl], Fb_ as [_ Hl']. split; [exact (multi_intersect_multi_exact la lb x r H)|exact (multi_intersect_multi_F la lb r Hl Hl' H)].
Qed.

(* ---- member-level joins on the fragment ---- *)
Lemma no_substr l : all_ne l = true -> existsb is_substr_op l = false.
Proof.
  intros H. apply not_true_iff_false. intros E. apply existsb_exists in E. destruct E as [a [Ha S]].
  destruct (all_ne_in l a H Ha) as [O _]. unfold is_substr_op in S. rewrite O in S. discriminate.
Qed.
Lemma atom_in_ne a l : all_ne l = true -> aop a = GNe -> ax a = false -> atom_in a l = value_in (av a) l.
Proof.
  intros Hl O X. unfold atom_in, value_in. induction l as [|c l IH]; [reflexivity|]. cbn [existsb].
  destruct (all_ne_in (c :: l) c Hl (or_introl eq_refl)) as [Oc _].
  assert (Hl' : all_ne l = true) by (unfold all_ne in *; cbn [forallb] in Hl; apply andb_true_iff in Hl; tauto).
  rewrite (IH Hl'). unfold atom_eqb. rewrite X, O, Oc. cbn. rewrite andb_true_r. reflexivity.
Qed.
Lemma value_in_filter_ne v w l : value_in v (filter (fun c => negb (String.eqb (av c) w)) l) = value_in v l && negb (String.eqb v w).
Proof.
  unfold value_in. induction l as [|c l IH]; [reflexivity|]. cbn [filter existsb].
  destruct (String.eqb_spec (av c) w) as [E|E]; cbn [negb existsb].
  - rewrite IH. destruct (String.eqb_spec v (av c)) as [E2|E2].
    + subst. rewrite String.eqb_refl. cbn. destruct (existsb _ l); reflexivity.
    + cbn. reflexivity.
  - rewrite IH. destruct (String.eqb_spec v (av c)) as [E2|E2]; [|reflexivity].
    subst v. cbn. destruct (String.eqb_spec (av c) w); [contradiction|]. reflexivity.
Qed.

Theorem multi_union_multi_F x l l' u : all_ne l = true -> all_ne l' = true ->
  multi_union_multi false l l' = Ok u ->
  sat u x = forallb (fun a => atom_sat a x) l || forallb (fun a => atom_sat a x) l'.
Proof.
  intros Hl Hl' H. unfold multi_union_multi in H. cbn [negb andb] in H.
  rewrite existsb_app, (no_substr l Hl), (no_substr l' Hl') in H. cbn [orb] in H.
  set (common := filter (fun c => atom_in c l') l) in *.
  assert (Hc : all_ne common = true) by (apply all_ne_filter; exact Hl).
  assert (Vc : value_in x common = value_in x l && value_in x l').
  { unfold common, value_in. clear H Hc. induction l as [|c l IH]; [reflexivity|]. cbn [filter existsb].
    destruct (all_ne_in (c :: l) c Hl (or_introl eq_refl)) as [Oc Xc].
    assert (Hl0 : all_ne l = true) by (unfold all_ne in *; cbn [forallb] in Hl; apply andb_true_iff in Hl; tauto).
    rewrite (atom_in_ne c l' Hl' Oc Xc). unfold value_in. destruct (existsb (fun c0 => String.eqb (av c) (av c0)) l') eqn:I; cbn [existsb].
    - rewrite (IH Hl0). destruct (String.eqb_spec x (av c)) as [->|N]; [rewrite I; cbn; destruct (existsb _ l); reflexivity|reflexivity].
    - rewrite (IH Hl0). destruct (String.eqb_spec x (av c)) as [->|N]; [rewrite I; cbn; rewrite andb_false_r; reflexivity|reflexivity]. }
  rewrite (ne_sat l x Hl), (ne_sat l' x Hl'). destruct common as [|c0 cs] eqn:Ec.
  - injection H as <-. cbn [sat gs_sat]. cbn in Vc. destruct (value_in x l), (value_in x l'); try reflexivity; discriminate.
  - destruct (mk_multi false (c0 :: cs)) as [m|] eqn:Hm; [|discriminate]. cbn [bind] in H. injection H as <-.
    unfold mk_multi in Hm. destruct (multi_ops_ok false (c0 :: cs)); [|discriminate]. injection Hm as <-. cbn [sat gs_sat].
    rewrite (ne_sat _ x Hc), Vc. destruct (value_in x l), (value_in x l'); reflexivity.
Qed.

Theorem multi_union_atom_F x l b u : all_ne l = true -> Fa b ->
  multi_union_atom false l b = Ok u ->
  sat u x = forallb (fun a => atom_sat a x) l || atom_sat b x.
Proof.
  intros Hl [Xb Eb] H. unfold multi_union_atom in H. cbn [negb andb] in H.
  assert (Sb : is_substr_op b = false) by (unfold is_substr_op, eqne in *; destruct (aop b); try discriminate; reflexivity).
  rewrite existsb_app, (no_substr l Hl) in H. cbn [existsb orb] in H. rewrite Sb in H. cbn [orb] in H.
  rewrite (ne_sat l x Hl).
  destruct (atom_in b l) eqn:I.
  { injection H as <-. cbn [sat gs_sat]. destruct (atom_in_spec b l I Xb) as [c [Hc [Hv Ho]]]. destruct (all_ne_in l c Hl Hc) as [Oc _].
    unfold atom_sat. rewrite Ho, Oc. destruct (String.eqb_spec x (av b)) as [->|N]; cbn; [|rewrite orb_true_r; reflexivity].
    assert (Q : value_in (av b) l = true) by (unfold value_in; apply existsb_exists; exists c; split; [exact Hc|rewrite Hv; apply String.eqb_refl]).
    rewrite Q. reflexivity. }
  destruct (value_in (av b) l) eqn:Vb; cbn [negb] in H.
  - (* b is '== v' with v among the excluded values *)
    assert (Ob : aop b = GEq).
    { unfold eqne in Eb. destruct (aop b) eqn:O; try discriminate; [reflexivity|]. rewrite (atom_in_ne b l Hl O Xb), Vb in I. discriminate. }
    set (cs := filter (fun c => negb (String.eqb (av c) (av b))) l) in *.
    assert (Hcs : all_ne cs = true) by (apply all_ne_filter; exact Hl).
    assert (Final : negb (value_in x cs) = negb (value_in x l) || atom_sat b x).
    { unfold cs. rewrite value_in_filter_ne. unfold atom_sat. rewrite Ob. destruct (String.eqb_spec x (av b)) as [->|N]; cbn; [rewrite Vb; reflexivity|].
      rewrite andb_true_r, orb_false_r. reflexivity. }
    destruct cs as [|c [|c' r']] eqn:Ecs.
    + destruct (mk_multi false []) as [m|] eqn:Hm; [|discriminate]. cbn [bind] in H. injection H as <-. unfold mk_multi in Hm. cbn in Hm. injection Hm as <-.
      cbn [sat gs_sat forallb]. cbn in Final. exact Final.
    + injection H as <-. cbn [sat gs_sat]. rewrite <- Final. rewrite <- (ne_sat [c] x Hcs). cbn. rewrite andb_true_r. reflexivity.
    + destruct (mk_multi false (c :: c' :: r')) as [m|] eqn:Hm; [|discriminate]. cbn [bind] in H. injection H as <-.
      unfold mk_multi in Hm. destruct (multi_ops_ok false _); [|discriminate]. injection Hm as <-. cbn [sat gs_sat].
      rewrite (ne_sat _ x Hcs). exact Final.
  - destruct (gop_eqb (aop b) GNe) eqn:Ob; injection H as <-; cbn [sat gs_sat].
    + assert (O : aop b = GNe) by (destruct (aop b); try discriminate; reflexivity). unfold atom_sat. rewrite O.
      destruct (String.eqb_spec x (av b)) as [->|N]; cbn; [rewrite Vb; reflexivity|rewrite orb_true_r; reflexivity].
    + assert (O : aop b = GEq) by (unfold eqne in Eb; destruct (aop b); try discriminate; reflexivity). rewrite (ne_sat l x Hl). unfold atom_sat. rewrite O.
      destruct (String.eqb_spec x (av b)) as [->|N]; cbn; [rewrite Vb; reflexivity|rewrite orb_false_r; reflexivity].
Qed.

Theorem gs_union_F x a b u : Fs a -> Fs b -> gs_union a b = Ok u -> sat u x = gs_sat a x || gs_sat b x.
Proof.
  intros Fa_ Fb_ H. destruct a as [| |a|ma la], b as [| |b|mb lb]; cbn [gs_union] in H;
    try (injection H as <-; cbn; rewrite ?orb_true_r, ?orb_false_r; reflexivity).
  - destruct Fa_ as [Xa Ea], Fb_ as [Xb Eb]. exact (atom_union_exact a b x Xa Xb Ea Eb u H).
  - destruct Fb_ as [-> Hl]. rewrite (multi_union_atom_F x lb a u Hl Fa_ H). cbn [gs_sat]. apply orb_comm.
  - destruct Fa_ as [-> Hl]. exact (multi_union_atom_F x la b u Hl Fb_ H).
  - destruct Fa_ as [-> Hl], Fb_ as [_ Hl']. exact (multi_union_multi_F x la lb u Hl Hl' H).
Qed.

(* ---------- the constraint level on the fragment ---------- *)
Definition Fc (c : gc) : Prop := match c with GS s => Fs s | GU l => Forall Fs l /\ l <> [] end.

Theorem g_intersect_F x a b r : Fc a -> Fc b -> g_intersect a b = Ok r -> sat r x = sat a x && sat b x.
Proof.
  intros Fa_ Fb_ H.
  assert (UI : forall l other, Forall Fs l -> (match other with GS s => Fs s | GU l' => Forall Fs l' end) ->
                union_intersect l other = Ok r -> sat r x = existsb (fun s => gs_sat s x) l && sat other x).
  { intros l other Pl Po. exact (union_intersect_exact x Fs (gs_intersect_F x) Fs_atom l other r Pl Po). }
  destruct a as [sa|la].
  - destruct b as [sb|lb].
    + destruct sa as [| |a|ma la]; cbn [g_intersect] in H;
        try (injection H as <-; cbn; rewrite ?andb_false_r; reflexivity).
      * destruct (gs_intersect (SAtom a) sb) as [r'|] eqn:Hr; [|discriminate]. cbn [bind] in H. injection H as <-.
        exact (proj1 (gs_intersect_F x _ _ _ Fa_ Fb_ Hr)).
      * destruct (gs_intersect (SMulti ma la) sb) as [r'|] eqn:Hr; [|discriminate]. cbn [bind] in H. injection H as <-.
        exact (proj1 (gs_intersect_F x _ _ _ Fa_ Fb_ Hr)).
    + destruct Fb_ as [Pl _].
      destruct sa as [| |a|ma la]; cbn [g_intersect] in H;
        try (injection H as <-; cbn; rewrite ?andb_false_r; reflexivity);
        (match type of H with union_intersect _ ?o = _ => rewrite (UI lb o Pl Fa_ H) end); apply andb_comm.
  - destruct Fa_ as [Pl _]. cbn [g_intersect] in H. apply (UI la b Pl); [|exact H]. destruct b as [sb|lb]; [exact Fb_|exact (proj1 Fb_)].
Qed.

Theorem g_union_F x a b r : Fc a -> Fc b -> g_union a b = Ok r -> sat r x = sat a x || sat b x.
Proof.
  intros Fa_ Fb_ H.
  assert (UU : forall l other, l <> [] -> Forall Fs l -> (match other with GS s => Fs s | GU l' => Forall Fs l' /\ l' <> [] end) ->
                union_union l other = Ok r -> sat r x = existsb (fun s => gs_sat s x) l || sat other x).
  { intros l other Nl Pl Po. exact (union_union_exact x Fs (gs_union_F x) l other r Nl Pl Po). }
  destruct a as [sa|la].
  - destruct b as [sb|lb].
    + destruct sa as [| |a|ma la]; cbn [g_union] in H;
        try (injection H as <-; cbn; rewrite ?orb_false_r; reflexivity);
        exact (gs_union_F x _ _ _ Fa_ Fb_ H).
    + destruct Fb_ as [Pl Nl].
      destruct sa as [| |a|ma la]; cbn [g_union] in H;
        try (injection H as <-; cbn; rewrite ?orb_false_r; reflexivity).
      * rewrite (UU [SAtom a] (GU lb)); [cbn; rewrite orb_false_r; reflexivity | discriminate | constructor; [exact Fa_|constructor] | split; assumption | exact H].
      * rewrite (UU lb (GS (SMulti ma la)) Nl Pl Fa_ H). apply orb_comm.
  - destruct Fa_ as [Pl Nl]. cbn [g_union] in H. exact (UU la b Nl Pl Fb_ H).
Qed.

(* inversion, every shape (no fragment restriction: De Morgan over clauses; a union with a non-clause member is refused) *)
Theorem g_invert_exact x c r : g_invert c = Ok r -> sat r x = negb (sat c x).
Proof.
  destruct c as [[| |a|mx l]|l]; cbn [g_invert gs_invert]; intros H.
  - injection H as <-. reflexivity.
  - injection H as <-. reflexivity.
  - injection H as <-. cbn [sat gs_sat]. apply atom_invert_sat.
  - exact (multi_invert_exact mx l x r H).
  - destruct (mapR _ l) as [inv|] eqn:Hm; [|discriminate]. cbn [bind] in H.
    destruct (mk_multi (existsb ax inv) inv) as [m|] eqn:Hk; [|discriminate]. cbn [bind] in H. injection H as <-.
    unfold mk_multi in Hk. destruct (multi_ops_ok _ inv); [|discriminate]. injection Hk as <-. cbn [sat gs_sat].
    revert inv Hm. induction l as [|s l IH]; intros inv Hm; cbn [mapR] in Hm.
    + injection Hm as <-. reflexivity.
    + destruct s as [| |a|]; try discriminate. cbn [bind] in Hm. destruct (mapR _ l) as [inv'|] eqn:Hm'; [|discriminate]. cbn [bind] in Hm.
      injection Hm as <-. cbn [forallb existsb gs_sat]. rewrite (IH inv' eq_refl), atom_invert_sat, negb_orb. reflexivity.
Qed.
