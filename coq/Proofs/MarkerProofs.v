(* C06/C07/C10/C13/C17: evaluation of markers as Boolean formulas over leaf valuations; inversion is
   complementation; the constructors' flattening keeps the meaning; projections only weaken; name
   normalisation is idempotent. *)
From Coq Require Import List Bool NArith String Ascii Lia.
From PC Require Import Base.Cmp Base.Result Model.Pep440 Model.VConstraint Model.Generic Model.Marker
     Spec.Specifier Proofs.GenericProofs Proofs.SpecifierAgree Proofs.VersionFacts.
Import ListNotations.
Open Scope string_scope.

(* induction principle for the nested type *)
Section MarkerInd.
  Variable P : marker -> Prop.
  Hypothesis HA : P MAny.
  Hypothesis HE : P MEmpty.
  Hypothesis HS : forall l, P (MSingle l).
  Hypothesis HAM : forall n a, P (MAtomicMulti n a).
  Hypothesis HAU : forall n a, P (MAtomicUnion n a).
  Hypothesis HM : forall l, Forall P l -> P (MMulti l).
  Hypothesis HU : forall l, Forall P l -> P (MUnion l).
  Fixpoint marker_ind' (m : marker) : P m :=
    match m with
    | MAny => HA | MEmpty => HE | MSingle l => HS l
    | MAtomicMulti n a => HAM n a | MAtomicUnion n a => HAU n a
    | MMulti l => HM l ((fix go (l : list marker) : Forall P l :=
                           match l with [] => Forall_nil P | x :: r => Forall_cons x (marker_ind' x) (go r) end) l)
    | MUnion l => HU l ((fix go (l : list marker) : Forall P l :=
                           match l with [] => Forall_nil P | x :: r => Forall_cons x (marker_ind' x) (go r) end) l)
    end.
End MarkerInd.

(* ---------- validate as a Boolean formula ---------- *)
Section Beval.
  Variable E : env.
  (* the value of one leaf-like (name, constraint) in E; errors count as false here and are excluded by [leaves_ok] *)
  Definition lval (name : string) (con : mcon) : bool :=
    match validate_con name con E with Ok b => b | Err _ => false end.
  Definition lok (name : string) (con : mcon) : bool :=
    match validate_con name con E with Ok _ => true | Err _ => false end.
  Fixpoint beval (m : marker) : bool :=
    match m with
    | MAny => true
    | MEmpty => false
    | MSingle l => lval (l_name l) (l_con l)
    | MAtomicMulti name atoms =>
      if String.eqb name "extra" then forallb (fun a => lval name (atom_leaf_con a)) atoms
      else lval name (CG (GS (SMulti false atoms)))
    | MAtomicUnion name atoms =>
      if String.eqb name "extra" then existsb (fun a => lval name (atom_leaf_con a)) atoms
      else lval name (CG (GU (map SAtom atoms)))
    | MMulti l => forallb beval l
    | MUnion l => existsb beval l
    end.
  Fixpoint leaves_ok (m : marker) : bool :=
    match m with
    | MAny | MEmpty => true
    | MSingle l => lok (l_name l) (l_con l)
    | MAtomicMulti name atoms =>
      if String.eqb name "extra" then forallb (fun a => lok name (atom_leaf_con a)) atoms
      else lok name (CG (GS (SMulti false atoms)))
    | MAtomicUnion name atoms =>
      if String.eqb name "extra" then forallb (fun a => lok name (atom_leaf_con a)) atoms
      else lok name (CG (GU (map SAtom atoms)))
    | MMulti l | MUnion l => forallb leaves_ok l
    end.

  Lemma lval_ok name con : lok name con = true -> validate_con name con E = Ok (lval name con).
  Proof. unfold lok, lval. destruct (validate_con name con E); [reflexivity|discriminate]. Qed.
  Lemma allR_ok {A} (f : A -> res bool) (g : A -> bool) l :
    (forall a, In a l -> f a = Ok (g a)) -> allR (map f l) = Ok (forallb g l).
  Proof.
    induction l as [|a l IH]; intros H; [reflexivity|]. cbn [map allR forallb].
    rewrite (H a (or_introl eq_refl)). cbn [bind]. destruct (g a); [apply IH; intros; apply H; right; assumption|reflexivity].
  Qed.
  Lemma anyR_ok {A} (f : A -> res bool) (g : A -> bool) l :
    (forall a, In a l -> f a = Ok (g a)) -> anyR (map f l) = Ok (existsb g l).
  Proof.
    induction l as [|a l IH]; intros H; [reflexivity|]. cbn [map anyR existsb].
    rewrite (H a (or_introl eq_refl)). cbn [bind]. destruct (g a); [reflexivity|apply IH; intros; apply H; right; assumption].
  Qed.

  (* when no leaf raises, validate is the Boolean formula *)
  Theorem validate_beval : forall m, leaves_ok m = true -> validate m E = Ok (beval m).
  Proof.
    induction m as [| |l|name atoms|name atoms|ms IH|ms IH] using marker_ind'; intros H; cbn [validate beval leaves_ok] in *.
    - reflexivity.
    - reflexivity.
    - apply lval_ok; exact H.
    - destruct (String.eqb name "extra").
      + apply allR_ok. intros a Ha. apply lval_ok. rewrite forallb_forall in H. auto.
      + apply lval_ok; exact H.
    - destruct (String.eqb name "extra").
      + apply anyR_ok. intros a Ha. apply lval_ok. rewrite forallb_forall in H. auto.
      + apply lval_ok; exact H.
    - apply allR_ok. intros a Ha. rewrite Forall_forall in IH. apply IH; [exact Ha|]. rewrite forallb_forall in H. auto.
    - apply anyR_ok. intros a Ha. rewrite Forall_forall in IH. apply IH; [exact Ha|]. rewrite forallb_forall in H. auto.
  Qed.

  (* ---------- inversion ---------- *)
  (* atomic markers on a single-valued variable: AtomicMultiMarker <-> AtomicMarkerUnion of the inverted clauses *)
  Lemma lval_generic name c : String.eqb name "extra" = false ->
    forall v, lookup name (e_vars E) = Some v -> lval name (CG c) = sat c v.
  Proof. intros Hn v Hv. unfold lval, validate_con. rewrite Hn, Hv. reflexivity. Qed.
  Theorem invert_atomic_multi name atoms v :
    String.eqb name "extra" = false -> lookup name (e_vars E) = Some v ->
    beval (MAtomicUnion name (map atom_invert atoms)) = negb (beval (MAtomicMulti name atoms)).
  Proof.
    intros Hn Hv. cbn [beval]. rewrite Hn, !(lval_generic name _ Hn v Hv). cbn [sat gs_sat].
    rewrite map_map, existsb_map'. cbn [gs_sat]. rewrite <- existsb_negb_forallb.
    apply existsb_ext_in'. intros a _. apply atom_invert_sat.
  Qed.
  (* extras: the value is the set of active extras *)
  Lemma lval_extra a act : e_extras E = Some act -> eqne a = true ->
    lval "extra" (atom_leaf_con a) = atom_xsat (mkA (canon_name (av a)) (aop a) (ax a)) (map canon_name act).
  Proof.
    intros He Ha. unfold lval, validate_con, atom_leaf_con. cbn. rewrite He. unfold eqne in Ha.
    unfold atom_xsat; cbn [aop av]. destruct (aop a); try discriminate; reflexivity.
  Qed.
  Theorem invert_atomic_multi_extra atoms act :
    e_extras E = Some act -> forallb eqne atoms = true ->
    beval (MAtomicUnion "extra" (map atom_invert atoms)) = negb (beval (MAtomicMulti "extra" atoms)).
  Proof.
    intros He Hl. cbn [beval String.eqb Ascii.eqb Bool.eqb]. cbn.
    rewrite existsb_map', <- existsb_negb_forallb. apply existsb_ext_in'. intros a Ha.
    rewrite forallb_forall in Hl. specialize (Hl a Ha).
    assert (Hi : eqne (atom_invert a) = true) by (unfold eqne, atom_invert in *; cbn; destruct (aop a); try discriminate; reflexivity).
    rewrite (lval_extra _ act He Hi), (lval_extra _ act He Hl). unfold atom_invert; cbn [av aop ax].
    unfold atom_xsat; cbn [aop av]. unfold eqne in Hl. destruct (aop a); try discriminate; cbn; rewrite ?negb_involutive; reflexivity.
  Qed.
  (* De Morgan for the compound classes, given the inverses of the members *)
  Theorem invert_multi_structure l inv :
    Forall2 (fun m i => beval i = negb (beval m)) l inv ->
    beval (MUnion inv) = negb (beval (MMulti l)).
  Proof.
    induction 1 as [|m i l inv H _ IH]; [reflexivity|]. cbn [beval existsb forallb] in *.
    rewrite H, IH. destruct (beval m); reflexivity.
  Qed.
  Theorem invert_union_structure l inv :
    Forall2 (fun m i => beval i = negb (beval m)) l inv ->
    beval (MMulti inv) = negb (beval (MUnion l)).
  Proof.
    induction 1 as [|m i l inv H _ IH]; [reflexivity|]. cbn [beval existsb forallb] in *.
    rewrite H, IH. destruct (beval m); reflexivity.
  Qed.

  (* ---------- the constructors' flattening and de-duplication keep the meaning ---------- *)
  Hypothesis key_determines : forall a b, marker_eqb a b = true -> beval a = beval b.
  Lemma add_unique_or acc m : existsb beval (add_unique acc m) = existsb beval acc || beval m.
  Proof.
    unfold add_unique. destruct (marker_in m acc) eqn:I.
    - unfold marker_in in I. apply existsb_exists in I. destruct I as [x [Hx Ex]].
      rewrite (key_determines _ _ Ex).
      destruct (beval x) eqn:Bx; [|rewrite orb_false_r; reflexivity].
      rewrite orb_true_r. apply existsb_exists. exists x. auto.
    - rewrite existsb_app. cbn. rewrite orb_false_r. reflexivity.
  Qed.
  Lemma add_unique_and acc m : forallb beval (add_unique acc m) = forallb beval acc && beval m.
  Proof.
    unfold add_unique. destruct (marker_in m acc) eqn:I.
    - unfold marker_in in I. apply existsb_exists in I. destruct I as [x [Hx Ex]].
      rewrite (key_determines _ _ Ex).
      destruct (forallb beval acc) eqn:F; [|reflexivity]. rewrite forallb_forall in F. rewrite (F x Hx). reflexivity.
    - rewrite forallb_app. cbn. rewrite andb_true_r. reflexivity.
  Qed.
  Lemma fold_add_unique_or sub acc :
    existsb beval (fold_left add_unique sub acc) = existsb beval acc || existsb beval sub.
  Proof.
    revert acc; induction sub as [|x sub IH]; intros acc; cbn [fold_left existsb]; [rewrite orb_false_r; reflexivity|].
    rewrite IH, add_unique_or, orb_assoc. reflexivity.
  Qed.
  Lemma fold_add_unique_and sub acc :
    forallb beval (fold_left add_unique sub acc) = forallb beval acc && forallb beval sub.
  Proof.
    revert acc; induction sub as [|x sub IH]; intros acc; cbn [fold_left forallb]; [rewrite andb_true_r; reflexivity|].
    rewrite IH, add_unique_and, andb_assoc. reflexivity.
  Qed.
  Theorem flatten_union_sound l : beval (mk_union_marker l) = beval (MUnion l).
  Proof.
    unfold mk_union_marker, flatten_union. cbn [beval].
    assert (G : forall acc, existsb beval (fold_left (fun acc m => match m with MUnion sub => fold_left add_unique sub acc | _ => add_unique acc m end) l acc)
                            = existsb beval acc || existsb beval l).
    { induction l as [|m l IH]; intros acc; cbn [fold_left existsb]; [rewrite orb_false_r; reflexivity|].
      rewrite IH. destruct m; rewrite ?add_unique_or, ?fold_add_unique_or; cbn [beval]; rewrite orb_assoc; reflexivity. }
    rewrite G. reflexivity.
  Qed.
  Theorem flatten_multi_sound l : beval (mk_multi_marker l) = beval (MMulti l).
  Proof.
    unfold mk_multi_marker, flatten_multi. cbn [beval].
    assert (G : forall acc, forallb beval (fold_left (fun acc m => match m with MMulti sub => fold_left add_unique sub acc | _ => add_unique acc m end) l acc)
                            = forallb beval acc && forallb beval l).
    { induction l as [|m l IH]; intros acc; cbn [fold_left forallb]; [rewrite andb_true_r; reflexivity|].
      rewrite IH. destruct m; rewrite ?add_unique_and, ?fold_add_unique_and; cbn [beval]; rewrite andb_assoc; reflexivity. }
    rewrite G. reflexivity.
  Qed.
End Beval.

(* ---------- projections only weaken (on the unsimplified structure) ---------- *)
Definition marker_name (m : marker) : option string :=
  match m with MSingle l => Some (l_name l) | MAtomicMulti n _ | MAtomicUnion n _ => Some n | _ => None end.
Fixpoint only_raw (names : list string) (m : marker) : marker :=
  match m with
  | MMulti l => MMulti (map (only_raw names) l)
  | MUnion l => MUnion (map (only_raw names) l)
  | _ => match marker_name m with
         | Some n => if mem_str n names then m else MAny
         | None => m end
  end.
Theorem only_raw_weakens E names : forall m, beval E m = true -> beval E (only_raw names m) = true.
Proof.
  induction m as [| |l|name atoms|name atoms|ms IH|ms IH] using marker_ind'; intros H; cbn [only_raw marker_name]; try exact H;
    try rewrite Forall_forall in IH.
  - destruct (mem_str (l_name l) names); [exact H|reflexivity].
  - destruct (mem_str name names); [exact H|reflexivity].
  - destruct (mem_str name names); [exact H|reflexivity].
  - cbn [beval] in *. rewrite forallb_forall in *. intros x Hx. apply in_map_iff in Hx. destruct Hx as [y [<- Hy]]. apply IH; [exact Hy|apply H, Hy].
  - cbn [beval] in *. apply existsb_exists in H. destruct H as [y [Hy By]]. apply existsb_exists.
    exists (only_raw names y). split; [apply in_map; exact Hy|apply IH; assumption].
Qed.
Fixpoint names_of (m : marker) : list string :=
  match m with
  | MMulti l | MUnion l => flat_map names_of l
  | _ => match marker_name m with Some n => [n] | None => [] end
  end.
Theorem only_raw_names names : forall m n, In n (names_of (only_raw names m)) -> mem_str n names = true.
Proof.
  induction m as [| |l|name atoms|name atoms|ms IH|ms IH] using marker_ind'; intros n H; cbn [only_raw marker_name names_of] in H; try (destruct H; fail);
    try rewrite Forall_forall in IH.
  - destruct (mem_str (l_name l) names) eqn:E; cbn in H; [destruct H as [<-|[]]; exact E|destruct H].
  - destruct (mem_str name names) eqn:E; cbn in H; [destruct H as [<-|[]]; exact E|destruct H].
  - destruct (mem_str name names) eqn:E; cbn in H; [destruct H as [<-|[]]; exact E|destruct H].
  - cbn [names_of] in H. apply in_flat_map in H. destruct H as [x [Hx Hn]]. apply in_map_iff in Hx. destruct Hx as [y [<- Hy]]. eapply IH; eauto.
  - cbn [names_of] in H. apply in_flat_map in H. destruct H as [x [Hx Hn]]. apply in_map_iff in Hx. destruct Hx as [y [<- Hy]]. eapply IH; eauto.
Qed.

(* ---------- name normalisation (PEP 503 / 685) ---------- *)
Definition is_normal_char (c : ascii) : bool := negb (is_sep c) && negb (is_upper c) || (code c =? 45)%N.
Lemma lower_lower c : lower (lower c) = lower c.
Proof.
  unfold lower. destruct (is_upper c) eqn:U; [|rewrite U; reflexivity].
  assert (H : is_upper (ascii_of_N (code c + 32)) = false).
  { unfold is_upper, code in *. rewrite N_ascii_embedding.
    - apply andb_true_iff in U. destruct U as [U1 U2]. apply N.leb_le in U1, U2. apply andb_false_iff. right. apply N.leb_gt. lia.
    - apply andb_true_iff in U. destruct U as [U1 U2]. apply N.leb_le in U2. lia. }
  rewrite H. reflexivity.
Qed.
Lemma lower_not_sep c : is_sep c = false -> is_sep (lower c) = false.
Proof.
  unfold lower. destruct (is_upper c) eqn:U; [|auto]. intros _.
  unfold is_upper, is_sep, code in *. apply andb_true_iff in U. destruct U as [U1 U2]. apply N.leb_le in U1, U2.
  rewrite N_ascii_embedding by lia.
  repeat (apply orb_false_iff; split); apply N.eqb_neq; lia.
Qed.
Lemma dash_is_sep : is_sep "-"%char = true. Proof. reflexivity. Qed.
Lemma lower_dash : lower "-"%char = "-"%char. Proof. reflexivity. Qed.
Theorem canon_chars_idem : forall l p, canon_chars p (canon_chars p l) = canon_chars p l.
Proof.
  induction l as [|c l IH]; intros p; [reflexivity|]. cbn [canon_chars].
  destruct (is_sep c) eqn:S.
  - destruct p.
    + apply IH.
    + cbn [canon_chars]. rewrite dash_is_sep. f_equal. apply IH.
  - cbn [canon_chars]. rewrite (lower_not_sep c S), lower_lower. f_equal. apply IH.
Qed.
Theorem canon_name_idempotent s : canon_name (canon_name s) = canon_name s.
Proof.
  unfold canon_name, lchars. rewrite list_ascii_of_string_of_list_ascii, canon_chars_idem. reflexivity.
Qed.

(* ---------- leaves: what a version / string / extra leaf evaluates to ---------- *)
Lemma validate_version_leaf E name r value c :
  String.eqb name "extra" = false -> lookup name (e_vars E) = Some value ->
  parse_constraint_text true (negb (String.eqb name "platform_release")) value = Ok (VOne (RV c)) ->
  validate_con name (CV (VOne r)) E = Ok (r_allows r c).
Proof. intros Hn Hv Hp. unfold validate_con. rewrite Hn, Hv, Hp. reflexivity. Qed.
(* python_version >= "L", <= "L", == "L", > "L", < "L" against the environment's version c *)
Theorem leaf_ge E name l value c :
  String.eqb name "extra" = false -> lookup name (e_vars E) = Some value ->
  parse_constraint_text true (negb (String.eqb name "platform_release")) value = Ok (VOne (RV c)) ->
  is_local l = false ->
  validate_con name (CV (VOne (RR (Some l) None true false))) E = Ok (sp_ge l c).
Proof. intros Hn Hv Hp Hl. rewrite (validate_version_leaf E name _ value c Hn Hv Hp), ge_agrees by assumption. reflexivity. Qed.
Theorem leaf_le E name l value c :
  String.eqb name "extra" = false -> lookup name (e_vars E) = Some value ->
  parse_constraint_text true (negb (String.eqb name "platform_release")) value = Ok (VOne (RV c)) ->
  is_local l = false ->
  validate_con name (CV (VOne (RR None (Some l) false true))) E = Ok (sp_le l c).
Proof. intros Hn Hv Hp Hl. rewrite (validate_version_leaf E name _ value c Hn Hv Hp), le_agrees by assumption. reflexivity. Qed.
Theorem leaf_eq E name l value c :
  String.eqb name "extra" = false -> lookup name (e_vars E) = Some value ->
  parse_constraint_text true (negb (String.eqb name "platform_release")) value = Ok (VOne (RV c)) ->
  validate_con name (CV (VOne (RV l))) E = Ok (sp_eq l c).
Proof. intros Hn Hv Hp. rewrite (validate_version_leaf E name _ value c Hn Hv Hp), eq_agrees. reflexivity. Qed.
Theorem leaf_gt_final E name l value c :
  String.eqb name "extra" = false -> lookup name (e_vars E) = Some value ->
  parse_constraint_text true (negb (String.eqb name "platform_release")) value = Ok (VOne (RV c)) ->
  Pep440Spec.wf l = true -> Pep440Spec.wf c = true -> is_final l = true ->
  validate_con name (CV (VOne (RR (Some l) None false false))) E = Ok (sp_gt l c).
Proof. intros Hn Hv Hp Wl Wc Fl. rewrite (validate_version_leaf E name _ value c Hn Hv Hp), gt_final_agrees by assumption. reflexivity. Qed.
Theorem leaf_lt_final E name l value c :
  String.eqb name "extra" = false -> lookup name (e_vars E) = Some value ->
  parse_constraint_text true (negb (String.eqb name "platform_release")) value = Ok (VOne (RV c)) ->
  Pep440Spec.wf l = true -> Pep440Spec.wf c = true -> is_final l = true ->
  validate_con name (CV (VOne (RR None (Some l) false false))) E = Ok (sp_lt l c).
Proof. intros Hn Hv Hp Wl Wc Fl. rewrite (validate_version_leaf E name _ value c Hn Hv Hp), lt_final_agrees by assumption. reflexivity. Qed.
(* string variables: == / != compare the environment value literally; in / not in by token *)
Theorem leaf_string E name c value :
  String.eqb name "extra" = false -> lookup name (e_vars E) = Some value ->
  validate_con name (CG c) E = Ok (sat c value).
Proof. intros Hn Hv. unfold validate_con. rewrite Hn, Hv. reflexivity. Qed.
(* extra: membership of the normalised name in the normalised set of active extras *)
Theorem leaf_extra E v op act :
  e_extras E = Some act ->
  validate_con "extra" (CG (GS (SAtom (mkA v op true)))) E =
  match op with
  | GEq => Ok (mem_str (canon_name v) (map canon_name act))
  | GNe => Ok (negb (mem_str (canon_name v) (map canon_name act)))
  | _ => Err EAssert
  end.
Proof. intros He. unfold validate_con. cbn. rewrite He. cbn. destruct op; reflexivity. Qed.

(* names differing in case, in the separator used, or in the length of a separator run share one normal form *)
Lemma is_sep_lower c : is_sep (lower c) = is_sep c.
Proof.
  destruct (is_sep c) eqn:S; [|apply lower_not_sep; exact S].
  unfold lower. destruct (is_upper c) eqn:U; [|exact S]. exfalso.
  unfold is_sep, is_upper, code in *. apply andb_true_iff in U. destruct U as [U1 U2]. apply N.leb_le in U1, U2.
  repeat (apply orb_true_iff in S; destruct S as [S|S]); apply N.eqb_eq in S; lia.
Qed.
Theorem canon_case_insensitive : forall l p, canon_chars p (map lower l) = canon_chars p l.
Proof.
  induction l as [|c l IH]; intros p; [reflexivity|]. cbn [map canon_chars]. rewrite is_sep_lower.
  destruct (is_sep c); [destruct p; rewrite IH; reflexivity|]. rewrite lower_lower, IH. reflexivity.
Qed.
Theorem canon_separator_runs s1 s2 l p : is_sep s1 = true -> is_sep s2 = true ->
  canon_chars p (s1 :: s2 :: l) = canon_chars p (s1 :: l) /\ canon_chars p (s1 :: l) = canon_chars p ("-"%char :: l).
Proof. intros H1 H2. cbn [canon_chars]. rewrite H1, H2, dash_is_sep. destruct p; split; reflexivity. Qed.
