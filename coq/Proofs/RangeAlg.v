(* Range level, tier A: what the bound comparisons of version_range_constraint.py mean for regular
   probes, by the finite rank embedding (Base/RankEmbed.v) and lia. *)
From Coq Require Import List Bool NArith ZArith String Ascii Lia ZifyBool.
From PC Require Import Base.Cmp Base.Result Base.RankEmbed Model.Pep440 Spec.Pep440Spec Proofs.Pep440Order
     Proofs.VersionFacts Model.VConstraint Proofs.RangeSpec.
Import ListNotations.

Ltac inl := simpl; tauto.
(* rewrite every order atom between members of l into integer comparisons *)
Ltac to_Z l :=
  repeat match goal with
  | H : context [vltb ?x ?y] |- _ => rewrite (proj1 (vembed l x y ltac:(inl) ltac:(inl))) in H
  | |- context [vltb ?x ?y] => rewrite (proj1 (vembed l x y ltac:(inl) ltac:(inl)))
  | H : context [clt ?x ?y] |- _ => rewrite (proj1 (proj2 (vembed l x y ltac:(inl) ltac:(inl)))) in H
  | |- context [clt ?x ?y] => rewrite (proj1 (proj2 (vembed l x y ltac:(inl) ltac:(inl))))
  end.
Ltac bounds_of l x :=
  let B := fresh "B" in
  pose proof (proj2 (proj2 (vembed l x x ltac:(inl) ltac:(inl)))) as B.
Ltac norm_order := rewrite ?vgtb_ltb, ?veqb_ltb, ?same_class_clt in *.

Open Scope Z_scope.

(* ---- lower bounds ---- *)
Lemma allows_lower_spec a b v :
  regular_r v a = true -> regular_r v b = true ->
  (allows_lower a b = true -> above b v = true -> above a v = true) /\
  (allows_lower a b = false -> above a v = true -> above b v = true).
Proof.
  unfold regular_r, rbounds, allows_lower, above.
  destruct (rmin a) as [x|], (rmin b) as [y|]; cbn [obounds app forallb is_some];
    rewrite ?forallb_app, ?andb_true_iff; cbn [forallb]; intros Ra Rb; split; intros H; try discriminate; auto.
  all: try (intros _; reflexivity).
  all: set (l := [v; x; y]); unfold regular1 in *; norm_order;
       bounds_of l v; bounds_of l x; bounds_of l y;
       destruct (imin a), (imin b); cbn [andb orb negb] in *;
       to_Z l; change (M version l) with 4 in *;
       repeat match goal with H : context [if ?c then _ else _] |- _ => destruct c eqn:? end;
       try discriminate; lia.
Qed.

(* what allowed_max is, in a form lia can use: the max itself, or (exclusive, stable max) its first
   dev release, which is of the same class and strictly below *)
Inductive am_shape (r : rng) : option version -> Prop :=
  | AmNone : rmax r = None -> am_shape r None
  | AmMax m : rmax r = Some m -> am_shape r (Some m)
  | AmFd m : rmax r = Some m -> imax r = false ->
             same_class (first_devrelease m) m = true ->
             vltb (first_devrelease m) m = true -> vltb m (first_devrelease m) = false ->
             am_shape r (Some (first_devrelease m)).
Lemma allowed_max_shape r : wf_rng r = true -> am_shape r (allowed_max r).
Proof.
  intros W. destruct (rmax r) as [m|] eqn:Hm.
  - assert (Wm : wf m = true).
    { unfold wf_rng, rbounds in W. rewrite Hm, forallb_app in W. cbn in W. rewrite !andb_true_iff in W. tauto. }
    destruct (allowed_max_cases r m Hm) as [->|(-> & Hi & Hu)].
    + apply AmMax; assumption.
    + apply AmFd; auto.
      * apply fd_class.
      * apply fd_lt; auto. unfold is_unstable in Hu. apply orb_false_iff in Hu. tauto.
      * apply fd_le; auto.
  - unfold allowed_max. rewrite Hm. apply AmNone. assumption.
Qed.

Lemma regular_max v r m : regular_r v r = true -> rmax r = Some m -> regular1 v m = true.
Proof.
  unfold regular_r, rbounds. intros H Hm. rewrite Hm, forallb_app in H. cbn in H.
  rewrite !andb_true_iff in H. tauto.
Qed.
Lemma regular_min v r m : regular_r v r = true -> rmin r = Some m -> regular1 v m = true.
Proof.
  unfold regular_r, rbounds. intros H Hm. rewrite Hm in H. cbn in H.
  rewrite !andb_true_iff in H. tauto.
Qed.

Ltac finish l n :=
  to_Z l; change (M version l) with n in *;
  repeat match goal with H : context [if ?c then _ else _] |- _ => destruct c eqn:? end;
  try discriminate; try lia.

Lemma allows_higher_spec a b v :
  wf_rng a = true -> wf_rng b = true -> regular_r v a = true -> regular_r v b = true ->
  (allows_higher a b = true -> below b v = true -> below a v = true) /\
  (allows_higher a b = false -> below a v = true -> below b v = true).
Proof.
  intros Wa Wb Ra Rb.
  pose proof (allowed_max_shape a Wa) as Sa. pose proof (allowed_max_shape b Wb) as Sb.
  unfold allows_higher, below.
  destruct Sa as [Ha | ma Ha | ma Ha Ia Ca La La'], Sb as [Hb | mb Hb | mb Hb Ib Cb Lb Lb'];
    rewrite Ha, Hb; cbn [is_some]; split; intros H; try discriminate; auto;
    try (intros _; reflexivity);
    try pose proof (regular_max v a ma Ra Ha) as Rva; try pose proof (regular_max v b mb Rb Hb) as Rvb;
    unfold regular1 in *; norm_order.
  - (* max / max *)
    set (l := [v; ma; mb]). bounds_of l v; bounds_of l ma; bounds_of l mb.
    destruct (imax a), (imax b); cbn [andb orb negb] in *; finish l 4.
  - set (l := [v; ma; mb]). bounds_of l v; bounds_of l ma; bounds_of l mb.
    destruct (imax a), (imax b); cbn [andb orb negb] in *; finish l 4.
  - (* max / fd *)
    set (l := [v; ma; mb; first_devrelease mb]).
    bounds_of l v; bounds_of l ma; bounds_of l mb; bounds_of l (first_devrelease mb).
    rewrite Ib in *. destruct (imax a); cbn [andb orb negb] in *; finish l 5.
  - set (l := [v; ma; mb; first_devrelease mb]).
    bounds_of l v; bounds_of l ma; bounds_of l mb; bounds_of l (first_devrelease mb).
    rewrite Ib in *. destruct (imax a); cbn [andb orb negb] in *; finish l 5.
  - (* fd / max *)
    set (l := [v; ma; mb; first_devrelease ma]).
    bounds_of l v; bounds_of l ma; bounds_of l mb; bounds_of l (first_devrelease ma).
    rewrite Ia in *. destruct (imax b); cbn [andb orb negb] in *; finish l 5.
  - set (l := [v; ma; mb; first_devrelease ma]).
    bounds_of l v; bounds_of l ma; bounds_of l mb; bounds_of l (first_devrelease ma).
    rewrite Ia in *. destruct (imax b); cbn [andb orb negb] in *; finish l 5.
  - (* fd / fd *)
    set (l := [v; ma; mb; first_devrelease ma; first_devrelease mb]).
    bounds_of l v; bounds_of l ma; bounds_of l mb; bounds_of l (first_devrelease ma); bounds_of l (first_devrelease mb).
    rewrite Ia, Ib in *. cbn [andb orb negb] in *; finish l 6.
  - set (l := [v; ma; mb; first_devrelease ma; first_devrelease mb]).
    bounds_of l v; bounds_of l ma; bounds_of l mb; bounds_of l (first_devrelease ma); bounds_of l (first_devrelease mb).
    rewrite Ia, Ib in *. cbn [andb orb negb] in *; finish l 6.
Qed.

Lemma strictly_lower_spec a b v :
  wf_rng a = true -> regular_r v a = true -> regular_r v b = true ->
  (is_strictly_lower a b = true -> below a v = true -> above b v = true -> False) /\
  (is_strictly_lower a b = false -> below a v = true \/ above b v = true).
Proof.
  intros Wa Ra Rb.
  pose proof (allowed_max_shape a Wa) as Sa.
  unfold is_strictly_lower, below, above.
  destruct Sa as [Ha | ma Ha | ma Ha Ia Ca La La']; rewrite Ha;
    destruct (rmin b) as [y|] eqn:Hb; split; intros H; try discriminate; auto;
    try pose proof (regular_max v a ma Ra Ha) as Rva; try pose proof (regular_min v b y Rb Hb) as Rvb;
    unfold regular1 in *; norm_order.
  - set (l := [v; ma; y]). bounds_of l v; bounds_of l ma; bounds_of l y.
    destruct (imax a), (imin b); cbn [andb orb negb] in *; intros; finish l 4.
  - set (l := [v; ma; y]). bounds_of l v; bounds_of l ma; bounds_of l y.
    destruct (imax a), (imin b); cbn [andb orb negb] in *;
      (match goal with |- ?A = true \/ _ => destruct A eqn:Q1; [left; reflexivity | right] end);
      finish l 4.
  - set (l := [v; ma; y; first_devrelease ma]).
    bounds_of l v; bounds_of l ma; bounds_of l y; bounds_of l (first_devrelease ma).
    rewrite Ia in *. destruct (imin b); cbn [andb orb negb] in *; intros; finish l 5.
  - set (l := [v; ma; y; first_devrelease ma]).
    bounds_of l v; bounds_of l ma; bounds_of l y; bounds_of l (first_devrelease ma).
    rewrite Ia in *. destruct (imin b); cbn [andb orb negb] in *;
      (match goal with |- ?A = true \/ _ => destruct A eqn:Q1; [left; reflexivity | right] end);
      finish l 5.
Qed.

(* when x is not strictly lower than y and max x == min y, both bounds are inclusive *)
Lemma not_sl_touch x y m n :
  wf_rng x = true -> rmax x = Some m -> rmin y = Some n ->
  is_strictly_lower x y = false -> veqb n m = true -> imax x && imin y = true.
Proof.
  intros Wx Hm Hn.
  pose proof (allowed_max_shape x Wx) as Sx. unfold is_strictly_lower.
  destruct Sx as [Hx | mx Hx | mx Hx Ix Cx Lx Lx']; rewrite Hx in Hm; try discriminate;
    injection Hm as ->; rewrite Hn; norm_order.
  - set (l := [m; n]). bounds_of l m; bounds_of l n.
    destruct (imax x), (imin y); cbn [andb orb negb] in *; intros; finish l 3.
  - set (l := [m; n; first_devrelease m]). bounds_of l m; bounds_of l n; bounds_of l (first_devrelease m).
    destruct (imin y); cbn [andb orb negb] in *; intros; finish l 4.
Qed.
