(* C19: the clause parser of version constraints can fail only with the documented errors
   (ParseConstraintError, InvalidVersionError, ValueError); in particular never with an assertion. *)
From Coq Require Import List Bool NArith String Ascii.
From PC Require Import Base.Cmp Base.Result Model.Pep440 Model.VConstraint Proofs.UnionTotal.
Import ListNotations.

Definition documented (e : err) : Prop :=
  e = ENoPattern \/ e = EParseConstraint \/ e = EValue \/ e = EInvalidVersion.

Lemma pvf_err s e : parse_version_or_fail s = Err e -> e = EParseConstraint.
Proof. unfold parse_version_or_fail. destruct (parse s); intros H; [discriminate|]. injection H as <-. reflexivity. Qed.
Lemma make_x_total v inv m : exists c, make_x_constraint_range v inv m = Ok c.
Proof.
  unfold make_x_constraint_range. destruct inv; [|eexists; reflexivity].
  apply complement_of_range_total.
Qed.
Lemma bind_pvf_err {A} txt (k : version -> res A) e :
  (forall v e', k v = Err e' -> documented e') ->
  (do v <- parse_version_or_fail txt; k v) = Err e -> documented e.
Proof.
  intros Hk H. destruct (parse_version_or_fail txt) as [v|e0] eqn:P; cbn [bind] in H.
  - eapply Hk; eauto.
  - injection H as <-. right. left. eapply pvf_err; eauto.
Qed.

Theorem parse_single_errors m s e : parse_single m s = Err e -> documented e.
Proof.
  unfold parse_single.
  destruct (is_any_pattern (lchars s)); [discriminate|].
  match goal with |- (match ?x with Some _ => _ | None => _ end) = _ -> _ => destruct x as [[txt r]|] end.
  { apply bind_pvf_err. intros v e' H. discriminate. }
  match goal with |- (match ?x with Some _ => _ | None => _ end) = _ -> _ => destruct x as [[txt r]|] end.
  { apply bind_pvf_err. intros v e' H. discriminate. }
  match goal with |- (match ?x with Some _ => _ | None => _ end) = _ -> _ => destruct x as [[txt r]|] end.
  { apply bind_pvf_err. intros v e' H. discriminate. }
  destruct (match_x_constraint (lchars s)) as [[inv txt]|].
  { destruct (parse txt) as [v|].
    - destruct (make_x_constraint_range v inv m); intros H; [discriminate|]. injection H as <-. right; right; left; reflexivity.
    - intros H. injection H as <-. right; right; right; reflexivity. }
  destruct (match_basic_op (lchars s)) as [op r].
  match goal with |- (match ?x with Some _ => _ | None => _ end) = _ -> _ => destruct x as [[txt rest]|] end.
  2:{ intros H. injection H as <-. left. reflexivity. }
  apply bind_pvf_err. intros v e' H.
  destruct (make_x_total v (match op with OpNe => true | _ => false end) m) as [c Hc].
  destruct op; try discriminate; destruct (has_wildcard rest); try discriminate; rewrite Hc in H; discriminate.
Qed.
