(* C01 / C08: RECORD bookkeeping invariant, permission normalisation, timestamp choice. *)
From Coq Require Import List Bool NArith ZArith String Ascii Lia Permutation Sorting.
From PC Require Import Base.Cmp Base.Result Model.Pep440 Model.Wheel.
Import ListNotations.
Open Scope string_scope.
Open Scope N_scope.

Section Rec.
  Variable bytes : Type.
  Variable digest : bytes -> string.
  Variable size_of : bytes -> N.
  Notation wstep := (wstep bytes digest size_of). Notation wrun := (wrun bytes digest size_of).
  Notation row_of_member := (row_of_member bytes digest size_of).
  Notation record_lines := (record_lines bytes).
  Notation wstate := (wstate bytes).

  Definition Inv (s : wstate) : Prop := records s = map row_of_member (members s).
  Lemma inv_step date s o : Inv s -> Inv (wstep date s o).
  Proof.
    unfold Inv. intros H. destruct o; simpl; rewrite map_app, H; reflexivity.
  Qed.
  Lemma fold_inv date ops s : Inv s -> Inv (fold_left (wstep date) ops s).
  Proof. revert s; induction ops as [|o ops IH]; simpl; intros s H; [exact H|]. apply IH, inv_step, H. Qed.
  (* every reachable state: the record list is exactly the list of members, in order, with the
     digest and size of what was written *)
  Theorem record_invariant date ops : Inv (wrun date ops).
  Proof. apply fold_inv. reflexivity. Qed.

  (* RECORD lists exactly the members written before it (same order, same hash and size), then itself *)
  Theorem record_exact date ops dist_info :
    record_lines dist_info (wrun date ops) =
    (map (fun m => Line (m_path m) (digest (m_data m)) (size_of (m_data m))) (members (wrun date ops))
    ++ [SelfLine (dist_info ++ "/RECORD")])%list.
  Proof. unfold record_lines. rewrite (record_invariant date ops), map_map. reflexivity. Qed.

  (* members are exactly the operations, one each, in order *)
  Lemma members_fold date ops s :
    map m_path (members (fold_left (wstep date) ops s)) =
    (map m_path (members s) ++ map (fun o => match o with OAdd p _ _ => p | OWrite p _ => p end) ops)%list.
  Proof.
    revert s; induction ops as [|o ops IH]; simpl; intros s; [rewrite app_nil_r; reflexivity|].
    rewrite IH. destruct o; simpl; rewrite map_app, <- app_assoc; reflexivity.
  Qed.
  Theorem member_paths date ops :
    map m_path (members (wrun date ops)) = map (fun o => match o with OAdd p _ _ => p | OWrite p _ => p end) ops.
  Proof. unfold wrun. rewrite members_fold. reflexivity. Qed.
  (* each member is listed once iff the target paths are pairwise distinct *)
  Theorem record_once date ops :
    NoDup (map (fun o => match o with OAdd p _ _ => p | OWrite p _ => p end) ops) <->
    NoDup (map r_path (records (wrun date ops))).
  Proof.
    rewrite (record_invariant date ops), map_map. cbn [row_of_member r_path].
    rewrite <- (member_paths date ops). reflexivity.
  Qed.
  (* every member carries the one timestamp and a mode of 0644 / 0755 (see modes below) *)
  Lemma times_fold date ops s : (forall m, In m (members s) -> m_time m = date) ->
    forall m, In m (members (fold_left (wstep date) ops s)) -> m_time m = date.
  Proof.
    revert s; induction ops as [|o ops IH]; simpl; intros s H; [exact H|].
    apply IH. intros m Hm. destruct o; simpl in Hm; apply in_app_or in Hm;
      destruct Hm as [Hm|[<-|[]]]; auto.
  Qed.
  Theorem one_timestamp date ops m : In m (members (wrun date ops)) -> m_time m = date.
  Proof. apply times_fold. intros ? []. Qed.
End Rec.

(* ---- permission bits ---- *)
Lemma testbit_nfp m n :
  N.testbit (normalize_file_permissions m) n =
  if n <? 9 then (if N.testbit m 6 then N.testbit 493 n else N.testbit 420 n) else N.testbit m n.
Proof.
  unfold normalize_file_permissions.
  assert (H64 : negb (N.land m 64 =? 0) = N.testbit m 6).
  { destruct (N.testbit m 6) eqn:E.
    - apply negb_true_iff, N.eqb_neq. intros H. assert (Q : N.testbit (N.land m 64) 6 = true) by (rewrite N.land_spec, E; reflexivity).
      rewrite H in Q. discriminate.
    - apply negb_false_iff, N.eqb_eq. apply N.bits_inj. intros k. rewrite N.land_spec, N.bits_0.
      destruct (N.eq_dec k 6) as [->|Hk]; [rewrite E; reflexivity|].
      replace (N.testbit 64 k) with false; [apply andb_false_r|].
      symmetry. change 64 with (2 ^ 6). apply N.pow2_bits_false. lia. }
  rewrite H64.
  destruct (n <? 9) eqn:Hn.
  - apply N.ltb_lt in Hn.
    assert (Hcases : n = 0 \/ n = 1 \/ n = 2 \/ n = 3 \/ n = 4 \/ n = 5 \/ n = 6 \/ n = 7 \/ n = 8) by lia.
    destruct (N.testbit m 6) eqn:E;
      rewrite ?N.lor_spec, N.ldiff_spec, N.lor_spec;
      destruct Hcases as [->|[->|[->|[->|[->|[->|[->|[->| ->]]]]]]]]; cbn; rewrite ?E;
      repeat match goal with |- context [N.testbit m ?k] => destruct (N.testbit m k) end; reflexivity.
  - apply N.ltb_ge in Hn.
    assert (B : forall c, c < 512 -> N.testbit c n = false).
    { intros c Hc. destruct (N.eq_dec c 0) as [->|Hz]; [apply N.bits_0|].
      apply N.bits_above_log2. apply N.log2_lt_pow2; [lia|]. 
      apply N.lt_le_trans with (2 ^ 9); [exact Hc|]. apply N.pow_le_mono_r; lia. }
    destruct (N.testbit m 6); rewrite ?N.lor_spec, N.ldiff_spec, N.lor_spec, ?(B 420), ?(B 91), ?(B 73) by lia;
      cbn; rewrite ?orb_false_r, ?andb_true_r; reflexivity.
Qed.

Definition low9 (m : N) : N := N.land m 511.
Lemma testbit_511 n : N.testbit 511 n = (n <? 9).
Proof.
  change 511 with (N.ones 9). destruct (n <? 9) eqn:E.
  - apply N.ones_spec_low. apply N.ltb_lt; exact E.
  - apply N.ones_spec_high. apply N.ltb_ge; exact E.
Qed.
Theorem modes_low m : low9 (normalize_file_permissions m) = if N.testbit m 6 then 493 else 420.
Proof.
  unfold low9. apply N.bits_inj. intros n. rewrite N.land_spec, testbit_nfp, testbit_511.
  destruct (n <? 9) eqn:E.
  - rewrite andb_true_r. destruct (N.testbit m 6); reflexivity.
  - rewrite andb_false_r. symmetry.
    apply N.ltb_ge in E.
    assert (B : forall c, c < 512 -> N.testbit c n = false).
    { intros c Hc. destruct (N.eq_dec c 0) as [->|Hz]; [apply N.bits_0|].
      apply N.bits_above_log2. apply N.log2_lt_pow2; [lia|].
      apply N.lt_le_trans with (2 ^ 9); [exact Hc|]. apply N.pow_le_mono_r; lia. }
    destruct (N.testbit m 6); apply B; lia.
Qed.
Theorem modes_high m : N.shiftr (normalize_file_permissions m) 9 = N.shiftr m 9.
Proof.
  apply N.bits_inj. intros n. rewrite !N.shiftr_spec by lia. rewrite testbit_nfp.
  assert (E : n + 9 <? 9 = false) by (apply N.ltb_ge; lia). rewrite E. reflexivity.
Qed.
Theorem modes_idempotent m :
  normalize_file_permissions (normalize_file_permissions m) = normalize_file_permissions m.
Proof.
  apply N.bits_inj. intros n. rewrite !testbit_nfp.
  change (6 <? 9) with true. cbn match.
  destruct (N.testbit m 6); change (N.testbit 493 6) with true; change (N.testbit 420 6) with false;
    destruct (n <? 9); reflexivity.
Qed.
(* only the owner-execute bit and the bits above the permission bits matter (umask, group/other bits are scrubbed) *)
Theorem modes_class m m' : N.testbit m 6 = N.testbit m' 6 -> N.shiftr m 9 = N.shiftr m' 9 ->
  normalize_file_permissions m = normalize_file_permissions m'.
Proof.
  intros H6 Hh. apply N.bits_inj. intros n. rewrite !testbit_nfp, H6.
  destruct (n <? 9) eqn:E; [reflexivity|]. apply N.ltb_ge in E.
  assert (Q : N.testbit (N.shiftr m 9) (n - 9) = N.testbit (N.shiftr m' 9) (n - 9)) by (rewrite Hh; reflexivity).
  rewrite !N.shiftr_spec in Q by lia. replace (n - 9 + 9) with n in Q by lia. exact Q.
Qed.

(* ---- timestamps ---- *)
Section TimeFacts.
  Variable gmtime6 : Z -> list N.
  (* the only fact about time.gmtime the wheel code relies on *)
  Hypothesis year_1980 : forall t, (nth 0 (gmtime6 t) 0 <? 1980) = (t <? 315532800)%Z.
  Theorem zip_date_spec sde :
    zip_date_time gmtime6 sde =
    match sde with
    | None => ZIP_DEFAULT
    | Some s => match py_int s with
                | None => ZIP_DEFAULT
                | Some t => if (t <? 315532800)%Z then ZIP_DEFAULT else gmtime6 t
                end
    end.
  Proof. unfold zip_date_time. destruct sde as [s|]; [|reflexivity]. destruct (py_int s) as [t|]; [|reflexivity]. rewrite year_1980. reflexivity. Qed.
End TimeFacts.

(* ---- sorted member order does not depend on the listing order ---- *)
Section Sorted.
  Variable A : Type.
  Variable key : A -> string.
  Definition leb (x y : A) : bool := is_le (String.compare (key x) (key y)).
  Fixpoint insert (x : A) (l : list A) : list A :=
    match l with [] => [x] | y :: r => if leb x y then x :: l else y :: insert x r end.
  Definition sort (l : list A) : list A := fold_right insert [] l.
  Inductive sorted : list A -> Prop :=
    | s_nil : sorted [] | s_one x : sorted [x]
    | s_cons x y l : leb x y = true -> sorted (y :: l) -> sorted (x :: y :: l).
  Lemma leb_total x y : leb x y = true \/ leb y x = true.
  Proof. unfold leb. rewrite (ol_antisym string_compare_laws (key y) (key x)). destruct (String.compare (key x) (key y)); simpl; auto. Qed.
  Lemma insert_sorted x l : sorted l -> sorted (insert x l).
  Proof.
    induction 1 as [|y|y z l Hyz Hs IH]; simpl.
    - constructor.
    - destruct (leb x y) eqn:E; [constructor; [exact E|constructor]|].
      constructor; [|constructor]. destruct (leb_total x y); congruence.
    - destruct (leb x y) eqn:E; [constructor; [exact E|constructor; assumption]|].
      simpl in IH. destruct (leb x z) eqn:E2.
      + constructor; [destruct (leb_total x y); congruence|]. constructor; assumption.
      + constructor; assumption.
  Qed.
  Lemma sort_sorted l : sorted (sort l).
  Proof. induction l; simpl; [constructor|apply insert_sorted; assumption]. Qed.
  Lemma insert_perm x l : Permutation (x :: l) (insert x l).
  Proof.
    induction l as [|y l IH]; simpl; [reflexivity|]. destruct (leb x y); [reflexivity|].
    rewrite perm_swap. apply perm_skip, IH.
  Qed.
  Lemma sort_perm l : Permutation l (sort l).
  Proof. induction l as [|x l IH]; simpl; [constructor|]. rewrite <- insert_perm. apply perm_skip, IH. Qed.
  (* two sorted lists with distinct keys that are permutations of each other are equal *)
  Lemma leb_trans x y z : leb x y = true -> leb y z = true -> leb x z = true.
  Proof.
    unfold leb. intros H1 H2.
    assert (A1 : String.compare (key x) (key y) <> Gt) by (destruct (String.compare (key x) (key y)); simpl in H1; congruence).
    assert (A2 : String.compare (key y) (key z) <> Gt) by (destruct (String.compare (key y) (key z)); simpl in H2; congruence).
    pose proof (ol_le_trans string_compare_laws _ _ _ A1 A2) as Q.
    destruct (String.compare (key x) (key z)); simpl; congruence.
  Qed.
  Lemma sorted_head_min x l : sorted (x :: l) -> forall y, In y l -> leb x y = true.
  Proof.
    revert x; induction l as [|z l IH]; intros x H y Hy; [destruct Hy|].
    inversion H; subst. destruct Hy as [<-|Hy]; [assumption|].
    eapply leb_trans; [eassumption|]. apply IH; assumption.
  Qed.
  Lemma sorted_tail x l : sorted (x :: l) -> sorted l.
  Proof. inversion 1; subst; [constructor|assumption]. Qed.
  Lemma leb_antisym_key x y : leb x y = true -> leb y x = true -> key x = key y.
  Proof.
    unfold leb. rewrite (ol_antisym string_compare_laws (key y) (key x)).
    destruct (String.compare (key x) (key y)) eqn:E; simpl; intros; try discriminate.
    apply String.compare_eq_iff; exact E.
  Qed.
  Theorem sorted_unique l l' :
    (forall x y, In x l -> In y l -> key x = key y -> x = y) ->
    sorted l -> sorted l' -> Permutation l l' -> l = l'.
  Proof.
    revert l'; induction l as [|x l IH]; intros l' Hinj Hs Hs' Hp.
    - apply Permutation_nil in Hp. subst. reflexivity.
    - destruct l' as [|y l']; [apply Permutation_sym, Permutation_nil in Hp; discriminate|].
      assert (Hxy : x = y).
      { assert (Iy : In y (x :: l)) by (eapply Permutation_in; [apply Permutation_sym; exact Hp|left; reflexivity]).
        assert (Ix : In x (y :: l')) by (eapply Permutation_in; [exact Hp|left; reflexivity]).
        destruct Iy as [->|Iy]; [reflexivity|]. destruct Ix as [->|Ix]; [reflexivity|].
        apply Hinj; [left; reflexivity|right; exact Iy|].
        apply leb_antisym_key; [apply (sorted_head_min x l Hs y Iy) | apply (sorted_head_min y l' Hs' x Ix)]. }
      subst y. f_equal. apply IH.
      + intros a b Ha Hb. apply Hinj; right; assumption.
      + eapply sorted_tail; eassumption.
      + eapply sorted_tail; eassumption.
      + eapply Permutation_cons_inv; eassumption.
  Qed.
  (* the archive order is a function of the set of files, not of the order the filesystem lists them *)
  Theorem listing_order_irrelevant l l' :
    (forall x y, In x l -> In y l -> key x = key y -> x = y) ->
    Permutation l l' -> sort l = sort l'.
  Proof.
    intros Hinj Hp. apply sorted_unique.
    - intros x y Hx Hy. apply Hinj; eapply Permutation_in; try (apply Permutation_sym, sort_perm); assumption.
    - apply sort_sorted.
    - apply sort_sorted.
    - rewrite <- (sort_perm l), <- (sort_perm l'). exact Hp.
  Qed.
End Sorted.
