(* C05: difference with unions on either side (VersionRange.difference(VersionUnion), VersionUnion._inverted,
   VersionUnion.difference), exact on regular probes: [difference_exact], for every shape of both operands.
   1. VersionUnion.of on two members that are apart and in order returns exactly those two members (no merge, no reordering).
   2. When the difference of two range-likes splits, the result is literally [piece below b; piece above b]
      (split_point_eq, split_range_eq, r_difference_split); a single piece never reaches above the minuend (vone_below).
   3. Range minus union: the sweep over the sorted, separated members of the subtrahend keeps "result so far = pieces already
      final, plus the part of [current] that no remaining member removes" (induction over the member list).
   4. Union minus anything: the state machine with two cursors keeps
        result = acc  +  (current + remaining ours) minus (their + remaining theirs)
      together with "nothing of the remaining ours lies below current's upper end" (induction on fuel; which cursor moves is
      decided by allows_higher, whose exact meaning on regular probes is C05_allows_higher_spec).
   Hypotheses: every operand member [good]; members of each union sorted and apart ([sorted_c]); the bounds mentioned mutually
   regular ([mutual]: equal or of different release classes; decidable, evaluated at run time as h_mutual); probes regular for
   all of them.  Not shown here: that the fuel given by [difference] suffices (the statement is about results [Ok c]). *)
From Coq Require Import List Bool NArith ZArith String Ascii Lia ZifyBool.
From PC Require Import Base.Cmp Base.Result Base.RankEmbed Model.Pep440 Spec.Pep440Spec Proofs.Pep440Order
     Proofs.VersionFacts Model.VConstraint Proofs.RangeSpec Proofs.RangeAlg Proofs.RangeOps Proofs.UnionHull Proofs.UnionExact Proofs.Contain Proofs.InterExact Proofs.DiffExact Model.VHyp.
Import ListNotations.
Open Scope list_scope.

(* VersionUnion.of on two members that are apart and in order: nothing is merged, nothing is reordered *)
Lemma union_of_two (f : nat) x y : r_allows_any x y = false -> is_adjacent_to x y = false -> r_lt y x = false ->
  r_is_any x = false -> r_is_any y = false ->
  vunion_of (Datatypes.S f) [VOne x; VOne y] = Ok (VUnion [x; y]).
Proof.
  intros Ov Adj Lt Ax Ay. cbn [vunion_of flat_map flatten app existsb]. rewrite Ax, Ay. cbn [orb].
  unfold sort_ranges. cbn [fold_left insert_sorted]. rewrite Lt.
  cbn [merge_all merge_back bind]. rewrite Ov, Adj. cbn [orb merge_back bind rev app]. reflexivity.
Qed.

Lemma not_any_max x m : rmax x = Some m -> r_is_any x = false.
Proof. destruct x as [v|[l|] [h|] i j]; cbn; intros H; try reflexivity; discriminate. Qed.
Lemma not_any_min x m : rmin x = Some m -> r_is_any x = false.
Proof. destruct x as [v|[l|] [h|] i j]; cbn; intros H; try reflexivity; discriminate. Qed.

(* x ends strictly before y begins (plain bounds m1 < m2): VersionUnion.of keeps them as two members in this order *)
Lemma apart_lt x y m1 m2 : good x = true -> good y = true -> rmax x = Some m1 -> rmin y = Some m2 -> vltb m1 m2 = true ->
  regular_r m1 y = true -> regular_r m2 x = true ->
  r_allows_any x y = false /\ is_adjacent_to x y = false /\ r_lt y x = false.
Proof.
  intros Gx Gy Hx Hy Lt R1 R2.
  destruct (good_parts _ Gx) as (Wx & Px & Lx & Fx). destruct (good_parts _ Gy) as (Wy & Py & Ly & Fy).
  destruct (good_bound_max x m1 Gx Hx) as [W1 L1]. destruct (good_bound_min y m2 Gy Hy) as [W2 L2].
  assert (Adj : is_adjacent_to x y = false).
  { unfold is_adjacent_to. rewrite Hx, Hy. cbn [oveq]. replace (veqb m1 m2) with false; [reflexivity|]. clear - Lt. symmetry. order_lia [m1; m2]. }
  split; [|split; [exact Adj|]].
  - destruct x as [vx|xlo xhi xi xj], y as [vy|ylo yhi yi yj]; cbn [rmax rmin] in Hx, Hy.
    + injection Hx as ->. injection Hy as ->. cbn [r_allows_any]. rewrite (v_allows_nolocal m1 m2 L2), (v_allows_nolocal m2 m1 L1).
      clear - Lt. order_lia [m1; m2].
    + injection Hx as ->. cbn [r_allows_any]. rewrite (min_local_allowed_nolocal _ m1 Ly), orb_false_r.
      change (rr_allows (RR ylo yhi yi yj) m1) with (r_allows (RR ylo yhi yi yj) m1). rewrite (allows_regular _ m1 Wy W1 R1).
      unfold mem, above. cbn [rmin imin]. rewrite Hy. clear - Lt. replace (vltb m2 m1 || veqb m1 m2 && yi) with false; [reflexivity|]. symmetry. destruct yi; order_lia [m1; m2].
    + injection Hy as ->. cbn [r_allows_any]. rewrite (min_local_allowed_nolocal _ m2 Lx), orb_false_r.
      change (rr_allows (RR xlo xhi xi xj) m2) with (r_allows (RR xlo xhi xi xj) m2). rewrite (allows_regular _ m2 Wx W2 R2).
      unfold mem, below. cbn [rmax imax]. rewrite Hx. clear - Lt. replace (vltb m2 m1 || veqb m2 m1 && xj) with false; [apply andb_false_r|]. symmetry. destruct xj; order_lia [m1; m2].
    + cbn [r_allows_any]. unfold is_strictly_higher.
      assert (SL : is_strictly_lower (RR xlo xhi xi xj) (RR ylo yhi yi yj) = true).
      { unfold is_strictly_lower. subst xhi ylo. rewrite (allowed_max_proper _ _ _ _ Px). cbn [rmin].
        destruct (xj || is_unstable m1).
        - clear - Lt. order_lia [m1; m2].
        - pose proof (fd_le m1 W1) as F. clear - Lt F. order_lia [m1; m2; first_devrelease m1]. }
      rewrite SL, orb_true_r. reflexivity.
  - (* the order of the sort *)
    destruct x as [vx|xlo xhi xi xj], y as [vy|ylo yhi yi yj]; cbn [rmax rmin] in Hx, Hy.
    + injection Hx as ->. injection Hy as ->. cbn [r_lt]. clear - Lt. order_lia [m1; m2].
    + injection Hx as ->. subst ylo. unfold r_lt, r_cmp. cbn [rmin]. clear - Lt. destruct (vgtb m2 m1) eqn:G; [reflexivity|]. exfalso. order_lia [m1; m2].
    + injection Hy as ->. subst xhi. unfold r_lt, r_cmp. cbn [rmin]. destruct xlo as [l0|]; [|reflexivity].
      unfold proper in Px. clear - Lt Px. destruct (vgtb l0 m2) eqn:G; [exfalso; order_lia [l0; m1; m2]|]. destruct (vltb l0 m2) eqn:G2; [reflexivity|]. exfalso. order_lia [l0; m1; m2].
    + subst xhi ylo. unfold r_lt, r_cmp. cbn [rmin]. destruct xlo as [l0|]; [|reflexivity].
      unfold proper in Px. clear - Lt Px. destruct (vgtb m2 l0) eqn:G; [reflexivity|]. exfalso. order_lia [l0; m1; m2].
Qed.

(* the two halves of a range split at an interior point, both open there *)
Lemma apart_split lo hi i j p : good (RR lo (Some p) i false) = true -> good (RR (Some p) hi false j) = true ->
  r_allows_any (RR lo (Some p) i false) (RR (Some p) hi false j) = false /\
  is_adjacent_to (RR lo (Some p) i false) (RR (Some p) hi false j) = false /\
  r_lt (RR (Some p) hi false j) (RR lo (Some p) i false) = false.
Proof.
  intros Gx Gy. destruct (good_parts _ Gx) as (Wx & Px & Lx & Fx).
  destruct (good_bound_max _ p Gx eq_refl) as [Wp Lp].
  split; [|split].
  - cbn [r_allows_any]. unfold is_strictly_higher.
    assert (SL : is_strictly_lower (RR lo (Some p) i false) (RR (Some p) hi false j) = true).
    { unfold is_strictly_lower. rewrite (allowed_max_proper _ _ _ _ Px). cbn [rmin imax imin orb].
      destruct (is_unstable p) eqn:U.
      - replace (vltb p p) with false by (symmetry; order_lia [p]). replace (vgtb p p) with false by (symmetry; order_lia [p]). reflexivity.
      - rewrite (fd_lt p Wp); [reflexivity|]. unfold is_unstable in U. apply orb_false_iff in U. tauto. }
    rewrite SL, orb_true_r. reflexivity.
  - unfold is_adjacent_to. cbn [rmax rmin imax imin oveq]. rewrite veqb_refl. reflexivity.
  - unfold r_lt, r_cmp. cbn [rmin]. destruct lo as [l0|]; [|reflexivity].
    unfold proper in Px. clear - Px. destruct (vgtb p l0) eqn:G; [reflexivity|]. exfalso. order_lia [l0; p].
Qed.

(* every bound is regular with respect to every other one: equal, or of another release class *)
Definition mutual (B : list version) : Prop := forall e e', In e B -> In e' B -> regular1 e e' = true.
Lemma mutual_incl B B' : incl B' B -> mutual B -> mutual B'.
Proof. intros I M e e' He He'. apply M; apply I; assumption. Qed.
Lemma mutual_regular_r B e r : mutual B -> In e B -> incl (rbounds r) B -> regular_r e r = true.
Proof. intros M He I. unfold regular_r. rewrite forallb_forall. intros x Hx. apply M; [exact He|apply I, Hx]. Qed.
Lemma mutual_mreg B a b : mutual B -> incl (rbounds a) B -> incl (rbounds b) B -> mreg_r a b = true.
Proof.
  intros M Ia Ib. unfold mreg_r. rewrite forallb_forall. intros e He. apply (mutual_regular_r B e a M); [apply Ib, He|exact Ia].
Qed.

Lemma before_max a b r : is_rr a = true -> is_rr b = true -> allows_lower a b = true -> before_piece a b = Some r ->
  exists m1 bm, rmax r = Some m1 /\ rmin b = Some bm /\ veqb m1 bm = true.
Proof.
  intros Ia Ib AL H. destruct a as [x|alo ahi ai aj]; [discriminate|]. destruct b as [y|blo bhi bi bj]; [discriminate|].
  unfold before_piece, allows_lower in *. cbn [rmin rmax imin imax] in *.
  destruct blo as [bm|]; [|destruct alo; discriminate].
  destruct alo as [am|]; cbn [oveq] in H.
  - destruct (veqb am bm) eqn:E; injection H as <-; cbn [rmax].
    + exists am, bm. auto.
    + exists bm, bm. rewrite veqb_refl. auto.
  - injection H as <-. exists bm, bm. rewrite veqb_refl. auto.
Qed.
Lemma after_min a b r : is_rr a = true -> is_rr b = true -> allows_higher a b = true -> after_piece a b = Some r ->
  exists m2 bM, rmin r = Some m2 /\ rmax b = Some bM /\ veqb m2 bM = true.
Proof.
  intros Ia Ib AH H. destruct a as [x|alo ahi ai aj]; [discriminate|]. destruct b as [y|blo bhi bi bj]; [discriminate|].
  unfold after_piece in *. cbn [rmin rmax imin imax] in *.
  destruct bhi as [bM|].
  2:{ exfalso. unfold allows_higher in AH. unfold allowed_max at 2 in AH. cbn [rmax] in AH.
      destruct (allowed_max (RR alo ahi ai aj)); discriminate. }
  destruct ahi as [aM|]; cbn [oveq] in H.
  - destruct (veqb aM bM) eqn:E; injection H as <-; cbn [rmin].
    + exists aM, bM. auto.
    + exists bM, bM. rewrite veqb_refl. auto.
  - injection H as <-. exists bM, bM. rewrite veqb_refl. auto.
Qed.
Lemma not_above_below b v : good b = true -> above b v = false -> below b v = true.
Proof.
  intros G. destruct (good_parts _ G) as (_ & P & _ & _). unfold above, below, proper in *.
  destruct b as [x|[lo|] [hi|] i j]; cbn [rmin rmax imin imax] in *; intros H; try reflexivity; try discriminate.
  - clear - H. order_lia [v; x].
  - clear - P H. destruct i, j; order_lia [v; lo; hi].
Qed.

Lemma in_bounds_of_max x m : rmax x = Some m -> In m (rbounds x).
Proof. apply in_bounds_max. Qed.

Lemma after_below a b r v : good a = true -> good b = true -> is_rr a = true -> is_rr b = true -> allows_higher a b = true ->
  after_piece a b = Some r -> below r v = below a v.
Proof.
  intros Ga Gb Ia Ib AH Ea'. destruct (good_parts _ Ga) as (Wa & Pa & _ & _). destruct (good_parts _ Gb) as (Wb & Pb & _ & _).
  destruct a as [x|lo hi i j]; [discriminate|]. destruct b as [y|blo bhi bi bj]; [discriminate|].
  unfold after_piece in Ea'. cbn [rmax imax] in Ea'.
  destruct hi as [aM|], bhi as [bM|]; cbn [oveq] in Ea'.
  - destruct (veqb aM bM) eqn:E; injection Ea' as <-; [|reflexivity].
    assert (WaM : wf aM = true) by (unfold wf_rng, rbounds in Wa; cbn [rmin rmax obounds] in Wa; rewrite forallb_app in Wa; apply andb_true_iff in Wa as [_ Wa]; cbn in Wa; rewrite andb_true_r in Wa; exact Wa).
    assert (WbM : wf bM = true) by (unfold wf_rng, rbounds in Wb; cbn [rmin rmax obounds] in Wb; rewrite forallb_app in Wb; apply andb_true_iff in Wb as [_ Wb]; cbn in Wb; rewrite andb_true_r in Wb; exact Wb).
    destruct (tie_flags lo aM i j blo bM bi bj Pa Pb WaM WbM E AH) as [-> _].
    unfold below. cbn [rmax imax]. reflexivity.
  - injection Ea' as <-. reflexivity.
  - injection Ea' as <-. reflexivity.
  - discriminate.
Qed.

(* a range minus an interior point: literally the two halves *)
Lemma split_point_eq lo hi i j y : good (RR lo hi i j) = true -> good (RV y) = true -> regular_r y (RR lo hi i j) = true ->
  mem (RR lo hi i j) y = true -> oveq (Some y) lo = false -> oveq (Some y) hi = false ->
  r_difference (RR lo hi i j) (RV y) = Ok (VUnion [RR lo (Some y) i false; RR (Some y) hi false j]) /\
  good (RR lo (Some y) i false) = true /\ good (RR (Some y) hi false j) = true.
Proof.
  intros Ga Gb Ry My E1 E2. destruct (good_rv y Gb) as [Wy Ly].
  cbn [r_difference].
  assert (Ar : rr_allows (RR lo hi i j) y = mem (RR lo hi i j) y).
  { rewrite <- (allows_regular (RR lo hi i j) y (good_wf _ Ga) Wy Ry). reflexivity. }
  rewrite Ar, My. cbn [negb rmin rmax imin imax]. rewrite E1, E2.
  destruct (split_at_point lo hi i j y Ga Wy Ly My E1 E2) as (G1 & G2 & _).
  destruct (apart_split lo hi i j y G1 G2) as (C1 & C2 & C3).
  unfold union_of, OF_FUEL.
  rewrite (union_of_two _ _ _ C1 C2 C3 (not_any_max (RR lo (Some y) i false) y eq_refl) (not_any_min (RR (Some y) hi false j) y eq_refl)).
  auto.
Qed.
(* two overlapping ranges, a reaching out on both sides: literally [piece below b; piece above b] *)
Lemma split_range_eq a b : good a = true -> good b = true -> is_rr a = true -> is_rr b = true -> mutual (rbounds a ++ rbounds b) ->
  r_allows_any a b = true -> allows_lower a b = true -> allows_higher a b = true ->
  exists rb ra, before_piece a b = Some rb /\ after_piece a b = Some ra /\ r_difference a b = Ok (VUnion [rb; ra]) /\
    good rb = true /\ good ra = true /\ incl (rbounds rb) (rbounds a ++ rbounds b) /\ incl (rbounds ra) (rbounds a ++ rbounds b) /\
    (forall v, mem rb v = above a v && negb (above b v)).
Proof.
  intros Ga Gb Ia Ib MU Ov AL AH.
  assert (MR : max_regular a b).
  { apply mreg_max. apply (mutual_mreg _ a b MU); intros e He; apply in_or_app; [left|right]; exact He. }
  destruct (before_exact a b Ga Gb Ia Ib AL) as (rb & Eb' & Gb' & Ib' & Mb).
  destruct (after_exact a b Ga Gb Ia Ib MR AH) as (ra & Ea' & Ga' & Ia' & Ma).
  exists rb, ra. split; [exact Eb'|]. split; [exact Ea'|].
  rewrite (r_difference_rr a b Ia Ib), Ov, AL, AH. cbn [negb]. rewrite Eb', Ea'.
  destruct (before_max a b rb Ia Ib AL Eb') as (m1 & bm & H1 & Hbm & E1).
  destruct (after_min a b ra Ia Ib AH Ea') as (m2 & bM & H2 & HbM & E2).
  assert (Lt : vltb m1 m2 = true).
  { destruct (good_parts _ Gb) as (_ & Pb & _ & _). unfold proper in Pb. destruct b as [yb|blo bhi bi bj]; [discriminate|].
    cbn [rmin rmax] in Hbm, HbM. subst blo bhi. clear - Pb E1 E2. order_lia [m1; bm; bM; m2]. }
  assert (R1 : regular_r m1 ra = true).
  { apply (mutual_regular_r _ m1 _ MU); [apply Ib', in_bounds_max, H1|exact Ia']. }
  assert (R2 : regular_r m2 rb = true).
  { apply (mutual_regular_r _ m2 _ MU); [apply Ia', in_bounds_min, H2|exact Ib']. }
  destruct (apart_lt rb ra m1 m2 Gb' Ga' H1 H2 Lt R1 R2) as (C1 & C2 & C3).
  unfold union_of, OF_FUEL.
  rewrite (union_of_two _ _ _ C1 C2 C3 (not_any_max _ m1 H1) (not_any_min _ m2 H2)). auto 10.
Qed.

(* when the difference of two range-likes splits, the result is literally [piece below b; piece above b] *)
Lemma r_difference_split a b l : good a = true -> good b = true -> mutual (rbounds a ++ rbounds b) ->
  r_difference a b = Ok (VUnion l) ->
  exists x y, l = [x; y] /\ good x = true /\ good y = true /\
    incl (rbounds x ++ rbounds y) (rbounds a ++ rbounds b) /\
    (forall v, mem x v = true -> below b v = true) /\
    (forall v, below y v = below a v) /\
    (forall v, wf v = true -> regular_r v a = true -> regular_r v b = true -> below b v = true -> below a v = true).
Proof.
  intros Ga Gb MU H.
  destruct a as [xa|lo hi i j] eqn:Ea.
  { cbn [r_difference] in H. destruct (r_allows b xa); discriminate. }
  destruct b as [y|blo bhi bi bj] eqn:Eb.
  - destruct (good_rv y Gb) as [Wy Ly].
    assert (Ry : regular_r y (RR lo hi i j) = true).
    { apply (mutual_regular_r _ y _ MU); [apply in_or_app; right; left; reflexivity|intros e He; apply in_or_app; left; exact He]. }
    assert (Ar : rr_allows (RR lo hi i j) y = mem (RR lo hi i j) y).
    { rewrite <- (allows_regular (RR lo hi i j) y (good_wf _ Ga) Wy Ry). reflexivity. }
    pose proof H as H0. cbn [r_difference] in H0. rewrite Ar in H0.
    destruct (mem (RR lo hi i j) y) eqn:My; cbn [negb] in H0; [|discriminate].
    cbn [rmin rmax imin imax] in H0.
    destruct (oveq (Some y) lo) eqn:E1; [destruct (negb i); discriminate|].
    destruct (oveq (Some y) hi) eqn:E2; [destruct (negb j); discriminate|]. clear H0.
    destruct (split_point_eq lo hi i j y Ga Gb Ry My E1 E2) as (Q & G1 & G2). rewrite Q in H. injection H as <-.
    do 2 eexists. split; [reflexivity|]. split; [exact G1|]. split; [exact G2|]. split; [|split; [|split]].
    + unfold rbounds. cbn [rmin rmax obounds app]. intros e He. rewrite !in_app_iff in *. cbn [In obounds] in *. tauto.
    + intros v Hv. unfold mem, below in *. cbn [rmax imax] in *. apply andb_true_iff in Hv as [_ Hv].
      rewrite andb_false_r, orb_false_r in Hv. rewrite Hv. reflexivity.
    + intros v. reflexivity.
    + intros v _ _ _ Hv. unfold mem, above, below in *. cbn [rmin rmax imin imax] in *.
      destruct hi as [n|]; [|reflexivity]. cbn [oveq] in E2. clear - My E2 Hv. destruct lo; destruct j; order_lia [v; y; n].
  - rewrite <- Ea, <- Eb in *.
    assert (Ia : is_rr a = true) by (rewrite Ea; reflexivity). assert (Ib : is_rr b = true) by (rewrite Eb; reflexivity).
    pose proof H as H0. rewrite (r_difference_rr a b Ia Ib) in H0.
    destruct (r_allows_any a b) eqn:Ov; cbn [negb] in H0; [|discriminate].
    destruct (allows_lower a b) eqn:AL, (allows_higher a b) eqn:AH; cbn [negb] in H0.
    2:{ destruct (before_piece a b); discriminate. }
    2:{ destruct (after_piece a b); discriminate. }
    2:{ discriminate. }
    clear H0.
    destruct (split_range_eq a b Ga Gb Ia Ib MU Ov AL AH) as (rb & ra & Eb' & Ea' & Q & Gb' & Ga' & Ib' & Ia' & Mb).
    rewrite Q in H. injection H as <-. exists rb, ra. split; [reflexivity|]. split; [exact Gb'|]. split; [exact Ga'|]. split; [|split; [|split]].
    + intros e He. apply in_app_or in He. destruct He as [He|He]; [apply Ib', He|apply Ia', He].
    + intros v Hv. rewrite Mb in Hv. apply andb_true_iff in Hv as [_ Hv]. apply negb_true_iff in Hv.
      apply not_above_below; assumption.
    + intros v. exact (after_below a b ra v Ga Gb Ia Ib AH Ea').
    + intros v Wv Ra Rb Hv. destruct (allows_higher_spec a b v (good_wf a Ga) (good_wf b Gb) Ra Rb) as [X _]. exact (X AH Hv).
Qed.

Definition none_of (l : list rng) (v : version) : bool := forallb (fun r => negb (mem r v)) l.
Definition regB (B : list version) (v : version) : bool := forallb (regular1 v) B.
Lemma regB_r B v r : regB B v = true -> incl (rbounds r) B -> regular_r v r = true.
Proof. intros H I. exact (regular_incl v _ _ I H). Qed.

Section Sweep.
  Variable B : list version.
  Hypothesis MU : mutual B.

  (* v in x, x ends below r's upper end, r strictly lower than every member of rest: v is in none of rest *)
  Lemma below_none r rest v : good r = true -> forallb good rest = true -> forallb (is_strictly_lower r) rest = true ->
    incl (rbounds r) B -> incl (lbounds rest) B -> regB B v = true -> below r v = true -> none_of rest v = true.
  Proof.
    intros Gr Gl S Ir Il R Bv. unfold none_of. rewrite forallb_forall. intros y Hy. apply negb_true_iff. apply not_true_iff_false. intros M.
    rewrite forallb_forall in S.
    assert (Iy : incl (rbounds y) B).
    { intros e He. apply Il. unfold lbounds. apply in_flat_map. exists y. auto. }
    exact (apart r y v (good_wf r Gr) (regB_r B v r R Ir) (regB_r B v y R Iy) (S y Hy) Bv (mem_above y v M)).
  Qed.

  Lemma sweep : forall l current pieces rs,
    good current = true -> forallb good pieces = true -> forallb good l = true -> sepb l = true ->
    incl (rbounds current) B -> incl (lbounds pieces) B -> incl (lbounds l) B ->
    rr_minus_union current pieces l = Ok rs ->
    forallb good rs = true /\ incl (lbounds rs) B /\
    forall v, wf v = true -> regB B v = true -> lmem rs v = lmem pieces v || (mem current v && none_of l v).
  Proof.
    induction l as [|r rest IH]; intros current pieces rs Gc Gp Gl S Ic Ip Il H.
    - cbn [rr_minus_union] in H. injection H as <-. split; [|split].
      + change (rev pieces ++ [current]) with (rev (current :: pieces)). rewrite forallb_rev. cbn [forallb]. rewrite Gc, Gp. reflexivity.
      + change (rev pieces ++ [current]) with (rev (current :: pieces)). intros e He. apply lbounds_rev_incl in He. cbn [lbounds flat_map] in He. apply in_app_or in He. destruct He as [He|He]; [apply Ic, He|apply Ip, He].
      + change (rev pieces ++ [current]) with (rev (current :: pieces)). intros v Wv R. rewrite lmem_rev. cbn [lmem existsb none_of forallb]. rewrite andb_true_r. apply orb_comm.
    - cbn [forallb] in Gl. apply andb_true_iff in Gl as [Gr Gl]. cbn [sepb] in S. apply andb_true_iff in S as [Sr S].
      assert (Ir : incl (rbounds r) B) by (intros e He; apply Il; cbn [lbounds flat_map]; apply in_or_app; left; exact He).
      assert (Il' : incl (lbounds rest) B) by (intros e He; apply Il; cbn [lbounds flat_map]; apply in_or_app; right; exact He).
      cbn [rr_minus_union] in H.
      destruct (is_strictly_lower r current) eqn:SL.
      { (* r lies wholly below current: it removes nothing *)
        destruct (IH current pieces rs Gc Gp Gl S Ic Ip Il' H) as (G1 & I1 & M1). split; [exact G1|]. split; [exact I1|].
        intros v Wv R. rewrite (M1 v Wv R). cbn [none_of forallb]. fold (none_of rest v).
        destruct (mem current v) eqn:Mc; [|reflexivity]. cbn [andb].
        replace (mem r v) with false; [reflexivity|]. symmetry. apply not_true_iff_false. intros Mr.
        exact (apart r current v (good_wf r Gr) (regB_r B v r R Ir) (regB_r B v current R Ic) SL (mem_below r v Mr) (mem_above current v Mc)). }
      destruct (is_strictly_higher r current) eqn:SH.
      { (* r and everything after it lie above current *)
        injection H as <-. split; [|split].
        + change (rev pieces ++ [current]) with (rev (current :: pieces)). rewrite forallb_rev. cbn [forallb]. rewrite Gc, Gp. reflexivity.
        + change (rev pieces ++ [current]) with (rev (current :: pieces)). intros e He. apply lbounds_rev_incl in He. cbn [lbounds flat_map] in He. apply in_app_or in He. destruct He as [He|He]; [apply Ic, He|apply Ip, He].
        + change (rev pieces ++ [current]) with (rev (current :: pieces)). intros v Wv R. rewrite lmem_rev. cbn [lmem existsb]. rewrite orb_comm. f_equal.
          destruct (mem current v) eqn:Mc; [|reflexivity]. cbn [andb]. symmetry.
          unfold is_strictly_higher in SH.
          assert (Nr : above r v = false).
          { apply not_true_iff_false. intros Ar.
            exact (apart current r v (good_wf _ Gc) (regB_r B v current R Ic) (regB_r B v r R Ir) SH (mem_below _ v Mc) Ar). }
          cbn [none_of forallb]. unfold mem at 1. rewrite Nr. cbn [andb negb].
          apply (below_none r rest v Gr Gl Sr Ir Il' R). apply not_above_below; assumption. }
      (* they overlap *)
      destruct (r_difference current r) as [d|e] eqn:D; cbn [bind] in H; [|discriminate].
      assert (MUcr : mutual (rbounds current ++ rbounds r)).
      { apply (mutual_incl B); [|exact MU]. intros e He. apply in_app_or in He. destruct He as [He|He]; [apply Ic, He|apply Ir, He]. }
      assert (MR : mreg_r current r = true).
      { apply (mutual_mreg B); assumption. }
      destruct (r_difference_exact current r d Gc Gr MR D) as (Dm & Db & Dg).
      assert (Idb : incl (cbounds d) B).
      { intros e He. apply Db in He. apply in_app_or in He. destruct He as [He|He]; [apply Ic, He|apply Ir, He]. }
      destruct d as [|x|dl].
      + (* nothing left *)
        injection H as <-. split; [|split].
        * rewrite forallb_rev. exact Gp.
        * intros e He. apply lbounds_rev_incl in He. apply Ip, He.
        * intros v Wv R. rewrite lmem_rev. specialize (Dm v Wv (regB_r B v current R Ic) (regB_r B v r R Ir)). cbn [vmem] in Dm.
          cbn [none_of forallb]. rewrite andb_assoc, <- Dm. rewrite orb_false_r. reflexivity.
      + (* one piece left *)
        assert (Gx : good x = true) by (unfold goodc in Dg; cbn in Dg; rewrite andb_true_r in Dg; exact Dg).
        assert (Ix : incl (rbounds x) B).
        { intros e He. apply Idb. unfold cbounds. cbn [flatten flat_map]. rewrite app_nil_r. exact He. }
        destruct (IH x pieces rs Gx Gp Gl S Ix Ip Il' H) as (G1 & I1 & M1). split; [exact G1|]. split; [exact I1|].
        intros v Wv R. rewrite (M1 v Wv R). specialize (Dm v Wv (regB_r B v current R Ic) (regB_r B v r R Ir)). cbn [vmem] in Dm.
        cbn [none_of forallb]. fold (none_of rest v). rewrite Dm, andb_assoc. reflexivity.
      + (* current is split: the lower piece is final, the upper piece goes on *)
        destruct (r_difference_split current r dl Gc Gr MUcr D) as (x & y & -> & Gx & Gy & Ixy & Bx & _ & _).
        cbn [last] in H.
        assert (Ix : incl (rbounds x) B).
        { intros e He. apply Idb. unfold cbounds. cbn [flatten flat_map]. apply in_or_app. left. exact He. }
        assert (Iy : incl (rbounds y) B).
        { intros e He. apply Idb. unfold cbounds. cbn [flatten flat_map]. apply in_or_app. right. rewrite app_nil_r. exact He. }
        assert (Gp' : forallb good (x :: pieces) = true) by (cbn [forallb]; rewrite Gx, Gp; reflexivity).
        assert (Ip' : incl (lbounds (x :: pieces)) B).
        { intros e He. cbn [lbounds flat_map] in He. apply in_app_or in He. destruct He as [He|He]; [apply Ix, He|apply Ip, He]. }
        destruct (IH y (x :: pieces) rs Gy Gp' Gl S Iy Ip' Il' H) as (G1 & I1 & M1). split; [exact G1|]. split; [exact I1|].
        intros v Wv R. rewrite (M1 v Wv R). specialize (Dm v Wv (regB_r B v current R Ic) (regB_r B v r R Ir)).
        cbn [vmem existsb] in Dm. rewrite orb_false_r in Dm.
        cbn [lmem existsb none_of forallb]. fold (lmem pieces v). fold (none_of rest v). rewrite andb_assoc, <- Dm.
        destruct (mem x v) eqn:Mx.
        * rewrite (below_none r rest v Gr Gl Sr Ir Il' R (Bx v Mx)). cbn. rewrite orb_true_r. reflexivity.
        * cbn [orb]. reflexivity.
  Qed.
End Sweep.

(* VersionRange.difference(VersionUnion) and VersionUnion._inverted: exact on regular probes *)
Theorem rng_minus_union_exact B a l c : mutual B -> good a = true -> forallb good l = true -> sepb l = true ->
  incl (rbounds a) B -> incl (lbounds l) B -> rng_minus_union a l = Ok c ->
  goodc c = true /\ incl (cbounds c) B /\
  forall v, wf v = true -> regB B v = true -> vmem c v = mem a v && none_of l v.
Proof.
  intros MU Ga Gl S Ia Il H. unfold rng_minus_union in H.
  destruct (rr_minus_union a [] l) as [rs|e] eqn:E; cbn [bind] in H; [|discriminate].
  destruct (sweep B MU l a [] rs Ga eq_refl Gl S Ia (fun e H => match H with end) Il E) as (G1 & I1 & M1).
  assert (Gm : forallb goodc (map VOne rs) = true).
  { clear - G1. induction rs as [|r rs IH]; [reflexivity|]. cbn [forallb map] in *. apply andb_true_iff in G1 as [G G1].
    unfold goodc at 1. cbn [flatten forallb]. rewrite G, (IH G1). reflexivity. }
  destruct (vunion_of_sound OF_FUEL (map VOne rs) c Gm H) as (Um & Ub & Ug).
  assert (Fb : flat_map cbounds (map VOne rs) = lbounds rs).
  { clear. induction rs as [|r rs IH]; [reflexivity|]. cbn [map flat_map lbounds]. unfold cbounds at 1. cbn [flatten flat_map]. rewrite app_nil_r. f_equal. exact IH. }
  split; [exact Ug|]. split.
  - intros e He. apply Ub in He. rewrite Fb in He. apply I1, He.
  - intros v Wv R. rewrite Um; [|exact Wv|rewrite Fb; exact (regular_incl v _ _ I1 R)].
    specialize (M1 v Wv R). cbn [lmem existsb orb] in M1. rewrite <- M1. unfold lmem. clear. induction rs as [|r rs IH]; [reflexivity|]. cbn [map existsb lmem vmem]. rewrite IH. reflexivity.
Qed.
Print Assumptions rng_minus_union_exact.

(* the lower piece ends where b begins *)
Lemma before_below a b r v : good a = true -> good b = true -> is_rr a = true -> is_rr b = true -> allows_lower a b = true ->
  before_piece a b = Some r -> below r v = negb (above b v).
Proof.
  intros Ga Gb Ia Ib AL H.
  destruct a as [x|alo ahi ai aj]; [discriminate|]. destruct b as [y|blo bhi bi bj]; [discriminate|].
  unfold before_piece, allows_lower, above, below in *. cbn [rmin rmax imin imax] in *.
  destruct blo as [bm|]; [|destruct alo; discriminate].
  destruct alo as [am|]; cbn [oveq] in H.
  - destruct (veqb am bm) eqn:E; injection H as <-; cbn [rmax imax].
    + clear - AL E. destruct ai, bi; cbn [andb negb] in *; order_lia [v; am; bm].
    + clear. destruct bi; cbn [andb negb]; order_lia [v; bm].
  - injection H as <-. cbn [rmax imax]. clear. destruct bi; cbn [andb negb]; order_lia [v; bm].
Qed.

(* a single piece of a difference never reaches above the minuend *)
Lemma vone_below a b x : good a = true -> good b = true -> mutual (rbounds a ++ rbounds b) ->
  r_difference a b = Ok (VOne x) ->
  forall v, wf v = true -> regular_r v a = true -> regular_r v b = true -> below x v = true -> below a v = true.
Proof.
  intros Ga Gb MU H v Wv Ra Rb Hx.
  destruct a as [xa|lo hi i j] eqn:Ea.
  { cbn [r_difference] in H. destruct (r_allows b xa); [discriminate|]. injection H as <-. exact Hx. }
  destruct b as [y|blo bhi bi bj] eqn:Eb.
  - destruct (good_rv y Gb) as [Wy Ly].
    assert (Ry : regular_r y (RR lo hi i j) = true).
    { apply (mutual_regular_r _ y _ MU); [apply in_or_app; right; left; reflexivity|intros e He; apply in_or_app; left; exact He]. }
    assert (Ar : rr_allows (RR lo hi i j) y = mem (RR lo hi i j) y).
    { rewrite <- (allows_regular (RR lo hi i j) y (good_wf _ Ga) Wy Ry). reflexivity. }
    pose proof H as H0. cbn [r_difference] in H0. rewrite Ar in H0.
    destruct (mem (RR lo hi i j) y) eqn:My; cbn [negb] in H0; [|injection H0 as <-; exact Hx].
    cbn [rmin rmax imin imax] in H0.
    destruct (oveq (Some y) lo) eqn:E1; [injection H0 as <-; destruct (negb i); exact Hx|].
    destruct (oveq (Some y) hi) eqn:E2.
    + injection H0 as <-. destruct (negb j); [exact Hx|]. unfold below in *. cbn [rmax imax] in *. destruct hi as [n|]; [|reflexivity].
      rewrite andb_false_r, orb_false_r in Hx. rewrite Hx. reflexivity.
    + exfalso. destruct (split_point_eq lo hi i j y Ga Gb Ry My E1 E2) as (Q & _). rewrite Q in H. discriminate.
  - rewrite <- Ea, <- Eb in *.
    assert (Ia : is_rr a = true) by (rewrite Ea; reflexivity). assert (Ib : is_rr b = true) by (rewrite Eb; reflexivity).
    pose proof H as H0. rewrite (r_difference_rr a b Ia Ib) in H0.
    destruct (r_allows_any a b) eqn:Ov; cbn [negb] in H0; [|injection H0 as <-; exact Hx].
    destruct (allows_lower a b) eqn:AL, (allows_higher a b) eqn:AH; cbn [negb] in H0.
    + exfalso. destruct (split_range_eq a b Ga Gb Ia Ib MU Ov AL AH) as (rb & ra & _ & _ & Q & _). rewrite Q in H. discriminate.
    + destruct (before_piece a b) as [rb|] eqn:Eb'; [|discriminate]. injection H0 as <-.
      rewrite (before_below a b rb v Ga Gb Ia Ib AL Eb') in Hx. apply negb_true_iff in Hx.
      destruct (overlap_facts a b Ga Gb Ia Ib Ov v Ra Rb) as [[F|F] _]; [exact F|]. rewrite F in Hx. discriminate.
    + destruct (after_piece a b) as [ra|] eqn:Ea'; [|discriminate]. injection H0 as <-.
      rewrite (after_below a b ra v Ga Gb Ia Ib AH Ea') in Hx. exact Hx.
    + discriminate.
Qed.

Section UDiff.
  Variable B : list version.
  Hypothesis MU : mutual B.

  Definition Under (cur : rng) (ours : list rng) : Prop :=
    forall v, wf v = true -> regB B v = true -> below cur v = true -> none_of ours v = true.
  Lemma none_lmem l v : none_of l v = true -> lmem l v = false.
  Proof. unfold none_of, lmem. induction l as [|x l IH]; cbn; [reflexivity|]. rewrite andb_true_iff, negb_true_iff. intros [-> H]. exact (IH H). Qed.
  Lemma sepb_under x r : good x = true -> forallb good r = true -> forallb (is_strictly_lower x) r = true ->
    incl (rbounds x) B -> incl (lbounds r) B -> Under x r.
  Proof. intros Gx Gr S Ix Ir v Wv R Bv. exact (below_none B x r v Gx Gr S Ix Ir R Bv). Qed.
  Lemma lb_cons x l : incl (lbounds (x :: l)) B -> incl (rbounds x) B /\ incl (lbounds l) B.
  Proof. intros H. split; intros e He; apply H; cbn [lbounds flat_map]; apply in_or_app; [left|right]; exact He. Qed.
  Lemma lb_cons' x l : incl (rbounds x) B -> incl (lbounds l) B -> incl (lbounds (x :: l)) B.
  Proof. intros H1 H2 e He. cbn [lbounds flat_map] in He. apply in_app_or in He. destruct He as [He|He]; [apply H1, He|apply H2, He]. Qed.

  Definition Inv (current : rng) (ours : list rng) (their : rng) (theirs acc : list rng) : Prop :=
    good current = true /\ forallb good ours = true /\ good their = true /\ forallb good theirs = true /\ forallb good acc = true /\
    sepb ours = true /\ sepb (their :: theirs) = true /\ Under current ours /\
    incl (rbounds current) B /\ incl (lbounds ours) B /\ incl (rbounds their) B /\ incl (lbounds theirs) B /\ incl (lbounds acc) B.
  Definition Concl (current : rng) (ours : list rng) (ts acc rs : list rng) : Prop :=
    forallb good rs = true /\ incl (lbounds rs) B /\
    forall v, wf v = true -> regB B v = true -> lmem rs v = lmem acc v || ((mem current v || lmem ours v) && none_of ts v).
  Definition P (f : nat) : Prop := forall current ours their theirs acc rs,
    Inv current ours their theirs acc -> udiff f current ours their theirs acc = Ok rs -> Concl current ours (their :: theirs) acc rs.

  (* moving on to the next range of the subtrahend *)
  Lemma their_next_ok f cur ours theirs acc rs : P f ->
    good cur = true -> forallb good ours = true -> forallb good theirs = true -> forallb good acc = true ->
    sepb ours = true -> sepb theirs = true -> Under cur ours ->
    incl (rbounds cur) B -> incl (lbounds ours) B -> incl (lbounds theirs) B -> incl (lbounds acc) B ->
    match theirs with t :: ts => udiff f cur ours t ts acc | [] => Ok (rev acc ++ cur :: ours) end = Ok rs ->
    Concl cur ours theirs acc rs.
  Proof.
    intros IH Gc Go Gt Ga So St U Ic Io It Ia H. destruct theirs as [|t ts].
    - injection H as <-. split; [|split].
      + rewrite forallb_app, forallb_rev. cbn [forallb]. rewrite Ga, Gc, Go. reflexivity.
      + intros e He. rewrite lbounds_app in He. apply in_app_or in He. destruct He as [He|He]; [apply Ia, lbounds_rev_incl, He|exact (lb_cons' cur ours Ic Io e He)].
      + intros v Wv R. rewrite lmem_app, lmem_rev. cbn [lmem existsb none_of forallb]. rewrite andb_true_r. reflexivity.
    - cbn [forallb] in Gt. apply andb_true_iff in Gt as [Gt1 Gt2]. destruct (lb_cons t ts It) as [It1 It2].
      apply (IH cur ours t ts acc rs); [|exact H]. unfold Inv. auto 20.
  Qed.
  (* moving on to the next range of the minuend *)
  Lemma our_next_ok f ours their theirs acc rs : P f ->
    forallb good ours = true -> good their = true -> forallb good theirs = true -> forallb good acc = true ->
    sepb ours = true -> sepb (their :: theirs) = true ->
    incl (lbounds ours) B -> incl (rbounds their) B -> incl (lbounds theirs) B -> incl (lbounds acc) B ->
    match ours with o :: os => udiff f o os their theirs acc | [] => Ok (rev acc) end = Ok rs ->
    forallb good rs = true /\ incl (lbounds rs) B /\
    forall v, wf v = true -> regB B v = true -> lmem rs v = lmem acc v || (lmem ours v && none_of (their :: theirs) v).
  Proof.
    intros IH Go Gt Gts Ga So St Io It Its Ia H. destruct ours as [|o os].
    - injection H as <-. split; [|split].
      + rewrite forallb_rev. exact Ga.
      + intros e He. apply Ia, lbounds_rev_incl, He.
      + intros v Wv R. rewrite lmem_rev. cbn [lmem existsb andb]. rewrite orb_false_r. reflexivity.
    - cbn [forallb] in Go. apply andb_true_iff in Go as [Go1 Go2]. destruct (lb_cons o os Io) as [Io1 Io2].
      cbn [sepb] in So. apply andb_true_iff in So as [So1 So2].
      assert (U : Under o os) by (apply sepb_under; assumption).
      destruct (IH o os their theirs acc rs) as (G1 & I1 & M1); [unfold Inv; auto 20|exact H|].
      split; [exact G1|]. split; [exact I1|]. intros v Wv R. rewrite (M1 v Wv R). reflexivity.
  Qed.

  Ltac bfin := do 3 (cbn [andb orb negb]; rewrite ?andb_false_r, ?andb_true_r, ?orb_false_r, ?orb_true_r); reflexivity.
  Lemma udiff_step (f : nat) : P f -> P (Datatypes.S f).
  Proof.
    intros IH current ours their theirs acc rs I H.
    destruct I as (Gc & Go & Gt & Gts & Ga & So & St & U & Ic & Io & It & Its & Ia).
    cbn [udiff] in H.
    pose proof St as St'. cbn [sepb] in St'. apply andb_true_iff in St' as [St1 St2].
    assert (Rc : forall v, regB B v = true -> regular_r v current = true) by (intros v R; exact (regB_r B v current R Ic)).
    assert (Rt : forall v, regB B v = true -> regular_r v their = true) by (intros v R; exact (regB_r B v their R It)).
    (* v below their upper end is in none of the later ranges of the subtrahend *)
    assert (BN : forall v, regB B v = true -> below their v = true -> none_of theirs v = true).
    { intros v R Bv. exact (below_none B their theirs v Gt Gts St1 It Its R Bv). }
    destruct (is_strictly_lower their current) eqn:SL.
    { destruct (their_next_ok f current ours theirs acc rs IH Gc Go Gts Ga So St2 U Ic Io Its Ia H) as (G1 & I1 & M1).
      split; [exact G1|]. split; [exact I1|]. intros v Wv R. rewrite (M1 v Wv R). cbn [none_of forallb]. fold (none_of theirs v).
      destruct (mem their v) eqn:Mt; [|reflexivity]. cbn [negb andb]. rewrite andb_false_r.
      assert (Ac : above current v = false).
      { apply not_true_iff_false. intros Ac. exact (apart their current v (good_wf _ Gt) (Rt v R) (Rc v R) SL (mem_below _ v Mt) Ac). }
      unfold mem at 1. rewrite Ac. cbn [andb orb].
      rewrite (none_lmem ours v (U v Wv R (not_above_below current v Gc Ac))). bfin. }
    destruct (is_strictly_higher their current) eqn:SH.
    { assert (Ga' : forallb good (current :: acc) = true) by (cbn [forallb]; rewrite Gc, Ga; reflexivity).
      destruct (our_next_ok f ours their theirs (current :: acc) rs IH Go Gt Gts Ga' So St Io It Its (lb_cons' current acc Ic Ia) H) as (G1 & I1 & M1).
      split; [exact G1|]. split; [exact I1|]. intros v Wv R. rewrite (M1 v Wv R). cbn [lmem existsb]. fold (lmem acc v).
      destruct (mem current v) eqn:Mc; [|rewrite orb_false_l; reflexivity].
      unfold is_strictly_higher in SH.
      assert (At : above their v = false).
      { apply not_true_iff_false. intros At. exact (apart current their v (good_wf _ Gc) (Rc v R) (Rt v R) SH (mem_below _ v Mc) At). }
      cbn [none_of forallb]. fold (none_of theirs v). replace (mem their v) with false by (unfold mem; rewrite At; reflexivity). cbn [andb negb].
      rewrite (BN v R (not_above_below their v Gt At)). cbn. rewrite ?andb_true_r, ?orb_true_r. bfin. }
    destruct (r_difference current their) as [d|e] eqn:D; cbn [bind] in H; [|discriminate].
    assert (MUct : mutual (rbounds current ++ rbounds their)).
    { apply (mutual_incl B); [|exact MU]. intros e He. apply in_app_or in He. destruct He as [He|He]; [apply Ic, He|apply It, He]. }
    assert (MR : mreg_r current their = true) by (apply (mutual_mreg B); assumption).
    destruct (r_difference_exact current their d Gc Gt MR D) as (Dm & Db & Dg).
    assert (Idb : incl (cbounds d) B).
    { intros e He. apply Db in He. apply in_app_or in He. destruct He as [He|He]; [apply Ic, He|apply It, He]. }
    destruct d as [|x|dl].
    - (* current disappears *)
      destruct (our_next_ok f ours their theirs acc rs IH Go Gt Gts Ga So St Io It Its Ia H) as (G1 & I1 & M1).
      split; [exact G1|]. split; [exact I1|]. intros v Wv R. rewrite (M1 v Wv R).
      specialize (Dm v Wv (Rc v R) (Rt v R)). cbn [vmem] in Dm. cbn [none_of forallb]. fold (none_of theirs v).
      destruct (mem current v), (mem their v); cbn in *; try discriminate; try reflexivity; rewrite ?andb_false_r; bfin.
    - assert (Gx : good x = true) by (unfold goodc in Dg; cbn in Dg; rewrite andb_true_r in Dg; exact Dg).
      assert (Ix : incl (rbounds x) B).
      { intros e He. apply Idb. unfold cbounds. cbn [flatten flat_map]. rewrite app_nil_r. exact He. }
      assert (Bx : forall v, wf v = true -> regB B v = true -> below x v = true -> below current v = true).
      { intros v Wv R. exact (vone_below current their x Gc Gt MUct D v Wv (Rc v R) (Rt v R)). }
      destruct (allows_higher x their) eqn:AH.
      + (* the piece reaches above their: keep it as current, go to the next of theirs *)
        assert (Ux : Under x ours) by (intros v Wv R Hv; exact (U v Wv R (Bx v Wv R Hv))).
        destruct (their_next_ok f x ours theirs acc rs IH Gx Go Gts Ga So St2 Ux Ix Io Its Ia H) as (G1 & I1 & M1).
        split; [exact G1|]. split; [exact I1|]. intros v Wv R. rewrite (M1 v Wv R).
        specialize (Dm v Wv (Rc v R) (Rt v R)). cbn [vmem] in Dm. cbn [none_of forallb]. fold (none_of theirs v). rewrite Dm.
        destruct (mem their v) eqn:Mt; [|cbn [negb andb]; rewrite andb_true_r; reflexivity].
        cbn [negb andb]. rewrite andb_false_r, orb_false_l.
        destruct (allows_higher_spec x their v (good_wf x Gx) (good_wf _ Gt) (regB_r B v x R Ix) (Rt v R)) as [X _].
        rewrite (none_lmem ours v (Ux v Wv R (X AH (mem_below _ v Mt)))). bfin.
      + (* the piece ends below their upper end: it is final *)
        assert (Ga' : forallb good (x :: acc) = true) by (cbn [forallb]; rewrite Gx, Ga; reflexivity).
        destruct (our_next_ok f ours their theirs (x :: acc) rs IH Go Gt Gts Ga' So St Io It Its (lb_cons' x acc Ix Ia) H) as (G1 & I1 & M1).
        split; [exact G1|]. split; [exact I1|]. intros v Wv R. rewrite (M1 v Wv R). cbn [lmem existsb]. fold (lmem acc v).
        specialize (Dm v Wv (Rc v R) (Rt v R)). cbn [vmem] in Dm. cbn [none_of forallb]. fold (none_of theirs v).
        destruct (mem x v) eqn:Mx.
        * destruct (allows_higher_spec x their v (good_wf x Gx) (good_wf _ Gt) (regB_r B v x R Ix) (Rt v R)) as [_ X].
          rewrite (BN v R (X AH (mem_below _ v Mx))). symmetry in Dm. apply andb_true_iff in Dm as [-> ->]. cbn. rewrite !orb_true_r. bfin.
        * rewrite orb_false_l. destruct (mem current v), (mem their v); cbn in *; try discriminate; bfin.
    - (* current is split in two *)
      destruct (r_difference_split current their dl Gc Gt MUct D) as (x & y & -> & Gx & Gy & Ixy & Bx & By & Bt).
      assert (Ix : incl (rbounds x) B).
      { intros e He. apply Idb. unfold cbounds. cbn [flatten flat_map]. apply in_or_app. left. exact He. }
      assert (Iy : incl (rbounds y) B).
      { intros e He. apply Idb. unfold cbounds. cbn [flatten flat_map]. apply in_or_app. right. rewrite app_nil_r. exact He. }
      assert (Uy : Under y ours) by (intros v Wv R Hv; rewrite By in Hv; exact (U v Wv R Hv)).
      assert (Ga' : forallb good (x :: acc) = true) by (cbn [forallb]; rewrite Gx, Ga; reflexivity).
      destruct (their_next_ok f y ours theirs (x :: acc) rs IH Gy Go Gts Ga' So St2 Uy Iy Io Its (lb_cons' x acc Ix Ia) H) as (G1 & I1 & M1).
      split; [exact G1|]. split; [exact I1|]. intros v Wv R. rewrite (M1 v Wv R). cbn [lmem existsb]. fold (lmem acc v).
      specialize (Dm v Wv (Rc v R) (Rt v R)). cbn [vmem existsb] in Dm. rewrite orb_false_r in Dm.
      cbn [none_of forallb]. fold (none_of theirs v).
      destruct (mem x v) eqn:Mx.
      + rewrite (BN v R (Bx v Mx)). symmetry in Dm. cbn [orb] in Dm. apply andb_true_iff in Dm as [-> ->]. cbn. rewrite !orb_true_r. bfin.
      + cbn [orb] in Dm. rewrite orb_false_l. rewrite Dm.
        destruct (mem their v) eqn:Mt; [|cbn [negb andb]; rewrite andb_true_r; reflexivity].
        cbn [negb andb]. rewrite andb_false_r, orb_false_l.
        rewrite (none_lmem ours v (U v Wv R (Bt v Wv (Rc v R) (Rt v R) (mem_below _ v Mt)))). bfin.
  Qed.
End UDiff.

Lemma udiff_all B (MU : mutual B) : forall f, P B f.
Proof.
  induction f as [|f IH]; [|apply udiff_step; assumption].
  intros current ours their theirs acc rs _ H. discriminate H.
Qed.

Lemma none_of_lmem l v : none_of l v = negb (lmem l v).
Proof. unfold none_of, lmem. induction l as [|x l IH]; cbn; [reflexivity|]. rewrite IH, negb_orb. reflexivity. Qed.
Lemma lmem_congr l v x : veqb v x = true -> lmem l v = lmem l x.
Proof. intros E. unfold lmem. induction l as [|r l IH]; cbn; [reflexivity|]. rewrite (mem_congr r v x E), IH. reflexivity. Qed.
Lemma good_map_vone rs : forallb good rs = true -> forallb goodc (map VOne rs) = true.
Proof.
  induction rs as [|r rs IH]; [reflexivity|]. cbn [forallb map]. intros G. apply andb_true_iff in G as [G G1].
  unfold goodc at 1. cbn [flatten forallb]. rewrite G, (IH G1). reflexivity.
Qed.
Lemma bounds_map_vone rs : flat_map cbounds (map VOne rs) = lbounds rs.
Proof. induction rs as [|r rs IH]; [reflexivity|]. cbn [map flat_map lbounds]. unfold cbounds at 1. cbn [flatten flat_map]. rewrite app_nil_r. f_equal. exact IH. Qed.
Lemma vmem_map_vone rs v : existsb (fun x => vmem x v) (map VOne rs) = lmem rs v.
Proof. unfold lmem. induction rs as [|r rs IH]; [reflexivity|]. cbn [map existsb vmem]. rewrite IH. reflexivity. Qed.

Lemma difference_union_unfold la b : b <> VEmpty -> difference (VUnion la) b =
  match la, flatten b with
  | cur :: ours, t :: ts => do rs <- udiff (Datatypes.S (List.length la + List.length (flatten b))) cur ours t ts [];
                            match rs with [] => Ok VEmpty | [r] => Ok (VOne r) | _ => union_of (map VOne rs) end
  | _, _ => Err EAssert end.
Proof. destruct b; [congruence|reflexivity|reflexivity]. Qed.

Lemma difference_union_exact B la b c : mutual B -> goodc (VUnion la) = true -> goodc b = true -> sorted_c (VUnion la) = true -> sorted_c b = true ->
  incl (cbounds (VUnion la)) B -> incl (cbounds b) B -> b <> VEmpty ->
  difference (VUnion la) b = Ok c ->
  goodc c = true /\ incl (cbounds c) B /\
  forall v, wf v = true -> regB B v = true -> vmem c v = vmem (VUnion la) v && negb (vmem b v).
Proof.
  intros MU Ga Gb Sa Sb Ia Ib NE H.
  assert (Hd : match la, flatten b with
        | cur :: ours, t :: ts => do rs <- udiff (Datatypes.S (List.length la + List.length (flatten b))) cur ours t ts [];
                                  match rs with [] => Ok VEmpty | [r] => Ok (VOne r) | _ => union_of (map VOne rs) end
        | _, _ => Err EAssert end = Ok c) by (rewrite <- (difference_union_unfold la b NE); exact H).
      clear H. revert Hd. generalize (Datatypes.S (List.length la + List.length (flatten b))). intros fuel Hd.
      destruct la as [|cur ours]; [discriminate|]. destruct (flatten b) as [|t ts] eqn:Fb; [discriminate|].
      destruct (udiff fuel cur ours t ts []) as [rs|e] eqn:U; cbn [bind] in Hd; [|discriminate].
      unfold goodc in Ga, Gb. cbn [flatten] in Ga. rewrite Fb in Gb. cbn [forallb] in Ga, Gb.
      apply andb_true_iff in Ga as [Gc Go]. apply andb_true_iff in Gb as [Gt Gts].
      unfold sorted_c in Sa, Sb. cbn [flatten] in Sa. rewrite Fb in Sb. pose proof Sa as Sa'. cbn [sepb] in Sa'. apply andb_true_iff in Sa' as [Sa1 Sa2].
      unfold cbounds in Ia, Ib. cbn [flatten] in Ia. rewrite Fb in Ib. fold (lbounds (cur :: ours)) in Ia. fold (lbounds (t :: ts)) in Ib.
      destruct (lb_cons B cur ours Ia) as [Ic Io]. destruct (lb_cons B t ts Ib) as [It Its].
      assert (I : Inv B cur ours t ts []).
      { unfold Inv. repeat split; try assumption; try reflexivity; [apply sepb_under; assumption|intros e []]. }
      destruct (udiff_all B MU fuel cur ours t ts [] rs I U) as (G1 & I1 & M1).
      assert (Sem : forall v, wf v = true -> regB B v = true -> lmem rs v = vmem (VUnion (cur :: ours)) v && negb (vmem b v)).
      { intros v Wv R. rewrite (M1 v Wv R). cbn [lmem existsb orb vmem]. rewrite none_of_lmem, (vmem_flatten b), Fb. reflexivity. }
      destruct rs as [|r [|r' rs']].
      * injection Hd as <-. split; [reflexivity|]. split; [intros e []|]. intros v Wv R. rewrite <- (Sem v Wv R). reflexivity.
      * injection Hd as <-. cbn [forallb] in G1. split; [unfold goodc; cbn [flatten forallb]; exact G1|]. split.
        -- unfold cbounds. cbn [flatten]. exact I1.
        -- intros v Wv R. rewrite <- (Sem v Wv R). cbn [vmem lmem existsb]. rewrite orb_false_r. reflexivity.
      * destruct (vunion_of_sound OF_FUEL _ c (good_map_vone _ G1) Hd) as (Um & Ub & Ug).
        split; [exact Ug|]. split.
        -- intros e He. apply Ub in He. rewrite bounds_map_vone in He. apply I1, He.
        -- intros v Wv R. rewrite Um; [|exact Wv|rewrite bounds_map_vone; exact (regular_incl v _ _ I1 R)].
           rewrite vmem_map_vone. exact (Sem v Wv R).
Qed.

(* C05, difference for every shape of operands: exact on regular probes *)
Theorem difference_exact B a b c : mutual B -> goodc a = true -> goodc b = true -> sorted_c a = true -> sorted_c b = true ->
  incl (cbounds a) B -> incl (cbounds b) B ->
  (match a with VOne (RV _) => no_local_hole b | _ => True end) ->
  difference a b = Ok c ->
  goodc c = true /\ incl (cbounds c) B /\
  forall v, wf v = true -> regB B v = true -> vmem c v = vmem a v && negb (vmem b v).
Proof.
  intros MU Ga Gb Sa Sb Ia Ib NL H.
  destruct a as [|ra|la].
  - injection H as <-. split; [reflexivity|]. split; [intros e []|]. intros; reflexivity.
  - assert (Gra : good ra = true) by (unfold goodc in Ga; cbn in Ga; rewrite andb_true_r in Ga; exact Ga).
    assert (Ira : incl (rbounds ra) B) by (intros e He; apply Ia; unfold cbounds; cbn [flatten flat_map]; rewrite app_nil_r; exact He).
    destruct ra as [x|lo hi i j] eqn:Era.
    + (* a single version *)
      cbn [difference] in H. destruct (allows b x) as [al|e] eqn:Al; cbn [bind] in H; [|discriminate]. injection H as <-.
      destruct (good_rv x Gra) as [Wx Lx].
      assert (Rx : forallb (regular1 x) (cbounds b) = true).
      { rewrite forallb_forall. intros e He. apply MU; [apply Ira; left; reflexivity|apply Ib, He]. }
      assert (Eal : al = vmem b x) by (rewrite (allows_sem b x al NL Al); apply sem_regular; assumption).
      destruct al.
      * split; [reflexivity|]. split; [intros e []|]. intros v Wv R. cbn [vmem]. rewrite mem_single.
        destruct (veqb v x) eqn:E; [|reflexivity]. rewrite !vmem_flatten in *. rewrite (lmem_congr _ v x E), <- Eal. reflexivity.
      * split; [exact Ga|]. split; [exact Ia|]. intros v Wv R. cbn [vmem]. rewrite mem_single.
        destruct (veqb v x) eqn:E; [|reflexivity]. rewrite !vmem_flatten in *. rewrite (lmem_congr _ v x E), <- Eal. reflexivity.
    + rewrite <- Era in *. destruct b as [|rb|lb].
      * rewrite Era in H. cbn [difference] in H. injection H as <-. rewrite <- Era. split; [exact Ga|]. split; [exact Ia|]. intros v _ _. cbn [vmem]. rewrite andb_true_r. reflexivity.
      * assert (Grb : good rb = true) by (unfold goodc in Gb; cbn in Gb; rewrite andb_true_r in Gb; exact Gb).
        assert (Irb : incl (rbounds rb) B) by (intros e He; apply Ib; unfold cbounds; cbn [flatten flat_map]; rewrite app_nil_r; exact He).
        rewrite Era in H. cbn [difference] in H. rewrite <- Era in H.
        destruct (r_difference_exact ra rb c Gra Grb (mutual_mreg B ra rb MU Ira Irb) H) as (Dm & Db & Dg).
        split; [exact Dg|]. split.
        -- intros e He. apply Db in He. apply in_app_or in He. destruct He as [He|He]; [apply Ira, He|apply Irb, He].
        -- intros v Wv R. cbn [vmem]. apply Dm; [exact Wv|exact (regB_r B v ra R Ira)|exact (regB_r B v rb R Irb)].
      * rewrite Era in H. cbn [difference] in H. rewrite <- Era in H.
        destruct (rng_minus_union_exact B ra lb c MU Gra Gb Sb Ira Ib H) as (G1 & I1 & M1).
        split; [exact G1|]. split; [exact I1|]. intros v Wv R. rewrite (M1 v Wv R), none_of_lmem. reflexivity.
  - destruct b as [|rb|lb] eqn:Eb; rewrite <- Eb in *.
    + rewrite Eb in *. cbn [difference] in H. injection H as <-. split; [exact Ga|]. split; [exact Ia|]. intros v _ _. cbn [vmem]. rewrite andb_true_r. reflexivity.
    + apply (difference_union_exact B la b c); try assumption; rewrite Eb; discriminate.
    + apply (difference_union_exact B la b c); try assumption; rewrite Eb; discriminate.
Qed.
Print Assumptions difference_exact.

(* the executable hypothesis *)
Lemma h_mutual_sound a b : h_mutual a b = true -> mutual (cbounds a ++ cbounds b).
Proof.
  unfold h_mutual. intros H e e' He He'. change (h_cbounds a) with (cbounds a) in H. change (h_cbounds b) with (cbounds b) in H.
  rewrite forallb_forall in H. specialize (H e He). rewrite forallb_forall in H. exact (H e' He').
Qed.
Theorem difference_admits_exactly a b c : goodc a = true -> goodc b = true -> sorted_c a = true -> sorted_c b = true ->
  h_mutual a b = true -> (match a with VOne (RV _) => no_local_hole b | _ => True end) ->
  difference a b = Ok c ->
  goodc c = true /\ forall v, wf v = true -> regular_c v a = true -> regular_c v b = true -> sem c v = sem a v && negb (sem b v).
Proof.
  intros Ga Gb Sa Sb HM NL H. pose proof (h_mutual_sound a b HM) as MU.
  destruct (difference_exact (cbounds a ++ cbounds b) a b c MU Ga Gb Sa Sb) as (Gc & Ic & Mc); try assumption.
  - intros e He. apply in_or_app. left. exact He.
  - intros e He. apply in_or_app. right. exact He.
  - split; [exact Gc|]. intros v Wv Ra Rb.
    assert (R : regB (cbounds a ++ cbounds b) v = true) by (unfold regB; rewrite forallb_app; unfold regular_c in Ra, Rb; rewrite Ra, Rb; reflexivity).
    rewrite (sem_regular c v Gc Wv (regular_incl v _ _ Ic R)), (sem_regular a v Ga Wv Ra), (sem_regular b v Gb Wv Rb). exact (Mc v Wv R).
Qed.
Print Assumptions difference_admits_exactly.
