(* C10: a registry dependency survives the round trip through its PEP 508 text (name and constraint; no extras, no marker).
   Model/Req.v is the requirement parser for the registry fragment (lexer of pep508.lark by hand) and the printer
   base_pep_508_name; both are compared with the implementation on every run of C10.  Here: the lexer is followed through
   the printed text (the name up to the blank, the parenthesis, each spec up to ',' or ')'), the specs joined by ',' are the
   printed text of the constraint again, and ConstraintText.v / ClauseText.v read that back. *)
From Coq Require Import List Bool Arith NArith String Ascii Lia.
From PC Require Import Base.Cmp Base.Result Model.Pep440 Spec.Pep440Spec Proofs.Pep440Order Proofs.Pep440Parse Model.VConstraint
     Proofs.VersionFacts Proofs.Pep440RoundTrip Proofs.ClauseText Proofs.AnyIff Proofs.ConstraintText.
From PC Require Import Model.Req.
Import ListNotations.
Open Scope char_scope.
Open Scope N_scope.
Open Scope list_scope.

Local Arguments Ascii.eqb : simpl never.

Definition valid_name (n : chars) : bool :=
  match n with c :: r => is_alnum c && forallb is_name_char r | [] => false end.
Lemma span_all_app p a b : forallb p a = true -> match b with [] => True | c :: _ => p c = false end -> span p (a ++ b) = (a, b).
Proof. apply span_app. Qed.
Lemma lex_name_ok n rest : valid_name n = true -> match rest with [] => True | c :: _ => is_name_char c = false end ->
  lex_name (n ++ rest) = Some (n, rest).
Proof.
  destruct n as [|c r]; [discriminate|]. cbn [valid_name app]. intros H Hr. apply andb_true_iff in H as [Hc Hn].
  unfold lex_name. rewrite Hc, (span_app is_name_char r rest Hn Hr). reflexivity.
Qed.

(* the characters of a printed version are none of ',' ';' blank ')' *)
Lemma nostop_printed v : printable v = true -> forallb (fun c => negb (spec_stop c)) (printed v) = true.
Proof.
  intros P. apply forallb_forall. apply Forall_forall. apply printed_P; try reflexivity; [|exact P].
  intros c Hc. pose proof (low_alnum_code c Hc) as B. unfold spec_stop, is_space. rewrite !negb_orb, !andb_true_iff, !negb_true_iff. repeat split.
  - apply N.eqb_neq; lia.
  - apply N.eqb_neq; lia.
  - apply andb_false_iff; right; apply N.leb_gt; lia.
  - apply andb_false_iff; right; apply N.leb_gt; lia.
  - apply N.eqb_neq; lia.
Qed.

(* one version spec: an operator, then the printed version, up to a ',' or ')' *)
Lemma lex_spec_printed (op : string) v rest : printable v = true ->
  In op [">="; ">"; "<="; "<"; "=="]%string ->
  match rest with c :: _ => spec_stop c = true | [] => True end ->
  lex_spec (lchars op ++ printed v ++ rest) = Some (lchars op ++ printed v, rest).
Proof.
  intros P Hop Hr. destruct (printed_starts_digit v P) as (d & r & E & Hd).
  assert (Ne : Ascii.eqb "=" d = false) by (apply digit_not; [exact Hd|reflexivity]).
  assert (OP : lex_spec_op spec_ops (lchars op ++ printed v ++ rest) = Some (lchars op, printed v ++ rest)).
  { unfold spec_ops. cbn [In] in Hop. destruct Hop as [<-|[<-|[<-|[<-|[<-|[]]]]]]; cbn [lchars list_ascii_of_string app]; rewrite ?E; cbn [app];
    repeat (cbn [lex_spec_op strip_prefix lchars list_ascii_of_string]; eqb_closed; rewrite ?Ne); reflexivity. }
  unfold lex_spec. rewrite OP.
  assert (S1 : span is_space (printed v ++ rest) = ([], printed v ++ rest)).
  { rewrite E. cbn [app span]. rewrite (digit_not_space d Hd). reflexivity. }
  rewrite S1.
  assert (S2 : span (fun c => negb (spec_stop c)) (printed v ++ rest) = (printed v, rest)).
  { apply span_app; [apply nostop_printed, P|]. destruct rest as [|c r0]; [exact I|]. rewrite Hr. reflexivity. }
  rewrite S2. cbn [app]. reflexivity.
Qed.

Lemma no_blanks_id l : forallb (fun c => negb (code c =? 32)) l = true -> filter (fun c => negb (code c =? 32)) l = l.
Proof. induction l as [|c l IH]; cbn; [reflexivity|]. intros H. apply andb_true_iff in H as [-> H]. rewrite (IH H). reflexivity. Qed.
Lemma name_end_paren : is_name_char " " = false. Proof. reflexivity. Qed.

(* what follows the name of a registry requirement without extras: ' (' specs ')' *)
Lemma req_parse_paren (name : chars) (specs_text : chars) (specs : list chars) :
  valid_name name = true ->
  lex_specs (specs_text ++ [")"]) = Some (specs, [")"]) ->
  match specs_text with c :: _ => is_inline_ws c = false | [] => True end ->
  req_parse (string_of_list_ascii (name ++ " " :: "(" :: specs_text ++ [")"])) =
    match parse_constraint_text false true (req_constraint specs) with
    | Ok c => ReqOk (string_of_list_ascii name) [] c
    | Err EParseConstraint => ReqInvalid
    | Err e => ReqErr e
    end.
Proof.
  intros Vn Hs Hw. unfold req_parse, lchars. rewrite list_ascii_of_string_of_list_ascii.
  assert (W0 : skip_ws (name ++ " " :: "(" :: specs_text ++ [")"]) = name ++ " " :: "(" :: specs_text ++ [")"]).
  { destruct name as [|c r]; [discriminate|]. cbn [valid_name] in Vn. apply andb_true_iff in Vn as [Hc _].
    unfold skip_ws. cbn [app span]. assert (is_inline_ws c = false).
    { unfold is_inline_ws, is_alnum, is_digit, is_lower, is_upper in *. rewrite orb_false_iff, !N.eqb_neq.
      rewrite !orb_true_iff, !andb_true_iff, !N.leb_le in Hc. lia. }
    rewrite H. reflexivity. }
  rewrite W0, (lex_name_ok name (" " :: "(" :: specs_text ++ [")"]) Vn name_end_paren).
  assert (W1 : skip_ws (" " :: "(" :: specs_text ++ [")"]) = "(" :: specs_text ++ [")"]) by reflexivity.
  rewrite W1. cbn [lex_extras]. replace (code "(" =? 91) with false by reflexivity.
  assert (W2 : skip_ws ("(" :: specs_text ++ [")"]) = "(" :: specs_text ++ [")"]) by reflexivity.
  rewrite W2. replace (code "(" =? 40) with true by reflexivity.
  assert (W3 : skip_ws (specs_text ++ [")"]) = specs_text ++ [")"]).
  { destruct specs_text as [|c r]; [reflexivity|]. unfold skip_ws. cbn [app span]. rewrite Hw. reflexivity. }
  rewrite W3, Hs. replace (code ")" =? 41) with true by reflexivity. cbn [skip_ws span snd]. reflexivity.
Qed.

Lemma lex_specs_one (op : string) v : printable v = true -> In op [">="; ">"; "<="; "<"; "=="]%string ->
  lex_specs ((lchars op ++ printed v) ++ [")"]) = Some ([lchars op ++ printed v], [")"]).
Proof.
  intros P Hop. unfold lex_specs. rewrite <- app_assoc. rewrite (lex_spec_printed op v [")"] P Hop eq_refl). reflexivity.
Qed.
Lemma lex_specs_two (op1 op2 : string) a b : printable a = true -> printable b = true ->
  In op1 [">="; ">"]%string -> In op2 ["<="; "<"]%string ->
  lex_specs ((lchars op1 ++ printed a ++ "," :: lchars op2 ++ printed b) ++ [")"]) =
    Some ([lchars op1 ++ printed a; lchars op2 ++ printed b], [")"]).
Proof.
  intros Pa Pb H1 H2. unfold lex_specs. rewrite <- !app_assoc. cbn [app]. rewrite <- !app_assoc.
  assert (I1 : In op1 [">="; ">"; "<="; "<"; "=="]%string) by (cbn [In] in *; tauto).
  assert (I2 : In op2 [">="; ">"; "<="; "<"; "=="]%string) by (cbn [In] in *; tauto).
  rewrite (lex_spec_printed op1 a ("," :: lchars op2 ++ printed b ++ [")"]) Pa I1 eq_refl).
  cbn [lex_specs_tail List.length]. 
  assert (W : skip_ws ("," :: lchars op2 ++ printed b ++ [")"]) = "," :: lchars op2 ++ printed b ++ [")"]) by reflexivity.
  rewrite W. replace (code "," =? 44) with true by reflexivity.
  assert (W2 : skip_ws (lchars op2 ++ printed b ++ [")"]) = lchars op2 ++ printed b ++ [")"]).
  { cbn [In] in H2. destruct H2 as [<-|[<-|[]]]; reflexivity. }
  rewrite W2, (lex_spec_printed op2 b [")"] Pb I2 eq_refl).
  destruct (lchars op2 ++ printed b ++ [")"]) as [|x l0] eqn:E0.
  { exfalso. cbn [In] in H2. destruct H2 as [<-|[<-|[]]]; discriminate E0. }
  cbn [List.length lex_specs_tail]. reflexivity.
Qed.

Lemma sapp_assoc (x y z : string) : ((x ++ y) ++ z = x ++ y ++ z)%string.
Proof. induction x; cbn; [reflexivity|]. rewrite IHx. reflexivity. Qed.
Lemma plain_no_blank l : forallb plain l = true -> forallb (fun c => negb (code c =? 32)) l = true.
Proof.
  intros H. rewrite forallb_forall in *. intros c Hc. specialize (H c Hc). pose proof (plain_not_blank c H) as B. unfold is_blank in B. rewrite B. reflexivity.
Qed.
Lemma soa_inj_app a b : string_of_list_ascii (a ++ b) = (string_of_list_ascii a ++ string_of_list_ascii b)%string.
Proof. apply soa_app. Qed.

(* C10: a registry dependency (no extras) whose constraint is a single version, a half-line or a bounded range in normal form:
   the PEP 508 text that base_pep_508_name prints is read back by the requirement parser as the same name and the same constraint *)
Theorem registry_roundtrip (name : string) r :
  valid_name (lchars name) = true ->
  match r with
  | RV v => normal v = true
  | RR (Some a) None _ false => normal a = true
  | RR None (Some b) false _ => normal b = true
  | RR (Some a) (Some b) _ _ => normal a = true /\ normal b = true /\ vltb a b = true /\ nondeg r = true /\ is_single_wildcard_range r = false
  | _ => False
  end ->
  exists s, dep_text name [] (VOne r) = Some s /\ req_parse s = ReqOk name [] (VOne r).
Proof.
  intros Vn H.
  assert (N : forall v, normal v = true -> printable v = true /\ text v = to_string v /\ reparsed v = v).
  { intros v Hv. unfold normal in Hv. apply andb_true_iff in Hv as [P E]. apply String.eqb_eq in E. auto using reparsed_normal. }
  (* the text as characters: name, ' (', the specs, ')' *)
  assert (K : forall (specs_text : chars) (specs : list chars) c,
     lex_specs (specs_text ++ [")"]) = Some (specs, [")"]) ->
     match specs_text with x :: _ => is_inline_ws x = false | [] => True end ->
     parse_constraint_text false true (req_constraint specs) = Ok c ->
     req_parse (name ++ " (" ++ string_of_list_ascii specs_text ++ ")") = ReqOk name [] c).
  { intros st sp c Hs Hw Hp.
    replace (name ++ " (" ++ string_of_list_ascii st ++ ")")%string with (string_of_list_ascii (lchars name ++ " " :: "(" :: st ++ [")"])).
    - rewrite (req_parse_paren (lchars name) st sp Vn Hs Hw), Hp, soa_lchars. reflexivity.
    - rewrite soa_app, soa_lchars. cbn [string_of_list_ascii]. rewrite soa_app. reflexivity. }
  destruct r as [v|[a|] [b|] i j].
  - destruct (N v H) as (P & E & R). eexists. split; [reflexivity|]. cbn [extras_text]. rewrite E.
    change (name ++ "" ++ " (==" ++ to_string v ++ ")")%string with (name ++ " (" ++ ("==" ++ to_string v) ++ ")")%string.
    rewrite <- (printed_to_string v P). change ("==" ++ string_of_list_ascii (printed v))%string with (string_of_list_ascii (lchars "==" ++ printed v)).
    apply (K _ [lchars "==" ++ printed v]).
    + apply lex_specs_one; [exact P|cbn [In]; tauto].
    + reflexivity.
    + unfold req_constraint. cbn [map sjoin String.concat]. rewrite soa_app, soa_lchars, (printed_to_string v P).
      rewrite <- R at 2. apply (one_clause_text false "==" v _ P eq_refl). apply clause_eq2, P.
  - destruct H as (Ha & Hb & Lt & ND & W). destruct (N a Ha) as (Pa & Ea & Ra). destruct (N b Hb) as (Pb & Eb & Rb).
    assert (RS : r_str (RR (Some a) (Some b) i j) = (lo_op i ++ to_string a ++ "," ++ hi_op j ++ to_string b)%string).
    { unfold r_str. rewrite W, Ea, Eb. destruct i, j; reflexivity. }
    assert (RC : lchars (r_str (RR (Some a) (Some b) i j)) = lchars (lo_op i) ++ printed a ++ "," :: lchars (hi_op j) ++ printed b).
    { rewrite RS. rewrite (lchars_s a b i j Pa Pb). rewrite <- app_assoc. reflexivity. }
    assert (NB : forallb (fun c => negb (code c =? 32)) (lchars (r_str (RR (Some a) (Some b) i j))) = true).
    { rewrite RC, !forallb_app. cbn [forallb]. rewrite !forallb_app.
      rewrite (plain_no_blank _ (plain_printed a Pa)), (plain_no_blank _ (plain_printed b Pb)). destruct i, j; reflexivity. }
    eexists. split.
    + unfold dep_text. cbn [r_is_any extras_text]. reflexivity.
    + unfold no_blanks. rewrite (no_blanks_id _ NB). rewrite RC.
      change (name ++ "" ++ " (" ++ ?x ++ ")")%string with (name ++ " (" ++ x ++ ")")%string.
      apply (K _ [lchars (lo_op i) ++ printed a; lchars (hi_op j) ++ printed b]).
      * apply lex_specs_two; try assumption; [destruct i; cbn [In lo_op]; tauto|destruct j; cbn [In hi_op]; tauto].
      * destruct i; reflexivity.
      * unfold req_constraint. cbn [map sjoin String.concat]. rewrite !soa_app, !soa_lchars, (printed_to_string a Pa), (printed_to_string b Pb).
        pose proof (range_text_roundtrip false a b i j Pa Pb) as T. cbv zeta in T. rewrite Ra, Rb in T. rewrite sapp_assoc. exact (T Lt ND).
  - destruct j; [contradiction|]. destruct (N a H) as (P & E & R).
    assert (RS : r_str (RR (Some a) None i false) = (lo_op i ++ to_string a)%string) by (unfold r_str; cbn [is_single_wildcard_range]; rewrite E; destruct i; reflexivity).
    assert (PLN : forallb plain (lchars (r_str (RR (Some a) None i false))) = true).
    { rewrite RS, (lchars_clause _ a P), forallb_app, (plain_printed a P). destruct i; reflexivity. }
    eexists. split; [unfold dep_text; cbn [r_is_any extras_text]; reflexivity|].
    unfold no_blanks. rewrite (no_blanks_id _ (plain_no_blank _ PLN)). rewrite RS, (lchars_clause _ a P).
    change (name ++ "" ++ " (" ++ ?x ++ ")")%string with (name ++ " (" ++ x ++ ")")%string.
    apply (K _ [lchars (lo_op i) ++ printed a]).
    + apply lex_specs_one; [exact P|destruct i; cbn [In lo_op]; tauto].
    + destruct i; reflexivity.
    + unfold req_constraint. cbn [map sjoin String.concat]. rewrite soa_app, soa_lchars, (printed_to_string a P).
      rewrite <- R at 2. destruct i; [apply (one_clause_text false ">=" a _ P eq_refl), clause_ge, P|apply (one_clause_text false ">" a _ P eq_refl), clause_gt, P].
  - destruct i; [contradiction|]. destruct (N b H) as (P & E & R).
    assert (RS : r_str (RR None (Some b) false j) = (hi_op j ++ to_string b)%string) by (unfold r_str; cbn [is_single_wildcard_range]; rewrite E; destruct j; reflexivity).
    assert (PLN : forallb plain (lchars (r_str (RR None (Some b) false j))) = true).
    { rewrite RS, (lchars_clause _ b P), forallb_app, (plain_printed b P). destruct j; reflexivity. }
    eexists. split; [unfold dep_text; cbn [r_is_any extras_text]; reflexivity|].
    unfold no_blanks. rewrite (no_blanks_id _ (plain_no_blank _ PLN)). rewrite RS, (lchars_clause _ b P).
    change (name ++ "" ++ " (" ++ ?x ++ ")")%string with (name ++ " (" ++ x ++ ")")%string.
    apply (K _ [lchars (hi_op j) ++ printed b]).
    + apply lex_specs_one; [exact P|destruct j; cbn [In hi_op]; tauto].
    + destruct j; reflexivity.
    + unfold req_constraint. cbn [map sjoin String.concat]. rewrite soa_app, soa_lchars, (printed_to_string b P).
      rewrite <- R at 2. destruct j; [apply (one_clause_text false "<=" b _ P eq_refl), clause_le, P|apply (one_clause_text false "<" b _ P eq_refl), clause_lt, P].
  - contradiction.
Qed.
Print Assumptions registry_roundtrip.
