(* Whatever the version parser accepts is well-formed (the hypotheses of [order_agrees] and
   [normal_form] hold of every parsed version). *)
From Coq Require Import List Bool NArith String Ascii Lia.
From PC Require Import Base.Cmp Model.Pep440 Spec.Pep440Spec.
Import ListNotations.
Open Scope string_scope.
Open Scope N_scope.

Lemma match_spelling_phase sp l p r :
  match_spelling sp l = Some (p, r) -> In p (map snd sp).
Proof.
  induction sp as [|[s q] sp IH]; simpl; [discriminate|].
  destruct (strip_prefix (lchars s) l).
  - intros [= <- _]. auto.
  - intros H. right. auto.
Qed.
Lemma tagged_phase sp l t r : tagged sp l = Some (t, r) -> In (t_ph t) (map snd sp).
Proof.
  unfold tagged. destruct (match_spelling sp (skip_sep l)) as [[p r0]|] eqn:E; [|discriminate].
  destruct (opt_sep_num r0) as [n r']. intros [= <- _]. simpl. eapply match_spelling_phase; eauto.
Qed.
Lemma post_group_phase l t r : post_group l = Some (t, r) -> t_ph t = PPost.
Proof.
  unfold post_group. destruct l as [|c l0]; [discriminate|].
  destruct ((code c =? 45) && match l0 with d :: _ => is_digit d | [] => false end).
  - destruct (span is_digit l0). intros [= <- _]. reflexivity.
  - intros H. apply tagged_phase in H. simpl in H. intuition congruence.
Qed.

Lemma span_first_true p c l : p c = true -> fst (span p (c :: l)) <> [].
Proof. intros H. simpl. rewrite H. destruct (span p l). simpl. discriminate. Qed.
Lemma span_all p l : forallb p (fst (span p l)) = true.
Proof.
  induction l as [|c l IH]; simpl; [reflexivity|].
  destruct (p c) eqn:E; [|reflexivity]. destruct (span p l) as [a b]. simpl in *. rewrite E, IH. reflexivity.
Qed.
Lemma local_tail_nonempty f : forall l, Forall (fun s => s <> []) (fst (local_tail f l)).
Proof.
  induction f as [|f IH]; intros l; simpl; [constructor|].
  destruct l as [|c r]; [constructor|].
  destruct (is_sep c && match r with d :: _ => is_alnum d | [] => false end) eqn:E; [|constructor].
  destruct r as [|d r']; [rewrite andb_false_r in E; discriminate|].
  apply andb_true_iff in E. destruct E as [_ Ed].
  pose proof (span_first_true is_alnum d r' Ed) as Hne.
  destruct (span is_alnum (d :: r')) as [seg r2]. specialize (IH r2).
  destruct (local_tail f r2) as [segs r3]. simpl in *. constructor; assumption.
Qed.
Lemma lower_nonempty_string (seg : chars) : seg <> [] -> (string_of_list_ascii (map lower seg) =? "")%string = false.
Proof. destruct seg; [congruence|]. reflexivity. Qed.
Lemma mk_lseg_wf seg : seg <> [] -> wf_lseg (mk_lseg seg) = true.
Proof.
  intros H. unfold mk_lseg. destruct (forallb is_digit seg); simpl; [reflexivity|].
  rewrite lower_nonempty_string by assumption. reflexivity.
Qed.
Lemma forallb_map_wf segs : Forall (fun s : chars => s <> []) segs -> forallb wf_lseg (map mk_lseg segs) = true.
Proof. induction 1; simpl; [reflexivity|]. rewrite mk_lseg_wf by assumption. assumption. Qed.

Lemma opt_group_pre r p r' : opt_group (tagged pre_spellings) r = (p, r') ->
  match p with Some t => match t_ph t with PA | PB | PRC => true | _ => false end | None => true end = true.
Proof.
  unfold opt_group. destruct (tagged pre_spellings r) as [[t r0]|] eqn:E; intros [= <- _]; [|reflexivity].
  apply tagged_phase in E. simpl in E.
  repeat (destruct E as [E|E]; [rewrite <- E; reflexivity|]). destruct E.
Qed.
Lemma opt_group_post r p r' : opt_group post_group r = (p, r') ->
  match p with Some t => phase_eqb (t_ph t) PPost | None => true end = true.
Proof.
  unfold opt_group. destruct (post_group r) as [[t r0]|] eqn:E; intros [= <- _]; [|reflexivity].
  apply post_group_phase in E. rewrite E. reflexivity.
Qed.
Lemma opt_group_dev r p r' : opt_group (tagged dev_spellings) r = (p, r') ->
  match p with Some t => phase_eqb (t_ph t) PDev | None => true end = true.
Proof.
  unfold opt_group. destruct (tagged dev_spellings r) as [[t r0]|] eqn:E; intros [= <- _]; [|reflexivity].
  apply tagged_phase in E. simpl in E. destruct E as [E|[]]. rewrite <- E. reflexivity.
Qed.
Lemma local_group_wf r lo r' : local_group r = Some (lo, r') ->
  match lo with Some [] => false | Some l => forallb wf_lseg l | None => true end = true.
Proof.
  unfold local_group. destruct r as [|c r0]; [intros [= <- _]; reflexivity|].
  destruct (code c =? 43); [|intros [= <- _]; reflexivity].
  destruct (span is_alnum r0) as [seg r6] eqn:Es. destruct seg as [|a seg]; [discriminate|].
  pose proof (local_tail_nonempty (Datatypes.length r6) r6) as Hne.
  destruct (local_tail (Datatypes.length r6) r6) as [segs r7]. simpl in Hne.
  intros [= <- _]. cbn [map forallb]. rewrite mk_lseg_wf by discriminate. apply forallb_map_wf. exact Hne.
Qed.

Theorem parse_wf s v : parse s = Some v -> wf v = true.
Proof.
  unfold parse, parse_chars.
  destruct (span is_digit _) as [ds r]. destruct ds as [|d0 ds]; [discriminate|].
  destruct (epoch_split (d0 :: ds) r) as [[e ds1] r1]. destruct ds1 as [|d1 ds1]; [discriminate|].
  destruct (release_tail (Datatypes.length r1) r1) as [more r2].
  destruct (opt_group (tagged pre_spellings) r2) as [p r3] eqn:Ep.
  destruct (opt_group post_group r3) as [po r4] eqn:Epo.
  destruct (opt_group (tagged dev_spellings) r4) as [d r5] eqn:Ed.
  destruct (local_group r5) as [[lo r6]|] eqn:El; [|discriminate].
  destruct (all_space r6); [|discriminate].
  intros [= <-]. unfold wf, wf_tags, wf_local; cbn [pre post dev local rel].
  rewrite (opt_group_pre _ _ _ Ep), (opt_group_post _ _ _ Epo), (opt_group_dev _ _ _ Ed). cbn [andb].
  pose proof (local_group_wf _ _ _ El) as HL.
  destruct lo as [[|x l]|]; try discriminate; try reflexivity. rewrite HL. reflexivity.
Qed.
