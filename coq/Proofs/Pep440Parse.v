(* Whatever the version parser accepts is well-formed (the hypotheses of [order_agrees] and
   [normal_form] hold of every parsed version). *)
From Coq Require Import List Bool NArith String Ascii Lia.
From PC Require Import Base.Cmp Model.Pep440 Spec.Pep440Spec.
Import ListNotations.
Open Scope string_scope.
Open Scope N_scope.

Lemma match_spelling_phase sp l p r :
  match_spelling sp l = Some (p, r) -> In p (map snd sp).
Proof.
  induction sp as [|[s q] sp IH]; simpl; [discriminate|].
  destruct (strip_prefix (lchars s) l).
  - intros [= <- _]. auto.
  - intros H. right. auto.
Qed.
Lemma tagged_phase sp l t r : In (t, r) (tagged sp l) -> In (t_ph t) (map snd sp).
Proof.
  unfold tagged. destruct (match_spelling sp (skip_sep l)) as [[p r0]|] eqn:E; [|intros []].
  intros H. apply in_map_iff in H. destruct H as [[n r'] [H _]]. injection H as <- _. simpl.
  eapply match_spelling_phase; eauto.
Qed.
Lemma post_group_phase l t r : In (t, r) (post_group l) -> t_ph t = PPost.
Proof.
  unfold post_group. destruct l as [|c l0]; [intros []|].
  intros H. apply in_app_or in H. destruct H as [H|H].
  - destruct ((code c =? 45) && match l0 with d :: _ => is_digit d | [] => false end); [|destruct H].
    destruct (span is_digit l0). destruct H as [H|[]]. injection H as <- _. reflexivity.
  - apply tagged_phase in H. simpl in H. intuition congruence.
Qed.

Lemma span_first_true p c l : p c = true -> fst (span p (c :: l)) <> [].
Proof. intros H. simpl. rewrite H. destruct (span p l). simpl. discriminate. Qed.
Lemma local_tail_nonempty f : forall l, Forall (fun s => s <> []) (fst (local_tail f l)).
Proof.
  induction f as [|f IH]; intros l; simpl; [constructor|].
  destruct l as [|c r]; [constructor|].
  destruct (is_sep c && match r with d :: _ => is_alnum d | [] => false end) eqn:E; [|constructor].
  destruct r as [|d r']; [rewrite andb_false_r in E; discriminate|].
  apply andb_true_iff in E. destruct E as [_ Ed].
  pose proof (span_first_true is_alnum d r' Ed) as Hne.
  destruct (span is_alnum (d :: r')) as [seg r2]. specialize (IH r2).
  destruct (local_tail f r2) as [segs r3]. simpl in *. constructor; assumption.
Qed.
Lemma lower_nonempty_string (seg : chars) : seg <> [] -> (string_of_list_ascii (map lower seg) =? "")%string = false.
Proof. destruct seg; [congruence|]. reflexivity. Qed.
Lemma mk_lseg_wf seg : seg <> [] -> wf_lseg (mk_lseg seg) = true.
Proof.
  intros H. unfold mk_lseg. destruct (forallb is_digit seg); simpl; [reflexivity|].
  rewrite lower_nonempty_string by assumption. reflexivity.
Qed.
Lemma forallb_map_wf segs : Forall (fun s : chars => s <> []) segs -> forallb wf_lseg (map mk_lseg segs) = true.
Proof. induction 1; simpl; [reflexivity|]. rewrite mk_lseg_wf by assumption. assumption. Qed.

Definition wf_pre (p : option tag) :=
  match p with Some t => match t_ph t with PA | PB | PRC => true | _ => false end | None => true end.
Definition wf_post (p : option tag) := match p with Some t => phase_eqb (t_ph t) PPost | None => true end.
Definition wf_dev (p : option tag) := match p with Some t => phase_eqb (t_ph t) PDev | None => true end.
Definition wf_loc (lo : option (list lseg)) :=
  match lo with Some [] => false | Some l => forallb wf_lseg l | None => true end.

Lemma opt_group_in alts r p r' : In (p, r') (opt_group alts r) ->
  (exists t, p = Some t /\ In (t, r') alts) \/ p = None.
Proof.
  unfold opt_group. intros H. apply in_app_or in H. destruct H as [H|[H|[]]].
  - apply in_map_iff in H. destruct H as [[t r0] [H Hin]]. injection H as <- <-. left; eauto.
  - injection H as <- _. right; reflexivity.
Qed.
Lemma opt_group_pre r p r' : In (p, r') (opt_group (tagged pre_spellings r) r) -> wf_pre p = true.
Proof.
  intros H. apply opt_group_in in H. destruct H as [[t [-> H]]| ->]; [|reflexivity].
  apply tagged_phase in H. simpl in H. unfold wf_pre.
  repeat (destruct H as [H|H]; [rewrite <- H; reflexivity|]). destruct H.
Qed.
Lemma opt_group_post r p r' : In (p, r') (opt_group (post_group r) r) -> wf_post p = true.
Proof.
  intros H. apply opt_group_in in H. destruct H as [[t [-> H]]| ->]; [|reflexivity].
  apply post_group_phase in H. unfold wf_post. rewrite H. reflexivity.
Qed.
Lemma opt_group_dev r p r' : In (p, r') (opt_group (tagged dev_spellings r) r) -> wf_dev p = true.
Proof.
  intros H. apply opt_group_in in H. destruct H as [[t [-> H]]| ->]; [|reflexivity].
  apply tagged_phase in H. simpl in H. destruct H as [H|[]]. unfold wf_dev. rewrite <- H. reflexivity.
Qed.
Lemma local_group_wf r lo r' : In (lo, r') (local_group r) -> wf_loc lo = true.
Proof.
  unfold local_group. destruct r as [|c r0]; [intros [[= <- _]|[]]; reflexivity|].
  destruct (code c =? 43); [|intros [[= <- _]|[]]; reflexivity].
  destruct (span is_alnum r0) as [seg r6] eqn:Es. destruct seg as [|a seg]; [intros [[= <- _]|[]]; reflexivity|].
  pose proof (local_tail_nonempty (Datatypes.length r6) r6) as Hne.
  destruct (local_tail (Datatypes.length r6) r6) as [segs r7]. simpl in Hne.
  intros [[= <- _]|[[= <- _]|[]]]; [|reflexivity].
  unfold wf_loc. cbn [map forallb]. rewrite mk_lseg_wf by discriminate. apply forallb_map_wf. exact Hne.
Qed.

Definition wf_cand (c : cand) : bool :=
  wf_pre (c_pre c) && wf_post (c_post c) && wf_dev (c_dev c) && wf_loc (c_local c)
  && match c_rel c with [] => false | _ => true end.
Lemma match_version_wf l c : In c (match_version l) -> wf_cand c = true.
Proof.
  unfold match_version.
  destruct (span is_digit (strip_v l)) as [ds r]. destruct ds as [|d0 ds]; [intros []|].
  destruct (epoch_split (d0 :: ds) r) as [[e ds1] r1]. destruct ds1 as [|d1 ds1]; [intros []|].
  destruct (release_tail (Datatypes.length r1) r1) as [more r2].
  intros H. apply in_flat_map in H. destruct H as [[p r3] [Hp H]].
  apply in_flat_map in H. destruct H as [[po r4] [Hpo H]].
  apply in_flat_map in H. destruct H as [[d r5] [Hd H]].
  apply in_map_iff in H. destruct H as [[lo r6] [<- Hlo]].
  unfold wf_cand; cbn [c_pre c_post c_dev c_local c_rel].
  rewrite (opt_group_pre _ _ _ Hp), (opt_group_post _ _ _ Hpo), (opt_group_dev _ _ _ Hd),
    (local_group_wf _ _ _ Hlo). reflexivity.
Qed.
Lemma wf_of_cand c txt : wf_cand c = true -> wf (version_of_cand c txt) = true.
Proof.
  unfold wf_cand, wf, wf_tags, wf_local, version_of_cand, wf_pre, wf_post, wf_dev, wf_loc;
    cbn [pre post dev local rel].
  intros H. rewrite !andb_true_iff in H. destruct H as [[[[Hp Hpo] Hd] Hl] Hr].
  rewrite Hp, Hpo, Hd, Hr. cbn [andb].
  destruct (c_local c) as [[|x l0]|]; try discriminate; try reflexivity. rewrite Hl. reflexivity.
Qed.

Theorem parse_wf s v : parse s = Some v -> wf v = true.
Proof.
  unfold parse, parse_chars.
  destruct (find _ _) as [c|] eqn:E; [|discriminate].
  intros [= <-]. apply find_some in E. destruct E as [E _].
  apply wf_of_cand. eapply match_version_wf; eauto.
Qed.
