(* C18: compound version constraints (ranges, unions): == as __eq__ computes it is an equivalence on constraints with good members,
   and equal constraints admit the same versions - every candidate, not only regular ones. *)
From Coq Require Import List Bool NArith String Ascii.
From PC Require Import Base.Cmp Base.Result Model.Pep440 Spec.Pep440Spec Proofs.Pep440Order Proofs.VersionFacts
     Model.VConstraint Proofs.RangeSpec Proofs.RangeAlg Proofs.RangeOps Proofs.UnionHull Proofs.UnionExact Proofs.DiffExact Proofs.EqProofs
     Model.Generic Model.Marker Model.MarkerAlg.
Import ListNotations.
Open Scope list_scope.

Lemma veqb_eq_r x y z : veqb x y = true -> veqb z x = veqb z y.
Proof. intros H. rewrite (veqb_sym z x), (veqb_sym z y). apply veqb_eq_l, H. Qed.
Lemma veqb_trans x y z : veqb x y = true -> veqb y z = true -> veqb x z = true.
Proof. destruct veq_equiv as (_ & _ & T). apply T. Qed.
Lemma oveq_refl x : oveq x x = true. Proof. destruct x; cbn; [apply veqb_refl|reflexivity]. Qed.
Lemma oveq_trans x y z : oveq x y = true -> oveq y z = true -> oveq x z = true.
Proof. destruct x, y, z; cbn; try discriminate; try reflexivity. apply veqb_trans. Qed.

(* a proper range is never a point: it equals no single version *)
Lemma no_point_range x lo hi i j : proper (RR lo hi i j) = true -> oveq (Some x) lo && oveq (Some x) hi = false.
Proof.
  intros P. destruct lo as [l|], hi as [h|]; cbn [oveq]; rewrite ?andb_false_r; try reflexivity.
  destruct (veqb x l) eqn:E1, (veqb x h) eqn:E2; try reflexivity. exfalso.
  assert (E : veqb l h = true) by (apply (veqb_trans l x h); [rewrite veqb_sym; exact E1|exact E2]).
  unfold proper in P. destruct (veqb_not_lt _ _ E) as [Q _]. rewrite Q in P. discriminate.
Qed.
Lemma no_point_range' x lo hi i j : proper (RR lo hi i j) = true -> oveq lo (Some x) && oveq hi (Some x) = false.
Proof. intros P. rewrite (oveq_sym lo), (oveq_sym hi). exact (no_point_range x lo hi i j P). Qed.

Theorem rng_eqb_refl r : rng_eqb r r = true.
Proof. destruct r as [x|lo hi i j]; cbn [rng_eqb rmin rmax imin imax]; [apply veqb_refl|]. rewrite !oveq_refl, !eqb_reflx. reflexivity. Qed.
Theorem rng_eqb_sym a b : proper a = true -> proper b = true -> rng_eqb a b = rng_eqb b a.
Proof.
  intros Pa Pb. destruct a as [x|lo hi i j], b as [y|lo' hi' i' j']; cbn [rng_eqb rmin rmax imin imax].
  - apply veqb_sym.
  - rewrite (no_point_range x lo' hi' i' j' Pb), (no_point_range' x lo' hi' i' j' Pb). reflexivity.
  - rewrite (no_point_range y lo hi i j Pa), (no_point_range' y lo hi i j Pa). reflexivity.
  - rewrite (oveq_sym lo lo'), (oveq_sym hi hi'). destruct i, i', j, j'; reflexivity.
Qed.
Theorem rng_eqb_trans a b c : proper a = true -> proper b = true -> proper c = true ->
  rng_eqb a b = true -> rng_eqb b c = true -> rng_eqb a c = true.
Proof.
  intros Pa Pb Pc. destruct a as [x|lo hi i j], b as [y|lo' hi' i' j'], c as [z|lo'' hi'' i'' j'']; cbn [rng_eqb rmin rmax imin imax]; intros H1 H2.
  - exact (veqb_trans x y z H1 H2).
  - rewrite (no_point_range y _ _ _ _ Pc) in H2. discriminate.
  - rewrite (no_point_range x _ _ _ _ Pb) in H1. discriminate.
  - rewrite (no_point_range x _ _ _ _ Pb) in H1. discriminate.
  - rewrite (no_point_range' y _ _ _ _ Pa) in H1. discriminate.
  - rewrite (no_point_range' y _ _ _ _ Pa) in H1. discriminate.
  - rewrite (no_point_range' z _ _ _ _ Pb) in H2. discriminate.
  - rewrite !andb_true_iff in *. destruct H1 as [[[A1 A2] A3] A4], H2 as [[[B1 B2] B3] B4].
    apply eqb_prop in A3, A4, B3, B4. subst. rewrite (oveq_trans _ _ _ A1 B1), (oveq_trans _ _ _ A2 B2), !eqb_reflx. auto.
Qed.

(* equal range-likes admit the same versions: every candidate *)
Lemma lo_congr m m' i hi hi' j j' x : wf m = true -> wf m' = true -> veqb m m' = true ->
  rr_allows_lo (RR (Some m) hi i j) x = rr_allows_lo (RR (Some m') hi' i j') x.
Proof.
  intros W W' E. unfold rr_allows_lo. cbn [rmin imin]. destruct (veqb_flags m m' W W' E) as (_ & Fp & _ & Fl). rewrite Fp, Fl.
  set (o := if negb (is_local m') && is_local _ then _ else _).
  rewrite (veqb_lt_r m m' o E), (veqb_eq_r m m' o E). reflexivity.
Qed.
Lemma hi_congr m m' lo lo' i i' j x : wf m = true -> wf m' = true -> veqb m m' = true ->
  proper (RR lo (Some m) i j) = true -> proper (RR lo' (Some m') i' j) = true ->
  rr_allows_hi (RR lo (Some m) i j) x = rr_allows_hi (RR lo' (Some m') i' j) x.
Proof.
  intros W W' E P P'. unfold rr_allows_hi. rewrite (allowed_max_proper _ _ _ _ P), (allowed_max_proper _ _ _ _ P'). cbn [rmax imax].
  rewrite (unstable_congr m m' W W' E).
  destruct (j || is_unstable m').
  - destruct (veqb_flags m m' W W' E) as (_ & _ & _ & Fl). rewrite Fl.
    set (o := if negb (is_local m') && is_local _ then _ else _).
    rewrite !vgtb_ltb, (veqb_lt_l m m' o E), (veqb_eq_r m m' o E). reflexivity.
  - pose proof (fd_congr m m' W W' E) as Efd. pose proof (wf_fd m W) as Wf. pose proof (wf_fd m' W') as Wf'.
    destruct (veqb_flags _ _ Wf Wf' Efd) as (_ & _ & _ & Fl). rewrite Fl.
    set (o := if negb (is_local (first_devrelease m')) && is_local _ then _ else _).
    rewrite !vgtb_ltb, (veqb_lt_l _ _ o Efd), (veqb_eq_r _ _ o Efd), (veqb_eq_r m m' o E). reflexivity.
Qed.
Theorem rng_eqb_interchangeable a b x : wf_rng a = true -> wf_rng b = true -> proper a = true -> proper b = true ->
  rng_eqb a b = true -> r_allows a x = r_allows b x.
Proof.
  intros Wa Wb Pa Pb. destruct a as [u|lo hi i j], b as [w|lo' hi' i' j']; cbn [rng_eqb rmin rmax imin imax]; intros H.
  - unfold wf_rng in Wa, Wb. cbn in Wa, Wb. apply andb_true_iff in Wa as [Wa _], Wb as [Wb _]. exact (equal_versions_interchangeable u w x Wa Wb H).
  - rewrite (no_point_range u _ _ _ _ Pb) in H. discriminate.
  - rewrite (no_point_range' w _ _ _ _ Pa) in H. discriminate.
  - rewrite !andb_true_iff in H. destruct H as [[[A1 A2] A3] A4]. apply eqb_prop in A3, A4. subst i' j'.
    cbn [r_allows]. unfold rr_allows. f_equal.
    + destruct lo as [m|], lo' as [m'|]; try discriminate; [|reflexivity]. cbn [oveq] in A1.
      apply lo_congr; [| |exact A1]; unfold wf_rng, rbounds in Wa, Wb; cbn in Wa, Wb; apply andb_true_iff in Wa, Wb; tauto.
    + destruct hi as [m|], hi' as [m'|]; try discriminate; [|reflexivity]. cbn [oveq] in A2.
      apply hi_congr; [| |exact A2|exact Pa|exact Pb]; unfold wf_rng, rbounds in Wa, Wb; cbn [rmin rmax obounds] in Wa, Wb;
        rewrite forallb_app in Wa, Wb; apply andb_true_iff in Wa, Wb; cbn in Wa, Wb; destruct Wa as [_ Wa], Wb as [_ Wb]; rewrite andb_true_r in Wa, Wb; assumption.
Qed.

(* lists of members and whole constraints *)
Definition wp (r : rng) : bool := wf_rng r && proper r.
Lemma good_wp r : good r = true -> wp r = true.
Proof. intros G. destruct (good_parts r G) as (W & P & _). unfold wp. rewrite W, P. reflexivity. Qed.
Lemma wp_parts r : wp r = true -> wf_rng r = true /\ proper r = true.
Proof. unfold wp. rewrite andb_true_iff. tauto. Qed.
Lemma rngs_eqb_refl l : rngs_eqb l l = true.
Proof. induction l as [|x l IH]; [reflexivity|]. cbn. rewrite rng_eqb_refl, IH. reflexivity. Qed.
Lemma rngs_eqb_sym : forall l l', forallb wp l = true -> forallb wp l' = true -> rngs_eqb l l' = rngs_eqb l' l.
Proof.
  induction l as [|x l IH]; intros [|y l'] G G'; try reflexivity. cbn [forallb rngs_eqb] in *.
  apply andb_true_iff in G as [Gx G], G' as [Gy G']. rewrite (rng_eqb_sym x y (proj2 (wp_parts x Gx)) (proj2 (wp_parts y Gy))), (IH l' G G'). reflexivity.
Qed.
Lemma rngs_eqb_trans : forall l l' l'', forallb wp l = true -> forallb wp l' = true -> forallb wp l'' = true ->
  rngs_eqb l l' = true -> rngs_eqb l' l'' = true -> rngs_eqb l l'' = true.
Proof.
  induction l as [|x l IH]; intros [|y l'] [|z l''] G G' G'' H1 H2; try discriminate; [reflexivity|]. cbn [forallb rngs_eqb] in *.
  apply andb_true_iff in G as [Gx G], G' as [Gy G'], G'' as [Gz G''], H1 as [X1 H1], H2 as [X2 H2].
  rewrite (rng_eqb_trans x y z (proj2 (wp_parts x Gx)) (proj2 (wp_parts y Gy)) (proj2 (wp_parts z Gz)) X1 X2), (IH l' l'' G G' G'' H1 H2). reflexivity.
Qed.
Lemma rngs_eqb_interchangeable x : forall l l', forallb wp l = true -> forallb wp l' = true -> rngs_eqb l l' = true ->
  existsb (fun r => r_allows r x) l = existsb (fun r => r_allows r x) l'.
Proof.
  induction l as [|a l IH]; intros [|b l'] G G' H; try discriminate; [reflexivity|]. cbn [forallb rngs_eqb existsb] in *.
  apply andb_true_iff in G as [Ga G], G' as [Gb G'], H as [X H].
  destruct (wp_parts a Ga) as [Wa Pa], (wp_parts b Gb) as [Wb Pb].
  rewrite (rng_eqb_interchangeable a b x Wa Wb Pa Pb X), (IH l' G G' H). reflexivity.
Qed.

Definition wpc (c : vc) : bool := forallb wp (flatten c).
Lemma goodc_wpc c : goodc c = true -> wpc c = true.
Proof. unfold goodc, wpc. intros H. rewrite forallb_forall in *. intros r Hr. apply good_wp, H, Hr. Qed.
Theorem vc_eqb_refl c : vc_eqb c c = true.
Proof. destruct c as [|r|l]; cbn; [reflexivity|apply rng_eqb_refl|apply rngs_eqb_refl]. Qed.
Theorem vc_eqb_sym a b : wpc a = true -> wpc b = true -> vc_eqb a b = vc_eqb b a.
Proof.
  unfold wpc. destruct a as [|r|l], b as [|r'|l']; cbn [vc_eqb flatten forallb]; intros Ga Gb; try reflexivity.
  - rewrite andb_true_r in Ga, Gb. exact (rng_eqb_sym r r' (proj2 (wp_parts r Ga)) (proj2 (wp_parts r' Gb))).
  - exact (rngs_eqb_sym l l' Ga Gb).
Qed.
Theorem vc_eqb_trans a b c : wpc a = true -> wpc b = true -> wpc c = true -> vc_eqb a b = true -> vc_eqb b c = true -> vc_eqb a c = true.
Proof.
  unfold wpc. destruct a as [|r|l], b as [|r'|l'], c as [|r''|l'']; cbn [vc_eqb flatten forallb]; intros Ga Gb Gc H1 H2; try discriminate; try reflexivity.
  - rewrite andb_true_r in Ga, Gb, Gc. exact (rng_eqb_trans r r' r'' (proj2 (wp_parts r Ga)) (proj2 (wp_parts r' Gb)) (proj2 (wp_parts r'' Gc)) H1 H2).
  - exact (rngs_eqb_trans l l' l'' Ga Gb Gc H1 H2).
Qed.
(* equal constraints admit the same versions, member by member ([sem]); with C05_allows_is_sem also in [allows] *)
Theorem vc_eqb_interchangeable a b x : wpc a = true -> wpc b = true -> vc_eqb a b = true -> sem a x = sem b x.
Proof.
  unfold wpc, sem. destruct a as [|r|l], b as [|r'|l']; cbn [vc_eqb flatten forallb existsb]; intros Ga Gb H; try discriminate; try reflexivity.
  - rewrite andb_true_r in Ga, Gb. destruct (wp_parts r Ga) as [Wa Pa], (wp_parts r' Gb) as [Wb Pb].
    rewrite (rng_eqb_interchangeable r r' x Wa Wb Pa Pb H). reflexivity.
  - exact (rngs_eqb_interchangeable x l l' Ga Gb H).
Qed.
