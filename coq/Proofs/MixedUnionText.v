(* C15: printed unions whose members are versions, half-lines, bounded ranges or wildcard ranges. *)
From Coq Require Import List Bool Arith NArith String Ascii Lia.
From PC Require Import Base.Cmp Base.Result Model.Pep440 Spec.Pep440Spec Proofs.Pep440Order Proofs.Pep440Parse Model.VConstraint
     Proofs.VersionFacts Proofs.RangeSpec Proofs.Pep440RoundTrip Proofs.ClauseText Proofs.WildcardText Proofs.PrefixOrder Proofs.WildcardMembership
     Proofs.AnyIff Proofs.ConstraintText Proofs.WildcardPrint Proofs.UnionOfNormal Proofs.UnionText.
Import ListNotations.
Open Scope string_scope.
Open Scope N_scope.

(* a wildcard range as a member of a printed union *)
Lemma member_ok_wild R : (1 <= List.length R <= 3)%nat ->
  group_ok (lchars (r_str (wild_range R))) = true /\ String.eqb (r_str (wild_range R)) "*" = false /\
  parse_constraint_text false true (r_str (wild_range R)) = Ok (VOne (wild_range R)).
Proof.
  intros H. assert (HR : R <> []) by (destruct R; [cbn in H; lia|discriminate]).
  rewrite (wildcard_print R HR).
  pose proof (bare_printable R HR) as P.
  assert (LC : lchars ("==" ++ rel_text R ++ ".*") = ("="%char :: "="%char :: rel_chars R ++ stars)%list).
  { rewrite !lchars_app. change (rel_text R) with (to_string (bare R)). rewrite (lchars_to_string (bare R) HR), bare_printed. reflexivity. }
  assert (PL : forallb plain ("="%char :: "="%char :: rel_chars R ++ stars)%list = true).
  { cbn [forallb]. rewrite forallb_app. rewrite <- bare_printed, (plain_printed (bare R) P). reflexivity. }
  split; [|split].
  - rewrite LC. unfold group_ok. exact (plain_semi_all _ PL).
  - reflexivity.
  - unfold parse_constraint_text. replace (String.eqb ("==" ++ rel_text R ++ ".*") "*") with false by reflexivity.
    rewrite <- (soa_lchars ("==" ++ rel_text R ++ ".*")), LC.
    assert (NE : ("="%char :: "="%char :: rel_chars R ++ stars)%list <> []) by discriminate.
    rewrite (groups_single _ NE PL). cbn [mapR parse_group_ex].
    rewrite <- LC, soa_lchars.
    assert (PS : parse_single false ("==" ++ rel_text R ++ ".*") = Ok (VOne (wild_range R))).
    { rewrite (clause_wildcard false "==" false R H) by auto. rewrite (wild_is_parsed R H). reflexivity. }
    rewrite (parse_single_ex_ok false _ _ PS). reflexivity.
Qed.
(* C15: unions whose members are versions, half-lines, bounded ranges or wildcard ranges *)
Definition member_shape (r : rng) : Prop := range_shape r \/ exists R, (1 <= List.length R <= 3)%nat /\ r = wild_range R.
Theorem printed_union_roundtrip_w (l : list rng) :
  (2 <= List.length l)%nat -> apart_all l = true -> Forall member_shape l ->
  vc_str (VUnion l) = Ok (sjoin " || " (map r_str l)) ->
  exists s, vc_str (VUnion l) = Ok s /\ parse_constraint_text false true s = Ok (VUnion l).
Proof.
  intros Hn Ha HF Hs. eexists. split; [exact Hs|].
  assert (Hany : existsb r_is_any l = false).
  { clear - HF. induction HF as [|r l Hr _ IH]; [reflexivity|]. cbn [existsb]. rewrite IH, orb_false_r.
    destruct Hr as [Hr|(R & _ & ->)]; [|reflexivity]. destruct r as [v|[a|] [b|] i j]; try reflexivity. contradiction. }
  rewrite <- (soa_or_join (map r_str l)) by (destruct l; [cbn in Hn; lia|discriminate]). rewrite map_map.
  apply union_text_roundtrip; try assumption.
  clear - HF. induction HF as [|r l Hr _ IH]; constructor; [|exact IH].
  destruct Hr as [Hr|(R & HR & ->)]; [apply member_ok, Hr|apply member_ok_wild, HR].
Qed.
Print Assumptions printed_union_roundtrip_w.
