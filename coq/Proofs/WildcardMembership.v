(* C04: which versions a wildcard clause admits.  '==R.*' (R of one to three components) is parsed to the range
   [R.dev0, R'.dev0) with R' = R with its last component increased (WildcardText.v); here: that range admits, in the
   implementation's own membership (VersionRange.allows with its local-label adjustment), exactly the versions of epoch 0
   whose zero-padded release starts with R - for every well-formed candidate: pre-, post-, dev-releases and local builds.
   Two ingredients: X.dev0 is the least version of its release class (so against it only the class of the candidate
   matters), and PrefixOrder.v. *)
From Coq Require Import List Bool Arith NArith ZArith String Ascii Lia.
From PC Require Import Base.Cmp Base.Result Base.RankEmbed Model.Pep440 Spec.Pep440Spec Proofs.Pep440Order Proofs.VersionFacts
     Model.VConstraint Proofs.Pep440RoundTrip Proofs.ClauseText Proofs.WildcardText.
From PC Require Import Proofs.PrefixOrder.
Import ListNotations.
Open Scope string_scope.
Open Scope N_scope.

(* X.dev0 (no pre, no post, no local) is the least version of its release class *)
Definition dev0_skey : skeyT := (NEG_INF_TAG, (NEG_INF_TAG, (("dev", 0), [(None, "")]))).
Lemma dev0_min v : wf v = true -> cmp_skey (skey v) dev0_skey <> Lt.
Proof.
  intros W0. unfold wf in W0. rewrite !andb_true_iff in W0. destruct W0 as [[W Wl] _].
  unfold wf_tags in W. rewrite !andb_true_iff in W. destruct W as [[Wp Wpo] Wd].
  unfold cmp_skey, skey, dev0_skey, cmp_pair; cbn [fst snd].
  unfold pre_key, post_key, dev_key, local_key.
  destruct (pre v) as [[pp pn]|]; cbn [t_ph] in *.
  - destruct pp; try discriminate; unfold key_of_tag, cmp_tagkey, cmp_pair, NEG_INF_TAG; cbn; discriminate.
  - destruct (post v) as [[pop pon]|]; [unfold cmp_tagkey, cmp_pair, INF_TAG, NEG_INF_TAG; cbn; discriminate|].
    destruct (dev v) as [[dp dn]|]; [|unfold cmp_tagkey, cmp_pair, INF_TAG, NEG_INF_TAG; cbn; discriminate].
    cbn [t_ph] in Wd. destruct dp; try discriminate.
    rewrite (ol_refl cmp_tagkey_laws). cbn [lex].
    unfold key_of_tag, cmp_tagkey at 1, cmp_pair; cbn [fst snd t_ph t_n phase_name]. rewrite (ol_refl string_compare_laws). cbn [lex].
    destruct (dn ?= 0) eqn:E; cbn [lex]; [|rewrite N.compare_lt_iff in E; lia|discriminate].
    unfold wf_local in Wl. destruct (local v) as [l|]; [|discriminate].
    assert (Hl : l <> []) by (destruct l; [discriminate|discriminate]).
    pose proof (nolocal_le l Hl) as Q. rewrite (ol_antisym (cmp_list_laws cmp_lkey_laws)).
    destruct (cmp_list cmp_lkey [(None, "")] (map lseg_key l)); cbn; congruence.
Qed.

Lemma skey_dev0 R : skey (first_devrelease (bare R)) = dev0_skey.
Proof. reflexivity. Qed.
Lemma rcmp_bare v R : rcmp v (bare R) = lex (epoch v ?= 0) (cmp_rel_pad (rel v) R).
Proof. unfold rcmp, cmp_pair. cbn [fst snd epoch rel bare mk]. rewrite strip_is_padding. reflexivity. Qed.
(* against R.dev0 only the release class of a version matters *)
Lemma lt_dev0 v R : wf v = true -> vltb v (first_devrelease (bare R)) = is_lt (rcmp v (bare R)).
Proof.
  intros W. unfold vltb. rewrite vcmp_split, skey_dev0.
  rewrite (rcmp_congr_r v (first_devrelease (bare R)) (bare R)) by reflexivity.
  destruct (rcmp v (bare R)); cbn [lex is_lt]; try reflexivity.
  pose proof (dev0_min v W) as M. destruct (cmp_skey (skey v) dev0_skey); cbn; congruence.
Qed.
Definition pub (v : version) : version := if is_local v then without_local v else v.
Lemma pub_wf v : wf v = true -> wf (pub v) = true.
Proof. intros W. unfold pub. destruct (is_local v); [apply wf_wl, W|exact W]. Qed.
Lemma pub_rcmp v w : rcmp (pub v) w = rcmp v w.
Proof. unfold pub. destruct (is_local v); [apply rcmp_congr_l; reflexivity|reflexivity]. Qed.

Definition wild_range (R : release) : rng :=
  RR (Some (first_devrelease (bare R))) (Some (first_devrelease (bare (incr_last R)))) true false.

(* C04: '==R.*' admits exactly the versions of epoch 0 whose zero-padded release starts with R - every candidate form
   (pre-, post-, dev-releases, local builds) *)
Theorem wildcard_membership R v : R <> [] -> wf v = true ->
  r_allows (wild_range R) v = (epoch v =? 0) && prefix R (rel v).
Proof.
  intros HR W. unfold wild_range. cbn [r_allows]. unfold rr_allows.
  assert (LO : rr_allows_lo (RR (Some (first_devrelease (bare R))) (Some (first_devrelease (bare (incr_last R)))) true false) v
               = negb (vltb (pub v) (first_devrelease (bare R)))).
  { unfold rr_allows_lo. cbn [rmin imin negb andb]. unfold pub.
    replace (is_local (first_devrelease (bare R))) with false by reflexivity. cbn [negb andb].
    destruct (is_local v); destruct (vltb _ _); reflexivity. }
  assert (HI : rr_allows_hi (RR (Some (first_devrelease (bare R))) (Some (first_devrelease (bare (incr_last R)))) true false) v
               = vltb (pub v) (first_devrelease (bare (incr_last R)))).
  { unfold rr_allows_hi, allowed_max. cbn [rmax rmin imin imax orb].
    replace (is_unstable (first_devrelease (bare (incr_last R)))) with true by reflexivity.
    replace (is_local (first_devrelease (bare (incr_last R)))) with false by reflexivity. cbn [negb andb]. fold (pub v).
    rewrite vgtb_ltb, veqb_ltb, orb_diag.
    destruct (vltb (pub v) (first_devrelease (bare (incr_last R)))) eqn:E1, (vltb (first_devrelease (bare (incr_last R))) (pub v)) eqn:E2; cbn; try reflexivity.
    exfalso. pose proof (vlt_trans' _ _ _ E1 E2) as T. rewrite vlt_irrefl' in T. discriminate. }
  rewrite LO, HI, (lt_dev0 _ R (pub_wf v W)), (lt_dev0 _ (incr_last R) (pub_wf v W)), !pub_rcmp, !rcmp_bare.
  destruct (N.compare_spec (epoch v) 0) as [E|E|E].
  - rewrite E, N.eqb_refl. cbn [lex andb]. rewrite <- (between_prefix R (rel v) HR).
    destruct (cmp_rel_pad (rel v) R); reflexivity.
  - lia.
  - cbn [lex is_lt negb andb]. symmetry. apply andb_false_iff. left. apply N.eqb_neq. lia.
Qed.
Print Assumptions wildcard_membership.

Lemma wild_is_parsed R : (1 <= List.length R <= 3)%nat ->
  make_x_constraint_range (bare R) false false = Ok (VOne (wild_range R)).
Proof.
  intros H. destruct R as [|a [|b [|c [|d R']]]]; cbn [List.length] in H; try lia; reflexivity.
Qed.
(* from the text of the clause to the versions admitted *)
Theorem wildcard_clause_meaning R : (1 <= List.length R <= 3)%nat ->
  exists r, parse_single false ("==" ++ rel_text R ++ ".*") = Ok (VOne r) /\
            forall v, wf v = true -> r_allows r v = (epoch v =? 0) && prefix R (rel v).
Proof.
  intros H. exists (wild_range R). split.
  - rewrite (clause_wildcard false "==" false R H) by auto. rewrite (wild_is_parsed R H). reflexivity.
  - intros v W. apply wildcard_membership; [destruct R; [cbn in H; lia|discriminate]|exact W].
Qed.
Print Assumptions wildcard_clause_meaning.
