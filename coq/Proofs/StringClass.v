(* C07/C13/C17/C02: a class of clauses for which the three premises of the simplifier's soundness are proved —
   every '==' / '!=' comparison of a string variable (not a version variable, not 'extra') with a plain value, together with
   the atomic conjunctions / disjunctions the same-variable merge builds from them — on every environment that defines the
   variables.  The merge goes through the string-constraint algebra (C16, exact on this fragment) and, for a single-clause
   result, through SingleMarker.__init__ on the rebuilt text (Proofs/LeafRebuild.v). *)
From Coq Require Import List Bool Arith NArith String Ascii Lia.
From PC Require Import Base.Cmp Base.Result Model.Pep440 Model.VConstraint Model.Generic Model.Marker Model.MarkerAlg
     Proofs.GenericProofs Proofs.GenericUnion Proofs.GenericAtoms Proofs.MarkerProofs Proofs.MarkerAlgProofs Proofs.LeafRebuild.
Import ListNotations.
Open Scope list_scope.

Definition str_name (n : string) : bool := negb (is_version_like n) && negb (String.eqb n "extra") && String.eqb (alias n) n.
Definition pv (s : string) : bool := plain_value (lchars s).
Definition Fa' (a : atom) : Prop := ax a = false /\ eqne a = true /\ pv (av a) = true.

Section Class.
  Variable E : env.
  Definition defined (n : string) : Prop := exists v, lookup n (e_vars E) = Some v.
  Definition SR (m : marker) : Prop :=
    match m with
    | MSingle l => str_name (l_name l) = true /\ defined (l_name l) /\ l_swapped l = false /\
                   exists o, eqne_op o = true /\ l_op l = op_text o /\ pv (l_value l) = true /\
                             l_con l = CG (GS (SAtom (mkA (l_value l) o false)))
    | MAtomicMulti n a => str_name n = true /\ defined n /\ all_ne a = true /\ Forall (fun x => pv (av x) = true) a
    | MAtomicUnion n a => str_name n = true /\ defined n /\ a <> [] /\ Forall Fa' a
    | _ => False
    end.

  (* the value of a clause of the class: the constraint on the variable's value *)
  Definition sv (n : string) (c : gc) : bool := match lookup n (e_vars E) with None => true | Some v => sat c v end.
  Lemma str_name_parts n : str_name n = true -> is_version_like n = false /\ String.eqb n "extra" = false /\ alias n = n.
  Proof. unfold str_name. rewrite !andb_true_iff, !negb_true_iff. intros [[A B] C]. apply String.eqb_eq in C. auto. Qed.
  Lemma lval_sv n c : str_name n = true -> lval E n (CG c) = sv n c.
  Proof.
    intros Hn. destruct (str_name_parts n Hn) as (_ & He & _). unfold lval, validate_con, sv. rewrite He.
    destruct (lookup n (e_vars E)); reflexivity.
  Qed.
  Lemma SR_leaf_like m : SR m -> exists n c, leaf_like m = Some (n, CG c) /\ str_name n = true /\ defined n /\ beval E m = sv n c /\
                                             Fc c /\ nonempty_c c /\ Forall Fa' (atoms_c c).
  Proof.
    destruct m as [| |l|n a|n a|l|l]; cbn [SR]; try contradiction.
    - intros (Hn & Hd & Hs & o & Ho & Hop & Hv & Hc). exists (l_name l), (GS (SAtom (mkA (l_value l) o false))).
      cbn [leaf_like]. rewrite Hc. refine (conj eq_refl (conj Hn (conj Hd (conj _ (conj _ (conj I _)))))).
      + cbn [beval]. rewrite Hc. apply lval_sv, Hn.
      + cbn. split; [reflexivity|]. destruct o; try discriminate; reflexivity.
      + cbn [atoms_c atoms_s]. constructor; [|constructor]. split; [reflexivity|]. split; [destruct o; try discriminate; reflexivity|exact Hv].
    - intros (Hn & Hd & Ha & Hv). destruct (str_name_parts n Hn) as (_ & He & _). exists n, (GS (SMulti false a)).
      cbn [leaf_like]. rewrite He. refine (conj eq_refl (conj Hn (conj Hd (conj _ (conj _ (conj I _)))))).
      + cbn [beval]. rewrite He. apply lval_sv, Hn.
      + cbn. split; [reflexivity|exact Ha].
      + cbn [atoms_c atoms_s]. apply Forall_forall. intros x Hx. destruct (all_ne_in a x Ha Hx) as [O X]. rewrite Forall_forall in Hv.
        split; [exact X|]. split; [unfold eqne; rewrite O; reflexivity|exact (Hv x Hx)].
    - intros (Hn & Hd & Hne & Ha). destruct (str_name_parts n Hn) as (_ & He & _). exists n, (GU (map SAtom a)).
      cbn [leaf_like].
      assert (Nm : map SAtom a <> []) by (intros H; apply map_eq_nil in H; contradiction).
      refine (conj eq_refl (conj Hn (conj Hd (conj _ (conj _ (conj Nm _)))))).
      + cbn [beval]. rewrite He. apply lval_sv, Hn.
      + cbn. split; [|exact Nm]. apply Forall_forall. intros s Hs. apply in_map_iff in Hs. destruct Hs as [x [<- Hx]]. rewrite Forall_forall in Ha.
        destruct (Ha x Hx) as (A & B & _). split; assumption.
      + cbn [atoms_c]. rewrite map_satom_atoms. exact Ha.
  Qed.
End Class.

Section ClassFacts.
  Variable E : env.
  Notation R := (SR E).

  Lemma op_text_inj o o' : eqne_op o = true -> eqne_op o' = true -> op_text o = op_text o' -> o = o'.
  Proof. destruct o, o'; try discriminate; reflexivity. Qed.
  Lemma atoms_eqb_any l l' v : atoms_eqb l l' = true -> existsb (fun s => gs_sat s v) (map SAtom l) = existsb (fun s => gs_sat s v) (map SAtom l').
  Proof.
    revert l'. induction l as [|a l IH]; intros [|b l'] H; try discriminate; [reflexivity|]. cbn in H. apply andb_true_iff in H. destruct H as [H1 H2].
    cbn [map existsb gs_sat]. rewrite (atom_eqb_sat v a b H1), (IH l' H2). reflexivity.
  Qed.
  Lemma atom_eqb_sym_plain a b : ax a = false -> ax b = false -> atom_eqb a b = atom_eqb b a.
  Proof. intros Xa Xb. unfold atom_eqb. rewrite Xa, Xb, (String.eqb_sym (av a) (av b)). destruct (aop a), (aop b); reflexivity. Qed.
  Lemma atoms_eqb_sym_plain : forall l l', Forall (fun a => ax a = false) l -> Forall (fun a => ax a = false) l' -> atoms_eqb l l' = atoms_eqb l' l.
  Proof.
    induction l as [|a l IH]; intros [|b l'] Hl Hl'; try reflexivity. inversion Hl; inversion Hl'; subst. cbn.
    rewrite (atom_eqb_sym_plain a b), (IH l'); auto.
  Qed.

  Theorem sr_key x y : is_leaf_like x = true -> is_leaf_like y = true -> R x -> R y -> marker_eqb x y = true -> beval E x = beval E y.
  Proof.
    intros _ _ Rx Ry H. destruct x as [| |lx|nx ax_|nx ax_|l|l], y as [| |ly|ny ay|ny ay|l'|l']; try discriminate; cbn [SR] in Rx, Ry; try contradiction.
    - destruct Rx as (Hn & _ & Hs & o & Ho & Hop & Hv & Hc). destruct Ry as (Hn' & _ & Hs' & o' & Ho' & Hop' & Hv' & Hc').
      cbn [marker_eqb] in H. unfold leaf_key_eqb in H. rewrite !andb_true_iff in H. destruct H as [[[E1 E2] E3] _].
      apply String.eqb_eq in E1, E2, E3. cbn [beval]. rewrite Hc, Hc', E1, E3.
      rewrite Hop, Hop' in E2. rewrite (op_text_inj o o' Ho Ho' E2). reflexivity.
    - destruct Rx as (Hn & _ & _ & _). destruct Ry as (Hn' & _ & _ & _). cbn [marker_eqb] in H. apply andb_true_iff in H. destruct H as [E1 E2].
      apply String.eqb_eq in E1. subst ny. destruct (str_name_parts nx Hn) as (_ & He & _). cbn [beval]. rewrite He, !lval_sv by assumption.
      unfold sv. destruct (lookup nx (e_vars E)); [|reflexivity]. cbn [sat gs_sat]. apply atoms_eqb_sat, E2.
    - destruct Rx as (Hn & _ & _ & _). destruct Ry as (Hn' & _ & _ & _). cbn [marker_eqb] in H. apply andb_true_iff in H. destruct H as [E1 E2].
      apply String.eqb_eq in E1. subst ny. destruct (str_name_parts nx Hn) as (_ & He & _). cbn [beval]. rewrite He, !lval_sv by assumption.
      unfold sv. destruct (lookup nx (e_vars E)); [|reflexivity]. cbn [sat]. apply atoms_eqb_any, E2.
  Qed.
  Theorem sr_sym x y : is_leaf_like x = true -> is_leaf_like y = true -> R x -> R y -> marker_eqb x y = marker_eqb y x.
  Proof.
    intros _ _ Rx Ry. destruct x as [| |lx|nx ax_|nx ax_|l|l], y as [| |ly|ny ay|ny ay|l'|l']; try reflexivity; cbn [SR] in Rx, Ry; try contradiction.
    - cbn [marker_eqb]. unfold leaf_key_eqb. rewrite (String.eqb_sym (l_name lx)), (String.eqb_sym (l_op lx)), (String.eqb_sym (l_value lx)).
      destruct (l_swapped lx), (l_swapped ly); reflexivity.
    - destruct Rx as (_ & _ & Ha & _). destruct Ry as (_ & _ & Ha' & _). cbn [marker_eqb]. rewrite (String.eqb_sym nx ny). f_equal.
      apply atoms_eqb_sym_plain; apply Forall_forall; intros a Hin; [exact (proj2 (all_ne_in _ a Ha Hin))|exact (proj2 (all_ne_in _ a Ha' Hin))].
    - destruct Rx as (_ & _ & _ & Ha). destruct Ry as (_ & _ & _ & Ha'). cbn [marker_eqb]. rewrite (String.eqb_sym nx ny). f_equal.
      apply atoms_eqb_sym_plain; apply Forall_forall; intros a Hin; rewrite Forall_forall in Ha, Ha'; [exact (proj1 (Ha a Hin))|exact (proj1 (Ha' a Hin))].
  Qed.
End ClassFacts.

Section Merge.
  Variable E : env.
  Notation R := (SR E).

  Lemma g_eqb_sat v a b : g_eqb a b = true -> sat a v = sat b v.
  Proof. destruct a as [sa|la], b as [sb|lb]; try discriminate; cbn [g_eqb sat]; [apply gs_eqb_sat|apply gss_eqb_sat]. Qed.
  Lemma sv_of n (c c' : gc) : (forall v, sat c v = sat c' v) -> sv E n c = sv E n c'.
  Proof. intros H. unfold sv. destruct (lookup n (e_vars E)); [apply H|reflexivity]. Qed.
  Lemma all_satoms l : forallb (fun s => match s with SAtom _ => true | _ => false end) l = true ->
    l = map SAtom (flat_map (fun s => match s with SAtom a => [a] | _ => [] end) l).
  Proof.
    induction l as [|s l IH]; [reflexivity|]. cbn [forallb]. intros H. apply andb_true_iff in H. destruct H as [H1 H2].
    destruct s; try discriminate. cbn [flat_map app map]. rewrite <- (IH H2). reflexivity.
  Qed.
  Lemma not_python n : str_name n = true -> String.eqb n "python_version" = false /\ String.eqb n "python_full_version" = false.
  Proof.
    intros H. destruct (str_name_parts n H) as (V & _ & _). unfold is_version_like, is_python_marker in V.
    apply orb_false_iff in V. destruct V as [V _]. apply orb_false_iff in V. exact V.
  Qed.
  Lemma string_chars s : string_of_list_ascii (lchars s) = s.
  Proof. unfold lchars. apply string_of_list_ascii_of_string. Qed.

  Theorem sr_merge fuel st m1 m2 is_multi r : G R m1 -> G R m2 -> merge_single fuel st m1 m2 is_multi = Ok (Some r) ->
    beval E r = (if is_multi then beval E m1 && beval E m2 else beval E m1 || beval E m2) /\ G R r.
  Proof.
    intros G1 G2 H. destruct fuel as [|f]; [discriminate|]. cbn [merge_single] in H.
    assert (L1 : is_leaf_like m1 = true) by (unfold is_leaf_like; destruct (leaf_like m1); [reflexivity|discriminate]).
    assert (L2 : is_leaf_like m2 = true).
    { unfold is_leaf_like. destruct (leaf_like m1) as [[? ?]|]; [|discriminate]. destruct (leaf_like m2); [reflexivity|discriminate]. }
    assert (R1 : R m1) by (inversion G1; subst; try discriminate; assumption).
    assert (R2 : R m2) by (inversion G2; subst; try discriminate; assumption).
    destruct (SR_leaf_like E m1 R1) as (n1 & c1 & Hl1 & Hn1 & Hd1 & Hb1 & Fc1 & Ne1 & Fa1).
    destruct (SR_leaf_like E m2 R2) as (n2 & c2 & Hl2 & Hn2 & Hd2 & Hb2 & Fc2 & Ne2 & Fa2).
    rewrite Hl1, Hl2 in H. destruct (not_python n1 Hn1) as [P1 P1']. destruct (not_python n2 Hn2) as [P2 P2'].
    rewrite P1, P1', P2, P2' in H. cbn [andb orb] in H.
    destruct (String.eqb n1 n2) eqn:En; cbn [negb] in H; [|discriminate]. apply String.eqb_eq in En. subst n2.
    (* the algebra *)
    destruct (if is_multi then g_intersect c1 c2 else g_union c1 c2) as [rc|e] eqn:Hrc; [|discriminate]. cbn [bind] in H.
    assert (Sem : forall v, sat rc v = if is_multi then sat c1 v && sat c2 v else sat c1 v || sat c2 v).
    { intros v. destruct is_multi; [exact (g_intersect_F v c1 c2 rc Fc1 Fc2 Hrc)|exact (g_union_F v c1 c2 rc Fc1 Fc2 Hrc)]. }
    assert (Ats : incl (atoms_c rc) (atoms_c c1 ++ atoms_c c2) /\ nonempty_c rc).
    { destruct is_multi; [exact (g_intersect_atoms c1 c2 rc Ne1 Ne2 Hrc)|exact (g_union_atoms c1 c2 rc Ne1 Ne2 Hrc)]. }
    destruct Ats as [Ats Nrc].
    assert (Far : forall a, In a (atoms_c rc) -> Fa' a).
    { intros a Ha. apply Ats in Ha. apply in_app_or in Ha. rewrite Forall_forall in Fa1, Fa2. destruct Ha as [Ha|Ha]; auto. }
    assert (Val : sv E n1 rc = if is_multi then beval E m1 && beval E m2 else beval E m1 || beval E m2).
    { rewrite Hb1, Hb2. unfold sv. destruct Hd1 as [v Hv]. rewrite Hv. apply Sem. }
    cbn [mcon_is_empty mcon_is_any mcon_eqb] in H.
    destruct (g_is_empty rc) eqn:Em.
    { injection H as <-. split; [|constructor]. rewrite <- Val. unfold sv. destruct Hd1 as [v Hv]. rewrite Hv.
      destruct rc as [[| | |]|]; try discriminate. reflexivity. }
    destruct (g_is_any rc) eqn:An.
    { injection H as <-. split; [|constructor]. rewrite <- Val. unfold sv. destruct Hd1 as [v Hv]. rewrite Hv.
      destruct rc as [[| | |]|]; try discriminate. reflexivity. }
    destruct (g_eqb rc c1) eqn:E1.
    { injection H as <-. split; [|exact G1]. rewrite <- Val, Hb1. apply sv_of. intros v. symmetry. apply g_eqb_sat, E1. }
    destruct (g_eqb rc c2) eqn:E2.
    { injection H as <-. split; [|exact G2]. rewrite <- Val, Hb2. apply sv_of. intros v. symmetry. apply g_eqb_sat, E2. }
    destruct (str_name_parts n1 Hn1) as (Vl & Ex & Al).
    destruct rc as [[| |a0|mx' l0]|l0]; try discriminate.
    - (* a single clause: rebuilt from its text *)
      destruct (Far a0 (or_introl eq_refl)) as (Xa & Ea & Pa).
      assert (Ho : eqne_op (aop a0) = true) by (unfold eqne in Ea; destruct (aop a0); try discriminate; reflexivity).
      assert (Txt : match aop a0 with GEq => Ok ("==" ++ av a0)%string | _ => mcon_str (CG (GS (SAtom a0))) end
                    = Ok (op_text (aop a0) ++ string_of_list_ascii (lchars (av a0)))%string).
      { rewrite string_chars. cbn [mcon_str g_str gs_str]. unfold atom_str. destruct (aop a0); try discriminate; reflexivity. }
      unfold single_of_con in H. rewrite Txt in H. cbn [bind] in H.
      rewrite (mk_leaf_eqne n1 (aop a0) (lchars (av a0)) Vl Ex Ho Pa) in H. cbn [bind] in H. injection H as <-.
      rewrite string_chars, Al. split.
      + cbn [beval l_name l_con]. rewrite lval_sv by exact Hn1. rewrite <- Val. apply sv_of. intros v. cbn [sat gs_sat]. unfold atom_sat. cbn [aop av]. reflexivity.
      + constructor. cbn [SR l_name l_swapped l_op l_value l_con]. refine (conj Hn1 (conj Hd1 (conj eq_refl _))). exists (aop a0). auto.
    - (* a conjunction of != clauses *)
      cbv zeta in H. match type of H with (if ?c then _ else _) = _ => destruct c eqn:Ok_ end; [|discriminate]. injection H as <-. split.
      + cbn [beval]. rewrite Ex, lval_sv by exact Hn1. rewrite <- Val. apply sv_of. intros v. reflexivity.
      + constructor. cbn [SR]. refine (conj Hn1 (conj Hd1 (conj _ _))).
        * unfold all_ne. apply forallb_forall. intros a Ha. rewrite forallb_forall in Ok_. specialize (Ok_ a Ha). cbv beta in Ok_. rewrite Ex in Ok_.
          destruct (Far a Ha) as (Xa & _ & _). rewrite Xa. destruct (aop a); try discriminate; reflexivity.
        * apply Forall_forall. intros a Ha. exact (proj2 (proj2 (Far a Ha))).
    - (* a disjunction of == clauses *)
      cbv zeta in H. match type of H with (if ?c then _ else _) = _ => destruct c eqn:Ok_ end; [|discriminate]. injection H as <-.
      assert (AllA : forallb (fun s => match s with SAtom _ => true | _ => false end) l0 = true).
      { apply forallb_forall. intros s Hs. rewrite forallb_forall in Ok_. specialize (Ok_ s Hs). destruct s; try discriminate; reflexivity. }
      pose proof (all_satoms l0 AllA) as El. set (atoms := flat_map (fun s => match s with SAtom a => [a] | _ => [] end) l0) in *.
      split.
      + cbn [beval]. rewrite Ex, lval_sv by exact Hn1. rewrite <- Val, <- El. reflexivity.
      + constructor. cbn [SR]. refine (conj Hn1 (conj Hd1 (conj _ _))).
        * intros Hn. rewrite Hn in El. cbn in El. cbn in Nrc. contradiction.
        * apply Forall_forall. intros a Ha. apply Far. cbn [atoms_c]. rewrite El, map_satom_atoms. exact Ha.
  Qed.
End Merge.

Theorem string_clause_class E : clause_class E (SR E).
Proof. split; [exact (sr_key E) | exact (sr_sym E) | exact (sr_merge E)]. Qed.

(* every '==' / '!=' clause the constructor builds from text on a string variable is in the class *)
Theorem clause_of_text_in_class E n o v : str_name n = true -> defined E n -> eqne_op o = true -> plain_value v = true ->
  exists l, mk_leaf n (op_text o ++ string_of_list_ascii v)%string false = Ok l /\ SR E (MSingle l).
Proof.
  intros Hn Hd Ho Hv. destruct (str_name_parts n Hn) as (Vl & Ex & Al). eexists. split; [exact (mk_leaf_eqne n o v Vl Ex Ho Hv)|].
  cbn [SR l_name l_swapped l_op l_value l_con]. rewrite Al. refine (conj Hn (conj Hd (conj eq_refl _))). exists o.
  refine (conj Ho (conj eq_refl (conj _ eq_refl))). unfold pv, lchars. rewrite list_ascii_of_string_of_list_ascii. exact Hv.
Qed.

(* the simplifier on markers over string comparisons: no premise left *)
Section Unconditional.
  Variable E : env.
  Let CC := string_clause_class E.
  Theorem string_intersect_union fuel st a b : G (SR E) a -> G (SR E) b ->
    (forall r, m_intersect fuel st a b = Ok r -> beval E r = beval E a && beval E b /\ G (SR E) r) /\
    (forall r, m_union fuel st a b = Ok r -> beval E r = beval E a || beval E b /\ G (SR E) r).
  Proof. exact (intersect_union_sound E (SR E) CC fuel st a b). Qed.
  Theorem string_normal_forms fuel st m : G (SR E) m ->
    (forall r, cnf fuel st m = Ok r -> beval E r = beval E m /\ G (SR E) r) /\ (forall r, dnf fuel st m = Ok r -> beval E r = beval E m /\ G (SR E) r).
  Proof. exact (normal_forms_sound E (SR E) CC fuel st m). Qed.
  Theorem string_of fuel st ms : Forall (G (SR E)) ms ->
    (forall r, multi_of fuel st ms = Ok r -> beval E r = forallb (beval E) ms /\ G (SR E) r) /\
    (forall r, union_of_m fuel st ms = Ok r -> beval E r = existsb (beval E) ms /\ G (SR E) r).
  Proof. exact (of_sound E (SR E) CC fuel st ms). Qed.
  Theorem string_only fuel st names m r : G (SR E) m -> only fuel st names m = Ok r -> (beval E m = true -> beval E r = true) /\ G (SR E) r.
  Proof. exact (only_weakens E (SR E) CC fuel st names m r). Qed.
End Unconditional.
