(* C16, extras reading: meet and join are exact for every shape on the == / != clauses of 'extra' (a clause may be required and
   another forbidden at the same time: '== a, == b' is satisfiable).  Evaluation: [axs f act] — '== v' holds when f v is among
   the active extras [act]; f is the name normalisation applied at evaluation time (any function). *)
From Coq Require Import List Bool String Arith Lia.
From PC Require Import Base.Result Model.Generic Proofs.GenericProofs Proofs.GenericUnionX.
Import ListNotations.
Open Scope list_scope.

Definition XFa (a : atom) : Prop := ax a = true /\ eqne a = true.
Definition XFs (s : gs) : Prop :=
  match s with SAny | SEmpty => True | SAtom a => XFa a | SMulti mx l => mx = true /\ Forall XFa l /\ NoDup (map av l) end.

Section XFrag.
  Variable f : string -> string.
  Variable act : list string.
  Notation axs := (axs f act).
  Notation gxs := (gxs f act).
  Notation cxs := (cxs f act).

  Lemma xatom_eqb a b : ax a = true -> ax b = true -> atom_eqb a b = String.eqb (av a) (av b) && gop_eqb (aop a) (aop b).
  Proof. intros Xa Xb. unfold atom_eqb. rewrite Xa, Xb. reflexivity. Qed.
  Lemma same_value_diff_op a b : XFa a -> XFa b -> String.eqb (av a) (av b) = true -> gop_eqb (aop a) (aop b) = false -> axs a = negb (axs b).
  Proof.
    intros [_ Ea] [_ Eb] Hv Ho. apply String.eqb_eq in Hv. unfold GenericUnionX.axs, eqne in *. rewrite Hv.
    destruct (aop a), (aop b); try discriminate; rewrite ?negb_involutive; reflexivity.
  Qed.
  Lemma xmk_multi l s : mk_multi true l = Ok s -> s = SMulti true l.
  Proof. unfold mk_multi. destruct (multi_ops_ok true l); [|discriminate]. intros [= <-]. reflexivity. Qed.

  Lemma xatom_intersect a b r : XFa a -> XFa b -> atom_intersect_atom a b = Ok r -> gxs r = axs a && axs b /\ XFs r.
  Proof.
    intros Fa_ Fb_ H. pose proof Fa_ as [Xa Ea]. pose proof Fb_ as [Xb Eb]. unfold atom_intersect_atom in H. rewrite Xa in H.
    rewrite (xatom_eqb b a Xb Xa) in H.
    destruct (String.eqb (av b) (av a)) eqn:Ev; cbn [andb] in H.
    - rewrite String.eqb_sym in Ev. rewrite Ev in H. cbn [andb] in H. destruct (gop_eqb (aop b) (aop a)) eqn:Eo.
      + injection H as <-. split; [|exact Fa_]. cbn [GenericUnionX.gxs]. apply String.eqb_eq in Ev.
        assert (Q : axs b = axs a) by (unfold GenericUnionX.axs; rewrite Ev; destruct (aop a), (aop b); try discriminate; reflexivity).
        rewrite Q, andb_diag. reflexivity.
      + assert (Eo' : gop_eqb (aop a) (aop b) = false) by (destruct (aop a), (aop b); try discriminate; reflexivity).
        rewrite Eo' in H. cbn [negb] in H. injection H as <-. split; [|exact I]. cbn [GenericUnionX.gxs].
        rewrite (same_value_diff_op a b Fa_ Fb_ Ev Eo'). destruct (axs b); reflexivity.
    - rewrite String.eqb_sym in Ev. rewrite Ev in H. cbn [andb] in H. rewrite (xmk_multi _ _ H). split.
      + cbn [GenericUnionX.gxs forallb]. rewrite andb_true_r. reflexivity.
      + split; [reflexivity|]. split; [repeat constructor; assumption|]. cbn [map]. constructor; [|constructor; [intros []|constructor]].
        intros [E|[]]. rewrite E, String.eqb_refl in Ev. discriminate.
  Qed.

  (* lists of extra clauses *)
  Lemma xin_spec b l : Forall XFa l -> XFa b -> atom_in b l = true -> exists c, In c l /\ av b = av c /\ aop b = aop c.
  Proof.
    intros Fl [Xb _] H. unfold atom_in in H. apply existsb_exists in H. destruct H as [c [Hc E]]. exists c. split; [exact Hc|].
    rewrite Forall_forall in Fl. destruct (Fl c Hc) as [Xc _]. rewrite (xatom_eqb b c Xb Xc) in E. apply andb_true_iff in E. destruct E as [E1 E2].
    apply String.eqb_eq in E1. split; [exact E1|]. destruct (aop b), (aop c); try discriminate; reflexivity.
  Qed.
  Lemma xvalue_clash b l : Forall XFa l -> XFa b -> value_in (av b) l = true -> atom_in b l = false -> forallb axs l && axs b = false.
  Proof.
    intros Fl Fb Hv Hi. unfold value_in in Hv. apply existsb_exists in Hv. destruct Hv as [c [Hc Ev]].
    rewrite Forall_forall in Fl. pose proof (Fl c Hc) as Fc_.
    assert (Eo : gop_eqb (aop b) (aop c) = false).
    { destruct (gop_eqb (aop b) (aop c)) eqn:Eo; [|reflexivity]. exfalso.
      assert (Q : atom_in b l = true) by (unfold atom_in; apply existsb_exists; exists c; split; [exact Hc|rewrite (xatom_eqb b c (proj1 Fb) (proj1 Fc_)), Ev, Eo; reflexivity]).
      rewrite Q in Hi. discriminate. }
    pose proof (same_value_diff_op b c Fb Fc_ Ev Eo) as Q.
    destruct (axs b) eqn:Bb; [|apply andb_false_r]. rewrite andb_true_r. apply not_true_iff_false. intros F. rewrite forallb_forall in F.
    rewrite (F c Hc) in Q. discriminate.
  Qed.
  Lemma nodup_snoc {A} (l : list A) x : NoDup l -> ~ In x l -> NoDup (l ++ [x]).
  Proof.
    intros Nl Nx. induction Nl as [|y l Hy Nl IH]; cbn; [constructor; [intros []|constructor]|].
    constructor; [|apply IH; intros H; apply Nx; right; exact H]. intros H. apply in_app_or in H. destruct H as [H|[H|[]]]; [contradiction|].
    apply Nx. left. symmetry. exact H.
  Qed.
  Lemma value_in_map v l : value_in v l = true <-> In v (map av l).
  Proof.
    unfold value_in. split.
    - intros H. apply existsb_exists in H. destruct H as [c [Hc E]]. apply String.eqb_eq in E. subst. apply in_map. exact Hc.
    - intros H. apply in_map_iff in H. destruct H as [c [<- Hc]]. apply existsb_exists. exists c. split; [exact Hc|apply String.eqb_refl].
  Qed.

  Lemma xmulti_intersect_atom l b r : XFs (SMulti true l) -> XFa b -> multi_intersect_atom true l b = Ok r ->
    gxs r = forallb axs l && axs b /\ XFs r.
  Proof.
    intros (_ & Fl & Nd) Fb H. unfold multi_intersect_atom in H. cbn [negb] in H.
    destruct (atom_in b l) eqn:I.
    { injection H as <-. split; [|split; [reflexivity|split; assumption]]. cbn [GenericUnionX.gxs].
      destruct (forallb axs l) eqn:F; [|reflexivity]. rewrite (atom_in_sat f act b l I F). reflexivity. }
    destruct (value_in (av b) l) eqn:V.
    { injection H as <-. split; [|exact Logic.I]. cbn [GenericUnionX.gxs]. symmetry. exact (xvalue_clash b l Fl Fb V I). }
    rewrite (xmk_multi _ _ H). split.
    - cbn [GenericUnionX.gxs]. rewrite forallb_app. cbn [forallb]. rewrite andb_true_r. reflexivity.
    - split; [reflexivity|]. split; [apply Forall_app; split; [exact Fl|constructor; [exact Fb|constructor]]|].
      rewrite map_app. cbn [map]. apply nodup_snoc; [exact Nd|]. intros Hin. apply value_in_map in Hin. rewrite Hin in V. discriminate.
  Qed.

  Lemma nodup_app {A} (a b : list A) : NoDup a -> NoDup b -> (forall x, In x a -> ~ In x b) -> NoDup (a ++ b).
  Proof.
    intros Na Nb D. induction Na as [|y a Hy Na IH]; cbn; [exact Nb|]. constructor.
    - intros H. apply in_app_or in H. destruct H as [H|H]; [contradiction|]. exact (D y (or_introl eq_refl) H).
    - apply IH. intros x Hx. apply D. right. exact Hx.
  Qed.
  Lemma nodup_map_filter {A B} (g : A -> B) p (l : list A) : NoDup (map g l) -> NoDup (map g (filter p l)).
  Proof.
    induction l as [|x l IH]; cbn [map filter]; [auto|]. intros N. inversion N as [|? ? Hx Nl]; subst. destruct (p x); [|exact (IH Nl)].
    cbn [map]. constructor; [|exact (IH Nl)]. intros H. apply Hx. apply in_map_iff in H. destruct H as [y [E Hy]]. apply filter_In in Hy.
    rewrite <- E. apply in_map. tauto.
  Qed.
  Lemma in_values_with o l v : In v (values_with o l) <-> exists a, In a l /\ aop a = o /\ av a = v.
  Proof.
    unfold values_with. rewrite in_map_iff. split.
    - intros [a [E Ha]]. apply filter_In in Ha. destruct Ha as [Ha Ho]. exists a. split; [exact Ha|]. split; [|exact E]. destruct (aop a), o; try discriminate; reflexivity.
    - intros [a [Ha [Ho E]]]. exists a. split; [exact E|]. apply filter_In. split; [exact Ha|]. rewrite Ho. destruct o; reflexivity.
  Qed.
  Lemma clash_spec L : existsb (fun v => existsb (String.eqb v) (values_with GNe L)) (values_with GEq L) = true <->
    exists a b, In a L /\ In b L /\ aop a = GEq /\ aop b = GNe /\ av a = av b.
  Proof.
    split.
    - intros H. apply existsb_exists in H. destruct H as [v [Hv H]]. apply existsb_exists in H. destruct H as [w [Hw E]]. apply String.eqb_eq in E. subst w.
      apply in_values_with in Hv, Hw. destruct Hv as [a [Ha [Oa Va]]], Hw as [b [Hb [Ob Vb]]]. exists a, b. repeat split; auto. congruence.
    - intros (a & b & Ha & Hb & Oa & Ob & E). apply existsb_exists. exists (av a). split; [apply in_values_with; exists a; auto|].
      apply existsb_exists. exists (av b). split; [apply in_values_with; exists b; auto|]. rewrite E. apply String.eqb_refl.
  Qed.

  Lemma xmulti_intersect_multi l l' r : XFs (SMulti true l) -> XFs (SMulti true l') -> multi_intersect_multi true l l' = Ok r ->
    gxs r = forallb axs l && forallb axs l' /\ XFs r.
  Proof.
    intros (_ & Fl & Nd) (_ & Fl' & Nd') H. unfold multi_intersect_multi in H. cbv zeta in H. cbn [andb] in H.
    destruct (existsb _ (values_with GEq (l ++ l'))) eqn:C.
    - injection H as <-. split; [|exact Logic.I]. cbn [GenericUnionX.gxs]. apply clash_spec in C. destruct C as (a & b & Ha & Hb & Oa & Ob & E).
      rewrite <- forallb_app. symmetry. apply not_true_iff_false. intros F. rewrite forallb_forall in F.
      pose proof (F a Ha) as A. pose proof (F b Hb) as B. unfold GenericUnionX.axs in A, B. rewrite Oa in A. rewrite Ob, <- E, A in B. discriminate.
    - rewrite (xmk_multi _ _ H). set (kept := filter (fun c => negb (atom_in c l)) l'). split.
      + cbn [GenericUnionX.gxs]. rewrite forallb_app. destruct (forallb axs l) eqn:F; [|reflexivity]. cbn [andb]. unfold kept.
        clear - F. induction l' as [|c l' IH]; [reflexivity|]. cbn [filter forallb]. destruct (atom_in c l) eqn:I; cbn [negb].
        * rewrite IH, (atom_in_sat f act c l I F). reflexivity.
        * cbn [forallb]. rewrite IH. reflexivity.
      + split; [reflexivity|]. split.
        * apply Forall_app. split; [exact Fl|]. apply Forall_forall. intros c Hc. apply filter_In in Hc. rewrite Forall_forall in Fl'. exact (Fl' c (proj1 Hc)).
        * rewrite map_app. apply nodup_app; [exact Nd|exact (nodup_map_filter av _ l' Nd')|].
          intros v Hv Hk. apply in_map_iff in Hk. destruct Hk as [c [Ec Hc]]. apply filter_In in Hc. destruct Hc as [Hc' Hni]. apply negb_true_iff in Hni.
          apply in_map_iff in Hv. destruct Hv as [d [Ed Hd]]. rewrite Forall_forall in Fl, Fl'. pose proof (Fl d Hd) as Fd. pose proof (Fl' c Hc') as Fc_.
          (* same value, c not in l: the operators differ: a clash *)
          assert (Eo : gop_eqb (aop c) (aop d) = false).
          { destruct (gop_eqb (aop c) (aop d)) eqn:Eo; [|reflexivity]. exfalso.
            assert (Q : atom_in c l = true).
            { unfold atom_in. apply existsb_exists. exists d. split; [exact Hd|]. rewrite (xatom_eqb c d (proj1 Fc_) (proj1 Fd)), Eo, Ec, <- Ed, String.eqb_refl. reflexivity. }
            rewrite Q in Hni. discriminate. }
          assert (Cl : existsb (fun v0 => existsb (String.eqb v0) (values_with GNe (l ++ l'))) (values_with GEq (l ++ l')) = true).
          { apply clash_spec. destruct Fd as [_ Ed']. destruct Fc_ as [_ Ec']. unfold eqne in Ed', Ec'.
            destruct (aop c) eqn:Oc, (aop d) eqn:Od; try discriminate.
            - exists c, d. repeat split; auto; [apply in_or_app; right; exact Hc'|apply in_or_app; left; exact Hd|congruence].
            - exists d, c. repeat split; auto; [apply in_or_app; left; exact Hd|apply in_or_app; right; exact Hc'|congruence]. }
          rewrite Cl in C. discriminate.
  Qed.

  Theorem xgs_intersect a b r : XFs a -> XFs b -> gs_intersect a b = Ok r -> gxs r = gxs a && gxs b /\ XFs r.
  Proof.
    intros Fa_ Fb_ H. destruct a as [| |a|ma la], b as [| |b|mb lb]; cbn [gs_intersect] in H;
      try (injection H as <-; split; [cbn; rewrite ?andb_true_r, ?andb_false_r; reflexivity | first [exact Logic.I | assumption]]).
    - exact (xatom_intersect a b r Fa_ Fb_ H).
    - pose proof Fb_ as (-> & _). destruct (xmulti_intersect_atom lb a r Fb_ Fa_ H) as [V Fr]. split; [|exact Fr]. rewrite V. cbn [GenericUnionX.gxs]. apply andb_comm.
    - pose proof Fa_ as (-> & _). exact (xmulti_intersect_atom la b r Fa_ Fb_ H).
    - pose proof Fa_ as (-> & _). assert (Fb' : XFs (SMulti true lb)) by (destruct Fb_ as (_ & A & B); split; [reflexivity|split; assumption]).
      exact (xmulti_intersect_multi la lb r Fa_ Fb' H).
  Qed.

  (* ---- joins ---- *)
  Lemma xatom_union a b u : XFa a -> XFa b -> atom_union_atom a b = Ok u -> cxs u = axs a || axs b.
  Proof.
    intros Fa_ Fb_ H. pose proof Fa_ as [Xa Ea]. pose proof Fb_ as [Xb Eb]. unfold atom_union_atom in H. rewrite Xa in H.
    rewrite (xatom_eqb b a Xb Xa) in H.
    destruct (String.eqb (av b) (av a)) eqn:Ev; cbn [andb] in H.
    - rewrite String.eqb_sym in Ev. rewrite Ev in H. cbn [andb] in H. destruct (gop_eqb (aop b) (aop a)) eqn:Eo.
      + injection H as <-. cbn [GenericUnionX.cxs GenericUnionX.gxs]. apply String.eqb_eq in Ev.
        assert (Q : axs b = axs a) by (unfold GenericUnionX.axs; rewrite Ev; destruct (aop a), (aop b); try discriminate; reflexivity).
        rewrite Q, orb_diag. reflexivity.
      + assert (Eo' : gop_eqb (aop a) (aop b) = false) by (destruct (aop a), (aop b); try discriminate; reflexivity).
        rewrite Eo' in H. cbn [negb] in H. injection H as <-. cbn [GenericUnionX.cxs GenericUnionX.gxs].
        rewrite (same_value_diff_op a b Fa_ Fb_ Ev Eo'). destruct (axs b); reflexivity.
    - rewrite String.eqb_sym in Ev. rewrite Ev in H. cbn [andb] in H. injection H as <-. cbn. rewrite orb_false_r. reflexivity.
  Qed.
  Lemma xsub_all l l' : forallb (fun a => atom_in a l') l = true -> forallb axs l' = true -> forallb axs l = true.
  Proof. intros S F. rewrite forallb_forall in S. apply forallb_forall. intros a Ha. exact (atom_in_sat f act a l' (S a Ha) F). Qed.
  Lemma xmulti_union_multi l l' u : multi_union_multi true l l' = Ok u -> cxs u = forallb axs l || forallb axs l'.
  Proof.
    intros H. unfold multi_union_multi in H. cbv zeta in H. cbn [negb andb] in H.
    destruct (forallb (fun a => atom_in a l') l) eqn:S1.
    - injection H as <-. cbn [GenericUnionX.cxs GenericUnionX.gxs]. destruct (forallb axs l') eqn:F; [|rewrite orb_false_r; reflexivity].
      rewrite (xsub_all l l' S1 F). reflexivity.
    - destruct (forallb (fun a => atom_in a l) l') eqn:S2; injection H as <-.
      + cbn [GenericUnionX.cxs GenericUnionX.gxs]. destruct (forallb axs l) eqn:F; [|reflexivity]. rewrite (xsub_all l' l S2 F). reflexivity.
      + cbn. rewrite orb_false_r. reflexivity.
  Qed.
  Lemma xmulti_union_atom l b u : XFs (SMulti true l) -> XFa b -> multi_union_atom true l b = Ok u -> cxs u = forallb axs l || axs b.
  Proof.
    intros (_ & Fl & Nd) Fb H. unfold multi_union_atom in H. cbn [negb andb] in H.
    destruct (atom_in b l) eqn:I.
    { injection H as <-. cbn [GenericUnionX.cxs GenericUnionX.gxs]. destruct (forallb axs l) eqn:F; [|reflexivity]. rewrite (atom_in_sat f act b l I F). reflexivity. }
    destruct (Nat.eqb (List.length l) 2 && value_in (av b) l) eqn:C.
    2:{ injection H as <-. cbn. rewrite orb_false_r. reflexivity. }
    injection H as <-. apply andb_true_iff in C. destruct C as [Len V]. apply Nat.eqb_eq in Len.
    destruct l as [|c1 [|c2 [|c3 r']]]; try discriminate. clear Len.
    inversion Fl as [|? ? F1 Fl2]; subst. inversion Fl2 as [|? ? F2 _]; subst.
    inversion Nd as [|? ? N1 Nd2]; subst. cbn [map In] in N1.
    assert (Neq : av c1 <> av c2) by (intros E; apply N1; left; symmetry; exact E).
    (* exactly one of the two clauses is on b's value, and it is b's complement *)
    assert (Comp : forall c, (c = c1 \/ c = c2) -> XFa c -> String.eqb (av c) (av b) = true -> axs c = negb (axs b)).
    { intros c Hc Fc_ Ev. apply (same_value_diff_op c b Fc_ Fb Ev).
      destruct (gop_eqb (aop c) (aop b)) eqn:Eo; [|reflexivity]. exfalso.
      assert (Q : atom_in b [c1; c2] = true).
      { unfold atom_in. apply existsb_exists. exists c. split; [destruct Hc as [-> | ->]; cbn; auto|].
        rewrite (xatom_eqb b c (proj1 Fb) (proj1 Fc_)), (String.eqb_sym (av b)), Ev. destruct (aop b), (aop c); try discriminate; reflexivity. }
      rewrite Q in I. discriminate. }
    cbn [filter]. unfold value_in in V. cbn [existsb] in V. rewrite orb_false_r in V.
    destruct (String.eqb (av c1) (av b)) eqn:E1, (String.eqb (av c2) (av b)) eqn:E2; cbn [negb map app].
    - apply String.eqb_eq in E1, E2. congruence.
    - cbn [GenericUnionX.cxs existsb GenericUnionX.gxs forallb]. rewrite (Comp c1 (or_introl eq_refl) F1 E1). destruct (axs b), (axs c2); reflexivity.
    - cbn [GenericUnionX.cxs existsb GenericUnionX.gxs forallb]. rewrite (Comp c2 (or_intror eq_refl) F2 E2). destruct (axs b), (axs c1); reflexivity.
    - rewrite (String.eqb_sym (av b)), E1, (String.eqb_sym (av b)), E2 in V. discriminate.
  Qed.
  Theorem xgs_union a b u : XFs a -> XFs b -> gs_union a b = Ok u -> cxs u = gxs a || gxs b.
  Proof.
    intros Fa_ Fb_ H. destruct a as [| |a|ma la], b as [| |b|mb lb]; cbn [gs_union] in H;
      try (injection H as <-; cbn; rewrite ?orb_true_r, ?orb_false_r; reflexivity).
    - exact (xatom_union a b u Fa_ Fb_ H).
    - pose proof Fb_ as (-> & _). rewrite (xmulti_union_atom lb a u Fb_ Fa_ H). cbn [GenericUnionX.gxs]. apply orb_comm.
    - pose proof Fa_ as (-> & _). exact (xmulti_union_atom la b u Fa_ Fb_ H).
    - pose proof Fa_ as (-> & _). exact (xmulti_union_multi la lb u H).
  Qed.
End XFrag.

Definition XFc (c : gc) : Prop := match c with GS s => XFs s | GU l => Forall XFs l /\ l <> [] end.
Lemma XFs_atom mx l a : XFs (SMulti mx l) -> In a l -> XFs (SAtom a).
Proof. intros (_ & Fl & _) Ha. rewrite Forall_forall in Fl. exact (Fl a Ha). Qed.

Theorem xg_intersect f act a b r : XFc a -> XFc b -> g_intersect a b = Ok r -> cxs f act r = cxs f act a && cxs f act b.
Proof.
  intros Fa_ Fb_ H.
  assert (UI : forall l other, Forall XFs l -> (match other with GS s => XFs s | GU l' => Forall XFs l' end) ->
                union_intersect l other = Ok r -> cxs f act r = existsb (gxs f act) l && cxs f act other).
  { intros l other Pl Po. exact (union_intersect_exact f act XFs (xgs_intersect f act) XFs_atom l other r Pl Po). }
  destruct a as [sa|la].
  - destruct b as [sb|lb].
    + destruct sa as [| |a|ma la]; cbn [g_intersect] in H;
        try (injection H as <-; cbn; rewrite ?andb_false_r; reflexivity).
      * destruct (gs_intersect (SAtom a) sb) as [r'|] eqn:Hr; [|discriminate]. cbn [bind] in H. injection H as <-.
        exact (proj1 (xgs_intersect f act _ _ _ Fa_ Fb_ Hr)).
      * destruct (gs_intersect (SMulti ma la) sb) as [r'|] eqn:Hr; [|discriminate]. cbn [bind] in H. injection H as <-.
        exact (proj1 (xgs_intersect f act _ _ _ Fa_ Fb_ Hr)).
    + destruct Fb_ as [Pl _].
      destruct sa as [| |a|ma la]; cbn [g_intersect] in H;
        try (injection H as <-; cbn; rewrite ?andb_false_r; reflexivity);
        (match type of H with union_intersect _ ?o = _ => rewrite (UI lb o Pl Fa_ H) end); apply andb_comm.
  - destruct Fa_ as [Pl _]. cbn [g_intersect] in H. apply (UI la b Pl); [|exact H]. destruct b as [sb|lb]; [exact Fb_|exact (proj1 Fb_)].
Qed.
Theorem xg_union f act a b r : XFc a -> XFc b -> g_union a b = Ok r -> cxs f act r = cxs f act a || cxs f act b.
Proof.
  intros Fa_ Fb_ H.
  assert (UU : forall l other, l <> [] -> Forall XFs l -> (match other with GS s => XFs s | GU l' => Forall XFs l' /\ l' <> [] end) ->
                union_union l other = Ok r -> cxs f act r = existsb (gxs f act) l || cxs f act other).
  { intros l other Nl Pl Po. exact (union_union_exact f act XFs (xgs_union f act) l other r Nl Pl Po). }
  destruct a as [sa|la].
  - destruct b as [sb|lb].
    + destruct sa as [| |a|ma la]; cbn [g_union] in H;
        try (injection H as <-; cbn; rewrite ?orb_false_r; reflexivity);
        exact (xgs_union f act _ _ _ Fa_ Fb_ H).
    + destruct Fb_ as [Pl Nl].
      destruct sa as [| |a|ma la]; cbn [g_union] in H;
        try (injection H as <-; cbn; rewrite ?orb_false_r; reflexivity).
      * rewrite (UU [SAtom a] (GU lb)); [cbn; rewrite orb_false_r; reflexivity | discriminate | constructor; [exact Fa_|constructor] | split; assumption | exact H].
      * rewrite (UU lb (GS (SMulti ma la)) Nl Pl Fa_ H). apply orb_comm.
  - destruct Fa_ as [Pl Nl]. cbn [g_union] in H. exact (UU la b Nl Pl Fb_ H).
Qed.
