(* C05, the 'are defined (never raise)' clause for difference: under the hypotheses of difference_exact the result exists.
   Every difference of two good range-likes with mutually regular bounds is defined (a split is literally two pieces, DiffUnion.v);
   the sweep of range-minus-union is defined by induction over the subtrahend; the two-cursor state machine consumes a member of one
   of the two lists at every step, so the fuel [difference] passes (one more than the two lengths) suffices; VersionUnion.of on the
   pieces is defined (UnionTotalGood.v). *)
From Coq Require Import List Bool NArith ZArith String Ascii Lia ZifyBool.
From PC Require Import Base.Cmp Base.Result Base.RankEmbed Model.Pep440 Spec.Pep440Spec Proofs.Pep440Order
     Proofs.VersionFacts Model.VConstraint Proofs.RangeSpec Proofs.RangeAlg Proofs.RangeOps Proofs.UnionHull Proofs.UnionExact Proofs.Contain Proofs.InterExact Proofs.DiffExact Proofs.DiffUnion Proofs.UnionTotalGood Model.VHyp.
Import ListNotations.
Open Scope list_scope.

(* the difference of two good range-likes with mutually regular bounds is defined *)
Lemma r_difference_total a b : good a = true -> good b = true -> mutual (rbounds a ++ rbounds b) ->
  exists d, r_difference a b = Ok d.
Proof.
  intros Ga Gb MU.
  destruct a as [xa|lo hi i j] eqn:Ea; [cbn [r_difference]; eexists; reflexivity|].
  destruct b as [y|blo bhi bi bj] eqn:Eb.
  - destruct (good_rv y Gb) as [Wy Ly].
    assert (Ry : regular_r y (RR lo hi i j) = true).
    { apply (mutual_regular_r _ y _ MU); [apply in_or_app; right; left; reflexivity|intros e He; apply in_or_app; left; exact He]. }
    assert (Ar : rr_allows (RR lo hi i j) y = mem (RR lo hi i j) y).
    { rewrite <- (allows_regular (RR lo hi i j) y (good_wf _ Ga) Wy Ry). reflexivity. }
    destruct (mem (RR lo hi i j) y) eqn:My.
    + destruct (oveq (Some y) lo) eqn:E1; [cbn [r_difference rmin]; rewrite Ar, E1; cbn [negb]; eexists; reflexivity|].
      destruct (oveq (Some y) hi) eqn:E2; [cbn [r_difference rmin rmax]; rewrite Ar, E1, E2; cbn [negb]; eexists; reflexivity|].
      destruct (split_point_eq lo hi i j y Ga Gb Ry My E1 E2) as (Q & _). eexists. exact Q.
    + cbn [r_difference]. rewrite Ar. cbn [negb]. eexists; reflexivity.
  - rewrite <- Ea, <- Eb in *.
    assert (Ia : is_rr a = true) by (rewrite Ea; reflexivity). assert (Ib : is_rr b = true) by (rewrite Eb; reflexivity).
    rewrite (r_difference_rr a b Ia Ib).
    destruct (r_allows_any a b) eqn:Ov; cbn [negb]; [|eexists; reflexivity].
    destruct (allows_lower a b) eqn:AL, (allows_higher a b) eqn:AH; cbn [negb].
    + destruct (split_range_eq a b Ga Gb Ia Ib MU Ov AL AH) as (rb & ra & _ & _ & Q & _). rewrite (r_difference_rr a b Ia Ib), Ov, AL, AH in Q. cbn [negb] in Q.
      eexists. exact Q.
    + destruct (before_piece a b); eexists; reflexivity.
    + destruct (after_piece a b); eexists; reflexivity.
    + eexists; reflexivity.
Qed.

Section Tot.
  Variable B : list version.
  Hypothesis MU : mutual B.

  Lemma mutual_pair a b : incl (rbounds a) B -> incl (rbounds b) B -> mutual (rbounds a ++ rbounds b).
  Proof. intros Ia Ib. apply (mutual_incl B); [|exact MU]. intros e He. apply in_app_or in He. destruct He as [He|He]; [apply Ia, He|apply Ib, He]. Qed.

  (* what a difference step hands on is again good and within the bounds *)
  Lemma diff_step a b d : good a = true -> good b = true -> incl (rbounds a) B -> incl (rbounds b) B -> r_difference a b = Ok d ->
    goodc d = true /\ incl (cbounds d) B /\ (forall l, d = VUnion l -> exists x y, l = [x; y]).
  Proof.
    intros Ga Gb Ia Ib D. pose proof (mutual_pair a b Ia Ib) as MUab.
    destruct (r_difference_exact a b d Ga Gb (mutual_mreg B a b MU Ia Ib) D) as (_ & Db & Dg).
    split; [exact Dg|]. split.
    - intros e He. apply Db in He. apply in_app_or in He. destruct He as [He|He]; [apply Ia, He|apply Ib, He].
    - intros l ->. destruct (r_difference_split a b l Ga Gb MUab D) as (x & y & -> & _). eauto.
  Qed.

  Lemma sweep_total : forall l current pieces, good current = true -> forallb good l = true ->
    incl (rbounds current) B -> incl (lbounds l) B -> exists rs, rr_minus_union current pieces l = Ok rs.
  Proof.
    induction l as [|r rest IH]; intros current pieces Gc Gl Ic Il; cbn [rr_minus_union]; [eexists; reflexivity|].
    cbn [forallb] in Gl. apply andb_true_iff in Gl as [Gr Gl].
    assert (Ir : incl (rbounds r) B) by (intros e He; apply Il; cbn [lbounds flat_map]; apply in_or_app; left; exact He).
    assert (Il' : incl (lbounds rest) B) by (intros e He; apply Il; cbn [lbounds flat_map]; apply in_or_app; right; exact He).
    destruct (is_strictly_lower r current); [apply IH; assumption|].
    destruct (is_strictly_higher r current); [eexists; reflexivity|].
    destruct (r_difference_total current r Gc Gr (mutual_pair current r Ic Ir)) as [d D]. rewrite D. cbn [bind].
    destruct (diff_step current r d Gc Gr Ic Ir D) as (Dg & Db & Du).
    destruct d as [|x|dl].
    - eexists; reflexivity.
    - apply IH; try assumption.
      + unfold goodc in Dg. cbn in Dg. rewrite andb_true_r in Dg. exact Dg.
      + intros e He. apply Db. unfold cbounds. cbn [flatten flat_map]. rewrite app_nil_r. exact He.
    - destruct (Du dl eq_refl) as (x & y & ->). cbn [last]. apply IH; try assumption.
      + unfold goodc in Dg. cbn [flatten forallb] in Dg. rewrite andb_true_r in Dg. apply andb_true_iff in Dg as [_ Gy]. exact Gy.
      + intros e He. apply Db. unfold cbounds. cbn [flatten flat_map]. apply in_or_app. right. rewrite app_nil_r. exact He.
  Qed.

  Lemma udiff_total : forall fuel current ours their theirs acc,
    (List.length ours + List.length theirs < fuel)%nat ->
    good current = true -> forallb good ours = true -> good their = true -> forallb good theirs = true ->
    incl (rbounds current) B -> incl (lbounds ours) B -> incl (rbounds their) B -> incl (lbounds theirs) B ->
    exists rs, udiff fuel current ours their theirs acc = Ok rs.
  Proof.
    induction fuel as [|f IH]; intros current ours their theirs acc Hf Gc Go Gt Gts Ic Io It Its; [lia|].
    cbn [udiff].
    (* the two ways of moving on *)
    assert (TN : forall cur acc', good cur = true -> incl (rbounds cur) B ->
              exists rs, match theirs with t :: ts => udiff f cur ours t ts acc' | [] => Ok (rev acc' ++ cur :: ours) end = Ok rs).
    { intros cur acc' Gcur Icur. destruct theirs as [|t ts]; [eexists; reflexivity|].
      cbn [forallb] in Gts. apply andb_true_iff in Gts as [Gt1 Gt2]. destruct (lb_cons B t ts Its) as [It1 It2].
      apply IH; try assumption. cbn [List.length] in Hf. lia. }
    assert (ON : forall acc', exists rs, match ours with o :: os => udiff f o os their theirs acc' | [] => Ok (rev acc') end = Ok rs).
    { intros acc'. destruct ours as [|o os]; [eexists; reflexivity|].
      cbn [forallb] in Go. apply andb_true_iff in Go as [Go1 Go2]. destruct (lb_cons B o os Io) as [Io1 Io2].
      apply IH; try assumption. cbn [List.length] in Hf. lia. }
    destruct (is_strictly_lower their current); [apply TN; assumption|].
    destruct (is_strictly_higher their current); [apply ON|].
    destruct (r_difference_total current their Gc Gt (mutual_pair current their Ic It)) as [d D]. rewrite D. cbn [bind].
    destruct (diff_step current their d Gc Gt Ic It D) as (Dg & Db & Du).
    destruct d as [|x|dl].
    - apply ON.
    - assert (Gx : good x = true) by (unfold goodc in Dg; cbn in Dg; rewrite andb_true_r in Dg; exact Dg).
      assert (Ix : incl (rbounds x) B) by (intros e He; apply Db; unfold cbounds; cbn [flatten flat_map]; rewrite app_nil_r; exact He).
      destruct (allows_higher x their); [apply TN; assumption|apply ON].
    - destruct (Du dl eq_refl) as (x & y & ->). apply TN.
      + unfold goodc in Dg. cbn [flatten forallb] in Dg. rewrite andb_true_r in Dg. apply andb_true_iff in Dg as [_ Gy]. exact Gy.
      + intros e He. apply Db. unfold cbounds. cbn [flatten flat_map]. apply in_or_app. right. rewrite app_nil_r. exact He.
  Qed.
End Tot.

Definition nonempty_union (c : vc) : Prop := match c with VUnion l => l <> [] | _ => True end.

Lemma difference_union_total B la b : mutual B -> goodc (VUnion la) = true -> goodc b = true -> sorted_c (VUnion la) = true -> sorted_c b = true ->
  incl (cbounds (VUnion la)) B -> incl (cbounds b) B -> b <> VEmpty -> la <> [] -> nonempty_union b ->
  exists c, difference (VUnion la) b = Ok c.
Proof.
  intros MU Ga Gb Sa Sb Ia Ib NE NL NB. rewrite (difference_union_unfold la b NE).
  generalize (Datatypes.S (List.length la + List.length (flatten b))) (Nat.lt_succ_diag_r (List.length la + List.length (flatten b))). intros fuel Hfuel.
  destruct la as [|cur ours]; [congruence|].
  destruct (flatten b) as [|t ts] eqn:Fb.
  { exfalso. destruct b as [|rb|lb]; [congruence|discriminate Fb|]. cbn in Fb. cbn in NB. congruence. }
  unfold goodc in Ga, Gb. cbn [flatten] in Ga. rewrite Fb in Gb. cbn [forallb] in Ga, Gb.
  apply andb_true_iff in Ga as [Gc Go]. apply andb_true_iff in Gb as [Gt Gts].
  unfold sorted_c in Sa, Sb. cbn [flatten] in Sa. rewrite Fb in Sb. pose proof Sa as Sa'. cbn [sepb] in Sa'. apply andb_true_iff in Sa' as [Sa1 Sa2].
  unfold cbounds in Ia, Ib. cbn [flatten] in Ia. rewrite Fb in Ib. fold (lbounds (cur :: ours)) in Ia. fold (lbounds (t :: ts)) in Ib.
  destruct (lb_cons B cur ours Ia) as [Ic Io]. destruct (lb_cons B t ts Ib) as [It Its].
  destruct (udiff_total B MU fuel cur ours t ts [] ltac:(cbn [List.length] in Hfuel; lia) Gc Go Gt Gts Ic Io It Its) as [rs U]. rewrite U. cbn [bind].
  assert (I : Inv B cur ours t ts []).
  { unfold Inv. repeat split; try assumption; try reflexivity; [apply sepb_under; assumption|intros e []]. }
  destruct (udiff_all B MU fuel cur ours t ts [] rs I U) as (G1 & _ & _).
  destruct rs as [|r [|r' rs']]; [eexists; reflexivity|eexists; reflexivity|].
  apply vunion_of_total, good_map_vone, G1.
Qed.

(* C05, "are defined" for difference: under the hypotheses of difference_exact the result exists *)
Theorem difference_total B a b : mutual B -> goodc a = true -> goodc b = true -> sorted_c a = true -> sorted_c b = true ->
  incl (cbounds a) B -> incl (cbounds b) B -> nonempty_union a -> nonempty_union b ->
  (match a with VOne (RV x) => exists al, allows b x = Ok al | _ => True end) ->
  exists c, difference a b = Ok c.
Proof.
  intros MU Ga Gb Sa Sb Ia Ib NA NB Hal.
  destruct a as [|ra|la]; [eexists; reflexivity| |].
  - assert (Gra : good ra = true) by (unfold goodc in Ga; cbn in Ga; rewrite andb_true_r in Ga; exact Ga).
    assert (Ira : incl (rbounds ra) B) by (intros e He; apply Ia; unfold cbounds; cbn [flatten flat_map]; rewrite app_nil_r; exact He).
    destruct ra as [x|lo hi i j] eqn:Era.
    + cbn [difference]. destruct Hal as [al ->]. cbn [bind]. eexists; reflexivity.
    + rewrite <- Era in *. destruct b as [|rb|lb].
      * rewrite Era. eexists; reflexivity.
      * assert (Grb : good rb = true) by (unfold goodc in Gb; cbn in Gb; rewrite andb_true_r in Gb; exact Gb).
        assert (Irb : incl (rbounds rb) B) by (intros e He; apply Ib; unfold cbounds; cbn [flatten flat_map]; rewrite app_nil_r; exact He).
        rewrite Era. cbn [difference]. rewrite <- Era. apply r_difference_total; [exact Gra|exact Grb|apply (mutual_pair B MU); assumption].
      * rewrite Era. cbn [difference]. rewrite <- Era. unfold rng_minus_union.
        destruct (sweep_total B MU lb ra [] Gra Gb Ira Ib) as [rs E]. rewrite E. cbn [bind].
        destruct (sweep B MU lb ra [] rs Gra eq_refl Gb Sb Ira (fun e H => match H with end) Ib E) as (G1 & _ & _).
        apply vunion_of_total, good_map_vone, G1.
  - destruct b as [|rb|lb] eqn:Eb; [eexists; reflexivity| |]; rewrite <- Eb in *.
    + apply (difference_union_total B la b); try assumption; rewrite Eb; discriminate.
    + apply (difference_union_total B la b); try assumption; rewrite Eb; discriminate.
Qed.
Print Assumptions difference_total.
