(* C04 / C15: the wildcard clauses '==R.*', 'R.*', '!=R.*' for a release R of one to three components, from their text:
   X_CONSTRAINT (the hand matcher match_x_constraint: optional operator, one to three dot-separated digit runs, one or more
   '.*', end) consumes exactly R, and the range built is make_x_constraint_range of the bare release R. *)
From Coq Require Import List Bool Arith NArith String Ascii Lia.
From PC Require Import Base.Cmp Base.Result Model.Pep440 Spec.Pep440Spec Proofs.Pep440Order Proofs.Pep440Parse Model.VConstraint
     Proofs.Pep440RoundTrip Proofs.ClauseText.
Import ListNotations.
Open Scope char_scope.
Open Scope N_scope.
Open Scope list_scope.

(* a bare release of one to three components, as the wildcard clause writes it *)
Definition bare (r : release) : version := mk 0 r None None None None.
Lemma bare_printable r : r <> [] -> printable (bare r) = true.
Proof. intros H. unfold printable, wf, wf_tags, wf_local, bare, mk. cbn. destruct r; [congruence|reflexivity]. Qed.
Lemma bare_printed r : printed (bare r) = rel_chars r.
Proof. unfold printed, bare, mk. cbn. rewrite !app_nil_r. reflexivity. Qed.

Lemma x_components_xmore l : x_components l =
  let '(d1, r1) := span is_digit l in
  match d1 with [] => None | _ =>
    match xmore r1 with
    | None => Some (d1, r1)
    | Some (c2, r2) => match xmore r2 with None => Some (d1 ++ c2, r2) | Some (c3, r3) => Some (d1 ++ c2 ++ c3, r3) end
    end end.
Proof. unfold x_components. destruct (span is_digit l) as [d1 r1]. destruct d1; reflexivity. Qed.

Definition stars : chars := [".";"*"].
Lemma xmore_stars : xmore stars = None. Proof. reflexivity. Qed.
Lemma xmore_digits n rest : (match rest with c :: _ => is_digit c = false | [] => True end) ->
  xmore ("." :: dchars n ++ rest) = Some ("." :: dchars n, rest).
Proof.
  intros Hr. destruct (digits_split n) as (d & ds & E & Hd & Hds). unfold xmore. rewrite E. cbn [app].
  replace (code "." =? 46) with true by reflexivity. rewrite Hd. cbn [andb tl].
  change (d :: ds ++ rest) with ((d :: ds) ++ rest). rewrite <- E.
  rewrite (span_app is_digit (dchars n) rest (dchars_digits n) Hr). reflexivity.
Qed.
Lemma span_digits n rest : (match rest with c :: _ => is_digit c = false | [] => True end) ->
  span is_digit (dchars n ++ rest) = (dchars n, rest).
Proof. intros Hr. exact (span_app is_digit (dchars n) rest (dchars_digits n) Hr). Qed.

(* one to three numeric components followed by '.*' *)
Lemma x_components_wild r : (1 <= List.length r <= 3)%nat -> x_components (rel_chars r ++ stars) = Some (rel_chars r, stars).
Proof.
  intros H. rewrite x_components_xmore.
  destruct r as [|n1 [|n2 [|n3 [|n4 r']]]]; cbn [List.length] in H; try lia; cbn [rel_chars rel_tail flat_map app]; rewrite ?app_nil_r.
  - rewrite span_digits by reflexivity. destruct (digits_split n1) as (d & ds & E & _). rewrite E at 1. rewrite xmore_stars. reflexivity.
  - rewrite <- app_assoc. cbn [app]. rewrite span_digits by reflexivity. destruct (digits_split n1) as (d & ds & E & _). rewrite E at 1.
    rewrite xmore_digits by reflexivity. rewrite xmore_stars. reflexivity.
  - rewrite <- !app_assoc. cbn [app]. rewrite <- app_assoc. cbn [app]. rewrite span_digits by reflexivity. destruct (digits_split n1) as (d & ds & E & _). rewrite E at 1.
    rewrite xmore_digits by reflexivity. rewrite xmore_digits by reflexivity. reflexivity.
Qed.

Lemma dot_stars_stars : dot_stars (List.length stars) stars = Some [].
Proof. reflexivity. Qed.

Local Opaque match_op_version parse_version_or_fail make_x_constraint_range.

(* '==R.*', 'R.*' and '!=R.*' for a release R of one to three components: the wildcard range of R *)
Theorem clause_wildcard m (op : string) (invert : bool) r : (1 <= List.length r <= 3)%nat ->
  (op = "==" /\ invert = false \/ op = "" /\ invert = false \/ op = "!=" /\ invert = true)%string ->
  parse_single m (op ++ rel_text r ++ ".*") =
  match make_x_constraint_range (bare r) invert m with Ok c => Ok c | Err _ => Err EValue end.
Proof.
  intros Hl Hop.
  assert (Hr : r <> []) by (destruct r; [cbn in Hl; lia|discriminate]).
  pose proof (bare_printable r Hr) as P.
  assert (TS : to_string (bare r) = rel_text r) by reflexivity.
  assert (LC : lchars (op ++ rel_text r ++ ".*") = lchars op ++ rel_chars r ++ stars).
  { rewrite !lchars_app. rewrite <- TS, (lchars_to_string (bare r)); [rewrite bare_printed; reflexivity|]. exact Hr. }
  destruct (digits_split (hd 0 r)) as (d & ds & E & Hd & _).
  assert (RC : exists tl, rel_chars r = d :: tl).
  { destruct r as [|n ns]; [congruence|]. cbn [rel_chars hd] in *. rewrite E. eexists. reflexivity. }
  destruct RC as (tl & RC).
  destruct (digit_facts d Hd) as (F126 & F94 & F61 & F60 & F62 & F33 & F118 & F86 & Fx).
  assert (MX : match_x_constraint (lchars op ++ rel_chars r ++ stars) = Some (invert, rel_text r)).
  { Local Transparent match_x_constraint. unfold match_x_constraint.
    assert (K : drop_spaces (rel_chars r ++ stars) = rel_chars r ++ stars).
    { rewrite RC. unfold drop_spaces. cbn [app span]. rewrite (digit_not_space d Hd). reflexivity. }
    assert (K2 : strip_v (rel_chars r ++ stars) = rel_chars r ++ stars) by (rewrite RC; apply strip_v_digit; exact Hd).
    assert (Fin : match x_components (rel_chars r ++ stars) with
                  | Some (txt, rest) => match dot_stars (List.length rest) rest with Some r' => if at_dollar r' then Some (invert, string_of_list_ascii txt) else None | None => None end
                  | None => None end = Some (invert, rel_text r)).
    { rewrite (x_components_wild r Hl), dot_stars_stars. cbn [at_dollar]. rewrite <- bare_printed, (printed_to_string (bare r) P). reflexivity. }
    destruct Hop as [[-> ->]|[[-> ->]|[-> ->]]].
    - change (lchars "==" ++ rel_chars r ++ stars) with ("=" :: "=" :: rel_chars r ++ stars).
      cbv beta iota zeta.
      replace ((code "=" =? 33) && (code "=" =? 61)) with false by reflexivity. replace ((code "=" =? 61) && (code "=" =? 61)) with true by reflexivity.
      cbv beta iota zeta. rewrite K, K2. exact Fin.
    - change (lchars "" ++ rel_chars r ++ stars) with (rel_chars r ++ stars).
      assert (EL : rel_chars r ++ stars = d :: (tl ++ stars)) by (rewrite RC; reflexivity).
      revert K K2 Fin EL. generalize (rel_chars r ++ stars). intros L K K2 Fin EL.
      destruct L as [|a0 [|b0 r0]]; [discriminate EL| |]; injection EL as -> EL'; cbv beta iota zeta; rewrite ?F33, ?F61; cbn [andb]; cbv beta iota zeta; rewrite K, K2; exact Fin.
    - change (lchars "!=" ++ rel_chars r ++ stars) with ("!" :: "=" :: rel_chars r ++ stars).
      cbv beta iota zeta. replace ((code "!" =? 33) && (code "=" =? 61)) with true by reflexivity.
      cbv beta iota zeta. rewrite K, K2. exact Fin. }
  unfold parse_single. rewrite LC.
  assert (HA : is_any_pattern (lchars op ++ rel_chars r ++ stars) = false).
  { destruct Hop as [[-> _]|[[-> _]|[-> _]]]; try reflexivity.
    change (lchars "" ++ rel_chars r ++ stars) with (rel_chars r ++ stars). rewrite RC. cbn [app]. unfold is_any_pattern. rewrite F118, F86. cbn [orb]. rewrite Fx. reflexivity. }
  rewrite HA.
  assert (T1 : match lchars op ++ rel_chars r ++ stars with
               | t :: r0 => if (code t =? 126) && negb match r0 with e :: _ => code e =? 61 | [] => false end then match_op_version r0 at_dollar else None
               | [] => None end = None).
  { destruct Hop as [[-> _]|[[-> _]|[-> _]]]; try reflexivity.
    change (lchars "" ++ rel_chars r ++ stars) with (rel_chars r ++ stars). rewrite RC. cbn [app]. rewrite F126. reflexivity. }
  rewrite T1.
  assert (T2 : match lchars op ++ rel_chars r ++ stars with
               | t :: e :: r0 => if (code t =? 126) && (code e =? 61) then match_op_version r0 at_dollar else None
               | _ => None end = None).
  { destruct Hop as [[-> _]|[[-> _]|[-> _]]]; try reflexivity.
    change (lchars "" ++ rel_chars r ++ stars) with (rel_chars r ++ stars). rewrite RC. cbn [app]. destruct (tl ++ stars); [reflexivity|]. rewrite F126. reflexivity. }
  rewrite T2.
  assert (T3 : match lchars op ++ rel_chars r ++ stars with
               | t :: r0 => if code t =? 94 then match_op_version r0 at_dollar else None
               | [] => None end = None).
  { destruct Hop as [[-> _]|[[-> _]|[-> _]]]; try reflexivity.
    change (lchars "" ++ rel_chars r ++ stars) with (rel_chars r ++ stars). rewrite RC. cbn [app]. rewrite F94. reflexivity. }
  rewrite T3, MX.
  rewrite <- TS, (roundtrip (bare r) P). reflexivity.
Qed.
Print Assumptions clause_wildcard.
