(* comma sets and '||' groups are defined when the parsed clauses have good members: the intersections and the union never assert *)
From Coq Require Import List Bool NArith ZArith String Ascii Lia ZifyBool.
From PC Require Import Base.Cmp Base.Result Base.RankEmbed Model.Pep440 Spec.Pep440Spec Proofs.Pep440Order
     Proofs.VersionFacts Model.VConstraint Proofs.RangeSpec Proofs.RangeAlg Proofs.RangeOps Proofs.UnionHull Proofs.UnionExact Proofs.Contain Proofs.InterExact Proofs.UnionTotalGood Proofs.InterTotal.
Import ListNotations.
Open Scope list_scope.

Lemma union_of_good rs c : forallb goodc rs = true -> union_of rs = Ok c -> goodc c = true.
Proof. intros G H. destruct (vunion_of_sound OF_FUEL rs c G H) as (_ & _ & Gc). exact Gc. Qed.
Lemma intersect_total_good a b : goodc a = true -> goodc b = true -> exists c, intersect a b = Ok c /\ goodc c = true.
Proof.
  intros Ga Gb.
  assert (U : forall l b0, forallb good l = true -> goodc b0 = true -> exists c, union_intersect l b0 = Ok c /\ goodc c = true).
  { intros l b0 Gl Gb0. unfold union_intersect. destruct (walk_intersect_total l (flatten b0) Gl Gb0) as (rs & -> & Grs). cbn [bind].
    destruct (vunion_of_total (pred OF_FUEL) rs Grs) as [c Hc]. exists c. split; [exact Hc|]. exact (union_of_good rs c Grs Hc). }
  destruct a as [|ra|la]; [exists VEmpty; split; reflexivity| |apply U; assumption].
  assert (Gra : good ra = true) by (unfold goodc in Ga; cbn in Ga; rewrite andb_true_r in Ga; exact Ga).
  destruct b as [|rb|lb]; cbn [intersect]; [exists VEmpty; split; reflexivity| |apply U; assumption].
  assert (Grb : good rb = true) by (unfold goodc in Gb; cbn in Gb; rewrite andb_true_r in Gb; exact Gb).
  exact (r_intersect_total ra rb Gra Grb).
Qed.
(* a comma set whose clauses parse to constraints with good members is defined: no AssertionError from the intersections *)
Theorem comma_set_defined m clauses cs : clauses <> [] -> mapR (parse_single_pep m) clauses = Ok cs -> forallb goodc cs = true ->
  exists g, parse_group m clauses = Ok g /\ goodc g = true.
Proof.
  intros Hne Hm Hg. unfold parse_group. destruct clauses as [|c0 rest]; [congruence|]. cbn [mapR] in Hm.
  destruct (parse_single_pep m c0) as [first|e] eqn:E0; cbn [bind] in Hm; [|discriminate].
  destruct (mapR (parse_single_pep m) rest) as [crest|e] eqn:Er; cbn [bind] in Hm; [|discriminate]. injection Hm as <-.
  cbn [forallb] in Hg. apply andb_true_iff in Hg as [G0 Gr]. cbn [bind].
  clear E0 Hne. revert first G0 crest Er Gr. induction rest as [|c1 rest IH]; intros acc Gacc crest Er Gr.
  - cbn [fold_left]. eauto.
  - cbn [mapR] in Er. destruct (parse_single_pep m c1) as [b|e] eqn:E1; cbn [bind] in Er; [|discriminate].
    destruct (mapR (parse_single_pep m) rest) as [cr|e] eqn:Er'; cbn [bind] in Er; [|discriminate]. injection Er as <-.
    cbn [forallb] in Gr. apply andb_true_iff in Gr as [Gb Gr].
    cbn [fold_left bind]. rewrite E1. cbn [bind].
    destruct (intersect_total_good acc b Gacc Gb) as (i & Hi & Gi). rewrite Hi.
    exact (IH i Gi cr eq_refl Gr).
Qed.
Theorem or_groups_defined m groups gs : mapR (parse_group m) groups = Ok gs -> forallb goodc gs = true ->
  exists c, parse_constraint_groups m groups = Ok c.
Proof.
  intros Hm Hg. unfold parse_constraint_groups. rewrite Hm. cbn [bind].
  destruct gs as [|g [|g' gs']]; [| eauto |]; apply (vunion_of_total (pred OF_FUEL)); exact Hg.
Qed.
