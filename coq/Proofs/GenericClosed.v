(* C16 plumbing: a class of simple constraints closed under the member-level meet (and containing the single clauses the
   member-level join returns) is closed under the union-level operations. *)
From Coq Require Import List Bool String Arith Lia.
From PC Require Import Base.Result Model.Generic Proofs.GenericProofs Proofs.GenericUnion Proofs.GenericAtoms.
Import ListNotations.
Open Scope list_scope.

Section Closed.
  Variable P : gs -> Prop.
  Hypothesis PE : P SEmpty.
  Hypothesis PA : P SAny.
  Hypothesis Pmeet : forall a b r, P a -> P b -> gs_intersect a b = Ok r -> P r.
  Hypothesis Patom : forall mx l a, P (SMulti mx l) -> In a l -> P (SAtom a).
  Hypothesis Pjoin : forall a b u, P a -> P b -> gs_union a b = Ok u -> match u with GS s => P s | GU l => Forall P l end.
  Definition Pc (c : gc) : Prop := match c with GS s => P s | GU l => Forall P l end.

  Lemma add_unseen_closed new seen s : Forall P new -> P s -> Forall P (fst (add_unseen (new, seen) s)).
  Proof.
    intros Pn Ps. unfold add_unseen. destruct (gs_is_empty s || gs_in s new || seen_multi s seen); cbn [fst]; [exact Pn|].
    apply Forall_app. split; [exact Pn|constructor; [exact Ps|constructor]].
  Qed.
  Lemma fold_add_unseen_closed items : forall new seen, Forall P new -> Forall P items -> Forall P (fst (fold_left add_unseen items (new, seen))).
  Proof.
    induction items as [|s items IH]; intros new seen Pn Pi; cbn [fold_left]; [exact Pn|]. inversion Pi as [|? ? Ps Pi']; subst.
    destruct (add_unseen (new, seen) s) as [new' seen'] eqn:A. apply IH; [|exact Pi'].
    pose proof (add_unseen_closed new seen s Pn Ps) as Q. rewrite A in Q. exact Q.
  Qed.
  Lemma finish_union_closed new : Forall P new -> Pc (finish_union new).
  Proof. intros H. destruct new as [|s [|t r]]; cbn; [exact PE|inversion H; assumption|exact H]. Qed.
  Lemma row_closed ours l' row : P ours -> Forall P l' -> mapR (fun theirs => gs_intersect ours theirs) l' = Ok row -> Forall P row.
  Proof.
    intros Po. revert row. induction l' as [|t l' IH]; intros row Pl H; cbn [mapR] in H; [injection H as <-; constructor|].
    inversion Pl as [|? ? Pt Pl0]; subst. destruct (gs_intersect ours t) as [r|] eqn:Hr; [|discriminate]. cbn [bind] in H. destruct (mapR _ l') as [rs|] eqn:Hrs; [|discriminate].
    cbn [bind] in H. injection H as <-. constructor; [exact (Pmeet _ _ _ Po Pt Hr)|exact (IH rs Pl0 eq_refl)].
  Qed.
  Lemma rows_closed l l' pieces : Forall P l -> Forall P l' ->
    mapR (fun ours => mapR (fun theirs => gs_intersect ours theirs) l') l = Ok pieces -> Forall P (List.concat pieces).
  Proof.
    revert pieces. induction l as [|o l IH]; intros pieces Pl Pl' H; cbn [mapR] in H; [injection H as <-; constructor|].
    inversion Pl as [|? ? Po Pl0]; subst. destruct (mapR (fun theirs => gs_intersect o theirs) l') as [row|] eqn:Hrow; [|discriminate]. cbn [bind] in H.
    destruct (mapR _ l) as [rest|] eqn:Hrest; [|discriminate]. cbn [bind] in H. injection H as <-. cbn [List.concat].
    apply Forall_app. split; [exact (row_closed o l' row Po Pl' Hrow)|exact (IH rest Pl0 Pl' eq_refl)].
  Qed.
  Lemma chain_closed l' : forall ours r, P ours -> (forall a, In a l' -> P (SAtom a)) ->
    fold_left (fun acc their => do i <- acc; gs_intersect i (SAtom their)) l' (Ok ours) = Ok r -> P r.
  Proof.
    induction l' as [|a l' IH]; intros ours r Po Pa H; cbn [fold_left] in H; [injection H as <-; exact Po|].
    cbn [bind] in H. destruct (gs_intersect ours (SAtom a)) as [i|e] eqn:Hi.
    - apply (IH i r); [exact (Pmeet _ _ _ Po (Pa a (or_introl eq_refl)) Hi)|intros b Hb; apply Pa; right; exact Hb|exact H].
    - exfalso. clear - H. induction l' as [|b l' IHl]; cbn [fold_left bind] in H; [discriminate|auto].
  Qed.
  Lemma chains_closed mx l' l pieces : Forall P l -> P (SMulti mx l') ->
    mapR (fun ours => fold_left (fun acc their => do i <- acc; gs_intersect i (SAtom their)) l' (Ok ours)) l = Ok pieces -> Forall P pieces.
  Proof.
    intros Pl Pm. revert pieces. induction Pl as [|o l Po Pl IH]; intros pieces H; cbn [mapR] in H; [injection H as <-; constructor|].
    destruct (fold_left _ l' (Ok o)) as [r|] eqn:Hr; [|discriminate]. cbn [bind] in H. destruct (mapR _ l) as [rest|] eqn:Hrest; [|discriminate].
    cbn [bind] in H. injection H as <-. constructor; [exact (chain_closed l' o r Po (fun a Ha => Patom mx l' a Pm Ha) Hr)|exact (IH rest eq_refl)].
  Qed.

  Theorem union_intersect_closed l other r : Forall P l -> Pc other -> union_intersect l other = Ok r -> Pc r.
  Proof.
    intros Pl Po H. unfold union_intersect in H. destruct other as [s|l'].
    - destruct s as [| |b|mx lb]; try (injection H as <-; assumption).
      + cbn [andb] in H. destruct (ax b && gs_in (SAtom b) l); [injection H as <-; exact Po|].
        destruct (subset_gs l [SAtom b]); [injection H as <-; exact Pl|]. destruct (subset_gs [SAtom b] l); [injection H as <-; exact Po|].
        destruct (mapR _ l) as [pieces|] eqn:Hp; [|discriminate]. cbn [bind] in H. injection H as <-. apply finish_union_closed.
        apply fold_add_unseen_closed; [constructor|]. assert (Pb : Forall P [SAtom b]) by (constructor; [exact Po|constructor]). exact (rows_closed l [SAtom b] pieces Pl Pb Hp).
      + cbn [andb] in H. destruct (mapR _ l) as [pieces|] eqn:Hp; [|discriminate]. cbn [bind] in H. injection H as <-. apply finish_union_closed.
        apply fold_add_unseen_closed; [constructor|]. exact (chains_closed mx lb l pieces Pl Po Hp).
    - cbn [Pc] in Po. destruct (subset_gs l l' && subset_gs l' l); [injection H as <-; exact Pl|]. cbn [andb] in H.
      destruct (subset_gs l l'); [injection H as <-; exact Pl|]. destruct (subset_gs l' l).
      { injection H as <-. destruct l' as [|s [|t r']]; cbn; [exact Po|inversion Po; assumption|exact Po]. }
      destruct (mapR _ l) as [pieces|] eqn:Hp; [|discriminate]. cbn [bind] in H. injection H as <-. apply finish_union_closed.
      apply fold_add_unseen_closed; [constructor|]. exact (rows_closed l l' pieces Pl Po Hp).
  Qed.

  Definition st_closed (st : option (list gs * list gs * list gs)) : Prop :=
    match st with None => True | Some (on, tn, mn) => Forall P on /\ Forall P tn /\ Forall P mn end.
  Lemma add_new_closed l s : Forall P l -> P s -> Forall P (add_new l s).
  Proof. intros Pl Ps. unfold add_new. destruct (gs_in s l); [exact Pl|]. apply Forall_app. split; [exact Pl|constructor; [exact Ps|constructor]]. Qed.
  Lemma step_closed their our st st' : P our -> P their -> st_closed st -> step their (Ok st) our = Ok st' -> st_closed st'.
  Proof.
    intros Po Pt Cs. unfold step. cbn [bind]. destruct st as [[[on tn] mn]|]; [|intros [= <-]; exact I]. destruct Cs as (C1 & C2 & C3).
    destruct (gs_union our their) as [u|] eqn:Hu; [|discriminate]. cbn [bind]. pose proof (Pjoin _ _ _ Po Pt Hu) as Pu.
    destruct (g_is_any u); [intros [= <-]; exact I|].
    destruct u as [[| |ua|mx lu]|lu]; try (intros [= <-]; cbn; repeat split; auto using add_new_closed).
    destruct (gs_eqb (SAtom ua) our); [intros [= <-]; cbn; repeat split; auto using add_new_closed|].
    destruct (gs_eqb (SAtom ua) their); intros [= <-]; cbn; repeat split; auto using add_new_closed.
  Qed.
  Lemma inner_closed their : P their -> forall ours st st', Forall P ours -> st_closed st -> fold_left (step their) ours (Ok st) = Ok st' -> st_closed st'.
  Proof.
    intros Pt. induction ours as [|o ours IH]; intros st st' Po Cs H; cbn [fold_left] in H; [injection H as <-; exact Cs|].
    inversion Po as [|? ? Po1 Po2]; subst. destruct (step their (Ok st) o) as [st1|e] eqn:Hs; [|rewrite step_err in H; discriminate].
    exact (IH st1 st' Po2 (step_closed their o st st1 Po1 Pt Cs Hs) H).
  Qed.
  Lemma outer_closed ours : Forall P ours -> forall theirs st st', Forall P theirs -> st_closed st ->
    fold_left (fun acc their => fold_left (step their) ours acc) theirs (Ok st) = Ok st' -> st_closed st'.
  Proof.
    intros Po. induction theirs as [|t theirs IH]; intros st st' Pt Cs H; cbn [fold_left] in H; [injection H as <-; exact Cs|].
    inversion Pt as [|? ? Pt1 Pt2]; subst. destruct (fold_left (step t) ours (Ok st)) as [st1|e] eqn:Hi; [|rewrite outer_err in H; discriminate].
    exact (IH st1 st' Pt2 (inner_closed t Pt1 ours st st1 Po Cs Hi) H).
  Qed.
  Lemma fold_add_new_closed items : forall l, Forall P l -> Forall P items -> Forall P (fold_left add_new items l).
  Proof.
    induction items as [|s items IH]; intros l Pl Pi; cbn [fold_left]; [exact Pl|]. inversion Pi as [|? ? Ps Pi']; subst.
    apply IH; [apply add_new_closed; assumption|exact Pi'].
  Qed.

  Theorem union_union_closed l other r : Forall P l -> Pc other -> union_union l other = Ok r -> Pc r.
  Proof.
    intros Pl Po H. unfold union_union in H.
    assert (Loop : forall l', Forall P l' ->
              (do st <- union_union_loop l l';
               match st with
               | None => Ok (GS SAny)
               | Some (on, tn, mn) => let new := fold_left add_new (tn ++ mn) on in Ok (match new with [s] => GS s | _ => GU new end)
               end) = Ok r -> Pc r).
    { intros l' Pl' H'. destruct (union_union_loop l l') as [st|] eqn:Hl; [|discriminate]. cbn [bind] in H'.
      rewrite loop_is_fold in Hl.
      assert (C0 : st_closed (Some ([], [], []))) by (cbn; repeat split; constructor).
      pose proof (outer_closed l Pl l' _ _ Pl' C0 Hl) as C.
      destruct st as [[[on tn] mn]|]; cbv zeta in H'; injection H' as <-; [|exact PA]. destruct C as (C1 & C2 & C3).
      assert (Pn : Forall P (fold_left add_new (tn ++ mn) on)) by (apply fold_add_new_closed; [exact C1|apply Forall_app; split; assumption]).
      destruct (fold_left add_new (tn ++ mn) on) as [|s [|t r']]; cbn; [exact Pn|inversion Pn; assumption|exact Pn]. }
    destruct other as [s|l'].
    - destruct s as [| |b|mx lb].
      + injection H as <-. exact PA.
      + injection H as <-. exact Pl.
      + cbn [g_eqb] in H. apply (Loop [SAtom b]); [constructor; [exact Po|constructor]|exact H].
      + cbn [g_eqb] in H. destruct (existsb _ l); injection H as <-; [exact Pl|].
        assert (Pn : Forall P (l ++ [SMulti mx lb])) by (apply Forall_app; split; [exact Pl|constructor; [exact Po|constructor]]).
        destruct (l ++ [SMulti mx lb]) as [|s [|t r']]; cbn; [exact Pn|inversion Pn; assumption|exact Pn].
    - destruct (g_eqb (GU l') (GU l)); [injection H as <-; exact Pl|]. exact (Loop l' Po H).
  Qed.

  Theorem g_intersect_closed a b r : Pc a -> Pc b -> g_intersect a b = Ok r -> Pc r.
  Proof.
    intros Pa_ Pb_ H. destruct a as [sa|la].
    - destruct b as [sb|lb].
      + destruct sa as [| |a|ma la]; cbn [g_intersect] in H; try (injection H as <-; first [exact Pb_ | exact PE]).
        * destruct (gs_intersect (SAtom a) sb) as [r'|] eqn:Hr; [|discriminate]. cbn [bind] in H. injection H as <-. exact (Pmeet _ _ _ Pa_ Pb_ Hr).
        * destruct (gs_intersect (SMulti ma la) sb) as [r'|] eqn:Hr; [|discriminate]. cbn [bind] in H. injection H as <-. exact (Pmeet _ _ _ Pa_ Pb_ Hr).
      + destruct sa as [| |a|ma la]; cbn [g_intersect] in H; try (injection H as <-; first [exact Pb_ | exact PE]).
        * exact (union_intersect_closed lb (GS (SAtom a)) r Pb_ Pa_ H).
        * exact (union_intersect_closed lb (GS (SMulti ma la)) r Pb_ Pa_ H).
    - cbn [g_intersect] in H. exact (union_intersect_closed la b r Pa_ Pb_ H).
  Qed.
  Theorem g_union_closed a b r : Pc a -> Pc b -> g_union a b = Ok r -> Pc r.
  Proof.
    intros Pa_ Pb_ H. destruct a as [sa|la].
    - destruct b as [sb|lb].
      + destruct sa as [| |a|ma la]; cbn [g_union] in H; try (injection H as <-; first [exact Pb_ | exact PA]); exact (Pjoin _ _ _ Pa_ Pb_ H).
      + destruct sa as [| |a|ma la]; cbn [g_union] in H; try (injection H as <-; first [exact Pb_ | exact PA]).
        * apply (union_union_closed [SAtom a] (GU lb) r); [constructor; [exact Pa_|constructor]|exact Pb_|exact H].
        * exact (union_union_closed lb (GS (SMulti ma la)) r Pb_ Pa_ H).
    - cbn [g_union] in H. exact (union_union_closed la b r Pa_ Pb_ H).
  Qed.
End Closed.
