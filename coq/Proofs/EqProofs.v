(* C18: equal values are interchangeable. *)
From Coq Require Import List Bool NArith String Ascii.
From PC Require Import Base.Cmp Base.Result Model.Pep440 Spec.Pep440Spec Proofs.Pep440Order Proofs.VersionFacts
     Model.VConstraint Proofs.RangeSpec Model.Generic Proofs.GenericProofs.
Import ListNotations.

(* equal versions admit the same versions when used as constraints *)
Theorem equal_versions_interchangeable v w x : wf v = true -> wf w = true -> veqb v w = true ->
  r_allows (RV v) x = r_allows (RV w) x.
Proof.
  intros Wv Ww E. cbn [r_allows]. unfold v_allows.
  destruct (veqb_flags v w Wv Ww E) as (_ & _ & _ & Hl). rewrite Hl.
  apply veqb_eq_l. exact E.
Qed.
(* and are admitted by the same range-likes *)
Theorem equal_probes_interchangeable r v w : wf_rng r = true -> wf v = true -> wf w = true ->
  veqb v w = true -> regular_r v r = true -> regular_r w r = true -> r_allows r v = r_allows r w.
Proof.
  intros Wr Wv Ww E Rv Rw. rewrite (allows_regular r v Wr Wv Rv), (allows_regular r w Wr Ww Rw).
  unfold mem, above, below.
  destruct (rmin r) as [m|], (rmax r) as [m'|];
    rewrite ?(veqb_lt_r v w _ E), ?(veqb_lt_l v w _ E), ?(veqb_eq_l v w _ E); reflexivity.
Qed.

(* string-constraint clauses: == is an equivalence on clauses of one class and equal clauses admit the same values *)
Lemma gop_eqb_refl o : gop_eqb o o = true. Proof. destruct o; reflexivity. Qed.
Theorem atom_eq_refl a : atom_eqb a a = true.
Proof. unfold atom_eqb. rewrite String.eqb_refl, gop_eqb_refl. destruct (ax a); reflexivity. Qed.
Theorem atom_eq_sym a b : ax a = ax b -> atom_eqb a b = atom_eqb b a.
Proof.
  intros H. unfold atom_eqb. rewrite H, (String.eqb_sym (av a) (av b)).
  destruct (ax b); cbn; f_equal; destruct (aop a), (aop b); reflexivity.
Qed.
Theorem atom_eq_trans a b c : atom_eqb a b = true -> atom_eqb b c = true -> ax a = ax b -> atom_eqb a c = true.
Proof.
  unfold atom_eqb. intros H1 H2 Hx. rewrite !andb_true_iff in *. destruct H1 as [[X1 V1] O1], H2 as [[X2 V2] O2].
  apply String.eqb_eq in V1, V2. repeat split.
  - rewrite Hx. destruct (ax b); [exact X2|reflexivity].
  - apply String.eqb_eq. congruence.
  - destruct (aop a), (aop b), (aop c); try discriminate; reflexivity.
Qed.
Theorem atom_eq_interchangeable a b x : atom_eqb a b = true -> atom_sat a x = atom_sat b x /\ (av a, aop a) = (av b, aop b).
Proof.
  unfold atom_eqb. intros H. rewrite !andb_true_iff in H. destruct H as [[_ V] O]. apply String.eqb_eq in V.
  assert (Ho : aop a = aop b) by (destruct (aop a), (aop b); try discriminate; reflexivity).
  split; [unfold atom_sat; rewrite V, Ho; reflexivity|congruence].
Qed.
