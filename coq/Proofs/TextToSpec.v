(* C04: from the text of a comma set of comparison clauses to its PEP 440 meaning.  On a candidate that is regular for the literal each
   of the six comparison clauses means what the specifier of Spec/Specifier.v means (local labels and pre/post/dev segments of the
   candidate included); with the clause parser followed through the text (ClauseText.v) and the closure of the algebra (Closure.v)
   this lifts to what _parse_constraint builds from 'op1 V1, op2 V2, ...'. *)
From Coq Require Import List Bool NArith ZArith String Ascii Lia ZifyBool.
From PC Require Import Base.Cmp Base.Result Base.RankEmbed Model.Pep440 Spec.Pep440Spec Spec.Specifier Proofs.Pep440Order
     Proofs.VersionFacts Model.VConstraint Proofs.RangeSpec Proofs.RangeAlg Proofs.RangeOps Proofs.UnionHull Proofs.UnionExact Proofs.Contain Proofs.InterExact Proofs.DiffExact Proofs.SpecifierAgree
     Proofs.DiffUnion Proofs.SortedOrder Proofs.UnionSorted Proofs.Closure Proofs.Pep440RoundTrip Proofs.ClauseText Proofs.ConstraintText Proofs.VersionLeafText Proofs.ParseCompose.
Import ListNotations.
Open Scope list_scope.
Definition spec_of (op : string) (l c : version) : bool :=
  if String.eqb op ">=" then sp_ge l c else if String.eqb op "<=" then sp_le l c else if String.eqb op ">" then sp_gt l c
  else if String.eqb op "<" then sp_lt l c else if String.eqb op "!=" then sp_ne l c else sp_eq l c.

Lemma vltb_public_other c l : same_class c l = false -> vltb (public c) l = vltb c l /\ vltb l (public c) = vltb l c /\ veqb (public c) l = false /\ veqb c l = false.
Proof.
  intros N. assert (N' : same_class (public c) l = false).
  { unfold public. destruct (is_local c); [|exact N]. rewrite <- N. unfold same_class. rewrite (rcmp_congr_l _ c) by reflexivity. reflexivity. }
  assert (Rc : rcmp (public c) l = rcmp c l) by (unfold public; destruct (is_local c); [apply rcmp_congr_l; reflexivity|reflexivity]).
  assert (Rc' : rcmp l (public c) = rcmp l c) by (unfold public; destruct (is_local c); [apply rcmp_congr_r; reflexivity|reflexivity]).
  assert (M : same_class l c = false /\ same_class l (public c) = false).
  { unfold same_class in *. rewrite (ol_antisym rcmp_laws l c), (ol_antisym rcmp_laws l (public c)). destruct (rcmp c l), (rcmp (public c) l); try discriminate; split; reflexivity. }
  destruct M as [M1 M2].
  unfold vltb. rewrite (cross_class _ _ N'), (cross_class _ _ N), (cross_class _ _ M1), (cross_class _ _ M2), Rc, Rc'.
  repeat split; try reflexivity; apply other_class_not_eq; assumption.
Qed.

(* on a candidate that is regular for the literal (equal to it, or of another release) each of the six comparison clauses means what
   PEP 440's specifier means - local labels and pre/post/dev segments of the candidate included *)
Theorem clause_regular_spec op l c : In op [">="; "<="; ">"; "<"; "=="; "!="]%string -> wf l = true -> wf c = true -> is_local l = false ->
  regular1 c l = true -> sem (op_result op l) c = spec_of op l c.
Proof.
  intros Hop Wl Wc Ll R.
  assert (Alw : forall r, wf_rng r = true -> incl (rbounds r) [l] -> r_allows r c = mem r c).
  { intros r Wr I. apply allows_regular; [exact Wr|exact Wc|]. unfold regular_r. rewrite forallb_forall. intros e He. destruct (I e He) as [<-|[]]. exact R. }
  assert (W1 : forall lo hi i j, incl (rbounds (RR lo hi i j)) [l] -> wf_rng (RR lo hi i j) = true).
  { intros lo hi i j I. unfold wf_rng. rewrite forallb_forall. intros e He. destruct (I e He) as [<-|[]]. exact Wl. }
  assert (IL : forall x, In x [l] -> In x [l]) by auto.
  unfold regular1 in R. apply orb_true_iff in R.
  assert (Cases : (veqb c l = true /\ public c = c /\ same_class c l = true) \/ same_class c l = false).
  { destruct R as [E|N]; [left|right; apply negb_true_iff, N]. split; [exact E|]. split; [|apply veqb_same_class, E].
    destruct (veqb_flags c l Wc Wl E) as (_ & _ & _ & Hl). unfold public. rewrite Hl, Ll. reflexivity. }
  cbn [In] in Hop. destruct Hop as [<-|[<-|[<-|[<-|[<-|[<-|[]]]]]]]; unfold op_result, spec_of; cbn [String.eqb Ascii.eqb Bool.eqb];
    unfold sem; cbn [flatten existsb]; rewrite ?orb_false_r.
  - rewrite Alw by (try apply W1; intros x [<-|[]]; left; reflexivity). unfold mem, above, below, sp_ge. cbn [rmin rmax imin imax]. rewrite andb_true_r.
    destruct Cases as [(E & P & _)|N]; [rewrite P; clear - E; ol [c; l]|destruct (vltb_public_other c l N) as (A & _ & _ & Bq); rewrite A; clear - Bq; ol [c; l]].
  - rewrite Alw by (try apply W1; intros x [<-|[]]; left; reflexivity). unfold mem, above, below, sp_le. cbn [rmin rmax imin imax]. cbn [andb].
    destruct Cases as [(E & P & _)|N]; [rewrite P; clear - E; ol [c; l]|destruct (vltb_public_other c l N) as (_ & A & _ & Bq); rewrite A; clear - Bq; ol [c; l]].
  - rewrite Alw by (try apply W1; intros x [<-|[]]; left; reflexivity). unfold mem, above, below, sp_gt, same_base. cbn [rmin rmax imin imax]. rewrite andb_true_r, andb_false_r, orb_false_r, same_release_same_class.
    destruct Cases as [(E & _ & S)|N]; [rewrite S|rewrite N, !andb_false_r; cbn [negb]; rewrite !andb_true_r; reflexivity].
    clear - E. replace (vltb l c) with false; [reflexivity|]. symmetry. ol [c; l].
  - rewrite Alw by (try apply W1; intros x [<-|[]]; left; reflexivity). unfold mem, above, below, sp_lt, same_base. cbn [rmin rmax imin imax]. cbn [andb]. rewrite andb_false_r, orb_false_r, same_release_same_class.
    destruct Cases as [(E & _ & S)|N]; [rewrite S|rewrite N, !andb_false_r; cbn [negb]; rewrite !andb_true_r; reflexivity].
    clear - E. replace (vltb c l) with false; [reflexivity|]. symmetry. ol [c; l].
  - cbn [r_allows]. unfold v_allows, sp_eq. rewrite Ll. cbn [negb andb]. unfold public.
    destruct (is_local c); [|apply veqb_sym]. rewrite veqb_sym. reflexivity.
  - rewrite !Alw by (try apply W1; intros x [<-|[]]; left; reflexivity). unfold mem, above, below, sp_ne, sp_eq. cbn [rmin rmax imin imax]. rewrite Ll.
    rewrite !andb_true_r, !andb_false_r, !orb_false_r. cbn [andb].
    destruct Cases as [(E & P & _)|N]; [rewrite P; clear - E; ol [c; l]|destruct (vltb_public_other c l N) as (_ & _ & A & Bq); rewrite A; clear - Bq; ol [c; l]].
Qed.

Definition ops6 : list string := [">="; "<="; ">"; "<"; "=="; "!="]%string.
Definition clause_text (oc : string * version) : string := (fst oc ++ to_string (snd oc))%string.
Definition clause_ok (B : list version) (oc : string * version) : Prop :=
  In (fst oc) ops6 /\ printable (snd oc) = true /\ is_local (snd oc) = false /\ In (reparsed (snd oc)) B.

Lemma opres_inK B op l : In op ops6 -> wf l = true -> is_local l = false -> In l B -> inK B (op_result op l).
Proof.
  intros Hop W L Hl.
  assert (One : forall r, good r = true -> incl (rbounds r) B -> inK B (VOne r)).
  { intros r G I. unfold inK, goodc, sorted_c, cbounds. cbn [flatten forallb sepb flat_map]. rewrite G, app_nil_r. auto. }
  assert (Hg : forall (lo i : bool), good (if lo then RR (Some l) None i false else RR None (Some l) false i) = true).
  { intros lo i. destruct lo; unfold good, wf_rng, proper, nolocal_r, flags_ok, rbounds; cbn; rewrite W, L; destruct i; reflexivity. }
  assert (IB : forall x, In x [l] -> In x B) by (intros x [<-|[]]; exact Hl).
  cbn [ops6 In] in Hop. destruct Hop as [<-|[<-|[<-|[<-|[<-|[<-|[]]]]]]]; unfold op_result; cbn [String.eqb Ascii.eqb Bool.eqb].
  - apply One; [exact (Hg true true)|exact IB].
  - apply One; [exact (Hg false true)|exact IB].
  - apply One; [exact (Hg true false)|exact IB].
  - apply One; [exact (Hg false false)|exact IB].
  - apply One; [apply good_rv_of; assumption|]. intros x Hx. cbn in Hx. destruct Hx as [<-|[<-|[]]]; exact Hl.
  - apply ne_in_K; assumption.
Qed.

Lemma parse_single_pep_op m op v : printable v = true -> In op ops6 ->
  parse_single_pep m (op ++ to_string v) = Ok (op_result op (reparsed v)).
Proof. intros P Hop. unfold parse_single_pep. rewrite (clause_of_op m op v P Hop). reflexivity. Qed.

(* from the TEXT of a comma set of comparison clauses to its PEP 440 meaning: what _parse_constraint builds from 'op1 V1, op2 V2, ...'
   admits a candidate exactly when every specifier 'op_i V_i' of PEP 440 does - for literals in normal form that are mutually
   regular and every well-formed candidate regular for them (local labels, pre/post/dev segments of the candidate included) *)
Theorem comma_text_spec B (MU : mutual B) m (cl : list (string * version)) g :
  Forall (clause_ok B) cl -> parse_group m (map clause_text cl) = Ok g ->
  forall c, wf c = true -> regB B c = true -> sem g c = forallb (fun oc => spec_of (fst oc) (reparsed (snd oc)) c) cl.
Proof.
  intros Hcl H c Wc Rc.
  destruct (parse_group_general B MU m (map clause_text cl) g H) as (cs & Hcs & Hk).
  assert (Ecs : cs = map (fun oc => op_result (fst oc) (reparsed (snd oc))) cl).
  { clear - Hcl Hcs. revert cs Hcs. induction cl as [|[op v] cl IH]; intros cs Hcs; [cbn in Hcs |- *; congruence|]. cbn [map] in *. cbn [mapR] in Hcs.
    inversion Hcl as [|? ? (Hop & P & _ & _) Hcl']; subst. cbn [fst snd] in *.
    change (clause_text (op, v)) with (op ++ to_string v)%string in Hcs. rewrite (parse_single_pep_op m op v P Hop) in Hcs. cbn [bind] in Hcs.
    destruct (mapR (parse_single_pep m) (map clause_text cl)) as [cs'|] eqn:E; cbn [bind] in Hcs; [|discriminate].
    injection Hcs as <-. rewrite (IH Hcl' cs' eq_refl). reflexivity. }
  subst cs.
  assert (K : Forall (inK B) (map (fun oc => op_result (fst oc) (reparsed (snd oc))) cl)).
  { clear - Hcl. induction Hcl as [|[op v] cl (Hop & P & L & I) _ IH]; cbn [map]; constructor; [|exact IH]. cbn [fst snd] in *.
    apply opres_inK; [exact Hop| |exact L|exact I]. unfold printable in P. apply andb_true_iff in P as [W _]. exact W. }
  destruct (Hk K) as [_ M]. rewrite (M c Wc Rc). clear M Hk K H Hcs.
  induction Hcl as [|[op v] cl (Hop & P & L & I) _ IH]; [reflexivity|]. cbn [map forallb fst snd] in *. rewrite IH. f_equal.
  apply clause_regular_spec; [exact Hop| |exact Wc|exact L|].
  - unfold printable in P. apply andb_true_iff in P as [W _]. exact W.
  - unfold regB in Rc. rewrite forallb_forall in Rc. exact (Rc _ I).
Qed.

(* not vacuous *)
Open Scope string_scope.
Definition ex_v (s : string) : version := match parse s with Some v => v | None => mkV 0 [] None None None None "" end.
Definition ex_cl : list (string * version) := [(">=", ex_v "1.0"); ("!=", ex_v "1.5"); ("<", ex_v "2.0")].
Definition ex_clB : list version := map (fun oc => reparsed (snd oc)) ex_cl.
Example text_to_specifiers_example :
  mutual ex_clB /\ Forall (clause_ok ex_clB) ex_cl /\
  match parse_group false (map clause_text ex_cl) with Ok g => vc_str g | Err e => Err e end = Ok ">=1.0,<1.5 || >1.5,<2.0".
Proof.
  split; [refine (mutual_of_bool ex_clB _); vm_compute; reflexivity|]. split; [|vm_compute; reflexivity].
  assert (K : forall op s, In (op, ex_v s) ex_cl -> In op ops6 -> printable (ex_v s) = true -> is_local (ex_v s) = false -> clause_ok ex_clB (op, ex_v s)).
  { intros op s Hin Hop P L. unfold clause_ok. cbn [fst snd]. split; [exact Hop|]. split; [exact P|]. split; [exact L|].
    unfold ex_clB. apply in_map_iff. exists (op, ex_v s). split; [reflexivity|exact Hin]. }
  change (Forall (clause_ok ex_clB) [(">=", ex_v "1.0"); ("!=", ex_v "1.5"); ("<", ex_v "2.0")]). constructor; [|constructor; [|constructor; [|constructor]]]; apply K; try (vm_compute; reflexivity); unfold ex_cl, ops6; cbn [In]; tauto.
Qed.
