(* C15: the exclusion !=V is printed as "!=V" (VersionUnion.excludes_single_version finds V by two differences) and that text parses back to the same union. *)
From Coq Require Import List Bool Arith NArith String Ascii Lia.
From PC Require Import Base.Cmp Base.Result Model.Pep440 Spec.Pep440Spec Proofs.Pep440Order Proofs.Pep440Parse Model.VConstraint
     Proofs.VersionFacts Proofs.RangeSpec Proofs.Pep440RoundTrip Proofs.ClauseText Proofs.AnyIff Proofs.ConstraintText.
Import ListNotations.
Open Scope string_scope.

Definition excl (v : version) : vc := VUnion [RR None (Some v) false false; RR (Some v) None false false].

Lemma vgtb_irrefl v : vgtb v v = false. Proof. rewrite vgtb_ltb. apply vlt_irrefl. Qed.

(* VersionUnion.excludes_single_version of '<V || >V' finds V: the complement is computed by two differences *)
Lemma excluded_of_excl v : excluded_single_version [RR None (Some v) false false; RR (Some v) None false false] = Ok (Some v).
Proof.
  unfold excluded_single_version, inverted, rng_minus_union.
  assert (AM : exists m, allowed_max (RR None (Some v) false false) = Some m).
  { unfold allowed_max. cbn [rmax imax rmin imin orb oveq andb]. destruct (is_unstable v); eexists; reflexivity. }
  destruct AM as [m AM].
  assert (S1 : rr_minus_union ANY [] [RR None (Some v) false false; RR (Some v) None false false] = Ok [RV v]).
  { cbn [rr_minus_union]. unfold is_strictly_higher.
    assert (L1 : is_strictly_lower (RR None (Some v) false false) ANY = false) by (unfold is_strictly_lower; rewrite AM; reflexivity).
    assert (L2 : is_strictly_lower ANY (RR None (Some v) false false) = false) by reflexivity.
    rewrite L1, L2.
    assert (D1 : r_difference ANY (RR None (Some v) false false) = Ok (VOne (RR (Some v) None true false))).
    { unfold ANY. cbn [r_difference r_allows_any]. fold ANY. unfold is_strictly_higher. rewrite L1, L2. cbn [orb negb].
      assert (AL : allows_lower ANY (RR None (Some v) false false) = false) by reflexivity.
      assert (AH : allows_higher ANY (RR None (Some v) false false) = true) by (unfold allows_higher; rewrite AM; reflexivity).
      rewrite AL, AH. reflexivity. }
    rewrite D1. cbn [bind rr_minus_union].
    assert (L3 : is_strictly_lower (RR (Some v) None false false) (RR (Some v) None true false) = false) by reflexivity.
    assert (L4 : is_strictly_lower (RR (Some v) None true false) (RR (Some v) None false false) = false) by reflexivity.
    rewrite L3, L4.
    assert (D2 : r_difference (RR (Some v) None true false) (RR (Some v) None false false) = Ok (VOne (RV v))).
    { cbn [r_difference r_allows_any]. unfold is_strictly_higher. rewrite L3, L4. cbn [orb negb].
      assert (AL : allows_lower (RR (Some v) None true false) (RR (Some v) None false false) = true).
      { unfold allows_lower. cbn [rmin imin]. rewrite vlt_irrefl, vgtb_irrefl. reflexivity. }
      assert (AH : allows_higher (RR (Some v) None true false) (RR (Some v) None false false) = false) by reflexivity.
      rewrite AL, AH. cbn [negb rmin rmax oveq]. rewrite veqb_refl. reflexivity. }
    rewrite D2. cbn [bind rr_minus_union rev app]. reflexivity. }
  rewrite S1. cbn [bind map]. unfold union_of, OF_FUEL. cbn [vunion_of flat_map flatten app existsb r_is_any orb].
  unfold sort_ranges. cbn [fold_left insert_sorted merge_all merge_back bind rev app]. reflexivity.
Qed.

(* C15: the text of an exclusion '!=V' - printed, then parsed back to the very same union *)
Theorem exclusion_text_roundtrip m v : normal v = true ->
  vc_str (excl v) = Ok ("!=" ++ text v) /\ parse_constraint_text m true ("!=" ++ text v) = Ok (excl v).
Proof.
  intros H. unfold normal in H. apply andb_true_iff in H as [P E]. apply String.eqb_eq in E.
  split.
  - unfold vc_str, excl. rewrite excluded_of_excl. reflexivity.
  - rewrite E. rewrite <- (reparsed_normal v E) at 2. unfold excl.
    apply (one_clause_text m "!=" v _ P eq_refl). apply clause_ne, P.
Qed.
Print Assumptions exclusion_text_roundtrip.
