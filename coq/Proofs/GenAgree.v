(* The definition regenerated from /repo on every run equals the hand model used by the proofs.
   If the source changes meaning this file stops compiling: a broken proof obligation (C01/C08). *)
From Coq Require Import NArith Bool.
From PC Require Import Model.Wheel Gen.Helpers.
Lemma normalize_file_permissions_agrees :
  forall m, normalize_file_permissions_gen m = normalize_file_permissions m.
Proof. intros m. reflexivity. Qed.
