(* C15: the text of a union, groups joined by " || ": the or-split regex model is followed through the joined text, every group is read back on its own (ConstraintText.v), and VersionUnion.of leaves the members unchanged (UnionOfNormal.v). *)
From Coq Require Import List Bool Arith NArith String Ascii Lia.
From PC Require Import Base.Cmp Base.Result Model.Pep440 Spec.Pep440Spec Proofs.Pep440Order Proofs.Pep440Parse Model.VConstraint
     Proofs.VersionFacts Proofs.Pep440RoundTrip Proofs.ClauseText Proofs.AnyIff Proofs.ConstraintText.
From PC Require Import Proofs.UnionOfNormal.
Import ListNotations.
Open Scope char_scope.
Open Scope N_scope.
Open Scope list_scope.

(* groups joined by ' || ' *)
Definition or_sep : chars := [" "; "|"; "|"; " "].
Fixpoint or_join (gs : list chars) : chars :=
  match gs with [] => [] | [g] => g | g :: r => g ++ or_sep ++ or_join r end.
Definition group_ok (g : chars) : bool := match g with [] => false | _ => forallb semiplain g end.

Lemma split_or_step c r cur (fuel : nat) : semiplain c = true -> split_or (S fuel) cur (c :: r) = split_or fuel (c :: cur) r.
Proof.
  intros H. unfold semiplain in H. apply andb_true_iff in H as [Hs Hb]. apply negb_true_iff in Hs, Hb.
  cbn [split_or span]. rewrite Hs, Hb. reflexivity.
Qed.
Lemma split_or_through g : forall rest cur (fuel : nat), forallb semiplain g = true ->
  split_or (List.length g + fuel) cur (g ++ rest) = split_or fuel (rev g ++ cur) rest.
Proof.
  induction g as [|c g IH]; intros rest cur fuel H; [reflexivity|].
  cbn [forallb] in H. apply andb_true_iff in H as [Hc Hg]. cbn [List.length Nat.add app].
  rewrite (split_or_step c _ cur _ Hc), (IH rest (c :: cur) fuel Hg). cbn [rev]. rewrite <- app_assoc. reflexivity.
Qed.
Lemma split_or_sep cur g2 rest (fuel : nat) : group_ok g2 = true ->
  split_or (S fuel) cur (or_sep ++ g2 ++ rest) = rev cur :: split_or fuel [] (g2 ++ rest).
Proof.
  intros H. unfold or_sep. cbn [app split_or span].
  replace (is_space " ") with true by reflexivity. replace (is_space "|") with false by reflexivity. cbn [span].
  replace (code "|" =? 124) with true by reflexivity.
  destruct g2 as [|c g2']; [discriminate|]. cbn [group_ok forallb] in H. apply andb_true_iff in H as [Hc _].
  unfold semiplain in Hc. apply andb_true_iff in Hc as [Hs _]. apply negb_true_iff in Hs.
  unfold drop_spaces. cbn [app span]. replace (is_space " ") with true by reflexivity. cbn [span]. rewrite Hs. reflexivity.
Qed.
Lemma split_or_groups : forall gs cur0 (fuel : nat), gs <> [] -> forallb group_ok gs = true ->
  (List.length (or_join gs) < fuel)%nat ->
  split_or fuel cur0 (or_join gs) = match gs with g :: r => (rev cur0 ++ g) :: r | [] => [] end.
Proof.
  induction gs as [|g gs IH]; intros cur0 fuel Hne Hok Hf; [congruence|].
  cbn [forallb] in Hok. apply andb_true_iff in Hok as [Hg Hgs].
  assert (Sg : forallb semiplain g = true) by (destruct g; [discriminate|exact Hg]).
  destruct gs as [|g2 gs'].
  - cbn [or_join]. rewrite (split_or_plain g fuel cur0 Sg Hf). reflexivity.
  - change (or_join (g :: g2 :: gs')) with (g ++ or_sep ++ or_join (g2 :: gs')) in *.
    rewrite !app_length in Hf. 
    replace fuel with (List.length g + (fuel - List.length g))%nat by lia.
    rewrite (split_or_through g _ cur0 _ Sg).
    destruct (fuel - List.length g)%nat as [|f'] eqn:Ef; [cbn [List.length or_sep] in Hf; lia|].
    cbn [forallb] in Hgs. pose proof Hgs as Hgs'. apply andb_true_iff in Hgs' as [Hg2 _].
    assert (OJ : or_join (g2 :: gs') = g2 ++ match gs' with [] => [] | _ => or_sep ++ or_join gs' end).
    { destruct gs'; [rewrite app_nil_r; reflexivity|reflexivity]. }
    rewrite OJ, (split_or_sep (rev g ++ cur0) g2 _ f' Hg2), <- OJ.
    assert (N2 : g2 :: gs' <> []) by discriminate. rewrite (IH [] f' N2 Hgs); [|cbn [List.length or_sep] in Hf; lia].
    rewrite rev_app_distr, rev_involutive. reflexivity.
Qed.

Lemma split_or_groups0 gs (fuel : nat) : gs <> [] -> forallb group_ok gs = true -> (List.length (or_join gs) < fuel)%nat ->
  split_or fuel [] (or_join gs) = gs.
Proof. intros H1 H2 H3. rewrite (split_or_groups gs [] fuel H1 H2 H3). destruct gs; reflexivity. Qed.

(* the clauses of one '||' group *)
Definition GC (g : chars) : list string :=
  let g' := rstrip_ws (rstrip_commas g) in map string_of_list_ascii (split_and (S (List.length g')) None [] g').
Lemma clause_groups_unfold s : clause_groups s =
  let l := rstrip_ws (drop_spaces (lchars s)) in map GC (split_or (S (List.length l)) [] l).
Proof. reflexivity. Qed.

(* a constraint text that is one group: what the whole parser returns is what the group parser returns for its clauses *)
Lemma group_of_roundtrip m (t : string) c : group_ok (lchars t) = true -> String.eqb t "*" = false ->
  parse_constraint_text m true t = Ok c -> parse_group_ex m true (GC (lchars t)) = Ok c.
Proof.
  intros Hg Hs H. unfold parse_constraint_text in H. rewrite Hs in H.
  assert (SP : forallb semiplain (lchars t) = true) by (unfold group_ok in Hg; destruct (lchars t); [discriminate|exact Hg]).
  rewrite clause_groups_unfold in H. cbv zeta in H.
  rewrite (drop_spaces_semi _ SP), (rstrip_ws_semi _ SP), (split_or_plain _ _ [] SP) in H by lia.
  cbn [rev app map mapR] in H.
  destruct (parse_group_ex m true (GC (lchars t))) as [g|e]; cbn [bind] in H; [|discriminate].
  injection H as <-. reflexivity.
Qed.

Lemma mapR_map_ok {A B} (f : A -> res B) (xs : list A) (ys : list B) :
  Forall2 (fun x y => f x = Ok y) xs ys -> mapR f xs = Ok ys.
Proof. induction 1 as [|x y xs ys H _ IH]; [reflexivity|]. cbn [mapR]. rewrite H, IH. reflexivity. Qed.

(* C15: a union printed as groups joined by ' || ' parses back to the very same union, when every member does on its own and the
   members are in order and pairwise apart (what VersionUnion.of leaves unchanged) *)
Theorem union_text_roundtrip m (l : list rng) :
  (2 <= List.length l)%nat -> apart_all l = true -> existsb r_is_any l = false ->
  Forall (fun r => group_ok (lchars (r_str r)) = true /\ String.eqb (r_str r) "*"%string = false /\
                   parse_constraint_text m true (r_str r) = Ok (VOne r)) l ->
  parse_constraint_text m true (string_of_list_ascii (or_join (map (fun r => lchars (r_str r)) l))) = Ok (VUnion l).
Proof.
  intros Hn Ha Hany HF.
  remember (map (fun r => lchars (r_str r)) l) as gs eqn:Egs.
  assert (Gok : forallb group_ok gs = true).
  { rewrite Egs, forallb_forall. intros g Hg. apply in_map_iff in Hg as (r & <- & Hr). rewrite Forall_forall in HF. apply (HF r Hr). }
  assert (Gne : gs <> []) by (rewrite Egs; destruct l; [cbn in Hn; lia|discriminate]).
  assert (SPJ : forall xs, forallb group_ok xs = true -> forallb (fun c => negb (code c =? 10)) (or_join xs) = true -> True) by auto.
  unfold parse_constraint_text.
  assert (NS : String.eqb (string_of_list_ascii (or_join gs)) "*" = false).
  { apply String.eqb_neq. intros E. apply (f_equal lchars) in E. unfold lchars in E. rewrite list_ascii_of_string_of_list_ascii in E.
    destruct l as [|r1 [|r2 l']]; cbn [List.length] in Hn; try lia. rewrite Egs in E. cbn [map or_join] in E.
    apply (f_equal (@List.length ascii)) in E. rewrite !app_length in E. cbn [List.length or_sep list_ascii_of_string] in E. lia. }
  rewrite NS, clause_groups_unfold. cbv zeta. unfold lchars at 1 2. rewrite list_ascii_of_string_of_list_ascii.
  (* the joined text begins and ends with a non-blank character *)
  assert (DS : drop_spaces (or_join gs) = or_join gs).
  { destruct gs as [|g gs']; [congruence|]. cbn [forallb] in Gok. apply andb_true_iff in Gok as [Hg _].
    destruct g as [|c g']; [discriminate|]. cbn [group_ok forallb] in Hg. apply andb_true_iff in Hg as [Hc _].
    unfold semiplain in Hc. apply andb_true_iff in Hc as [Hs _]. apply negb_true_iff in Hs.
    destruct gs'; cbn [or_join app]; unfold drop_spaces; cbn [span]; rewrite Hs; reflexivity. }
  assert (RS : rstrip_ws (or_join gs) = or_join gs).
  { unfold rstrip_ws.
    assert (L : exists hd c, or_join gs = hd ++ [c] /\ is_space c = false).
    { clear - Gok Gne. induction gs as [|g gs IH]; [congruence|]. cbn [forallb] in Gok. apply andb_true_iff in Gok as [Hg Hgs].
      destruct gs as [|g2 gs'].
      - cbn [or_join]. destruct g as [|c0 g0]; [discriminate|]. assert (N0 : c0 :: g0 <> []) by discriminate. destruct (exists_last N0) as (h & c & E).
        exists h, c. split; [exact E|]. cbn [group_ok] in Hg. rewrite E, forallb_app in Hg. apply andb_true_iff in Hg as [_ Hc]. cbn in Hc. rewrite andb_true_r in Hc.
        unfold semiplain in Hc. apply andb_true_iff in Hc as [Hs _]. apply negb_true_iff in Hs. exact Hs.
      - assert (N2 : g2 :: gs' <> []) by discriminate. destruct (IH Hgs N2) as (h & c & E & Hc). exists (g ++ or_sep ++ h), c. split; [|exact Hc].
        change (or_join (g :: g2 :: gs')) with (g ++ or_sep ++ or_join (g2 :: gs')). rewrite E, <- !app_assoc. reflexivity. }
    destruct L as (h & c & E & Hc). rewrite E, rev_app_distr. cbn [rev app]. unfold drop_spaces. cbn [span]. rewrite Hc. cbn [snd rev].
    rewrite rev_involutive. reflexivity. }
  rewrite DS, RS, (split_or_groups0 gs _ Gne Gok) by lia.
  rewrite Egs, map_map.
  rewrite (mapR_map_ok (parse_group_ex m true) _ (map VOne l)).
  - cbn [bind]. destruct l as [|r1 [|r2 l']]; cbn [List.length] in Hn; try lia. cbn [map].
    change (VOne r1 :: VOne r2 :: map VOne l') with (map VOne (r1 :: r2 :: l')). apply union_of_normal; assumption.
  - clear - HF. induction HF as [|r l (G & S & P) _ IH]; [constructor|]. cbn [map]. constructor; [|exact IH].
    apply (group_of_roundtrip m (r_str r) (VOne r) G S P).
Qed.
Print Assumptions union_text_roundtrip.

Lemma soa_or_join (ss : list string) : ss <> [] -> string_of_list_ascii (or_join (map lchars ss)) = sjoin " || "%string ss.
Proof.
  unfold sjoin. induction ss as [|s ss IH]; [congruence|]. intros _. destruct ss as [|s2 ss2]; [cbn; apply soa_lchars|].
  change (map lchars (s :: s2 :: ss2)) with (lchars s :: map lchars (s2 :: ss2)).
  change (or_join (lchars s :: map lchars (s2 :: ss2))) with (lchars s ++ or_sep ++ or_join (map lchars (s2 :: ss2))).
  rewrite !soa_app, soa_lchars, IH by discriminate. reflexivity.
Qed.
Definition range_shape (r : rng) : Prop :=
  match r with
  | RV v => normal v = true
  | RR (Some a) None _ false => normal a = true
  | RR None (Some b) false _ => normal b = true
  | RR (Some a) (Some b) _ _ => normal a = true /\ normal b = true /\ vltb a b = true /\ nondeg r = true /\ is_single_wildcard_range r = false
  | _ => False
  end.
Lemma member_ok m r : range_shape r ->
  group_ok (lchars (r_str r)) = true /\ String.eqb (r_str r) "*"%string = false /\ parse_constraint_text m true (r_str r) = Ok (VOne r).
Proof.
  intros H. split; [|split; [|exact (printed_range_roundtrip m r H)]].
  - assert (N : forall v, normal v = true -> printable v = true /\ text v = to_string v).
    { intros v Hv. unfold normal in Hv. apply andb_true_iff in Hv as [P E]. apply String.eqb_eq in E. auto. }
    assert (G : forall (op : string) v, printable v = true -> forallb semiplain (lchars op) = true -> group_ok (lchars (op ++ to_string v)) = true).
    { intros op v P Hop. rewrite (lchars_clause op v P). destruct (printed_starts_digit v P) as (d & r0 & E & _).
      unfold group_ok. destruct (lchars op ++ printed v) eqn:E0; [rewrite E in E0; destruct (lchars op); discriminate|]. rewrite <- E0.
      rewrite forallb_app, Hop, (plain_semi_all _ (plain_printed v P)). reflexivity. }
    destruct r as [v|[a|] [b|] i j]; cbn [range_shape] in H.
    + destruct (N v H) as (P & E). cbn [r_str]. rewrite E. apply (G ""%string v P eq_refl).
    + destruct H as (Ha & Hb & _ & _ & W). destruct (N a Ha) as (Pa & Ea). destruct (N b Hb) as (Pb & Eb).
      unfold r_str. rewrite W, Ea, Eb.
      assert (X : lchars ((if i then ">=" else ">") ++ to_string a ++ "," ++ (if j then "<=" else "<") ++ to_string b)%string =
                  (lchars (lo_op i) ++ printed a) ++ "," :: lchars (hi_op j) ++ printed b).
      { pose proof (lchars_s a b i j Pa Pb) as L. unfold lo_op, hi_op in *. destruct i, j; exact L. }
      rewrite X. unfold group_ok. destruct ((lchars (lo_op i) ++ printed a) ++ "," :: lchars (hi_op j) ++ printed b) eqn:E0.
      { destruct i; discriminate E0. }
      rewrite <- E0, !forallb_app. cbn [forallb]. rewrite forallb_app, (plain_semi_all _ (plain_printed a Pa)), (plain_semi_all _ (plain_printed b Pb)).
      destruct i, j; reflexivity.
    + destruct j; [contradiction|]. destruct (N a H) as (P & E). unfold r_str. cbn [is_single_wildcard_range]. rewrite E. destruct i; [apply (G ">="%string a P eq_refl)|apply (G ">"%string a P eq_refl)].
    + destruct i; [contradiction|]. destruct (N b H) as (P & E). unfold r_str. cbn [is_single_wildcard_range]. rewrite E. destruct j; [apply (G "<="%string b P eq_refl)|apply (G "<"%string b P eq_refl)].
    + contradiction.
  - apply String.eqb_neq. intros E. pose proof (printed_range_roundtrip m r H) as P. rewrite E in P.
    unfold parse_constraint_text in P. cbn in P. injection P as P. destruct r as [v|[a|] [b|] i j]; try discriminate P; contradiction.
Qed.

(* C15: the text of a union of versions, half-lines and bounded ranges (not printed as an exclusion) parses back to the same union *)
Theorem printed_union_roundtrip m (l : list rng) :
  (2 <= List.length l)%nat -> apart_all l = true -> Forall range_shape l ->
  vc_str (VUnion l) = Ok (sjoin " || "%string (map r_str l)) ->
  exists s, vc_str (VUnion l) = Ok s /\ parse_constraint_text m true s = Ok (VUnion l).
Proof.
  intros Hn Ha HF Hs. eexists. split; [exact Hs|].
  assert (Hany : existsb r_is_any l = false).
  { clear - HF. induction HF as [|r l Hr _ IH]; [reflexivity|]. cbn [existsb]. rewrite IH, orb_false_r.
    destruct r as [v|[a|] [b|] i j]; try reflexivity. contradiction. }
  rewrite <- (soa_or_join (map r_str l)) by (destruct l; [cbn in Hn; lia|discriminate]). rewrite map_map.
  apply union_text_roundtrip; try assumption.
  clear - HF. induction HF as [|r l Hr _ IH]; constructor; [apply member_ok, Hr|exact IH].
Qed.
Print Assumptions printed_union_roundtrip.
