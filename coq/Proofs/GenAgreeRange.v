(* The bound comparisons regenerated from /repo's version_range_constraint.py on every run equal the hand model used by
   the proofs of C05/C12/C15.  If the source changes meaning this file stops compiling: a broken proof obligation. *)
From Coq Require Import Bool.
From PC Require Import Model.Pep440 Model.VConstraint Gen.RangeCmp.

Lemma allowed_min_agrees r : allowed_min_gen r = rmin r.
Proof. reflexivity. Qed.
Lemma allowed_max_agrees r : allowed_max_gen r = allowed_max r.
Proof. unfold allowed_max_gen, allowed_max. destruct (rmax r); [|reflexivity]. destruct (imax r || is_unstable v); reflexivity. Qed.
Lemma is_strictly_lower_agrees a b : is_strictly_lower_gen a b = is_strictly_lower a b.
Proof. unfold is_strictly_lower_gen, is_strictly_lower, allowed_min_gen. cbv zeta. rewrite allowed_max_agrees. destruct (allowed_max a), (rmin b); reflexivity. Qed.
Lemma allows_lower_agrees a b : allows_lower_gen a b = allows_lower a b.
Proof. unfold allows_lower_gen, allows_lower, allowed_min_gen. cbv zeta. destruct (rmin a), (rmin b); reflexivity. Qed.
Lemma allows_higher_agrees a b : allows_higher_gen a b = allows_higher a b.
Proof. unfold allows_higher_gen, allows_higher. cbv zeta. rewrite (allowed_max_agrees a), (allowed_max_agrees b). destruct (allowed_max a), (allowed_max b); reflexivity. Qed.
Lemma is_strictly_higher_agrees a b : is_strictly_higher_gen a b = is_strictly_higher a b.
Proof. unfold is_strictly_higher_gen, is_strictly_higher. apply is_strictly_lower_agrees. Qed.
Lemma is_adjacent_to_agrees a b : is_adjacent_to_gen a b = is_adjacent_to a b.
Proof. reflexivity. Qed.
